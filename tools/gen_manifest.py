#!/usr/bin/env python3
"""Regenerates MANIFEST.json from the table below (kept here so the manifest is always valid)."""
import json, os
HERE = os.path.dirname(os.path.abspath(__file__))
VERIF = os.path.dirname(HERE)

TRUST = ("Lean 4.33 kernel; axioms limited to propext/Classical.choice/Quot.sound (audited by #print axioms each run); "
         "hand-written model tied to /repo by the differential correspondence check of each run; ")

EQUIV_PROPS = {"C01", "C03", "C04", "C05", "C06", "C07", "C08", "C09", "C13"}

CLAIMED = {
    "C20": dict(
        text="Lean theorems over the dispatcher model for every table / operation history (unique binding per class, "
             "dispatch calls exactly the bound handler or raises, the handler's own outcome - return or any exception - is what the caller "
             "sees, duplicates refused, unregister/register inverse); "
             "model tied to dispatch.py by differential op-sequence runs on the real server and client dispatchers; "
             "a monitor states the property on the real code to produce replays.",
        note=TRUST + "dir() order and annotation normalisation as mirrored by the model; handlers do not re-enter the dispatcher.",
        design="§8 C20", technique="Lean 4 proof (refinement to a finite map) + differential correspondence"),
}

CLAIMED["C08"] = dict(
    text="Lean theorems for ALL sequence values and offsets (ring image of integer addition, never 0, diff exact within "
         "half a ring, comparisons = order of absolute positions) and for EVERY insertion history and window width "
         "(BitField refines the set of accepted absolute positions: duplicate flag, contains, bits < 2^n), plus exactness "
         "of the (ack, ack_bits) predicate; tied to connection.py by differential runs on the real SeqNum/BitField/"
         "_handle_ack_bits (thorough: exhaustive 65535-value table) and monitors.",
    note=TRUST + "window theorems assume each inserted number within 32767 of the newest (the property's bound).",
    design="§8 C08", technique="Lean 4 proof (omega ring arithmetic, testBit refinement to a set) + differential correspondence + kernels regenerated from the source by a translator and proved equal to the model (Props/Equiv*.lean)")

CLAIMED["C17"] = dict(
    text="Lean theorems for EVERY root, file name and absolute cwd: path_join_safe returns ValueError or a normalised path that "
         "is the root or beneath it (C17_contained, C17_components, C17_every_name), the only error is ValueError, a leading "
         "separator or a '.'/'..' segment is refused; the model mirrors posixpath.join/normpath/abspath line by line and is tied "
         "to the real functions by differential runs (adversarial segment alphabet, unicode, router captures, several cwds).",
    note=TRUST + "POSIX semantics only (ntpath not modelled); containment is lexical (symlinks outside the property); "
         "os.getcwd() absolute; posix._path_normpath (C) is tied by the differential to the pure-Python reference the model follows.",
    design="§8 C17", technique="Lean 4 proof (normpath loop invariants, containment) + differential correspondence")

CLAIMED["C01"] = dict(
    text="Lean theorems about the model of _recv_datagram / Packet.from_bytes for EVERY datagram, header, state, AEAD and handshake "
         "role: a datagram that does not decode is a no-op but for stats.dropped; with a key, decoding requires exact length and a "
         "successful AEAD open of bytes 20.. with nonce = bytes 0..11 and AAD = bytes 0..19 (no packet type bypasses it); without a "
         "key only the single expected hello with valid CRC is processed. Model tied to connection.py by two-party differential "
         "histories with an attacker stream (forged plaintext of every type/count, bit flips, truncations, extensions, header "
         "rewrites, other-key ciphertext, random bytes) towards keyed and unkeyed endpoints; monitor compares full state snapshots. At the "
         "server loop (C01_loop_halfopen_untouched): a datagram that does not decode under the key of its address's half-open connection - "
         "a complete CRC-valid hello forged in the name of a connecting client included - does not replace, re-key or alter that connection; "
         "tied to server.py by recorded runs of the real loop with such forgeries (monitor halfopen-connection-replaced).",
    note=TRUST + "INT-CTXT of AES-GCM assumed outside Lean; the driver uses a toy MAC as AEAD instance (theorems quantify over any AEAD); "
         "history-level non-interference is the Lean theorem C01_history_noninterference (erasing any set of unauthentic arrivals from any history "
         "changes only stats.dropped), resting on the proved commutation of every model operation with the dropped counter.",
    design="§8 C01", technique="Lean 4 proof (per-step full-state equality) + differential correspondence with attacker stream + kernels regenerated from the source by a translator and proved equal to the model (Props/Equiv*.lean)")

CLAIMED["C19"] = dict(
    text="Lean theorems with scrypt and SHA-256 as ARBITRARY function parameters: every password verifies against its own hash "
         "(base64 round trip proved by 3-byte-group induction, format/parse inverse), another password verifies exactly when the "
         "digests are equal, different salts give different hash strings, and for EVERY pair of arguments verify_password returns "
         "ValueError/TypeError, False or True - True iff the string is a well-formed 4-field scrypt:1 record whose embedded digest "
         "equals the derived one (C19_malformed), every proper prefix of a genuine hash raises (C19_truncated). Model tied to auth.py "
         "by differential runs with the real scrypt (KDF answers recorded as oracle values; the model decides whether and with which "
         "parameters the KDF is consulted).",
    note=TRUST + "collision resistance / one-wayness of SHA-256+scrypt and os.urandom freshness assumed outside Lean; parameter sets heavier "
         "than the defaults excluded (MemoryError is host dependent); CPython's lenient a2b_base64 mirrored by the model.",
    design="§8 C19", technique="Lean 4 proof (codec inverses, total case analysis of verify) + differential correspondence")

CLAIMED["C16"] = dict(
    text="Lean theorems for EVERY pattern over the documented grammar (any number of segments, the ?/+/* parameter in any position) "
         "and every '/'-leading newline-free path: the regex patternToRegex builds matches iff the documented segment rule does "
         "(C16_regex_iff_spec[_string], C16_regex_iff_plain_rule), the captured values are the rule's bindings up to a stated "
         "normalisation, one trailing slash is tolerated, getRoute returns the first registered matching route of the method and "
         "dispatch answers 404 iff none matches. CPython's re is modelled for exactly the generated fragment (priority-ordered "
         "backtracking semantics) and tied by (i) exact regex text equality with the real Router and (ii) match/groups equality "
         "with re.match on the <=4 x <=5 segment product.",
    note=TRUST + "the re model is validated only by the differential; paths start with '/' and contain no newline; the rate limiter is a "
         "parameter assumed to admit; where the documentation is silent on empty segments the spec follows the repaired code "
         "(proved invisible on paths without '//').",
    design="§8 C16", technique="Lean 4 proof (regex semantics vs. segment spec, for all patterns and paths) + differential correspondence")

CLAIMED["C15"] = dict(
    text="Lean theorems for EVERY class table, class and well-typed instance over the annotated-shape grammar (basic types, enums, nested "
         "objects, one generic level of List/Set/Dict/Tuple with int/str/enum keys): fromJson(toJson(x)) = x and loads(dumps(x)) = x "
         "(through the model of json's key stringification, with parseInt(toDecimal n) = n for all n), toJson output is plain data "
         "json.dumps accepts; WellTyped is an explicit decidable predicate with necessity witnesses. Model tied to serializable.py by "
         "differential runs on classes generated on the fly with real typing generics.",
    note=TRUST + "floats are opaque tokens (JSON float text round trip observed, not proved); ASCII model of upper()/int(str); enum raw "
         "values are ints in the model; the class table is read from the live classes.",
    design="§8 C15", technique="Lean 4 proof (typed codec round trip by structural induction) + differential correspondence")

CLAIMED["C03"] = dict(
    text="Lean theorems: with a key every packet but SERVER_HELLO is emitted as header ++ seal(key, nonce=header[0:12], aad=header[0:20], "
         "payload) (C03_sealed_after_key), clear form only without a key or for SERVER_HELLO; the nonce determines (direction, second, "
         "seq, ack); for EVERY operation history of one endpoint (sends, builds, receptions, time-outs, disconnects in any order, any "
         "clock values) the emission log is a chain - next ring sequence number, at least send_interval later (emitLog_chain) - and "
         "therefore no two emissions share (seq, whole second) when 65535*send_interval >= 1 s (C03_nonce_never_repeats), across "
         "keep-alives, retransmissions and any number of wrap-arounds; client and server nonces differ in their first 4 bytes. "
         "Model tied to connection.py by differential runs comparing every emission's header bytes, type, sealed flag and lengths, "
         "including a soak that wraps the sequence number; every sealed datagram is opened with the real AES-GCM.",
    note=TRUST + "hypotheses: no _build_packet call raised (C09_build_total, monitored), clock values >= 0; confidentiality of AES-GCM "
         "assumed; 'an endpoint without a key only queues hellos' belongs to the handshake model (C02).",
    design="§8 C03", technique="Lean 4 proof (frame lemmas + chain invariant by induction over operation histories) + differential correspondence + kernels regenerated from the source by a translator and proved equal to the model (Props/Equiv*.lean)")

CLAIMED["C09"] = dict(
    text="Lean theorems: every in-range header encodes to 20 bytes that decode to the same fields (wrong side refused, out-of-range "
         "refused with struct.error); every packet of 0..255 in-range messages round-trips in CRC form and, for any AEAD that appends a "
         "16-byte tag and opens what it sealed, in encrypted form, with length/count describing the payload exactly; for EVERY state and "
         "queue content a built packet's payload is <= MAX_PAYLOAD_SIZE+2 with <= 255 messages, hence every datagram <= MTU-28 for every "
         "MTU >= 66; one build removes from the queue exactly what it packs (multiset conservation), packs everything that fits "
         "together, keeps the queue when idle, and Packet.create cannot raise. Model tied to connection.py by codec differentials on "
         "the real PacketHeader/Packet (boundary fields, 0..256 messages, mutated datagrams) and packing differentials with bursts of "
         "hundreds of tiny messages at MTU 512..1500.",
    note=TRUST + "the decoded header's isServer flag denotes the receiving side (as in the code); AES-GCM facts are explicit hypotheses; "
         "C09_build_total assumes message sequence numbers < 65536 and MTU <= 65535.",
    design="§8 C09", technique="Lean 4 proof (codec inverses, packing invariant, permutation conservation) + differential correspondence + kernels regenerated from the source by a translator and proved equal to the model (Props/Equiv*.lean)")

CLAIMED["C18"] = dict(
    text="Lean theorems: for every wire opcode, mask flag, key and payload (any length < 2^63) the library's frame bytes equal an "
         "independently written RFC 6455 5.2 encoder (C18_server_frames_rfc, C18_lib_frames_rfc, exact header bytes at 125/126/127/65535/"
         "65536), parsing an RFC frame returns the same frame with the payload unmasked (C18_parse_rfc, xor-mask involution by "
         "induction), and for EVERY list of client frames and EVERY way of cutting the byte stream into reads the handler delivers "
         "exactly those frames, once each, in order (C18_stream, C18_stream_prefix, C18_chunkings_agree). Model tied to http_server.py by "
         "differential runs on the real WebSocketFrame and, through Channel.dataReceived, on every/random chunkings.",
    note=TRUST + "the pseudo opcode Open (0xFF) lies outside the RFC statements; endpoint callback and request.write neither raise nor re-enter; "
         "CPython struct hand-modelled; HTTP upgrade not modelled.",
    design="§8 C18", technique="Lean 4 proof (codec vs. independent RFC spec, stream invariant over all chunkings) + differential correspondence")

CLAIMED["C04"] = dict(
    text="Lean theorems: a datagram whose position was already accepted is dropped whole - the full endpoint state is the old one with "
         "dropped+1 (C04_duplicate_dropped_whole); an accepted datagram is new and the window then represents old set + this position "
         "(C04_accepted_is_new); hence for EVERY history of one endpoint (receptions in any order with any duplication/replay, interleaved "
         "with any other operations) spanning less than half the ring no position is accepted twice (C04_datagram_at_most_once, by "
         "refinement of the real BitField to a set, C08). Messages: a duplicate inside the 256 window is ignored, delivery needs the "
         "window's acceptance, and at-most-once holds while copies arrive at most 256 numbers late (C04_message_once_partial); beyond "
         "that the model (and the code) re-deliver - C04_redelivery_witness. Two genuine defects are recorded as known findings "
         "(late retransmission beyond the window; re-sent fragments under new message numbers), each with a deterministic witness "
         "replayed on every run. Model tied to connection.py by two-party differentials under heavy duplication/delay/replay. At the "
         "handler (observe_at: EventHandler.handle_message): in the server-loop model the dispatch of the connected branch hands over every "
         "queued message exactly once and leaves the queue empty, and a datagram for a half-open or unknown address produces no message "
         "event (C04_loop_dispatch_once, C04_loop_dispatch_clears, C04_loop_halfopen_no_dispatch, C04_loop_connected_dispatch); tied by "
         "recorded runs of the real UdpServerThread.run with duplicates within and across iterations and a monitor that no connection "
         "object hands the same message number to handle_message twice.",
    note=TRUST + "the property's own half-ring bound; handshake handlers do not touch the datagram window; message-level statement is partial "
         "(see known_findings.json).",
    design="§8 C04", technique="Lean 4 proof (window-refines-set + Nodup invariant over operation histories) + differential correspondence + kernels regenerated from the source by a translator and proved equal to the model (Props/Equiv*.lean)")

CLAIMED["C06"] = dict(
    text="Lean theorems: for EVERY payload and every size configuration with a usable fragment size (every MTU >= 73) FragmentSender.build "
         "yields non-empty slices that each fit one datagram with their 6-byte prefix and whose concatenation is the payload, at most "
         "MAX_FRAGMENTS+1 of them up to the limit (C06_build_join); a payload <= MAX_PAYLOAD_SIZE queues exactly one APP message, one above "
         "the limit is refused with ValueError and nothing is queued; on the receiving side, for every state whose reassembly contexts "
         "are consistent with what the peer sent and every authentic fragment - any order, repetition, interleaving of ids, any expiry - "
         "the contexts stay consistent, nothing raises, and whatever is delivered is the concatenation of the fragments the peer produced "
         "(C06_fragment_step = no fabrication), and a context holding all indices is complete and joins to the payload. Model tied to "
         "connection.py by two-party differentials with several fragmented messages in flight under reorder/duplication/loss at MTU "
         "512..1500, comparing every delivery by length and CRC-32. History level: C06_fragments_history - for every sequence of authentic fragment arrivals (any order, repetition, interleaving, arrival times / expiry) no exception is raised and every reassembled delivery is the concatenation of the fragments produced for one send.",
    note=TRUST + "relative to one message per fragment id in the considered history (16-bit id space) and authentic fragments (C01).",
    design="§8 C06", technique="Lean 4 proof (split/join induction, slot-consistency invariant) + differential correspondence + kernels regenerated from the source by a translator and proved equal to the model (Props/Equiv*.lean)")

CLAIMED["C07"] = dict(
    text="Lean theorems, each for every state: a resolution removes exactly its entry from pending_acks, increments exactly one of "
         "acked/timeouts and is announced by exactly one resolved event (C07_resolve_accounting); _check_timeout resolves only with False "
         "and only pending datagrams, and afterwards nothing overdue is pending (C07_false_only_after_timeout, "
         "C07_timeout_resolves_all_due); a True resolution happens only for a datagram the received header names "
         "(C07_true_only_if_named) and a named datagram was accepted by the peer (C07_ack_names_accepted, via the window refinement of "
         "C08/C04); a RetrySender reports its first success once and is silent afterwards, a FragmentSender reports exactly when its last "
         "slot is resolved. At history level: C07_at_most_once - over every history (any network, any peer) the number of invocations "
         "of a callback is bounded by the number of sends that were given it (BEST_EFFORT excluded, as in the property); C07_conservation / "
         "C07_exactly_once / C07_held_until_invoked - without disconnect (typed queue proved, fresh datagram numbers assumed) holders + "
         "invocations are conserved, so a callback given to one accepted send is held until it is invoked and invoked exactly once when no "
         "longer held; that every holder is eventually released is per-sweep theorem + monitor on every differential run (two-party "
         "histories with long round trips, partial loss, stale and duplicated ack carriers).",
    note=TRUST + "InSync (peer's newest within half a ring); user callbacks do not re-enter; 'accepted' is read at endpoint level; "
         "at-most-once and conservation (exactly-once once released) over whole histories are Lean theorems (potential argument); eventual "
         "release of every holder is per-sweep theorem + monitor.",
    design="§8 C07", technique="Lean 4 proof (per-step bookkeeping theorems, ack-names-accepted composition) + differential correspondence + kernels regenerated from the source by a translator and proved equal to the model (Props/Equiv*.lean)")

CLAIMED["C05"] = dict(
    text="Lean theorems for the steps guaranteed delivery consists of, each for every state: a message of ANY size accepted by send fits a "
         "datagram by itself (C05_fits_alone, with the fragment split law of C06), the head of the outgoing queue is in the next datagram "
         "built (C05_head_is_sent), a time-out of a RETRY_ON_TIMEOUT message re-queues it under its original message number and an "
         "acknowledgement completes it once (C05_timeout_requeues, with C07), and what the peer's header names was accepted and is "
         "delivered or already delivered (C07/C08/C04). Eventual delivery itself is a liveness statement under a fair (healed) schedule: "
         "its composition is exercised on every run (size sweep around every fragmentation boundary at 8 MTUs x loss patterns, then a "
         "healed network; every guaranteed payload must be at the peer and the sender's queues empty) - partial as a theorem. The "
         "recorded finding (fragments are never re-sent individually while the receiver purges incomplete contexts) is a Lean witness "
         "(C05_fragment_expiry_witness) and a KNOWN-FINDING.",
    note=TRUST + "liveness is not one Lean theorem (partial); schedule fairness and keepAlive+2*delay < outgoingTimeout are assumptions of the "
         "argument; UdpClient / ServerClientConnection send_guaranteed entry points are checked on the real code only.",
    design="§8 C05", technique="Lean 4 proof (per-step progress lemmas, witness of the recorded defect) + differential correspondence with healed schedules + kernels regenerated from the source by a translator and proved equal to the model (Props/Equiv*.lean)")

CLAIMED["C12"] = dict(
    text="Lean theorems over the Conn/Handshake models plus a Client layer (UdpClient setters/connect/update as repaired, ServerContext, the "
         "server loop's new-connection and sweep code), for EVERY keep-alive, send interval, time-out, tick spacing and state: a due keep-alive "
         "is emitted (C12_keepalive_emits*); along every history whose build calls come at most tau apart while CONNECTED consecutive emissions "
         "are at most max(keepAlive, sendInterval)+tau apart (C12_keepalive_cadence*, typed-queue invariant proved); a receiver fed less than T "
         "apart never times out / never DROPS (C12_never_timed_out/_dropped) and, composed over a link with delay delta, an idle pair stays up "
         "when g+tau+delta<T (C12_idle_pair_stays_up); after the last accepted datagram the server sweep removes the connection exactly from "
         "last+connection_timeout on and the client sets DROPPED exactly at the first update later than 5 s (C12_dead_peer_detected_*); an "
         "unanswered connect ends DISCONNECTED at the first update after the configured time-out with the callback fired exactly once with "
         "False iff given (C12_connect_timeout*); every order of client setters/connect is error-free and the live connection carries the last "
         "value, ServerContext values are the ones new connections and sweeps use (C12_settings_effective, C12_server_settings_effective); "
         "UdpClient.update drains the socket and is a history at one clock value (C12_update_drains/_is_history). Tied to connection.py/"
         "client.py/context.py/server.py by differential runs (native Conn driver: idle/cut/unanswered-connect histories with boundary probes; "
         "C12 driver: setter orders on the real UdpClient, connections created and swept by the REAL UdpServerThread loop, update() on "
         "boundary states and with waiting datagrams) and a world monitor running the real UdpClient against the real server loop under a "
         "virtual clock.",
    note=TRUST + "non-dyadic defaults (.1 s, 1/60 s) are constructor parameters; the link in the composed theorem (in-order delivery within "
         "delta, genuine datagrams accepted) is a hypothesis, monitored on the real code; 'unanswered'/'silent' = no valid hello / no accepted "
         "datagram; thread scheduling outside the model; forged-hello interplay with the 5 s rule observed and recorded, outside the "
         "property's quantifier.",
    design="§8 C12", technique="Lean 4 proof (history invariants over an operation language with update() steps, frame lemmas, typed-queue "
         "invariant, list-gap arithmetic) + differential correspondence + real client/server world monitor")

CLAIMED["C02"] = dict(
    text="Lean theorems for EVERY instantiation of the external functions (hello decoding, ECDSA verify, ECDH+HKDF, signing): the client "
         "changes its session key or becomes CONNECTED only if the data decoded as a server hello whose signed payload verifies under "
         "the pinned key, and then key and token are those of that payload (C02_client_key_only_if_verified); an invalid signature "
         "gives DISCONNECTED with the key untouched, a decode failure leaves the state untouched (C02_bad_hello_no_key); the server "
         "calls _onConnect only while processing a datagram that AES-GCM opened under the connection's key and that carries a "
         "CHALLENGE_RESP with the token of the temp-pool entry (C02_promote_only_on_proof, for every datagram, state and message list); "
         "at the level of the server loop a connect event for an address is produced only while handling such a datagram from that very "
         "address against the session key and token of its half-open entry, and by nothing else in an iteration "
         "(C02_loop_connect_only_on_proof, C02_loop_connect_from_datagram); over every history of operations a server-side connection that "
         "holds a session key keeps exactly that key - no datagram, sealed client hellos included, re-keys it (C02_server_key_never_changes); "
         "under the explicit honest-party laws (signature verifies, ECDH agrees, encodings round-trip) both ends hold the same key and "
         "token, the client is CONNECTED and the server promotes exactly once (C02_honest_agree). Model tied to connection.py/context.py "
         "by recorded differentials of real three-way handshakes (real P-256/ECDSA/ECDH/AES-GCM) under 14 attack scripts, with an "
         "independent signature re-verification and token check in the monitor.",
    note=TRUST + "EUF-CMA/ECDH secrecy assumed outside Lean; hello decoding is a parameter (C14 covers its safety); crypto results enter the "
         "model as oracle values recorded from the real run (the model decides whether they are consulted), so a defect INSIDE verify/"
         "ecdh is visible only to the monitor; cases cannot be re-executed bit for bit (fresh keys, random signatures).",
    design="§8 C02", technique="Lean 4 proof (handler case analysis, event provenance through the receive path) + recorded differential correspondence")

CLAIMED["C13"] = dict(
    text="Lean theorems for EVERY value of the supported grammar (null, bool, int, float32 bit pattern, str, bytes, seq, map, set, registered "
         "objects and enums, nested arbitrarily) and every registry: decoding the encoding of an in-domain value followed by any further "
         "bytes yields the canonical value and leaves exactly those bytes (C13_decode_encode), hence concatenations decode one after "
         "another and encodings are prefix-free; the encoder's integer width is the one the decoder reads for every 64-bit integer with "
         "the four boundaries as exact-byte corollaries; values outside the domain are refused with Python's exception class and the "
         "encoder accepts everything inside it (non-vacuity); both custom handshake codecs round-trip. Model tied to serializable.py by "
         "differential runs on generated values/classes/enums (width boundaries, float specials as bit patterns, size limits, refusals).",
    note=TRUST + "InDomain is explicit and decidable (well typed + Python set/dict canonicalisation succeeds); enum members mixed with raw values of "
         "equal hash in one set/dict are outside it (late AttributeError at decode, counted by the monitor, see DESIGN).",
    design="§8 C13", technique="Lean 4 proof (mutual round-trip induction with fuel, canonicalisation) + differential correspondence + kernels regenerated from the source by a translator and proved equal to the model (Props/Equiv*.lean)")

CLAIMED["C14"] = dict(
    text="Lean theorems for EVERY byte string and registry: the decoder is total - a value or one of the enumerated ordinary exception "
         "classes, its fuel never runs out (C14_total); a successful result contains only built-in types and instances of registered "
         "classes and the rest is a suffix of the input (C14_ok_well_typed); an instrumented decoder's loop/allocation count is bounded by "
         "A*(input length + re-parsed bytes)+1 with A = 8 + largest field count (C14_cost_accounting), linear in the input alone for "
         "every decode the server performs on unauthenticated peers (C14_cost_server, C14_handshake_server); the fully general linear "
         "bound is proved under the stated hypothesis and shown false without it (nested attacker-signed server hellos re-parse their "
         "payload; bounded by the datagram size) - C14_cost_linear_partial. Model tied to serializable.py/connection.py by differential "
         "runs on random bytes, every truncation and bit flip of valid encodings incl. the handshake messages, crafted length fields, "
         "nesting bombs; hang alarm, time and tracemalloc bounds on the real code.",
    note=TRUST + "CPython's allocator and recursion limit are observed, not proved; crypto oracles raise only ordinary exceptions.",
    design="§8 C14", technique="Lean 4 proof (totality, typing and cost invariants of an instrumented decoder) + differential correspondence")

CLAIMED["C10"] = dict(
    text="Lean theorems about the model of ServerContext and of one iteration of UdpServerThread.run, for every pool content, datagram, "
         "handler behaviour and random stream: get_token - if it returns - yields a token not in use in either pool, non-zero, below 2^31 "
         "with bit 30 set (C10_tokens_distinct, C10_new_token_fresh); handling a queued datagram produces message events only for the "
         "entry of the connected pool at that address and with its identity, a connect event only when the temp-pool entry's "
         "_recv_datagram called _onConnect on a CHALLENGE_RESP-typed datagram (which by C02 opened under its key and carries its token), "
         "never a disconnect (C10_item_events); a connected client that is due when the sweep starts - closed by the handler or the peer, or "
         "silent for connection_timeout - is out of the pool and reported by the end of that iteration (C10_due_client_dropped), and an "
         "update handler that disconnects everybody ends the round in that iteration (C10_kick_ends_the_round); the shutdown sweep gives every connected client exactly one disconnect and ends with "
         "shutdown. Over WHOLE RUNS (any number of iterations, batches, handler behaviours, clocks, random streams, from an empty "
         "server; C10_lifecycle_whole_run, C10_lifecycle_with_shutdown, C10_connect_and_disconnect_once): the handler events read in order "
         "are legal - connect only for an identity never seen before, message/disconnect only for an identity between its connect and its "
         "disconnect, at most one connect and one disconnect per identity - and after shutdown no identity is left live; the same reading "
         "is checked by the monitor on the event log of the REAL loop on every run. The loop model is tied to server.py/context.py/twisted.py "
         "by executing the unmodified UdpServerThread.run deterministically on the harness thread against real client connections, "
         "comparing per iteration the ordered handler events with identities and tokens, the sends and both pools; a threaded smoke run "
         "checks that all handler events run on one thread.",
    note=TRUST + "thread identity is a runtime fact (observed, not proved); cases are "
         "recorded runs (real EC keys/signatures), not re-executable bit for bit.",
    design="§8 C10", technique="Lean 4 proof (whole-run lifecycle invariant over the pools, per-step event provenance, token freshness) + recorded differential of the real server loop")

CLAIMED["C11"] = dict(
    text="Lean theorems about the entry point and the loop model, for every datagram, pool content and handler behaviour: a block-listed ip is "
         "refused at the entry point before the header is even parsed (C11_blocklist_first); only datagrams whose 20 header bytes parse as "
         "a header addressed to the server are queued; handling a datagram from address A leaves the entries of every other address in "
         "both pools untouched (C11_isolation); strangers are ignored unless their header is typed CLIENT_HELLO and temp-pool addresses "
         "unless CHALLENGE_RESP; an unpromoted connection never emits keep-alives and the hello handler queues at most the one "
         "SERVER_HELLO. The loop model is a total function whose exception paths are explicit 'contained' branches. Tied to the real "
         "loop as in C10 with hostile streams (random bytes 0..2000, garbage bodies, truncated/complete strangers' hellos, block-listed "
         "sources, spoofed damaged/stale/re-typed copies of genuine datagrams) at MTU 512/1500; the monitor measures bytes in/out per "
         "unpromoted address, block-list silence and loop liveness. Whole runs: C11_update_every_iteration / C11_loop_never_stalls - every iteration reaches handler.update exactly once and n iterations deliver n update events, whatever was queued and whatever the handler does. No amplification by the handshake, for every MTU and padding (as repaired, 8599f81): the hello handler queues its one SERVER_HELLO only when that reply is not longer than the hello it answers (C11_hello_reply_once, C11_short_hello_not_answered) - both travel in the same CRC form with the same framing, so the datagram sent is never larger than the one received; and (as repaired, 30a6fe7) a connection that has a session key ignores every further hello, so it answers one hello in its life (C11_one_hello_per_connection, C11_hello_keeps_key); over whole runs, in bytes (C11_no_amplification): the bytes of all datagrams handed to the socket for an address that is not promoted in the run never exceed the bytes of the datagrams queued from it, for every batch, handler behaviour, clock, MTU, AEAD and handshake externals; an address none of whose datagrams is queued - every block-listed one - is sent nothing at all (C11_unqueued_address_gets_nothing); in datagrams (C11_unverified_budget) such an address is sent at most as many datagrams as it sent CLIENT_HELLO datagrams, each consisting of queued SERVER_HELLO messages only (C11_halfopen_sends_only_replies, C11_halfopen_receive); the same inequality is measured by the monitor on the real loop at MTU 1500, 512 and in the band 370..420, with peers that stack several hellos into one sealed datagram.",
    note=TRUST + "exceptions from C extensions / OS errors / CPU exhaustion outside; the byte inequality of no-amplification rests on DER sizes "
         "and C14's fixed hello size - measured on every run, not a Lean theorem (partial).",
    design="§8 C11", technique="Lean 4 proof (entry gating, frame/isolation of the pools, structural no-amplification) + recorded differential of the real server loop")

REASON_PENDING = "model and theorems for this property are not built yet in this revision (planned, see DESIGN.md §13); not claimed until its check exists"

def main():
    props = [json.loads(l)["id"] for l in open(os.path.join(VERIF, "properties.jsonl"))]
    checks = []
    for pid in props:
        if pid not in CLAIMED:
            continue
        c = CLAIMED[pid]
        checks.append({
            "property_id": pid,
            "quick_cmd": "./check %s --tier quick" % pid,
            "thorough_cmd": "./check %s --tier thorough" % pid,
            "evidence_file": "evidence/%s.json" % pid,
            "replay_cmd_template": "./check %s --replay {path}" % pid,
            "engine": "lean-proof+correspondence",
            "level_claimed": {"category": "proof", "text": c["text"], "design_ref": c["design"]},
            "level_note": c["note"] + (" Secondary tie: the integer kernels this property rests on are regenerated from the source of the "
                                       "tree under test by harness/translate.py on every run and proved equal to the model definitions "
                                       "(Props/Equiv*.lean); trusted there: the translator's statement/expression scheme, its table of variable "
                                       "types and its restatement of struct.pack." if pid in EQUIV_PROPS else ""),
            "technique": c["technique"],
        })
    na = [{"property_id": p, "reason": CLAIMED_NA.get(p, REASON_PENDING)} for p in props if p not in CLAIMED]
    man = {
        "version": 1,
        "setup_cmd": "cd lean && lake build",
        "hooks": {
            "guard": "MPGAMESERVER_VERIF",
            "enable": "no source hooks: the harness imports /repo's working tree in-process and monkeypatches clocks/sockets from outside; the variable is set by ./check but nothing in /repo reads it",
            "baseline_off_cmd": "cd /repo && /venv/bin/python -m pytest -ra -q -p no:cacheprovider --timeout=900 --continue-on-collection-errors",
            "source_commits": [],
            "add_only": True,
        },
        "engines": [{
            "name": "lean-proof+correspondence",
            "path": "check",
            "serves_properties": [c["property_id"] for c in checks],
            "kind_free_text": "Lean 4 theorems about hand-written executable models (lean/MpgsModel), audited with #print axioms; "
                              "Python harness (harness/) runs the real mpgameserver classes and the Lean driver on the same op lines and diffs; "
                              "property monitors on the real code search for concrete failing inputs",
        }],
        "checks": checks,
        "not_applicable": na,
        "notes": "fix: commits made to /repo are listed in known_findings.json (fixed entries); see DESIGN.md §9/§12.",
    }
    with open(os.path.join(VERIF, "MANIFEST.json"), "w") as f:
        json.dump(man, f, indent=1)
    print("MANIFEST.json: %d checks, %d not_applicable" % (len(checks), len(na)))

CLAIMED_NA = {}
if __name__ == "__main__":
    main()
