#!/usr/bin/env python3
"""
eval_seed.py <seed dir (patch.diff, demo.py, meta.json)> <name> <PROP> [more props to run]
 1. confirms the seeded change in a scratch worktree: test suite still passes, demo fails with / passes without it
 2. applies it to /repo, runs ./check <PROP> (quick), undoes it straight afterwards
 3. stores everything under /verif/seeded/<name>/ (patch.diff, demo.py, meta.json with what was run and seen)
"""
import json, os, shutil, subprocess, sys, time
src, name, props = sys.argv[1], sys.argv[2], sys.argv[3:]
VERIF = os.path.dirname(os.path.dirname(os.path.abspath(__file__)))
dst = os.path.join(VERIF, "seeded", name)
os.makedirs(dst, exist_ok=True)
for f in ("patch.diff", "demo.py", "meta.json"):
    if os.path.exists(os.path.join(src, f)) and os.path.abspath(src) != os.path.abspath(dst):
        shutil.copy(os.path.join(src, f), os.path.join(dst, f))
meta = json.load(open(os.path.join(dst, "meta.json"))) if os.path.exists(os.path.join(dst, "meta.json")) else {}
wt = "/tmp/evalseed_wt_%d" % os.getpid()
subprocess.run(["git", "-C", "/repo", "worktree", "remove", "--force", wt], capture_output=True)
subprocess.run(["git", "-C", "/repo", "worktree", "add", "-q", "--detach", wt, "HEAD"], check=True)
def sh(cmd, cwd=None, timeout=1800):
    p = subprocess.run(cmd, cwd=cwd, capture_output=True, text=True, timeout=timeout)
    return p.returncode, (p.stdout + p.stderr)
res = {}
try:
    rc, out = sh(["git", "apply", os.path.join(dst, "patch.diff")], cwd=wt)
    res["applies"] = rc == 0
    rc, out = sh(["/venv/bin/python", "-m", "pytest", "-q", "-p", "no:cacheprovider", "--timeout=900"], cwd=wt)
    res["tests_with_change"] = out.strip().split("\n")[-1]
    res["tests_pass"] = rc == 0
    rc, out = sh(["/venv/bin/python", os.path.join(dst, "demo.py"), wt], timeout=300)
    res["demo_with_change"] = (rc, out.strip()[-300:])
    sh(["git", "checkout", "--", "."], cwd=wt)
    rc2, out2 = sh(["/venv/bin/python", os.path.join(dst, "demo.py"), wt], timeout=300)
    res["demo_without_change"] = (rc2, out2.strip()[-200:])
    res["confirmed"] = bool(res["applies"] and res["tests_pass"] and rc != 0 and rc2 == 0)
finally:
    subprocess.run(["git", "-C", "/repo", "worktree", "remove", "--force", wt], capture_output=True)
checks = {}
SCRATCH = os.environ.get("EVAL_SCRATCH") == "1"     # run the checks against a patched scratch worktree (VERIF_REPO) instead of /repo
if res.get("confirmed"):
    if SCRATCH:
        swt = "/tmp/evalseed_apply_%d" % os.getpid()
        subprocess.run(["git", "-C", "/repo", "worktree", "add", "-q", "--detach", swt, "HEAD"], check=True)
        subprocess.run(["git", "-C", swt, "apply", os.path.join(dst, "patch.diff")], check=True)
        os.environ["VERIF_REPO"] = swt
    else:
        assert subprocess.run(["git", "-C", "/repo", "status", "--porcelain"], capture_output=True, text=True).stdout.strip() == "", "/repo not clean"
        subprocess.run(["git", "-C", "/repo", "apply", os.path.join(dst, "patch.diff")], check=True)
    try:
        for p in props:
            t0 = time.time()
            rc, out = sh([os.path.join(VERIF, "check"), p, "--tier", "quick"], cwd=VERIF, timeout=2400)
            lines = [l for l in out.split("\n") if l.startswith(("VIOLATION", "KNOWN-FINDING", p + " "))]
            kind = None
            for l in lines:
                if l.startswith("VIOLATION") and "replay=" in l:
                    try:
                        rp = json.load(open(os.path.join(VERIF, l.split("replay=")[1].split()[0])))
                        kind = rp.get("kind") or rp.get("type")
                        what = (rp.get("what") or "")[:200]
                    except Exception:
                        what = ""
                    break
            checks[p] = {"exit": rc, "lines": [l[:200] for l in lines][:6], "first_replay_kind": kind, "secs": round(time.time() - t0, 1)}
    finally:
        if SCRATCH:
            subprocess.run(["git", "-C", "/repo", "worktree", "remove", "--force", swt], capture_output=True)
        else:
            subprocess.run(["git", "-C", "/repo", "checkout", "--", "."], check=True)
# the checks regenerate lean/MpgsModel/Generated/Kernels.lean from the tree they ran against: put the unchanged tree's version back
subprocess.run(["/venv/bin/python", os.path.join(VERIF, "harness", "translate.py")], env={k: v for k, v in os.environ.items() if k != "VERIF_REPO"},
               capture_output=True)
meta.update({"confirmation": res, "checks_against_it": checks,
             "ran": "tools/eval_seed.py: scratch worktree (apply, pytest, demo with/without), then git -C /repo apply, ./check <prop> --tier quick, git -C /repo checkout -- ."})
json.dump(meta, open(os.path.join(dst, "meta.json"), "w"), indent=1)
print(name, "confirmed" if res.get("confirmed") else "NOT CONFIRMED", {p: (c["exit"], c["first_replay_kind"]) for p, c in checks.items()})
if not res.get("confirmed"):
    print(json.dumps(res, indent=1)[:1500])
