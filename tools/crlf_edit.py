#!/usr/bin/env python3
"""crlf_edit.py FILE  (reads JSON [[old,new],...] from stdin) - exact replacement preserving CRLF"""
import json, sys
p = sys.argv[1]
data = open(p, 'rb').read()
crlf = b'\r\n' in data
for old, new in json.load(sys.stdin):
    o = old.encode(); n = new.encode()
    if crlf:
        o = o.replace(b'\r\n', b'\n').replace(b'\n', b'\r\n')
        n = n.replace(b'\r\n', b'\n').replace(b'\n', b'\r\n')
    c = data.count(o)
    if c != 1:
        sys.exit("pattern occurs %d times: %r" % (c, old[:60]))
    data = data.replace(o, n)
open(p, 'wb').write(data)
