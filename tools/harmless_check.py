#!/usr/bin/env python3
"""
harmless_check.py - behaviour-preserving rewrites of the translated kernels must not raise an alarm.

Makes a scratch worktree of /repo (outside /repo and /verif, removed afterwards), applies a fixed set of rewrites that keep the
behaviour of connection.py (comparison forms, operand order, `elif` -> `if` after a `return`, `-x` -> `0 - x`), runs the 89 tests
there, then runs the quick checks that carry a regenerated-kernel tie (C04 C07 C08 C09) against it through VERIF_REPO and reports
whether any of them printed a VIOLATION line.  Exit 0 = no alarm.  Regenerates lean/MpgsModel/Generated from /repo at the end.
Not part of MANIFEST.json (it checks the machinery, not a property); results are quoted in DESIGN 12.1 / 15.4.
"""
import os, subprocess, sys
VERIF = os.path.dirname(os.path.dirname(os.path.abspath(__file__)))
WT = "/tmp/harmless_wt_%d" % os.getpid()
REWRITES = [
    (b"if diff == 0 or (1 <= diff <= 32 and (hdr.ack_bits&(0x80000000>>(diff-1)))):",
     b"if diff == 0 or (0 < diff < 33 and (hdr.ack_bits & (0x80000000 >> (diff - 1))) != 0):"),
    (b"        # while allowing for 0 to be a valid initial sequence number\r\n        if result < 1:",
     b"        # while allowing for 0 to be a valid initial sequence number\r\n        if result <= 0:"),
    (b"            n = -diff\r\n", b"            n = 0 - diff\r\n"),
    (b"        elif result < -self._threshold:", b"        elif -result > self._threshold:"),
    (b"        elif n == 1:\r\n            return 2\r\n\r\n        return 5 * n", b"        if n == 1:\r\n            return 2\r\n\r\n        return n * 5"),
    (b"        if Packet.MAX_PAYLOAD_SIZE < 1024 + Packet.FRAGMENT_OVERHEAD:", b"        if 1024 + Packet.FRAGMENT_OVERHEAD > Packet.MAX_PAYLOAD_SIZE:"),
    (b"        if a > 0x7FFFFFFF:", b"        if 0x7FFFFFFF < a:"),
]


def sh(cmd, **kw):
    return subprocess.run(cmd, capture_output=True, text=True, **kw)


def main():
    props = sys.argv[1:] or ["C04", "C07", "C08", "C09", "C13"]
    sh(["git", "-C", "/repo", "worktree", "remove", "--force", WT])
    subprocess.run(["git", "-C", "/repo", "worktree", "add", "-q", "--detach", WT, "HEAD"], check=True)
    rc = 0
    try:
        for f in ("mpgameserver/connection.py", "mpgameserver/serializable.py"):
            p = os.path.join(WT, f)
            d = open(p, "rb").read()
            for a, b in REWRITES:
                if d.count(a) == 1:
                    d = d.replace(a, b)
            open(p, "wb").write(d)
        print(sh(["git", "-C", WT, "diff", "--stat"]).stdout.strip())
        t = sh(["/venv/bin/python", "-m", "pytest", "-q", "-p", "no:cacheprovider", "--timeout=900"], cwd=WT)
        print("tests:", t.stdout.strip().split("\n")[-1])
        if t.returncode != 0:
            print("the rewritten tree does not pass the tests - not a harmless rewrite")
            return 2
        env = dict(os.environ, VERIF_REPO=WT)
        for p in props:
            r = sh([os.path.join(VERIF, "check"), p, "--tier", "quick"], cwd=VERIF, env=env, timeout=1800)
            viol = [l for l in r.stdout.split("\n") if l.startswith("VIOLATION")]
            print(p, "exit", r.returncode, viol[:2] or "no alarm", "|", r.stdout.strip().split("\n")[-1][:140])
            if r.returncode != 0 or viol:
                rc = 1
    finally:
        sh(["git", "-C", "/repo", "worktree", "remove", "--force", WT])
        sh(["/venv/bin/python", os.path.join(VERIF, "harness", "translate.py")], env={k: v for k, v in os.environ.items() if k != "VERIF_REPO"})
    return rc


if __name__ == "__main__":
    sys.exit(main())
