#!/usr/bin/env python3
"""seed_table.py <suffix...>: markdown rows (seed | file | change | needs | reported by) for seeded/<Cxx>-<suffix>/meta.json"""
import glob, json, os, sys
VERIF = os.path.dirname(os.path.dirname(os.path.abspath(__file__)))
for suf in sys.argv[1:]:
    for m in sorted(glob.glob(os.path.join(VERIF, "seeded", "C??-%s" % suf, "meta.json"))):
        d = json.load(open(m))
        name = os.path.basename(os.path.dirname(m))
        rep = "; ".join("%s: `%s`" % (p, c.get("first_replay_kind")) if c.get("exit") == 1 else "%s: not reported" % p
                        for p, c in (d.get("checks_against_it") or {}).items())
        clip = lambda s, n: (s[:n] + " …") if len(s) > n else s
        print("| %s | %s | %s | %s | %s |" % (name, ", ".join(os.path.basename(f) for f in d.get("files", [])),
                                             clip(d.get("summary", "").replace("\n", " ").replace("|", "/"), 230),
                                             clip(d.get("needs", "").replace("\n", " ").replace("|", "/"), 200), rep))
