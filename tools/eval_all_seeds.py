#!/usr/bin/env python3
"""Re-runs every kept seeded change against the current machinery: applies seeded/<name>/patch.diff to /repo, runs the quick check of
the property the seed was written for (plus any other property recorded in its meta.json), undoes it, and writes seeded/RESULTS.json.
Nothing else may use /repo while this runs."""
import json, os, subprocess, sys, time
VERIF = os.path.dirname(os.path.dirname(os.path.abspath(__file__)))
names = sorted(d for d in os.listdir(os.path.join(VERIF, "seeded")) if os.path.isfile(os.path.join(VERIF, "seeded", d, "patch.diff")))
only = sys.argv[1:]
res = {}
for n in names:
    if only and n not in only:
        continue
    meta = json.load(open(os.path.join(VERIF, "seeded", n, "meta.json")))
    props = [n.split("-")[0]] + [p for p in meta.get("checks_against_it", {}) if p != n.split("-")[0]]
    scratch = os.environ.get("EVAL_SCRATCH") == "1"          # patched scratch worktree + VERIF_REPO instead of /repo itself
    env = dict(os.environ)
    if scratch:
        swt = "/tmp/evalall_%d" % os.getpid()
        subprocess.run(["git", "-C", "/repo", "worktree", "remove", "--force", swt], capture_output=True)
        subprocess.run(["git", "-C", "/repo", "worktree", "add", "-q", "--detach", swt, "HEAD"], check=True)
        subprocess.run(["git", "-C", swt, "apply", os.path.join(VERIF, "seeded", n, "patch.diff")], check=True)
        env["VERIF_REPO"] = swt
    else:
        assert subprocess.run(["git", "-C", "/repo", "status", "--porcelain"], capture_output=True, text=True).stdout.strip() == "", "/repo not clean"
        subprocess.run(["git", "-C", "/repo", "apply", os.path.join(VERIF, "seeded", n, "patch.diff")], check=True)
    out = {}
    try:
        for p in props:
            t0 = time.time()
            r = subprocess.run([os.path.join(VERIF, "check"), p, "--tier", "quick"], cwd=VERIF, capture_output=True, text=True, timeout=2400, env=env)
            kind = None
            for l in (r.stdout + r.stderr).split("\n"):
                if l.startswith("VIOLATION") and "replay=" in l:
                    try:
                        rp = json.load(open(os.path.join(VERIF, l.split("replay=")[1].split()[0])))
                        kind = rp.get("kind") or rp.get("type")
                    except Exception:
                        kind = "?"
                    break
            out[p] = {"exit": r.returncode, "first_replay_kind": kind, "secs": round(time.time() - t0, 1)}
    finally:
        if scratch:
            subprocess.run(["git", "-C", "/repo", "worktree", "remove", "--force", swt], capture_output=True)
        else:
            subprocess.run(["git", "-C", "/repo", "checkout", "--", "."], check=True)
    res[n] = out
    print(n, {k: (v["exit"], v["first_replay_kind"]) for k, v in out.items()}, flush=True)
rpath = os.path.join(VERIF, "seeded", "RESULTS.json")
allres = res
if only and os.path.exists(rpath):
    # a partial re-run (after a check was strengthened) replaces the entries of the seeds it ran
    allres = json.load(open(rpath)).get("results", {})
    allres.update(res)
json.dump({"when": time.strftime("%Y-%m-%d %H:%M:%S"), "repo_head": subprocess.run(["git", "-C", "/repo", "rev-parse", "--short", "HEAD"], capture_output=True, text=True).stdout.strip(),
           "verif_seed": os.environ.get("VERIF_SEED", "0"), "results": allres}, open(rpath, "w"), indent=1)
missed = [n for n, o in res.items() if not json.load(open(os.path.join(VERIF, "seeded", n, "meta.json"))).get("superseded") and ( o[n.split("-")[0]]["exit"] != 1 or not o[n.split("-")[0]]["first_replay_kind"] or "no-failing" in str(o[n.split("-")[0]]["first_replay_kind"]))]
print("seeds:", len(res), "not reported with a failing input by their own property's check:", missed)
