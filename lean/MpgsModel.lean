-- Root of the `MpgsModel` library: models, lemmas and property theorems.
import MpgsModel.Model.Dispatch
import MpgsModel.Model.DriverUtil
import MpgsModel.Lemmas.Dispatch
import MpgsModel.Props.C20
