import MpgsModel.Model.Json
import MpgsModel.Model.DriverUtil
/-!
Line-protocol driver for the typed-JSON model.  `lake env lean --run Driver/C15.lean`

Token encoding (space separated, prefix notation; strings are the hex of their UTF-8, `-` = empty)
  BTy   i f s b e<hex> o<hex>
  Ty    <BTy> | L <BTy> | Z <BTy> | D <BTy> <BTy> | T <n> <BTy>*
  atom  N | B0 | B1 | I<dec> | F<16 hex digits> | S<hex>
  Val   atom | E<hex>:<dec> | O<hex> <n> Val* | L <n> Val* | Z <n> Val* | T <n> Val* | D <n> (Val Val)*
  Json  atom | A <n> Json* | M <n> (atom Json)*
Lines
  enum <hex> <n> (<hex> <dec>)*              class <hex> <n> (<hex> <style> Ty Val)*
  (<style> = how the class body spells the default: v value, d Default sentinel, n None; the model
   only uses Val = what `cls()` holds)
  wt <hexclass> Val        tojson Val        dumpsloads Val
  fromto <hexclass> Val    loadsdumps <hexclass> Val
  fromjson <hexclass> Json loads <hexclass> Json
-/
open Mpgs Mpgs.Json Mpgs.Util

abbrev Toks := List String

def hexToStr (h : String) : Option Str := do
  let bs ← fromHex h
  let s ← String.fromUTF8? (ByteArray.mk bs.toArray)
  pure s.toList

def strToHex (s : Str) : String := toHexD (String.ofList s).toUTF8.toList

def hexNat (s : String) : Option Nat :=
  s.toList.foldl (fun acc c => do let a ← acc; let d ← hexVal c; pure (a * 16 + d)) (some 0)

def natHex16 (n : Nat) : String :=
  String.ofList ((List.range 16).reverse.map (fun i => hexDigit ((n / 16 ^ i) % 16)))

def pBTy (t : String) : Option BTy :=
  match t.toList with
  | ['i'] => some .int
  | ['f'] => some .float
  | ['s'] => some .str
  | ['b'] => some .bool
  | 'e' :: r => (hexToStr (String.ofList r)).map .enum
  | 'o' :: r => (hexToStr (String.ofList r)).map .obj
  | _ => none

partial def pN {α : Type} (p : Toks → Option (α × Toks)) : Nat → Toks → Option (List α × Toks)
  | 0, ts => some ([], ts)
  | n + 1, ts => do
    let (a, ts) ← p ts
    let (as, ts) ← pN p n ts
    pure (a :: as, ts)

def pBTyT : Toks → Option (BTy × Toks)
  | t :: ts => (pBTy t).map (fun b => (b, ts))
  | [] => none

def pTy : Toks → Option (Ty × Toks)
  | "L" :: t :: ts => (pBTy t).map (fun b => (.list b, ts))
  | "Z" :: t :: ts => (pBTy t).map (fun b => (.set b, ts))
  | "D" :: k :: v :: ts => do pure (.dict (← pBTy k) (← pBTy v), ts)
  | "T" :: n :: ts => do
    let (bs, ts) ← pN pBTyT (← n.toNat?) ts
    pure (.tuple bs, ts)
  | t :: ts => (pBTy t).map (fun b => (.basic b, ts))
  | [] => none

def pAtom (t : String) : Option Atom :=
  match t.toList with
  | ['N'] => some .none
  | ['B', '0'] => some (.bool false)
  | ['B', '1'] => some (.bool true)
  | 'I' :: r => (parseInt (String.ofList r)).map .int
  | 'F' :: r => (hexNat (String.ofList r)).map .float
  | 'S' :: r => (hexToStr (String.ofList r)).map .str
  | _ => none

partial def pVal : Toks → Option (Val × Toks)
  | [] => none
  | "L" :: n :: ts => do let (xs, ts) ← pN pVal (← n.toNat?) ts; pure (.list xs, ts)
  | "Z" :: n :: ts => do let (xs, ts) ← pN pVal (← n.toNat?) ts; pure (.set xs, ts)
  | "T" :: n :: ts => do let (xs, ts) ← pN pVal (← n.toNat?) ts; pure (.tuple xs, ts)
  | "D" :: n :: ts => do
    let (xs, ts) ← pN (fun ts => do
      let (k, ts) ← pVal ts
      let (v, ts) ← pVal ts
      pure ((k, v), ts)) (← n.toNat?) ts
    pure (.dict xs, ts)
  | t :: ts =>
    match t.toList with
    | 'O' :: r => do
      let c ← hexToStr (String.ofList r)
      match ts with
      | n :: ts => do let (xs, ts) ← pN pVal (← n.toNat?) ts; pure (.obj c xs, ts)
      | [] => none
    | 'E' :: r =>
      match (String.ofList r).splitOn ":" with
      | [h, d] => do pure (.enum (← hexToStr h) (← parseInt d), ts)
      | _ => none
    | _ => (pAtom t).map (fun a => (.atom a, ts))

partial def pJson : Toks → Option (JsonVal × Toks)
  | [] => none
  | "A" :: n :: ts => do let (xs, ts) ← pN pJson (← n.toNat?) ts; pure (.arr xs, ts)
  | "M" :: n :: ts => do
    let (xs, ts) ← pN (fun ts => match ts with
      | k :: ts => do
        let a ← pAtom k
        let (v, ts) ← pJson ts
        pure ((a, v), ts)
      | [] => none) (← n.toNat?) ts
    pure (.obj xs, ts)
  | t :: ts => (pAtom t).map (fun a => (.atom a, ts))

def showAtom : Atom → String
  | .none => "N"
  | .bool b => if b then "B1" else "B0"
  | .int n => "I" ++ toString n
  | .float t => "F" ++ natHex16 t
  | .str s => "S" ++ strToHex s

def insertSorted (x : String) : List String → List String
  | [] => [x]
  | y :: ys => if x < y then x :: y :: ys else y :: insertSorted x ys

def joinN (tag : String) (xs : List String) : String :=
  " ".intercalate (tag :: toString xs.length :: xs)

partial def showVal : Val → String
  | .atom a => showAtom a
  | .enum e v => "E" ++ strToHex e ++ ":" ++ toString v
  | .obj c vs => joinN ("O" ++ strToHex c) (vs.map showVal)
  | .list xs => joinN "L" (xs.map showVal)
  | .set xs => joinN "Z" ((xs.map showVal).foldr insertSorted [])
  | .tuple xs => joinN "T" (xs.map showVal)
  | .dict kvs => " ".intercalate ("D" :: toString kvs.length :: kvs.map (fun kv => showVal kv.1 ++ " " ++ showVal kv.2))

partial def showJson : JsonVal → String
  | .atom a => showAtom a
  | .arr xs => joinN "A" (xs.map showJson)
  | .obj kvs => " ".intercalate ("M" :: toString kvs.length :: kvs.map (fun kv => showAtom kv.1 ++ " " ++ showJson kv.2))

def showErr : Err → String
  | .typeError => "err:TypeError"
  | .valueError => "err:ValueError"
  | .keyError => "err:KeyError"
  | .attributeError => "err:AttributeError"
  | .unmodelled => "err:unmodelled"

def showRV : Except Err Val → String
  | .ok v => "ok " ++ showVal v
  | .error e => showErr e

def showRJ : Except Err JsonVal → String
  | .ok v => "ok " ++ showJson v
  | .error e => showErr e

def pMembers : Nat → Toks → Option (List (Str × Int))
  | 0, [] => some []
  | n + 1, h :: d :: ts => do
    let m ← hexToStr h
    let v ← parseInt d
    let r ← pMembers n ts
    pure ((m, v) :: r)
  | _, _ => none

def pField : Toks → Option (Field × Toks)
  | h :: _style :: ts => do
    let n ← hexToStr h
    let (ty, ts) ← pTy ts
    let (d, ts) ← pVal ts
    pure (⟨n, ty, d⟩, ts)
  | _ => none

def whole {α : Type} (r : Option (α × Toks)) : Option α :=
  match r with
  | some (a, []) => some a
  | _ => none

def stepLine (tbl : Table) (line : String) : Table × List String :=
  match words line with
  | ["case", cid] => (⟨[], []⟩, ["#case " ++ cid])
  | ["end"] => (tbl, [])
  | [] => (tbl, [])
  | "enum" :: h :: n :: ts =>
    match (do let e ← hexToStr h; let ms ← pMembers (← n.toNat?) ts; pure (e, ms)) with
    | some em => ({ tbl with enums := tbl.enums ++ [em] }, [])
    | none => (tbl, ["bad-op"])
  | "class" :: h :: n :: ts =>
    match (do let c ← hexToStr h; let fs ← whole (pN pField (← n.toNat?) ts); pure (c, fs)) with
    | some cf => ({ tbl with classes := tbl.classes ++ [cf] }, [])
    | none => (tbl, ["bad-op"])
  | "wt" :: h :: ts =>
    match (do pure (← hexToStr h, ← whole (pVal ts))) with
    | some (c, x) => (tbl, ["wt " ++ toString (wellTyped tbl c x)])
    | none => (tbl, ["bad-op"])
  | "tojson" :: ts =>
    match whole (pVal ts) with
    | some x => (tbl, [showRJ (toJson tbl x)])
    | none => (tbl, ["bad-op"])
  | "dumpsloads" :: ts =>
    match whole (pVal ts) with
    | some x => (tbl, [showRJ (dumpsLoads tbl x)])
    | none => (tbl, ["bad-op"])
  | "fromto" :: h :: ts =>
    match (do pure (← hexToStr h, ← whole (pVal ts))) with
    | some (c, x) => (tbl, [showRV (fromTo tbl c x)])
    | none => (tbl, ["bad-op"])
  | "loadsdumps" :: h :: ts =>
    match (do pure (← hexToStr h, ← whole (pVal ts))) with
    | some (c, x) => (tbl, [showRV (loadsDumps tbl c x)])
    | none => (tbl, ["bad-op"])
  | "fromjson" :: h :: ts =>
    match (do pure (← hexToStr h, ← whole (pJson ts))) with
    | some (c, j) => (tbl, [showRV (fromJson tbl c j)])
    | none => (tbl, ["bad-op"])
  | "loads" :: h :: ts =>
    match (do pure (← hexToStr h, ← whole (pJson ts))) with
    | some (c, j) =>
      (tbl, [showRV (match stringifyKeys j with | .ok j' => fromJson tbl c j' | .error e => .error e)])
    | none => (tbl, ["bad-op"])
  | _ => (tbl, ["bad-op"])

def main : IO Unit := runLoop (⟨[], []⟩ : Table) stepLine
