import MpgsModel.Model.Auth
import MpgsModel.Model.DriverUtil
/-! Line-protocol driver for the Auth model.  `lake env lean --run Driver/C19.lean`

ops (one output line each):
  hash   P=<arg> salt=<hex> sha=<hex> kq=<query|none> kv=<hex>
  verify P=<arg> H=<arg>    sha=<hex> kq=<query|none> kv=<hex>
<arg>   = b:<hex>  (bytes)  |  s:<cp.cp.cp>  (str as hex code points, `-` if empty)  |  o  (other type)
<query> = N,r,p,len,<salt hex>,<km hex>      what the REAL run asked scrypt, kv = what scrypt answered
`sha` is SHA-256 of the password bytes.  Both are *oracle tables with one row*: the model's `kdf`
answers `kv` only when it is asked exactly the recorded question (otherwise a poison value), the
model's `sha` answers only for the password of this line.  Whether and with what the KDF is
consulted is decided by the model and printed (`q=`).
-/
open Mpgs Mpgs.Auth Mpgs.Util

def poison : Bytes := [0xBA, 0xD0, 0x0A, 0xC1, 0xE0]

def parseCps (s : String) : Option PyStr :=
  if s == "-" then some [] else
  (s.splitOn ".").mapM (fun w => do
    let bs ← fromHexChars (let cs := w.toList; if cs.length % 2 == 1 then '0' :: cs else cs)
    let n := bs.foldl (fun acc b => acc * 256 + b.toNat) 0
    if h : n < 0x110000 then some (⟨n, h⟩ : CodePoint) else none)

def parseArg (s : String) : Option PyArg :=
  if s.startsWith "o" then some .other
  else if s.startsWith "b:" then (fromHex (s.drop 2).toString).map .bytes
  else if s.startsWith "s:" then (parseCps (s.drop 2).toString).map .str
  else none

structure KQ where
  N : Nat
  r : Nat
  p : Nat
  len : Nat
  salt : Bytes
  km : Bytes

def parseKq (s : String) : Option (Option KQ) :=
  if s == "none" then some none else
  match s.splitOn "," with
  | [n, r, p, l, salt, km] => do
    let n ← n.toNat?; let r ← r.toNat?; let p ← p.toNat?; let l ← l.toNat?
    let salt ← fromHex salt; let km ← fromHex km
    pure (some ⟨n, r, p, l, salt, km⟩)
  | _ => none

def mkKdf (kq : Option KQ) (kv : Bytes) : Kdf := fun N r p len salt km =>
  match kq with
  | some k => if N = k.N ∧ r = k.r ∧ p = k.p ∧ len = k.len ∧ salt = k.salt ∧ km = k.km then kv else poison
  | none => poison

def mkSha (pw : PyArg) (v : Bytes) : Bytes → Bytes := fun x =>
  match pw with
  | .bytes b => if x = b then v else poison
  | _ => poison

def errName : Err → String
  | .typeError => "TypeError"
  | .valueError => "ValueError"
  | .binasciiError => "binascii.Error"
  | .unicodeEncodeError => "UnicodeEncodeError"
  | .unicodeDecodeError => "UnicodeDecodeError"
  | .structError => "struct.error"
  | .invalidKey => "InvalidKey"
  | .indexError => "IndexError"

def showStr (s : PyStr) : String := String.ofList (s.map (fun c => Char.ofNat c.val))

def field (pre : String) (w : String) : Option String :=
  if w.startsWith pre then some (w.drop pre.length).toString else none

def showQuery (q : Query) : String :=
  s!"q={q.N},{q.r},{q.p},{q.len},{toHexD q.salt},{toHexD q.km},{toHexD q.expected}"

def doHash (p salt sha kq kv : String) : Option String := do
  let pw ← (field "P=" p).bind parseArg
  let salt ← (field "salt=" salt).bind fromHex
  let shav ← (field "sha=" sha).bind fromHex
  let kq ← (field "kq=" kq).bind parseKq
  let kv ← (field "kv=" kv).bind fromHex
  match hashPassword (mkKdf kq kv) (mkSha pw shav) salt pw with
  | .ok h => pure ("ok " ++ showStr h)
  | .error e => pure ("err:" ++ errName e)

def doVerify (p h sha kq kv : String) : Option String := do
  let pw ← (field "P=" p).bind parseArg
  let ha ← (field "H=" h).bind parseArg
  let shav ← (field "sha=" sha).bind fromHex
  let kq ← (field "kq=" kq).bind parseKq
  let kv ← (field "kv=" kv).bind fromHex
  let shaF := mkSha pw shav
  let res := match verifyPassword (mkKdf kq kv) shaF pw ha with
    | .ok true => "True"
    | .ok false => "False"
    | .error e => "err:" ++ errName e
  let q := match verifyPrepare shaF pw ha with
    | .ok q => showQuery q
    | .error _ => "q=none"
  pure (res ++ " " ++ q)

/-! library-level ops: the hand-written models of base64 / utf-8 / split / struct / Scrypt.__init__
against the real library functions -/

def showExceptBytes : Except Err Bytes → String
  | .ok b => "ok " ++ toHexD b
  | .error e => "err:" ++ errName e

def doLib (op arg : String) : Option String :=
  match op with
  | "b64d" => do let b ← fromHex arg; pure (showExceptBytes (b64decode b))
  | "b64e" => do let b ← fromHex arg; pure ("ok " ++ toHexD (b64encode b))
  | "utf8" => do let s ← parseCps arg; pure (showExceptBytes (encodeUtf8 s))
  | "split" => do
      let b ← fromHex arg
      pure ("ok " ++ "|".intercalate ((splitOn colon b).map toHexD))
  | "unpack" => do
      let b ← fromHex arg
      match unpackParams b with
      | .ok P => pure s!"ok {P.N},{P.r},{P.p},{P.saltLen},{P.len}"
      | .error e => pure ("err:" ++ errName e)
  | "sinit" =>
      match (arg.splitOn ",").map String.toNat? with
      | [some n, some r, some p] =>
        match scryptInit n r p with
        | .ok () => some "ok"
        | .error e => some ("err:" ++ errName e)
      | _ => none
  | _ => none

def stepLine (st : Unit) (line : String) : Unit × List String :=
  match words line with
  | ["case", cid] => (st, ["#case " ++ cid])
  | ["end"] => (st, [])
  | ["hash", p, salt, sha, kq, kv] => (st, [(doHash p salt sha kq kv).getD "bad-op"])
  | ["verify", p, h, sha, kq, kv] => (st, [(doVerify p h sha kq kv).getD "bad-op"])
  | ["lib", op, arg] => (st, [(doLib op arg).getD "bad-op"])
  | [] => (st, [])
  | _ => (st, ["bad-op"])

def main : IO Unit := runLoop () stepLine
