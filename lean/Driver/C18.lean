import MpgsModel.Model.WebSocket
import MpgsModel.Model.DriverUtil
/-!
Line-protocol driver for the WebSocket model.  `lake env lean --run Driver/C18.lean`

ops (fields are `name=value` tokens, any order):
  ser  op= fin= rsv= mask= key= plen= pl=     library frame object -> serializeHeader / serializeDataHeader / writeFrame
  rt   op= fin= rsv= mask= key= plen= pl=     library writer into the ring buffer, then library reader
  ctor name= [status=] pl=                    static constructors Ping/Pong/Text/Binary/Close + writeFrame
  rfc  op= fin= rsv= mask= key= pl= extra=    Rfc.encode ++ extra through the library reader
  parse hex=                                  raw bytes through the library reader
  hf hex=                                     WebSocketTemporaryRingBuffer.hasFrame() on raw bytes
  hnew | stream <items> | feed <n> | feedrest | hsend pl= | hclose     handler ops
payload spec: `h:<hex>` literal, `g:<len>:<seed>` LCG bytes, `a:<len>:<seed>` LCG printable ASCII
-/
open Mpgs Mpgs.WebSocket Mpgs.Util

/-- CRC-32 (zlib) for compact comparison of long byte strings -/
def crcTable : Array UInt32 := Id.run do
  let mut t : Array UInt32 := Array.mkEmpty 256
  for i in [0:256] do
    let mut c : UInt32 := i.toUInt32
    for _ in [0:8] do
      c := if c &&& (1 : UInt32) == (1 : UInt32) then (0xEDB88320 : UInt32) ^^^ (c >>> (1 : UInt32)) else c >>> (1 : UInt32)
    t := t.push c
  return t

def crc32 (bs : List UInt8) : UInt32 :=
  let t := crcTable
  (bs.foldl (fun (c : UInt32) (b : UInt8) => t[((c ^^^ b.toUInt32) &&& (0xFF : UInt32)).toNat]! ^^^ (c >>> (8 : UInt32)))
    (0xFFFFFFFF : UInt32)) ^^^ (0xFFFFFFFF : UInt32)

def hex32 (x : UInt32) : String :=
  let n := x.toNat
  String.ofList ((List.range 8).map (fun i => hexDigit ((n >>> (4 * (7 - i))) % 16)))

/-- short strings in hex, long ones as `#len:crc32:first 8 bytes` -/
def digest (bs : List UInt8) : String :=
  if bs.length ≤ 40 then toHexD bs
  else s!"#{bs.length}:{hex32 (crc32 bs)}:{toHex (bs.take 8)}"

/-- the shared pseudo-random payload generator (same LCG in harness/props/c18.py) -/
def lcg : Nat → Nat → (Nat → UInt8) → List UInt8
  | 0, _, _ => []
  | n + 1, x, f =>
    let y := (x * 1103515245 + 12345) % 2147483648
    f (y / 65536) :: lcg n y f

def parsePl (s : String) : Option (List UInt8) :=
  match s.splitOn ":" with
  | ["h", h] => fromHex h
  | ["g", n, k] => do
    let n ← n.toNat?
    let k ← k.toNat?
    pure (lcg n k (fun v => UInt8.ofNat (v % 256)))
  | ["a", n, k] => do
    let n ← n.toNat?
    let k ← k.toNat?
    pure (lcg n k (fun v => UInt8.ofNat (32 + v % 95)))
  | _ => none

def field (ws : List String) (name : String) : Option String :=
  ws.findSome? (fun w => if w.startsWith (name ++ "=") then some (w.drop (name.length + 1)).toString else none)

def opOfName : String → Option OpCode
  | "Open" => some .open_
  | "Close" => some .close
  | "Ping" => some .ping
  | "Pong" => some .pong
  | "Text" => some .text
  | "Binary" => some .binary
  | _ => none

def opName : OpCode → String
  | .open_ => "Open"
  | .close => "Close"
  | .ping => "Ping"
  | .pong => "Pong"
  | .text => "Text"
  | .binary => "Binary"

def errName : Err → String
  | .valueError => "ValueError"
  | .structError => "error"
  | .indexError => "IndexError"
  | .unicodeError => "UnicodeDecodeError"
  | .exception => "Exception"

def bit (b : Bool) : String := if b then "1" else "0"

structure Desc where
  op : OpCode
  fin : Bool
  rsv : Nat
  mask : Bool
  key : List UInt8
  plen : Option Nat
  pl : List UInt8

def parseDesc (ws : List String) : Option Desc := do
  let op ← (field ws "op").bind opOfName
  let fin ← (field ws "fin").bind String.toNat?
  let rsv ← (field ws "rsv").bind String.toNat?
  let mask ← (field ws "mask").bind String.toNat?
  let key ← (field ws "key").bind fromHex
  let pl ← (field ws "pl").bind parsePl
  let plen := (field ws "plen").bind String.toNat?
  pure { op, fin := fin != 0, rsv, mask := mask != 0, key, plen, pl }

def Desc.lib (d : Desc) : LibFrame :=
  { fin := d.fin, rsv1 := d.rsv / 4 % 2 == 1, rsv2 := d.rsv / 2 % 2 == 1, rsv3 := d.rsv % 2 == 1,
    opcode := d.op, mask := d.mask, length7 := 0,
    payloadLength := d.plen.getD d.pl.length, maskingKey := d.key, payload := d.pl }

def keyOf : List UInt8 → Option Key
  | [a, b, c, d] => some ⟨a, b, c, d⟩
  | _ => none

def Desc.spec (d : Desc) : Option Frame := do
  let k ← keyOf d.key
  pure { fin := d.fin, rsv1 := d.rsv / 4 % 2 == 1, rsv2 := d.rsv / 2 % 2 == 1, rsv3 := d.rsv % 2 == 1,
         opcode := d.op, mask := if d.mask then some k else none, payload := d.pl }

def showE (r : Except Err (List UInt8)) : String :=
  match r with
  | .ok b => toHexD b
  | .error e => "err:" ++ errName e

def showFrame (tag : String) (r : List UInt8 × Except Err LibFrame) : String :=
  match r with
  | (rest, .error e) => s!"{tag} err:{errName e} rest={rest.length}"
  | (rest, .ok f) =>
    s!"{tag} fin={bit f.fin} rsv={bit f.rsv1}{bit f.rsv2}{bit f.rsv3} op={opName f.opcode} mask={bit f.mask} " ++
    s!"len7={f.length7} plen={f.payloadLength} key={toHexD f.maskingKey} payload={digest f.payload} rest={rest.length}"

def showWrite (tag : String) (f : LibFrame) : String :=
  let (ws, e) := writeFrame f
  s!"{tag} hdr={showE (serializeHeader f)} dhdr={showE (serializeDataHeader f)} writes={ws.length} " ++
  s!"wire={digest ws.flatten} err={match e with | none => "-" | some e => errName e}"

def showEvents (evs : List Event) : String :=
  if evs.isEmpty then "-" else
  ",".intercalate (evs.map fun
    | .deliver op p => s!"d:{opName op}:{digest p}"
    | .wrote b => s!"w:{digest b}")

def showStep (tag : String) (r : Handler × List Event × Option Err) : String :=
  let (h, evs, e) := r
  s!"{tag} ev={showEvents evs} err={match e with | none => "-" | some e => errName e} buf={h.buf.length} closed={bit h.closed}"

structure St where
  h : Handler := Handler.init
  stream : List UInt8 := []

def parseItem (s : String) : Option (List UInt8) :=
  match s.splitOn ":" with
  | ["x", h] => fromHex h
  | "f" :: op :: fin :: rsv :: mask :: key :: pl => do
    let d ← parseDesc ["op=" ++ op, "fin=" ++ fin, "rsv=" ++ rsv, "mask=" ++ mask, "key=" ++ key,
                       "pl=" ++ ":".intercalate pl]
    let f ← d.spec
    pure (Rfc.encode f)
  | _ => none

def stepLine (st : St) (line : String) : St × List String :=
  match words line with
  | ["case", cid] => ({}, ["#case " ++ cid])
  | ["end"] => (st, [])
  | "ser" :: ws => match parseDesc ws with
      | some d => (st, [showWrite "ser" d.lib])
      | none => (st, ["bad-op"])
  | "rt" :: ws => match parseDesc ws with
      | some d =>
        let (wr, e) := writeFrame d.lib
        match e with
        | some e => (st, ["rt write-err:" ++ errName e])
        | none => (st, [showFrame "rt" (readFrame wr.flatten)])
      | none => (st, ["bad-op"])
  | "ctor" :: ws =>
      match field ws "name", (field ws "pl").bind parsePl with
      | some "Ping", some p => (st, [showWrite "ctor" (.Ping p)])
      | some "Pong", some p => (st, [showWrite "ctor" (.Pong p)])
      | some "Binary", some p => (st, [showWrite "ctor" (.Binary p)])
      | some "Text", some p => (st, [showWrite "ctor" (.Text p)])
      | some "Close", some p =>
        match (field ws "status").bind String.toNat? with
        | some s => match LibFrame.Close s p with
          | .ok f => (st, [showWrite "ctor" f])
          | .error e => (st, ["ctor err:" ++ errName e])
        | none => (st, ["bad-op"])
      | _, _ => (st, ["bad-op"])
  | "rfc" :: ws =>
      match (parseDesc ws).bind Desc.spec, (field ws "extra").bind fromHex with
      | some f, some x => (st, [showFrame "rfc" (readFrame (Rfc.encode f ++ x))])
      | _, _ => (st, ["bad-op"])
  | ["parse", h] => match (field [h] "hex").bind fromHex with
      | some b => (st, [showFrame "parse" (readFrame b)])
      | none => (st, ["bad-op"])
  | ["hf", h] => match (field [h] "hex").bind fromHex with
      | some b => (st, [match hasFrameLit b with
          | .ok v => "hf " ++ bit v
          | .error e => "hf err:" ++ errName e])
      | none => (st, ["bad-op"])
  | ["hnew"] => ({ st with h := Handler.init }, [])
  | "stream" :: items =>
      match items.mapM parseItem with
      | some bs =>
        let s := bs.flatten
        ({ st with stream := s }, [s!"stream len={s.length} crc={hex32 (crc32 s)}"])
      | none => (st, ["bad-op"])
  | ["feed", n] => match n.toNat? with
      | some n =>
        let r := st.h.call (st.stream.take n)
        ({ st with h := r.1, stream := st.stream.drop n }, [showStep "feed" r])
      | none => (st, ["bad-op"])
  | ["feedrest"] =>
      let r := st.h.call st.stream
      ({ st with h := r.1, stream := [] }, [showStep "feed" r])
  | ["hsend", p] => match (field [p] "pl").bind parsePl with
      | some b =>
        let r := st.h.send b
        ({ st with h := r.1 }, [showStep "send" r])
      | none => (st, ["bad-op"])
  | ["hclose"] =>
      let r := st.h.close
      ({ st with h := r.1 }, [showStep "close" r])
  | [] => (st, [])
  | _ => (st, ["bad-op"])

def main : IO Unit := runLoop ({} : St) stepLine
