import MpgsModel.Model.Server
import MpgsModel.Model.ToyAead
import MpgsModel.Model.DriverUtil
/-! Line-protocol driver for the Wire/Conn layers.  `lake env lean --run Driver/Conn.lean`
    (protocol: DESIGN.md appendix A; datagrams between endpoints are sealed with the toy AEAD) -/
open Mpgs Mpgs.Util Mpgs.Bytes Mpgs.Wire Mpgs.Conn Mpgs.Server

structure Ep where
  kind : String := "base"          -- base | csc (ClientServerConnection) | scc (ServerClientConnection)
  conn : Conn
  emitsRev : List Bytes := []     -- newest first: appending and reading recent emissions is O(1)
  nEmits : Nat := 0

structure St where
  sz : Sizes := ⟨1500⟩
  eps : List (String × Ep) := []
  srv : Srv := {}

def getEp (st : St) (n : String) : Option Ep := (st.eps.find? (fun p => p.1 == n)).map (·.2)
def setEp (st : St) (n : String) (e : Ep) : St :=
  if st.eps.any (fun p => p.1 == n) then
    { st with eps := st.eps.map (fun p => if p.1 == n then (n, e) else p) }
  else { st with eps := st.eps ++ [(n, e)] }

def kv (ws : List String) (k : String) : Option String :=
  ws.findSome? (fun w => if w.startsWith (k ++ "=") then some (w.drop (k.length + 1)).toString else none)

def kvInt (ws : List String) (k : String) : Option Int := (kv ws k).bind parseInt
def kvNat (ws : List String) (k : String) : Option Nat := (kv ws k).bind String.toNat?

def statusNum : Status → Nat
  | .connecting => 1 | .connected => 2 | .disconnecting => 3 | .disconnected => 4 | .dropped => 5
def statusOf : Nat → Option Status
  | 1 => some .connecting | 2 => some .connected | 3 => some .disconnecting
  | 4 => some .disconnected | 5 => some .dropped | _ => none

def errName : Conn.Err → String
  | .valueError => "ValueError" | .typeError => "TypeError" | .structError => "error"
  | .packetError => "PacketError" | .invalidTag => "InvalidTag" | .invalidSignature => "InvalidSignature"
  | .nameError => "NameError" | .exception => "Exception"

def wireErrName : Wire.Err → String
  | .structError => "error" | .valueError => "ValueError" | .packetError => "PacketError"
  | .invalidTag => "InvalidTag"

def digest (b : Bytes) : String := s!"{b.length}:{crc32 b}"

def showEvent : Event → String
  | .userCb id v => s!"cb:{id}:{if v then 1 else 0}"
  | .connectCb v => s!"ccb:{if v then 1 else 0}"
  | .deliver s p => s!"dlv:{s}:{digest p}"
  | .resolved s ok => s!"res:{s}:{if ok then 1 else 0}"
  | .dropped => "drop"
  | .clientDisconnectCb => "dcb"
  | .promoted => "promoted"

def showEvents (es : List Event) : String :=
  if es.isEmpty then "-" else ",".intercalate (es.map showEvent)

def showCb : Option Cb → String
  | none => "-"
  | some (.user id) => s!"u{id}"
  | some (.retry r) => s!"r{r}"
  | some (.frag f i) => s!"f{f}.{i}"
  | some .helloTimeout => "h"
  | some .challengeTimeout => "c"
  | some .clientDisconnect => "d"

def lst (xs : List String) : String := "[" ++ ";".intercalate xs ++ "]"

def slotMask (s : List (Option Bytes)) : String :=
  String.ofList (s.map (fun o => match o with | some _ => '1' | none => '0'))

def dump (c : Conn) : String :=
  let pa := lst (c.pendingAcks.map (fun p => s!"{p.1}@{p.2}"))
  let pc := lst (c.pendingCbs.map (fun p => s!"{p.1}:" ++ "|".intercalate (p.2.map (fun cb => showCb (some cb)))))
  let pr := lst (c.pendingRetry.map (fun p => s!"{p.1}:" ++ ",".intercalate (p.2.map toString)))
  let prm := lst (c.pendingRetryMsg.map (fun p => s!"{p.1}@{p.2.assembled}/{p.2.retry}"))
  let out := lst (c.outgoing.map (fun m => s!"{m.seq}/{m.ty.toNat}/{m.payload.length}/{m.retry}/{showCb m.cb}"))
  let rf := lst (c.recvFrags.map (fun p => s!"{p.1}/{p.2.count}/{slotMask p.2.slots}/{p.2.ctime}/{p.2.msgseq}"))
  let pf := lst (c.pendingFrags.map (fun p => s!"{p.1}>{p.2}"))
  let ro := lst (c.retryObjs.map (fun r => s!"{r.mseq}/{if r.done then 1 else 0}/{showCb r.inner}"))
  let fo := lst (c.fragObjs.map (fun f => s!"{f.fragId}/{f.retry}/" ++
              String.ofList (f.acks.map (fun a => match a with | none => 'n' | some true => 't' | some false => 'f'))))
  s!"st={statusNum c.status} key={if (keyed c.key).isSome then 1 else 0} ss={c.seqSending} sm={c.seqMessage} sf={c.seqFragment} " ++
  s!"bp={c.bfPkt.cur}:{c.bfPkt.bits} bm={c.bfMsg.cur}:{c.bfMsg.bits} pa={pa} pc={pc} pr={pr} prm={prm} out={out} rf={rf} pf={pf} " ++
  s!"ro={ro} fo={fo} ctr={c.assembled},{c.sent},{c.dropped},{c.received},{c.acked},{c.timeouts} " ++
  s!"last={c.lastRecv},{c.lastSend},{c.lastKeepAlive} inc={c.incoming.length} tok={c.token} hs={c.helloSentAt}"

/-- apply the byte-level mutations of a recv line: set:<off>:<hex>  trunc:<n>  ext:<hex>  flip:<bit> -/
def applyMut (d : Bytes) (m : String) : Option Bytes :=
  match m.splitOn ":" with
  | ["set", off, hx] => do
    let o ← off.toNat?
    let b ← fromHex hx
    pure (take o d ++ b ++ drop (o + b.length) d)
  | ["trunc", n] => do let k ← n.toNat?; pure (take k d)
  | ["ext", hx] => do let b ← fromHex hx; pure (d ++ b)
  | ["flip", bit] => do
    let k ← bit.toNat?
    let i := k / 8
    match d[i]? with
    | some x => pure (take i d ++ [x ^^^ (UInt8.ofNat (1 <<< (k % 8)))] ++ drop (i + 1) d)
    | none => pure d
  | _ => none

def applyMuts (d : Bytes) : List String → Option Bytes
  | [] => some d
  | m :: ms => (applyMut d m).bind (fun d' => applyMuts d' ms)

/-- resolve the datagram operand of a recv line -/
def ptypeOfNat (n : Nat) : PType :=
  match PType.ofWire n with | .ok t => t | .error _ => .unknown

def craft (spec : String) (toServer : Bool) : Option Bytes :=
  match (spec.drop 1).toString.splitOn ":" with
  | [f, pt, key] =>
    match (f.splitOn ",").map String.toNat?, fromHex pt with
    | [some ty, some seq, some ack, some bits, some ct, some count], some p =>
      let h : Header := ⟨!toServer, ct, ptypeOfNat ty, seq, ack, bits, p.length, count⟩
      match encodeHdr h with
      | .error _ => none
      | .ok hb =>
        if key == "none" then some (hb ++ p ++ be32 (crc32 (hb ++ p)))
        else (fromHex key).map (fun k => hb ++ Toy.aseal k (take 12 hb) hb p)
    | _, _ => none
  | _ => none

def datagramOf (st : St) (ws : List String) (toServer : Bool := true) : Option Bytes := do
  let dspec ← kv ws "d"
  let base ←
    if dspec.startsWith "!" then craft dspec toServer
    else if dspec.startsWith "@" then
      match (dspec.drop 1).toString.splitOn ":" with
      | [e, k] => do
        let ep ← getEp st e
        let i ← k.toNat?
        if i < ep.nEmits then ep.emitsRev[ep.nEmits - 1 - i]? else none
      | _ => none
    else fromHex dspec
  -- re-seal under another key (attacker-chosen or other session)
  let base ← match kv ws "rekey" with
    | some hx => do
      let k ← fromHex hx
      let hb := take 20 base
      let pt := take (base.length - 36) (drop 20 base)
      pure (hb ++ Toy.aseal k (take 12 hb) hb pt)
    | none => pure base
  let muts := ws.filter (fun w => w.startsWith "mut=") |>.map (fun w => (w.drop 4).toString)
  applyMuts base muts

def hdrOf (ws : List String) : Option Header := do
  let srv ← kvNat ws "srv"
  let ct ← kvNat ws "ct"
  let ty ← kvNat ws "ty"
  let seq ← kvNat ws "seq"
  let ack ← kvNat ws "ack"
  let bits ← kvNat ws "bits"
  let len := (kvNat ws "len").getD 0
  let cnt := (kvNat ws "cnt").getD 0
  pure ⟨srv == 1, ct, ptypeOfNat ty, seq, ack, bits, len, cnt⟩

def showHdr (h : Header) : String :=
  s!"srv={if h.isServer then 1 else 0} ct={h.ctime} ty={h.ptype.toNat} seq={h.seq} ack={h.ack} bits={h.ackBits} len={h.length} cnt={h.count}"

def parseMsgList (s : String) : Option (List WMsg) :=
  if s == "-" then some [] else
  (s.splitOn ";").mapM (fun m => match m.splitOn ":" with
    | [a, b, c] => do
      let sq ← a.toNat?
      let ty ← b.toNat?
      let pl ← fromHex c
      pure ⟨sq, ptypeOfNat ty, pl⟩
    | _ => none)

def showMsgList (ms : List WMsg) : String :=
  if ms.isEmpty then "-" else ";".intercalate (ms.map (fun m => s!"{m.seq}:{m.ty.toNat}:{toHexD m.payload}"))

/-- handshake externals answered by the oracle of this op line (`orc=...`, see harness/connlib.py) -/
def hsOf (ws : List String) : Hs :=
  let bad : Hs := ⟨fun _ => .error .exception, fun _ => .error .exception, fun _ _ _ => false,
    fun _ => .error .exception, fun _ => .error .exception, fun _ _ => [], fun _ _ => ([], []), fun _ => []⟩
  match (kv ws "orc").map (fun o => o.splitOn ":") with
  | some ["sh", "err"] => bad
  | some ["sh", "badsig"] => { bad with parseServerHello := fun _ => .ok ([], [], []) }
  | some ["sh", "perr"] => { bad with parseServerHello := fun _ => .ok ([], [], []), verify := fun _ _ _ => true }
  | some ["sh", "ok", key, tok, chal] =>
    match fromHex key, tok.toNat?, fromHex chal with
    | some k, some t, some ch =>
      { bad with parseServerHello := fun _ => .ok ([], [], []), verify := fun _ _ _ => true,
                 parsePayload := fun _ => .ok ([], [], t), ecdhClient := fun _ _ => k, challengeBytes := fun _ => ch }
    | _, _, _ => bad
  | some ["ch", "err"] => bad
  | some ["ch", "ver", v] => { bad with parseClientHello := fun _ => .ok ((parseInt v).getD 0) }
  | some ["ch", "ok", key, sh] =>
    match fromHex key, fromHex sh with
    | some k, some b => { bad with parseClientHello := fun _ => .ok 1, serverReply := fun _ _ => (k, b) }
    | _, _ => bad
  | some ["cr", "err"] => bad
  | some ["cr", tok] => { bad with parseChallenge := fun _ => match tok.toNat? with | some t => .ok t | none => .error .exception }
  | _ => bad

def hsOfOrc (orc : String) : Hs := hsOf (if orc == "-" then [] else ["orc=" ++ orc])

def parseAddr (s : String) : Option Server.Addr :=
  match s.splitOn ":" with
  | [a, b] => do pure ((← a.toNat?), (← b.toNat?))
  | _ => none

def showAddr (a : Server.Addr) : String := s!"{a.1}:{a.2}"

def actOf (s : String) : HAct :=
  if s == "raise" then .raise else if s == "echo" then .echo else if s == "disc" then .disc
  else if s == "echoRaise" then .echoRaise else if s == "discRaise" then .discRaise else if s == "kick" then .kick else .ok

def parseActs (s : String) : List HAct := if s == "-" then [] else (s.splitOn ",").map actOf

def showSEvent : SEvent → String
  | .connect id a tok => s!"connect:{id}:{showAddr a}:{tok}"
  | .message id sq p => s!"msg:{id}:{sq}:{digest p}"
  | .disconnect id => s!"disc:{id}"
  | .update => "update"
  | .shutdown => "shutdown"
  | .sendTo a h d => s!"send:{showAddr a}:{h.ptype.toNat}:{h.seq}:{h.count}:{d.length}"
  | .dropEntry a => s!"drop:{showAddr a}"
  | .contained w => "caught:" ++ (w.replace " " "_")

def showPool (p : Pool) : String :=
  lst (p.map (fun x => s!"{showAddr x.1}>{x.2.id}:{statusNum x.2.conn.status}:{x.2.conn.token}"))

def roleOf (ep : Ep) (ws : List String) : Role :=
  if ep.kind == "csc" then clientRole (hsOf ws)
  else if ep.kind == "scc" then
    serverRole (hsOf ws) ((kvNat ws "tok").getD 0) ((kv ws "temptok").bind String.toNat?)
  else baseRole

def stepLine (st : St) (line : String) : St × List String :=
  let ws := words line
  match ws with
  | ["case", cid] => ({}, ["#case " ++ cid])
  | ["end"] => (st, [])
  | ["now", _] => (st, [])
  | ["mtu", n] => match n.toNat? with
      | some m => ({ st with sz := ⟨m⟩ }, [])
      | none => (st, ["bad-op"])
  | ["sizes", n] => match n.toNat? with
      -- the constants `Packet.setMTU(n)` derives (the case's own MTU is left as it is)
      | some m => (st, [s!"sizes maxSize={(⟨m⟩ : Sizes).maxSize} maxPayload={(⟨m⟩ : Sizes).maxPayload} maxFragment={(⟨m⟩ : Sizes).maxFragment}"])
      | none => (st, ["bad-op"])
  | ["new", e, role] =>
      let kind := if role == "csc" then "csc" else if role.startsWith "scc" then "scc" else "base"
      (setEp st e ⟨kind, { isServer := role == "server" || role.startsWith "scc" }, [], 0⟩, [])
  | "set" :: e :: rest =>
    match getEp st e with
    | none => (st, ["bad-op"])
    | some ep =>
      let c := ep.conn
      let c := match kv rest "key" with
        | some "none" => { c with key := none }
        | some hx => (match fromHex hx with | some k => { c with key := some k } | none => c)
        | none => c
      let c := match (kvNat rest "status").bind statusOf with | some s => { c with status := s } | none => c
      let c := match kvInt rest "si" with | some v => { c with sendInterval := v } | none => c
      let c := match kvInt rest "ka" with | some v => { c with keepAlive := v } | none => c
      let c := match kvInt rest "ot" with | some v => { c with outgoingTimeout := v } | none => c
      let c := match kvNat rest "ss" with | some v => { c with seqSending := v } | none => c
      let c := match kvNat rest "sm" with | some v => { c with seqMessage := v } | none => c
      let c := match kvNat rest "sf" with | some v => { c with seqFragment := v } | none => c
      let c := match kvInt rest "bp" with | some v => { c with bfPkt := { c.bfPkt with cur := v, bits := 0 } } | none => c
      let c := match kvInt rest "bm" with | some v => { c with bfMsg := { c.bfMsg with cur := v, bits := 0 } } | none => c
      let c := match kvInt rest "tt" with | some v => { c with tempTimeout := v } | none => c
      let c := match kv rest "ccb" with | some v => { c with hasConnectCb := v == "1" } | none => c
      let c := match kv rest "pinned" with
        | some "none" => { c with pinned := none }
        | some hx => (match fromHex hx with | some k => { c with pinned := some k } | none => c)
        | none => c
      (setEp st e { ep with conn := c }, [])
  | "send" :: e :: rest =>
    match getEp st e, kvNat rest "len", kvNat rest "seed", kvInt rest "retry" with
    | some ep, some n, some sd, some r =>
      let cb := (kv rest "cb").bind String.toNat?
      let (c, err) := send st.sz ep.conn (lcgBytes n sd) r cb
      (setEp st e { ep with conn := c }, [match err with | none => "ok" | some x => "err:" ++ errName x])
    | _, _, _, _ => (st, ["bad-op"])
  | "disc" :: e :: rest =>
    match getEp st e with
    | some ep =>
      let cb := if kv rest "cb" == some "1" then some Cb.clientDisconnect else none
      (setEp st e { ep with conn := disconnect ep.conn cb }, ["ok"])
    | none => (st, ["bad-op"])
  | "build" :: e :: rest =>
    match getEp st e, kvInt rest "t" with
    | some ep, some t =>
      match buildPacket st.sz ep.conn t with
      | (c, .ok none) => (setEp st e { ep with conn := c }, ["none"])
      | (c, .error x) => (setEp st e { ep with conn := c }, ["err:" ++ errName x])
      | (c, .ok (some pkt)) =>
        match toBytes Toy.crypto c.key pkt with
        | .error x => (setEp st e { ep with conn := c }, ["err:" ++ wireErrName x])
        | .ok d =>
          let sealed := (keyed c.key).isSome && pkt.hdr.ptype != .serverHello
          let h := pkt.hdr
          let line := s!"pkt ty={h.ptype.toNat} seq={h.seq} ack={h.ack} bits={h.ackBits} count={h.count} len={h.length} " ++
            s!"sealed={if sealed then 1 else 0} ct={h.ctime} pt={digest pkt.msg} dlen={d.length} hdr={toHex (take 20 d)}" ++
            (if sealed then "" else s!" dcrc={crc32 d}")
          (setEp st e { ep with conn := c, emitsRev := d :: ep.emitsRev, nEmits := ep.nEmits + 1 }, [line])
    | _, _ => (st, ["bad-op"])
  | "recv" :: e :: rest =>
    match getEp st e, kvInt rest "t", (getEp st e).bind (fun ep => datagramOf st rest ep.conn.isServer) with
    | some ep, some t, some d =>
      match decodeHdr ep.conn.isServer d with
      | .error x => (st, ["hdrerr:" ++ wireErrName x])
      | .ok h =>
        let (c, ev, ret) := recvDatagram Toy.crypto (roleOf ep rest) ep.conn t h d
        let hsErr (x : Conn.Err) : String :=
          -- exceptions raised by the hello handlers are compared as a class of their own, except InvalidSignature
          if ep.kind == "base" then errName x
          else match x with
            | .invalidSignature => "InvalidSignature" | .structError => "error" | _ => "hs"
        let r := match ret with | .accepted => "T" | .rejected => "F" | .raised x => "err:" ++ hsErr x
        (setEp st e { ep with conn := c }, [s!"ret={r} ev={showEvents ev}"])
    | some _, some _, none => (st, ["noemit"])
    | _, _, _ => (st, ["bad-op"])
  | "hello" :: e :: rest =>
    match getEp st e, kvInt rest "t", (kv rest "d").bind fromHex with
    | some ep, some t, some d => (setEp st e { ep with conn := sendClientHello ep.conn t d }, ["ok"])
    | _, _, _ => (st, ["bad-op"])
  | "cupd" :: e :: rest =>
    match getEp st e, kvInt rest "t" with
    | some ep, some t =>
      let (c, ev) := clientUpdate ep.conn t
      (setEp st e { ep with conn := c }, [s!"st={statusNum c.status} ev={showEvents ev}"])
    | _, _ => (st, ["bad-op"])
  | "tmo" :: e :: rest =>
    match getEp st e, kvInt rest "t" with
    | some ep, some t =>
      let (c, ev) := checkTimeout ep.conn t
      (setEp st e { ep with conn := c }, [s!"ev={showEvents ev}"])
    | _, _ => (st, ["bad-op"])
  | "henc" :: rest =>
    match hdrOf rest with
    | some h => (st, [match encodeHdr h with | .ok b => "ok:" ++ toHex b | .error x => "err:" ++ wireErrName x])
    | none => (st, ["bad-op"])
  | "hdec" :: rest =>
    match kvNat rest "srv", (kv rest "d").bind fromHex with
    | some srv, some d =>
      (st, [match decodeHdr (srv == 1) d with | .ok h => "ok " ++ showHdr h | .error x => "err:" ++ wireErrName x])
    | _, _ => (st, ["bad-op"])
  | "penc" :: rest =>
    -- Packet.create(hdr, msgs).to_bytes(None)
    match hdrOf rest, (kv rest "msgs").bind parseMsgList with
    | some h, some ms =>
      (st, [match create h ms with
        | .error x => "err:" ++ wireErrName x
        | .ok p => match toBytes Toy.crypto none p with
          | .ok d => s!"ok len={p.hdr.length} cnt={p.hdr.count} d={toHex d}"
          | .error x => "err:" ++ wireErrName x])
    | _, _ => (st, ["bad-op"])
  | "pdec" :: rest =>
    -- PacketHeader.from_bytes(srv, d) ; Packet.from_bytes(hdr, None, d)
    match kvNat rest "srv", (kv rest "d").bind fromHex with
    | some srv, some d =>
      (st, [match decodeHdr (srv == 1) d with
        | .error x => "hdrerr:" ++ wireErrName x
        | .ok h => match fromBytes Toy.crypto h none d with
          | .ok p => s!"ok {showHdr p.hdr} msgs={showMsgList p.msgs}"
          | .error x => "err:" ++ wireErrName x])
    | _, _ => (st, ["bad-op"])
  | "scfg" :: rest =>
    let cfg : SCfg := {
      keepAlive := (kvInt rest "ka").getD 96, outgoingTimeout := (kvInt rest "ot").getD 1024,
      connTimeout := (kvInt rest "ct").getD 5120, tempTimeout := (kvInt rest "tt").getD 2048,
      blocklist := match kv rest "block" with
        | some b => if b == "-" then [] else (b.splitOn ",").filterMap String.toNat?
        | none => [] }
    ({ st with srv := { st.srv with cfg := cfg } }, [])
  | "it" :: rest =>
    -- one loop iteration: items=<addr>|<dspec>|<orc>|<draws>;...  (entry point applied to each)
    match kvInt rest "tq", kvInt rest "ts" with
    | some tq, some ts =>
      let acts := parseActs ((kv rest "acts").getD "-")
      let raw := (kv rest "items").getD "-"
      let specs := if raw == "-" then [] else raw.splitOn ";"
      let parsed : List (Option (Server.Addr × Bytes × String × List Nat)) := specs.map (fun sp =>
        match sp.splitOn "|" with
        | [a, dsp, orc, dr] => do
          let addr ← parseAddr a
          let d ← datagramOf st ["d=" ++ dsp] true
          pure (addr, d, orc, if dr == "-" then [] else (dr.splitOn ",").filterMap String.toNat?)
        | _ => none)
      if parsed.any Option.isNone then (st, ["bad-item"])
      else
        let items := parsed.filterMap id
        -- entry point
        let (queued, drops) := items.foldl (fun (acc : List Item × List SEvent) it =>
          match entry st.srv it.1 it.2.1 with
          | some h => (acc.1 ++ [⟨it.1, h, it.2.1, hsOfOrc it.2.2.1, it.2.2.2⟩], acc.2)
          | none => (acc.1, acc.2 ++ [SEvent.dropEntry it.1])) ([], [])
        let (s', ev) := iter st.sz Toy.crypto st.srv tq ts queued acts
        -- server emissions become referable as @S:k
        let sends := ev.filterMap (fun e => match e with | .sendTo _ _ d => some d | _ => none)
        let epS : Ep := (getEp st "S").getD ⟨"base", { isServer := true }, [], 0⟩
        let epS' := sends.foldl (fun (e : Ep) d => { e with emitsRev := d :: e.emitsRev, nEmits := e.nEmits + 1 }) epS
        let st' := setEp { st with srv := s' } "S" epS'
        let evs := drops ++ ev
        (st', [s!"ev={if evs.isEmpty then "-" else ",".intercalate (evs.map showSEvent)} conns={showPool s'.conns} temps={showPool s'.temps}"])
    | _, _ => (st, ["bad-op"])
  | "stop" :: rest =>
    let acts := parseActs ((kv rest "acts").getD "-")
    let ev := shutdownSweep st.srv.conns acts
    ({ st with srv := { st.srv with conns := [] } }, [s!"ev={",".intercalate (ev.map showSEvent)}"])
  | ["take", e] =>
    -- application drains incoming_messages
    match getEp st e with
    | some ep => (setEp st e { ep with conn := { ep.conn with incoming := [] } }, [s!"took={ep.conn.incoming.length}"])
    | none => (st, ["bad-op"])
  | ["dump", e] =>
    match getEp st e with
    | some ep => (st, [dump ep.conn])
    | none => (st, ["bad-op"])
  | [] => (st, [])
  | _ => (st, ["bad-op"])

def main : IO Unit := runLoop ({} : St) stepLine
