import MpgsModel.Model.Dispatch
import MpgsModel.Model.DriverUtil
/-! Line-protocol driver for the dispatcher model.  `lake env lean --run Driver/C20.lean` -/
open Mpgs Mpgs.Dispatch Mpgs.Util

structure St where
  table : Table := []
  resources : List Resource := []

def findRes (st : St) (rid : Nat) : Option Resource := st.resources.find? (fun r => r.id == rid)

def parseMethods (s : String) : List (String × String) :=
  if s == "-" then [] else
  (s.splitOn ",").filterMap (fun m => match m.splitOn ":" with
    | [a, b] => some (a, b)
    | _ => none)

def showOut : Out → String
  | .ok => "ok"
  | .err .exception => "err:exception"
  | .err .dispatchError => "err:dispatchError"
  | .called h args => s!"called {h.res} {h.meth} {",".intercalate (args.map toString)}"

def insertSorted (x : String) : List String → List String
  | [] => [x]
  | y :: ys => if x < y then x :: y :: ys else y :: insertSorted x ys

def stepLine (st : St) (line : String) : St × List String :=
  match words line with
  | ["case", cid] => ({}, ["#case " ++ cid])
  | ["end"] => (st, [])
  | ["res", rid, ms] => match rid.toNat? with
      | some r => ({ st with resources := ⟨r, parseMethods ms⟩ :: st.resources }, [])
      | none => (st, ["bad-op"])
  | ["register", rid] => match rid.toNat?.bind (findRes st) with
      | some r => let (t, o) := step st.table (.register r); ({ st with table := t }, [showOut o])
      | none => (st, ["bad-op"])
  | ["unregister", rid] => match rid.toNat?.bind (findRes st) with
      | some r => let (t, o) := step st.table (.unregister r); ({ st with table := t }, [showOut o])
      | none => (st, ["bad-op"])
  | ["regfn", ev, rid, meth] => match rid.toNat? with
      | some r => let (t, o) := step st.table (.regFn ev ⟨r, meth⟩); ({ st with table := t }, [showOut o])
      | none => (st, ["bad-op"])
  | ["unregfn", ev] =>
      let (t, o) := step st.table (.unregFn ev); ({ st with table := t }, [showOut o])
  | ["dispatch", cls, args] =>
      let as := if args == "-" then [] else (args.splitOn ",").filterMap String.toNat?
      let (t, o) := step st.table (.dispatch cls as); ({ st with table := t }, [showOut o])
  | ["dispatch", cls, args, exc] =>
      let as := if args == "-" then [] else (args.splitOn ",").filterMap String.toNat?
      let beh : Handler → Beh := fun _ => if exc == "-" then .returns else .raises exc
      (st, [match dispatchWith st.table cls as beh with
        | .returned h a => showOut (.called h a)
        | .handlerRaised h a e => showOut (.called h a) ++ " raised:" ++ e
        | .dispatchError => showOut (.err .dispatchError)])
  | ["keys"] =>
      let ks := (st.table.map (·.1)).foldr insertSorted []
      (st, ["keys " ++ (if ks.isEmpty then "-" else ",".intercalate ks)])
  | [] => (st, [])
  | _ => (st, ["bad-op"])

def main : IO Unit := runLoop ({} : St) stepLine
