import MpgsModel.Model.SeqNum
import MpgsModel.Model.DriverUtil
/-! Line-protocol driver for SeqNum / BitField.  `lake env lean --run Driver/C08.lean` -/
open Mpgs Mpgs.Seq Mpgs.Util

structure St where
  bf : BitField := ⟨32, 0, 0⟩

def showE : Except Err Int → String
  | .ok v => s!"ok:{v}"
  | .error .valueError => "err:ValueError"
  | .error .duplication => "err:DuplicationError"

def showB (b : Bool) : String := if b then "T" else "F"

def stepLine (st : St) (line : String) : St × List String :=
  match words line with
  | ["case", cid] => ({}, ["#case " ++ cid])
  | ["end"] => (st, [])
  | ["mk", v] => match parseInt v with
      | some v => (st, [showE (mk v)])
      | none => (st, ["bad-op"])
  | [op, a, b] =>
    match parseInt a, parseInt b with
    | some x, some y =>
      if op == "add" then (st, [showE (add x y)])
      else if op == "sub" then (st, [showE (sub x y)])
      else if op == "diff" then (st, [toString (diff x y)])
      else if op == "newer" then (st, [showB (newerThan x y)])
      else if op == "lt" then (st, [showB (lt x y)])
      else if op == "gt" then (st, [showB (gt x y)])
      else (st, ["bad-op"])
    | _, _ =>
      if op == "bf" && a == "new" then
        match b.toNat? with
        | some n => match BitField.new n with
          | .ok bf => ({ st with bf := bf }, ["ok"])
          | .error _ => (st, ["err:ValueError"])
        | none => (st, ["bad-op"])
      else if op == "bf" && a == "ins" then
        match parseInt b with
        | some s => match st.bf.insert s with
          | .ok bf => ({ st with bf := bf }, ["ok"])
          | .error _ => (st, ["dup"])
        | none => (st, ["bad-op"])
      else if op == "bf" && a == "has" then
        match parseInt b with
        | some s => (st, [showB (st.bf.contains s)])
        | none => (st, ["bad-op"])
      else (st, ["bad-op"])
  | ["bf", "dump"] => (st, [s!"{st.bf.cur} {st.bf.bits}"])
  | ["ack", a, bits, s] =>
    match parseInt a, bits.toNat?, parseInt s with
    | some a, some bits, some s => (st, [showB (ackNames a bits s)])
    | _, _, _ => (st, ["bad-op"])
  | [] => (st, [])
  | _ => (st, ["bad-op"])

def main : IO Unit := runLoop ({} : St) stepLine
