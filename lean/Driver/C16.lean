import MpgsModel.Model.Regex
import MpgsModel.Model.Router
import MpgsModel.Model.DriverUtil
/-! Line-protocol driver for the Regex/Router model.  `lake env lean --run Driver/C16.lean`

All text fields are hex of the UTF-8 encoding (`-` = empty string).

  case <id>
  pat <pattern>            -> `re <regex text> <tok,tok|->`  or  `err:ValueError`   (and selects it)
  match <path>             -> `m none` | `m <g;g;…>`  (`N` = None, `v<hex>` = value)  of the selected regex
  spec <path>              -> `s none` | `s <g;g;…>`  Spec.bindings of the selected pattern
  plain <path>             -> `p <clean 0|1> <plainMatches 0|1>`  the plain reading, selected pattern
  reg <id> <METHOD> <pattern> -> `ok` | `err:ValueError`
  route <METHOD> <path>    -> `r none` | `r <id> <k=v,…|->`  (sorted by key)
  dispatch <METHOD> <path> -> `d 404` | `d 200 <id> <k=v,…|->`   (rate limiter admits)
-/
open Mpgs Mpgs.Regex Mpgs.Router Mpgs.Util

structure St where
  cur : Option (List Elem × Except Err (Re × List (List Char))) := none
  table : Table := emptyTable

def hexStr (cs : List Char) : String := toHexD (String.ofList cs).toUTF8.toList

def unhex (s : String) : Option (List Char) := do
  let bs ← fromHex s
  let str ← String.fromUTF8? (ByteArray.mk bs.toArray)
  pure str.toList

def showVal : Option (List Char) → String
  | none => "N"
  | some v => "v" ++ (if v.isEmpty then "" else toHex (String.ofList v).toUTF8.toList)

def showVals (vs : List (Option (List Char))) : String :=
  if vs.isEmpty then "ok" else ";".intercalate (vs.map showVal)

def insertSorted (x : String) : List String → List String
  | [] => [x]
  | y :: ys => if x < y then x :: y :: ys else y :: insertSorted x ys

def showBindings (b : Bindings) : String :=
  let items := (b.map (fun kv => hexStr kv.1 ++ "=" ++ showVal kv.2)).foldr insertSorted []
  if items.isEmpty then "-" else ",".intercalate items

def stepLine (st : St) (line : String) : St × List String :=
  match words line with
  | ["case", cid] => ({}, ["#case " ++ cid])
  | ["end"] => (st, [])
  | ["pat", p] => match unhex p with
      | none => (st, ["bad-op"])
      | some pat =>
        let es := parsePattern pat
        let r := patternToRegex pat
        let out := match r with
          | .error _ => "err:ValueError"
          | .ok (re, toks) =>
            s!"re {hexStr re.pretty} {if toks.isEmpty then "-" else ",".intercalate (toks.map hexStr)}"
        ({ st with cur := some (es, r) }, [out])
  | ["match", p] => match unhex p, st.cur with
      | some path, some (_, .ok (re, toks)) =>
        (st, [match reMatch re path with
          | none => "m none"
          | some caps => "m " ++ showVals (groups toks.length caps)])
      | _, _ => (st, ["bad-op"])
  | ["spec", p] => match unhex p, st.cur with
      | some path, some (es, _) =>
        (st, [match Spec.bindings es path with
          | none => "s none"
          | some vs => "s " ++ showVals vs])
      | _, _ => (st, ["bad-op"])
  | ["plain", p] => match unhex p, st.cur with
      | some path, some (es, _) =>
        (st, [s!"p {if Spec.clean path then 1 else 0} {if Spec.plainMatches es path then 1 else 0}"])
      | _, _ => (st, ["bad-op"])
  | ["reg", rid, m, p] => match rid.toNat?, unhex p with
      | some i, some pat => match register st.table ⟨i, m, pat⟩ with
        | .ok t => ({ st with table := t }, ["ok"])
        | .error _ => (st, ["err:ValueError"])
      | _, _ => (st, ["bad-op"])
  | ["route", m, p] => match unhex p with
      | some path => (st, [match getRoute st.table m path with
          | none => "r none"
          | some (r, b) => s!"r {r.id} {showBindings b}"])
      | none => (st, ["bad-op"])
  | ["dispatch", m, p] => match unhex p with
      | some path => (st, [match dispatch st.table false m path with
          | .notFound => "d 404"
          | .tooMany => "d 429"
          | .routed r b => s!"d 200 {r.id} {showBindings b}"])
      | none => (st, ["bad-op"])
  | [] => (st, [])
  | _ => (st, ["bad-op"])

def main : IO Unit := runLoop ({} : St) stepLine
