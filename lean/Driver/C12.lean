import MpgsModel.Model.Client
import MpgsModel.Model.ToyAead
import MpgsModel.Model.DriverUtil
/-! Line-protocol driver for the C12 additions to the Conn layer (`Model/Client.lean`): the
    `UdpClient` settings wrapper, the `ServerContext` record with the places of the server loop that
    read it (new connection, the two sweeps), the two guarded `update()` send paths and
    `timedout`, on connection states given field by field.
    `lake env lean --run Driver/C12.lean`   (protocol: harness/props/c12.py) -/
open Mpgs Mpgs.Util Mpgs.Bytes Mpgs.Wire Mpgs.Conn

structure St where
  sz : Sizes := ⟨1500⟩
  cl : Client := Client.new ⟨0, 0, 0⟩
  clErr : Bool := false              -- a call raised: a Python program would have stopped here
  cx : ServerCtx := ⟨0, 0, 0, 0, 0⟩
  conns : List (String × Conn) := []

def getC (st : St) (n : String) : Option Conn := (st.conns.find? (fun p => p.1 == n)).map (·.2)
def setC (st : St) (n : String) (c : Conn) : St :=
  if st.conns.any (fun p => p.1 == n) then
    { st with conns := st.conns.map (fun p => if p.1 == n then (n, c) else p) }
  else { st with conns := st.conns ++ [(n, c)] }

def kv (ws : List String) (k : String) : Option String :=
  ws.findSome? (fun w => if w.startsWith (k ++ "=") then some (w.drop (k.length + 1)).toString else none)
def kvInt (ws : List String) (k : String) : Option Int := (kv ws k).bind parseInt
def kvNat (ws : List String) (k : String) : Option Nat := (kv ws k).bind String.toNat?

def statusNum : Status → Nat
  | .connecting => 1 | .connected => 2 | .disconnecting => 3 | .disconnected => 4 | .dropped => 5
def statusOf : Nat → Option Status
  | 1 => some .connecting | 2 => some .connected | 3 => some .disconnecting
  | 4 => some .disconnected | 5 => some .dropped | _ => none

def errName : Conn.Err → String
  | .valueError => "ValueError" | .typeError => "TypeError" | .structError => "error"
  | .packetError => "PacketError" | .invalidTag => "InvalidTag" | .invalidSignature => "InvalidSignature"
  | .nameError => "NameError" | .exception => "Exception"

def showEvent : Event → String
  | .userCb id v => s!"cb:{id}:{if v then 1 else 0}"
  | .connectCb v => s!"ccb:{if v then 1 else 0}"
  | .deliver s p => s!"dlv:{s}:{p.length}"
  | .resolved s ok => s!"res:{s}:{if ok then 1 else 0}"
  | .dropped => "drop"
  | .clientDisconnectCb => "dcb"
  | .promoted => "promoted"

def showEvents (es : List Event) : String :=
  if es.isEmpty then "-" else ",".intercalate (es.map showEvent)

def showPkt : Except Conn.Err (Option Packet) → String
  | .ok none => "none"
  | .error e => "err:" ++ errName e
  | .ok (some p) => s!"pkt ty={p.hdr.ptype.toNat} seq={p.hdr.seq} count={p.hdr.count}"

def showSettings (c : Conn) : String :=
  s!"ka={c.keepAlive} tt={c.tempTimeout} ot={c.outgoingTimeout}"

def cdump (c : Conn) : String :=
  s!"st={statusNum c.status} {showSettings c} si={c.sendInterval} last={c.lastRecv},{c.lastSend},{c.lastKeepAlive} " ++
  s!"hs={c.helloSentAt} ccb={if c.hasConnectCb then 1 else 0} srv={if c.isServer then 1 else 0} out={c.outgoing.length} pa={c.pendingAcks.length}"

/-- no server hello parses: every hello handler call raises -/
def badHs : Hs := ⟨fun _ => .error .exception, fun _ => .error .exception, fun _ _ _ => false,
  fun _ => .error .exception, fun _ => .error .exception, fun _ _ => [], fun _ _ => ([], []), fun _ => []⟩

def showOut : Out → Option String
  | .ev .dropped => none
  | .ev e => some (showEvent e)
  | .emit h _ => some s!"pkt ty={h.ptype.toNat} seq={h.seq} count={h.count}"
  | .raised e => some ("err:" ++ (match e with | .exception => "hs" | x => errName x))
  | .ret .accepted => some "T"
  | .ret .rejected => some "F"
  | .ret (.raised _) => some "E"
  | .took _ => none

def stepLine (st : St) (line : String) : St × List String :=
  let ws := words line
  match ws with
  | ["case", cid] => ({}, ["#case " ++ cid])
  | ["end"] => (st, [])
  -- ---------------------------------------------------------------- UdpClient wrapper
  | "ucnew" :: rest =>
    match kvInt rest "ka", kvInt rest "tt", kvInt rest "ot" with
    | some a, some b, some c => ({ st with cl := Client.new ⟨a, b, c⟩, clErr := false }, [])
    | _, _, _ => (st, ["bad-op"])
  | "ucall" :: what :: rest =>
    let call : Option Call :=
      match what, kvInt rest "v", kvInt rest "t" with
      | "setka", some v, _ => some (.setKeepAlive v)
      | "settt", some v, _ => some (.setConnTimeout v)
      | "setot", some v, _ => some (.setMsgTimeout v)
      | "connect", _, some t => some (.connect t (kv rest "cb" == some "1") [])
      | _, _, _ => none
    match call with
    | none => (st, ["bad-op"])
    | some k =>
      match st.cl.apply k with
      | .ok cl' => ({ st with cl := cl' }, ["ok"])
      | .error e => ({ st with clErr := true }, ["err:" ++ errName e])
  | ["udump"] =>
    let w := s!"w ka={st.cl.s.keepAlive} tt={st.cl.s.tempTimeout} ot={st.cl.s.outgoingTimeout}"
    match st.cl.conn with
    | none => (st, [w ++ " conn=-"])
    | some c => (st, [w ++ s!" conn {showSettings c} ccb={if c.hasConnectCb then 1 else 0} st={statusNum c.status} " ++
                       s!"hs={c.helloSentAt} out={c.outgoing.length}"])
  | ["utake", n] =>
    -- continue with the wrapper's live connection as the named endpoint
    match st.cl.conn with
    | some c => (setC st n c, [])
    | none => (st, ["bad-op"])
  -- ---------------------------------------------------------------- ServerContext
  | "xnew" :: rest =>
    match kvInt rest "ct", kvInt rest "tt", kvInt rest "ka", kvInt rest "ot", kvInt rest "iv" with
    | some a, some b, some c, some d, some e => ({ st with cx := ⟨a, b, c, d, e⟩ }, [])
    | _, _, _, _, _ => (st, ["bad-op"])
  | "xcall" :: what :: rest =>
    let call : Option CtxCall :=
      match what, kvInt rest "v" with
      | "setka", some v => some (.setKeepAlive v)
      | "setct", some v => some (.setConnTimeout v)
      | "settt", some v => some (.setTempTimeout v)
      | "setot", some v => some (.setMsgTimeout v)
      | "setiv", some v => some (.setInterval v)
      | _, _ => none
    match call with
    | none => (st, ["bad-op"])
    | some k =>
      match st.cx.apply k with
      | .ok x' => ({ st with cx := x' }, ["ok"])
      | .error e => (st, ["err:" ++ errName e])
  | ["xdump"] =>
    (st, [s!"ct={st.cx.connectionTimeout} tt={st.cx.tempTimeout} ka={st.cx.keepAlive} ot={st.cx.outgoingTimeout} iv={st.cx.interval}"])
  | ["xconn", n] =>
    -- the connection object the loop creates for a hello from a new address
    (setC st n st.cx.newConn, [s!"ka={st.cx.newConn.keepAlive} ot={st.cx.newConn.outgoingTimeout}"])
  | "sweep" :: n :: rest =>
    match getC st n, kvInt rest "t" with
    | some c, some t =>
      if kv rest "pool" == some "t" then
        let r := sweepTemp st.sz st.cx c t
        (setC st n r.1, [s!"rm={if r.2.1 then 1 else 0} st={statusNum r.1.status} {showPkt r.2.2.2}"])
      else
        let r := sweepClient st.sz st.cx c t
        (setC st n r.1, [s!"rm={if r.2.1 then 1 else 0} st={statusNum r.1.status} {showPkt r.2.2.2}"])
    | _, _ => (st, ["bad-op"])
  -- ---------------------------------------------------------------- connection states
  | ["new", n, role] =>
    (setC st n { isServer := role == "server" || role == "scc" }, [])
  | "set" :: n :: rest =>
    match getC st n with
    | none => (st, ["bad-op"])
    | some c =>
      let c := match kv rest "key" with
        | some "none" => { c with key := none }
        | some hx => (match fromHex hx with | some k => { c with key := some k } | none => c)
        | none => c
      let c := match (kvNat rest "status").bind statusOf with | some s => { c with status := s } | none => c
      let c := match kvInt rest "si" with | some v => { c with sendInterval := v } | none => c
      let c := match kvInt rest "ka" with | some v => { c with keepAlive := v } | none => c
      let c := match kvInt rest "ot" with | some v => { c with outgoingTimeout := v } | none => c
      let c := match kvInt rest "tt" with | some v => { c with tempTimeout := v } | none => c
      let c := match kvInt rest "lr" with | some v => { c with lastRecv := v } | none => c
      let c := match kvInt rest "ls" with | some v => { c with lastSend := v } | none => c
      let c := match kvInt rest "lk" with | some v => { c with lastKeepAlive := v } | none => c
      let c := match kvInt rest "hs" with | some v => { c with helloSentAt := v } | none => c
      let c := match kv rest "ccb" with | some v => { c with hasConnectCb := v == "1" } | none => c
      (setC st n c, [])
  | "send" :: n :: rest =>
    match getC st n, kvNat rest "len", kvInt rest "retry" with
    | some c, some len, some r =>
      let (c', err) := send st.sz c (List.replicate len 7) r none
      (setC st n c', [match err with | none => "ok" | some x => "err:" ++ errName x])
    | _, _, _ => (st, ["bad-op"])
  | "tout" :: n :: rest =>
    match getC st n, kvInt rest "t", kvInt rest "T" with
    | some c, some t, some T => (st, [if timedOut c t T then "1" else "0"])
    | _, _, _ => (st, ["bad-op"])
  | "build" :: n :: rest =>
    match getC st n, kvInt rest "t" with
    | some c, some t =>
      let r := buildPacket st.sz c t
      (setC st n r.1, [showPkt r.2])
    | _, _ => (st, ["bad-op"])
  | "supd" :: n :: rest =>
    match getC st n, kvInt rest "t" with
    | some c, some t =>
      let r := serverUpdate st.sz c t
      (setC st n r.1, [showPkt r.2.2 ++ " ev=" ++ showEvents r.2.1])
    | _, _ => (st, ["bad-op"])
  | "csend" :: n :: rest =>
    match getC st n, kvInt rest "t" with
    | some c, some t =>
      let r := clientSend st.sz c t
      (setC st n r.1, [showPkt r.2.2 ++ " ev=" ++ showEvents r.2.1])
    | _, _ => (st, ["bad-op"])
  | "uupd" :: n :: rest =>
    -- the whole of UdpClient.update() with the datagrams waiting on the socket
    match getC st n, kvInt rest "t", kv rest "rx" with
    | some c, some t, some rx =>
      match (if rx == "-" then some [] else (rx.splitOn ",").mapM fromHex) with
      | none => (st, ["bad-op"])
      | some inbox =>
        let E : Env := ⟨st.sz, Toy.crypto, clientRole badHs⟩
        let r := clientUpdateFull E c t inbox
        let outs := r.2.1.filterMap showOut
        (setC st n r.1, [s!"st={statusNum r.1.status} unread={r.2.2.length} {if outs.isEmpty then "-" else ",".intercalate outs}"])
    | _, _, _ => (st, ["bad-op"])
  | "cupd" :: n :: rest =>
    match getC st n, kvInt rest "t" with
    | some c, some t =>
      let r := clientUpdate c t
      (setC st n r.1, [s!"st={statusNum r.1.status} ev={showEvents r.2}"])
    | _, _ => (st, ["bad-op"])
  | ["cdump", n] =>
    match getC st n with
    | some c => (st, [cdump c])
    | none => (st, ["bad-op"])
  | [] => (st, [])
  | _ => (st, ["bad-op"])

def main : IO Unit := runLoop ({} : St) stepLine
