import MpgsModel.Model.Serial
import MpgsModel.Model.DriverUtil
/-! Line-protocol driver for the serializer model (C13 and C14).
`lake env lean --run Driver/C13.lean`

ops (one answer line each, except `case`/`reg`/`end`):
  reg <padTarget> <tid>=<kind>;...       kind: O[<defaults>] | E[<members>] | C | H
  enc <value> [root=<hex>] [sg:<payload>=<ok:sig|err:Class>]...
  dec <hex> [k=<nokw|none|hex>] [p:<der>=<ok:hex|err:Class>]... [v:<key>:<sig>:<payload>=<ok|err:Class>]...
  decs <hex> <n> [k=..] [p:..]...         n values one after another from one stream
  rnd <16 hex>                            struct.pack(">f") of the double with these bits
value syntax: n T F i<int> f<8hex> d<16hex> s<hex> y<hex> L[..] S[..] M[k:v,..] O<tid>[..]
              E<tid>[v] C<tid>[y<key>,v] H<tid>[y<root>,y<key>,salt,token] U
-/
open Mpgs Mpgs.Serial Mpgs.Util

def errName : Err → String
  | .headerError => "SerializableHeaderError"
  | .serializableError => "SerializableError"
  | .structError => "struct.error"
  | .typeError => "TypeError"
  | .valueError => "ValueError"
  | .unicodeDecodeError => "UnicodeDecodeError"
  | .unicodeEncodeError => "UnicodeEncodeError"
  | .indexError => "IndexError"
  | .attributeError => "AttributeError"
  | .keyError => "KeyError"
  | .nameError => "NameError"
  | .overflowError => "OverflowError"
  | .invalidSignature => "InvalidSignature"
  | .unsupportedAlgorithm => "UnsupportedAlgorithm"
  | .fuel => "MODEL-FUEL"

def errOfName (s : String) : Err :=
  match s with
  | "SerializableHeaderError" => .headerError
  | "SerializableError" => .serializableError
  | "struct.error" => .structError
  | "TypeError" => .typeError
  | "ValueError" => .valueError
  | "UnicodeDecodeError" => .unicodeDecodeError
  | "UnicodeEncodeError" => .unicodeEncodeError
  | "IndexError" => .indexError
  | "AttributeError" => .attributeError
  | "KeyError" => .keyError
  | "NameError" => .nameError
  | "OverflowError" => .overflowError
  | "InvalidSignature" => .invalidSignature
  | "UnsupportedAlgorithm" => .unsupportedAlgorithm
  | _ => .fuel

/-! ### value parser -/

def isHexC (c : Char) : Bool := (hexVal c).isSome

def spanHex (cs : List Char) : List Char × List Char :=
  cs.span (fun c => isHexC c || c == '-' || c == '*' || c == '+')

def spanDigits (cs : List Char) : List Char × List Char := cs.span (fun c => c.isDigit)

/-- tail-recursive hex decoding (inputs of 2 MB occur) -/
def fromHexAcc : List Char → List UInt8 → Option (List UInt8)
  | [], acc => some acc.reverse
  | [_], _ => none
  | a :: b :: rest, acc => match hexVal a, hexVal b with
      | some x, some y => fromHexAcc rest (UInt8.ofNat (x * 16 + y) :: acc)
      | _, _ => none

/-- byte expression: segments joined by `+`; a segment is hex, `-` (empty) or `<n>*<hex>` (repeat) -/
def parseBytesExpr (s : String) : Option Bytes :=
  (s.splitOn "+").foldlM (fun acc seg =>
    match seg.splitOn "*" with
    | [h] => if h == "-" then some acc else (fromHexAcc h.toList []).map (acc ++ ·)
    | [n, h] => match n.toNat?, fromHexAcc h.toList [] with
        | some n, some u => some (acc ++ (List.replicate n u).flatten)
        | _, _ => none
    | _ => none) []

def parseHexTok (cs : List Char) : Option (Bytes × List Char) :=
  let (h, rest) := spanHex cs
  (parseBytesExpr (String.ofList h)).map (fun b => (b, rest))

/-- long outputs are printed as length + digest + head -/
def digest (bs : Bytes) : Nat := bs.foldl (fun h b => (h * 257 + b.toNat + 1) % 2305843009213693951) 0

def showBytes (bs : Bytes) : String :=
  if bs.length > 2048 then s!"big:{bs.length}:{digest bs}:{toHex (bs.take 16)}" else toHexD bs

mutual
partial def parseValue (cs : List Char) : Option (Value × List Char) :=
  match cs with
  | 'n' :: r => some (.null, r)
  | 'T' :: r => some (.bool true, r)
  | 'F' :: r => some (.bool false, r)
  | 'U' :: r => some (.unsupported, r)
  | 'i' :: r =>
    let (neg, r) := match r with
      | '-' :: r' => (true, r')
      | _ => (false, r)
    let (ds, rest) := spanDigits r
    (String.ofList ds).toNat?.map (fun n => (.int (if neg then -(n : Int) else n), rest))
  | 'f' :: r => match parseHexTok r with
      | some ([a, b, c, d], rest) => some (.f32 a b c d, rest)
      | _ => none
  | 'd' :: r => match parseHexTok r with
      | some (bs, rest) => if bs.length = 8 then some (.f64 (beNat bs), rest) else none
      | none => none
  | 's' :: r => (parseHexTok r).map (fun (b, rest) => (.str b, rest))
  | 'y' :: r => (parseHexTok r).map (fun (b, rest) => (.bytes b, rest))
  | 'L' :: '[' :: r => (parseList r).map (fun (xs, rest) => (.seq xs, rest))
  | 'S' :: '[' :: r => (parseList r).map (fun (xs, rest) => (.set xs, rest))
  | 'M' :: '[' :: r => (parsePairs r).map (fun (xs, rest) => (.map xs, rest))
  | 'O' :: r =>
    let (ds, rest) := spanDigits r
    match (String.ofList ds).toNat?, rest with
    | some tid, '[' :: rest => (parseList rest).map (fun (xs, rest) => (.object tid xs, rest))
    | _, _ => none
  | 'E' :: r =>
    let (ds, rest) := spanDigits r
    match (String.ofList ds).toNat?, rest with
    | some tid, '[' :: rest => match parseList rest with
        | some ([v], rest) => some (.enum tid v, rest)
        | _ => none
    | _, _ => none
  | 'C' :: r =>
    let (ds, rest) := spanDigits r
    match (String.ofList ds).toNat?, rest with
    | some tid, '[' :: rest => match parseList rest with
        | some ([.bytes k, v], rest) => some (.clientHello tid k v, rest)
        | _ => none
    | _, _ => none
  | 'H' :: r =>
    let (ds, rest) := spanDigits r
    match (String.ofList ds).toNat?, rest with
    | some tid, '[' :: rest => match parseList rest with
        | some ([.bytes a, .bytes b, s, t], rest) => some (.serverHello tid a b s t, rest)
        | _ => none
    | _, _ => none
  | _ => none
/-- after `[`: comma separated values up to `]` -/
partial def parseList (cs : List Char) : Option (List Value × List Char) :=
  match cs with
  | ']' :: r => some ([], r)
  | _ => match parseValue cs with
    | some (v, ',' :: r) => (parseList r).map (fun (xs, rest) => (v :: xs, rest))
    | some (v, ']' :: r) => some ([v], r)
    | _ => none
partial def parsePairs (cs : List Char) : Option (List (Value × Value) × List Char) :=
  match cs with
  | ']' :: r => some ([], r)
  | _ => match parseValue cs with
    | some (k, ':' :: r) => match parseValue r with
      | some (v, ',' :: r) => (parsePairs r).map (fun (xs, rest) => ((k, v) :: xs, rest))
      | some (v, ']' :: r) => some ([(k, v)], r)
      | _ => none
    | _ => none
end

def parseValueS (s : String) : Option Value :=
  match parseValue s.toList with
  | some (v, []) => some v
  | _ => none

/-! ### canonical printer (floats as doubles, NaN collapsed, sets sorted) -/

def hexN (n : Nat) (w : Nat) : String := toHex ((List.range w).reverse.map (fun i => UInt8.ofNat (n / 256 ^ i % 256)))

/-- float32 bits -> double bits (exact); none = NaN -/
def widenF32 (n : Nat) : Option Nat :=
  let s := n / 2 ^ 31
  let e := n / 2 ^ 23 % 256
  let m := n % 2 ^ 23
  if e = 255 then (if m = 0 then some (s * 2 ^ 63 + 2047 * 2 ^ 52) else none)
  else if e = 0 then
    if m = 0 then some (s * 2 ^ 63)
    else
      let p := Nat.log2 m
      some (s * 2 ^ 63 + (p + 1023 - 149) * 2 ^ 52 + (m - 2 ^ p) * 2 ^ (52 - p))
  else some (s * 2 ^ 63 + (e + 1023 - 127) * 2 ^ 52 + m * 2 ^ 29)

def showF64 (bits : Nat) : String :=
  if bits / 2 ^ 52 % 2048 = 2047 ∧ bits % 2 ^ 52 ≠ 0 then "dnan" else "d" ++ hexN bits 8

partial def showValue : Value → String
  | .null => "n"
  | .bool b => if b then "T" else "F"
  | .int i => "i" ++ toString i
  | .f32 a b c d => match widenF32 (beNat [a, b, c, d]) with
      | some w => showF64 w
      | none => "dnan"
  | .f64 bits => showF64 bits
  | .str s => "s" ++ showBytes s
  | .bytes s => "y" ++ showBytes s
  | .seq xs => "L[" ++ ",".intercalate (xs.map showValue) ++ "]"
  | .set xs => "S[" ++ ",".intercalate (((xs.map showValue).toArray.qsort (· < ·)).toList) ++ "]"
  | .map kvs => "M[" ++ ",".intercalate (kvs.map (fun (k, v) => showValue k ++ ":" ++ showValue v)) ++ "]"
  | .object tid fs => "O" ++ toString tid ++ "[" ++ ",".intercalate (fs.map showValue) ++ "]"
  | .enum tid v => "E" ++ toString tid ++ "[" ++ showValue v ++ "]"
  | .clientHello tid k v => "C" ++ toString tid ++ "[y" ++ toHexD k ++ "," ++ showValue v ++ "]"
  | .serverHello tid a b s t =>
      "H" ++ toString tid ++ "[y" ++ toHexD a ++ ",y" ++ toHexD b ++ "," ++ showValue s ++ "," ++ showValue t ++ "]"
  | .unsupported => "U"

/-! ### registry and oracle parsing -/

def parseKind (s : String) : Option Kind :=
  match s.toList with
  | ['C'] => some .clientHello
  | ['H'] => some .serverHello
  | 'O' :: '[' :: r => match parseList r with
      | some (xs, []) => some (.object xs)
      | _ => none
  | 'E' :: '[' :: r => match parseList r with
      | some (xs, []) => some (.enum xs)
      | _ => none
  | _ => none

def parseReg (s : String) : Option Registry :=
  if s == "-" then some [] else
  (s.splitOn ";").mapM (fun ent => match ent.splitOn "=" with
    | [a, b] => do
      let tid ← a.toNat?
      let k ← parseKind b
      pure (tid, k)
    | _ => none)

structure St where
  reg : Registry := []
  pad : Int := 1410

def parseOutcome (s : String) : Except Err Bytes :=
  if s.startsWith "ok:" then
    match fromHex (s.drop 3).toString with
    | some b => .ok b
    | none => .error .fuel
  else if s.startsWith "err:" then .error (errOfName (s.drop 4).toString)
  else if s == "ok" then .ok []
  else .error .fuel

/-- oracle tables from the trailing tokens of an op line -/
structure Oracles where
  serverKey : Option (Option Bytes) := none
  rootKey : Option Bytes := none
  parse : List (Bytes × Except Err Bytes) := []
  verify : List ((Bytes × Bytes × Bytes) × Except Err Bytes) := []
  sign : List (Bytes × Except Err Bytes) := []

def addOracle (o : Oracles) (tok : String) : Oracles :=
  match tok.splitOn "=" with
  | [l, r] =>
    if l == "k" then
      if r == "nokw" then { o with serverKey := none }
      else if r == "none" then { o with serverKey := some none }
      else { o with serverKey := (fromHex r).map some }
    else if l == "root" then { o with rootKey := fromHex r }
    else match l.splitOn ":" with
      | ["p", d] => match fromHex d with
          | some d => { o with parse := (d, parseOutcome r) :: o.parse }
          | none => o
      | ["sg", d] => match fromHex d with
          | some d => { o with sign := (d, parseOutcome r) :: o.sign }
          | none => o
      | ["v", k, s, p] => match fromHex k, fromHex s, fromHex p with
          | some k, some s, some p => { o with verify := ((k, s, p), parseOutcome r) :: o.verify }
          | _, _, _ => o
      | _ => o
  | _ => o

def lookupBy {α β : Type} [BEq α] (k : α) : List (α × β) → Option β
  | [] => none
  | (a, b) :: t => if a == k then some b else lookupBy k t

def mkEnv (st : St) (o : Oracles) : Env :=
  { reg := st.reg, padTarget := st.pad, serverKey := o.serverKey, rootKey := o.rootKey,
    parseKey := fun d => (lookupBy d o.parse).getD (.error .fuel),
    verify := fun k s p => match (lookupBy (k, s, p) o.verify).getD (.error .fuel) with
      | .ok _ => .ok ()
      | .error e => .error e,
    sign := fun d => (lookupBy d o.sign).getD (.error .fuel),
    urandom := fun n => List.replicate n 0xAB }

def showDec (bs : Bytes) (r : R (Value × Bytes)) : String :=
  match r.res with
  | .ok (v, rest) => s!"ok {showValue v} {bs.length - rest.length} c={r.cost} r={r.re}"
  | .error e => s!"err:{errName e} c={r.cost} r={r.re}"

partial def decMany (env : Env) (n : Nat) (bs : Bytes) (total : Nat) (acc : List String) : String :=
  if n = 0 then "ok " ++ " ".intercalate acc.reverse ++ s!" {total - bs.length}"
  else match decode env bs with
    | .ok (v, rest) => decMany env (n - 1) rest total (showValue v :: acc)
    | .error e => s!"err:{errName e} at={acc.length}"

def stepLine (st : St) (line : String) : St × List String :=
  match words line with
  | ["case", cid] => ({}, ["#case " ++ cid])
  | ["end"] => (st, [])
  | ["reg", pad, ents] => match parseInt pad, parseReg ents with
      | some p, some r => ({ st with reg := r, pad := p }, [])
      | _, _ => (st, ["bad-reg"])
  | "enc" :: v :: toks => match parseValueS v with
      | some val =>
        let env := mkEnv st (toks.foldl addOracle {})
        match encode env val with
        | .ok bs => (st, ["ok " ++ showBytes bs])
        | .error e => (st, ["err:" ++ errName e])
      | none => (st, ["bad-value"])
  | "dec" :: h :: toks => match parseBytesExpr h with
      | some bs =>
        let env := mkEnv st (toks.foldl addOracle {})
        (st, [showDec bs (decodeC env (bs.length + 1) bs)])
      | none => (st, ["bad-hex"])
  | "decs" :: h :: n :: toks => match parseBytesExpr h, n.toNat? with
      | some bs, some n => (st, [decMany (mkEnv st (toks.foldl addOracle {})) n bs bs.length []])
      | _, _ => (st, ["bad-op"])
  | ["rnd", h] => match fromHex h with
      | some bs => match roundF32 (beNat bs) with
          | some n => (st, ["ok " ++ hexN n 4])
          | none => (st, ["err:OverflowError"])
      | none => (st, ["bad-hex"])
  | ["utf", h] => match fromHex h with
      | some bs => (st, [if validUtf8 bs then "T" else "F"])
      | none => (st, ["bad-hex"])
  | [] => (st, [])
  | _ => (st, ["bad-op"])

def main : IO Unit := runLoop ({} : St) stepLine
