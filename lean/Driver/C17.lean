import MpgsModel.Model.Path
import MpgsModel.Model.DriverUtil
/-! Line-protocol driver for the path model.  `lake env lean --run Driver/C17.lean`

Every string travels as the hex of its UTF-8 encoding (`-` = empty string).

```
case <id>                      -> #case <id>
join <a> <b>                   -> s <hex>
normpath <p>                   -> s <hex>
abspath <cwd> <p>              -> s <hex>
split <p>                      -> l <hex>,<hex>,...
splitroot <p>                  -> r <hex> <hex>
fixsep <p>                     -> s <hex>
pjs <cwd> <root> <name>        -> ok <hex> | err:ValueError
end
```
-/
open Mpgs Mpgs.Path Mpgs.Util

def decodeStr (w : String) : Option Str := do
  let bs ← fromHex w
  let s ← String.fromUTF8? ⟨bs.toArray⟩
  pure s.toList

def encodeStr (s : Str) : String := toHexD (String.ofList s).toUTF8.toList

def stepLine (st : Unit) (line : String) : Unit × List String :=
  match words line with
  | ["case", cid] => (st, ["#case " ++ cid])
  | ["end"] => (st, [])
  | ["join", a, b] => match decodeStr a, decodeStr b with
      | some a, some b => (st, ["s " ++ encodeStr (join a b)])
      | _, _ => (st, ["bad-op"])
  | ["normpath", p] => match decodeStr p with
      | some p => (st, ["s " ++ encodeStr (normpath p)])
      | none => (st, ["bad-op"])
  | ["abspath", cwd, p] => match decodeStr cwd, decodeStr p with
      | some cwd, some p => (st, ["s " ++ encodeStr (abspath cwd p)])
      | _, _ => (st, ["bad-op"])
  | ["split", p] => match decodeStr p with
      | some p => (st, ["l " ++ ",".intercalate ((split p).map encodeStr)])
      | none => (st, ["bad-op"])
  | ["splitroot", p] => match decodeStr p with
      | some p => let r := splitroot p; (st, ["r " ++ encodeStr r.1 ++ " " ++ encodeStr r.2])
      | none => (st, ["bad-op"])
  | ["fixsep", p] => match decodeStr p with
      | some p => (st, ["s " ++ encodeStr (fixSep p)])
      | none => (st, ["bad-op"])
  | ["pjs", cwd, root, name] => match decodeStr cwd, decodeStr root, decodeStr name with
      | some cwd, some root, some name =>
          match pathJoinSafe cwd root name with
          | .ok p => (st, ["ok " ++ encodeStr p])
          | .error .valueError => (st, ["err:ValueError"])
      | _, _, _ => (st, ["bad-op"])
  | [] => (st, [])
  | _ => (st, ["bad-op"])

def main : IO Unit := runLoop () stepLine
