/-
Model layer `Regex` (C16/C17): a priority-ordered backtracking semantics for exactly the fragment
of CPython's `re` syntax that `Router.patternToRegex` (mpgameserver/http_server.py:963-1016)
generates:

  literal character (escaped)      `Re.chr`
  `[^\/]` / `.` under greedy `*`/`+` `Re.star cls min1`
  concatenation                    `Re.seq`
  alternation `a|b`                `Re.alt`      (left alternative first)
  greedy `(?:a)?` / `x?`           `Re.opt`      (try `a` first, then nothing)
  capture group                    `Re.grp i`
  `^`  (no MULTILINE)              `Re.bol`      (only at offset 0 of the subject)
  `$`  (no MULTILINE)              `Re.eol`      (at the end, or just before a final newline)

`runK` is a continuation-passing matcher returning the list of successes **in the order CPython's
backtracking engine explores them**; `re.match` is its first element.  No flags (the router calls
`re.compile(re_str)`), `str` subject, so `.` is "anything but \n" and `[^\/]` is "anything but /".
Core Lean only.
-/
namespace Mpgs.Regex

/-- the two character classes that occur -/
inductive Cls where
  | any        -- `.`
  | notSlash   -- `[^\/]`
  deriving Repr, DecidableEq

def Cls.ok : Cls → Char → Bool
  | .any, c => c != '\n'
  | .notSlash, c => c != '/'

inductive Re where
  | eps
  | chr (c : Char)
  | star (cls : Cls) (min1 : Bool)   -- greedy `cls*` (min1 = false) or `cls+` (min1 = true)
  | seq (a b : Re)
  | alt (a b : Re)
  | opt (a : Re)
  | grp (i : Nat) (a : Re)
  | bol
  | eol
  deriving Repr

/-- capture store: group index ↦ captured text (latest binding first) -/
abbrev Caps := List (Nat × List Char)
/-- continuation: what remains of the subject and the captures so far ↦ successes -/
abbrev Kont := List Char → Caps → List Caps

/-- all splits `(taken, rest)` of the maximal `cls`-prefix of the subject, longest first
    (the order in which a greedy repeat gives characters back) -/
def spans (cls : Cls) : List Char → List (List Char × List Char)
  | [] => [([], [])]
  | c :: cs =>
    if cls.ok c then (spans cls cs).map (fun p => (c :: p.1, p.2)) ++ [([], c :: cs)]
    else [([], c :: cs)]

/-- `$` without MULTILINE: at the very end, or before a newline that is the last character -/
def atEnd (r : List Char) : Bool := r == [] || r == ['\n']

/-- `n` = length of the whole subject (needed by `^` only) -/
def runK (n : Nat) : Re → List Char → Caps → Kont → List Caps
  | .eps, s, c, K => K s c
  | .chr x, s, c, K => match s with
      | y :: r => if x = y then K r c else []
      | [] => []
  | .star cls m, s, c, K =>
      (spans cls s).flatMap (fun p => if m && p.1.isEmpty then [] else K p.2 c)
  | .seq a b, s, c, K => runK n a s c (fun r c' => runK n b r c' K)
  | .alt a b, s, c, K => runK n a s c K ++ runK n b s c K
  | .opt a, s, c, K => runK n a s c K ++ K s c
  | .grp i a, s, c, K =>
      runK n a s c (fun r c' => K r ((i, s.take (s.length - r.length)) :: c'))
  | .bol, s, c, K => if s.length = n then K s c else []
  | .eol, s, c, K => if atEnd s then K s c else []

/-- `re.match(re, s)`: anchored at offset 0, need not consume the whole subject -/
def reMatch (re : Re) (s : List Char) : Option Caps :=
  (runK s.length re s [] (fun _ c => [c])).head?

def lookup (j : Nat) : Caps → Option (List Char)
  | [] => none
  | (i, v) :: rest => if i = j then some v else lookup j rest

/-- `m.groups()` for a regex with `ng` groups: `None` for a group that did not participate -/
def groups (ng : Nat) (c : Caps) : List (Option (List Char)) :=
  (List.range ng).map (fun j => lookup j c)

/-! ### concrete syntax (what `re_ptn.pattern` shows) -/

/-- `re.escape` of CPython 3.7+: a backslash before each of `()[]{}?*+-|^$\.&~# \t\n\r\v\f` -/
def isSpecial (c : Char) : Bool :=
  "()[]{}?*+-|^$\\.&~# \t\n\r\x0b\x0c".toList.contains c

/-- one literal character as the router writes it: `/` is hand-written as `\/`,
    everything else goes through `re.escape` -/
def escChar (c : Char) : List Char :=
  if c = '/' then ['\\', '/'] else if isSpecial c then ['\\', c] else [c]

def Cls.pretty : Cls → List Char
  | .any => ['.']
  | .notSlash => "[^\\/]".toList

def wrapNC (body : List Char) : List Char := "(?:".toList ++ body ++ [')']

/-- printer; faithful for the shapes `patternToRegex` builds (an alternation is always wrapped) -/
def Re.pretty : Re → List Char
  | .eps => []
  | .chr c => escChar c
  | .star cls m => cls.pretty ++ [if m then '+' else '*']
  | .seq a b =>
      (match a with | .alt .. => wrapNC a.pretty | _ => a.pretty) ++
      (match b with | .alt .. => wrapNC b.pretty | _ => b.pretty)
  | .alt a b => a.pretty ++ ['|'] ++ b.pretty
  | .opt a => (match a with | .chr _ => a.pretty | _ => wrapNC a.pretty) ++ ['?']
  | .grp _ a => ['('] ++ a.pretty ++ [')']
  | .bol => ['^']
  | .eol => ['$']

end Mpgs.Regex
