import MpgsModel.Model.Handshake
import MpgsModel.Model.ConnStep
/-
Model of the settings wrapper of `UdpClient` (mpgameserver/client.py:33-100 as repaired by the
`fix:` commits 7b352d3, b4c2387) and of the configuration record `ServerContext`
(mpgameserver/context.py:40-115) together with the two places of `UdpServerThread.run` that read it
(server.py:173-180 new connection, server.py:208-245 the sweep of both pools).  Core Lean only.

* setting values are `Int` (ticks in every differential run); the wrapper only copies them, so the
  model is unit-agnostic.  The constructor defaults (.1 s, 2 s, 1 s; 5 s, 2 s, .1 s, 1 s, 1/60 s on
  the server) are not multiples of a tick: they are a parameter of `new`.
* every API call returns `Except Err _`: the repaired setters have no raising path (before the
  repair two of them raised `NameError` once a connection existed); the differential run compares
  `ok` / `err:<class>` per call.
* `connect`: the socket is outside the model; `hello` = the bytes of the client hello message
  (random padding), `cb` = whether a connect callback was passed.
-/
namespace Mpgs.Conn
open Mpgs.Bytes Mpgs.Wire

/-! ### UdpClient -/

structure Settings where
  keepAlive : Int          -- `keep_alive_interval`
  tempTimeout : Int        -- `temp_connection_timeout` (connect time-out)
  outgoingTimeout : Int    -- `outgoing_timeout` (message time-out)
  deriving DecidableEq, Repr

structure Client where
  s : Settings
  pinned : Option Bytes := none      -- `server_public_key`
  conn : Option Conn := none         -- `self.conn`
  deriving Repr

/-- `UdpClient(server_public_key)` -/
def Client.new (d : Settings) (pinned : Option Bytes := none) : Client := { s := d, pinned := pinned }

inductive Call
  | setKeepAlive (v : Int)            -- `setKeepAliveInterval(v)`
  | setConnTimeout (v : Int)          -- `setConnectionTimeout(v)`
  | setMsgTimeout (v : Int)           -- `setMessageTimeout(v)`
  | connect (t : Int) (cb : Bool) (hello : Bytes)   -- `connect(addr, callback)` at clock `t`
  deriving Repr

/-- the connection object `connect` creates, before the hello is queued (client.py:92-99) -/
def Client.freshConn (cl : Client) (cb : Bool) : Conn :=
  { isServer := false, pinned := cl.pinned, hasConnectCb := cb,
    keepAlive := cl.s.keepAlive, tempTimeout := cl.s.tempTimeout, outgoingTimeout := cl.s.outgoingTimeout }

/-- one API call on the wrapper -/
def Client.apply (cl : Client) : Call → Except Err Client
  | .setKeepAlive v =>
    .ok { cl with s := { cl.s with keepAlive := v },
                  conn := cl.conn.map (fun c => { c with keepAlive := v }) }
  | .setConnTimeout v =>
    .ok { cl with s := { cl.s with tempTimeout := v },
                  conn := cl.conn.map (fun c => { c with tempTimeout := v }) }
  | .setMsgTimeout v =>
    .ok { cl with s := { cl.s with outgoingTimeout := v },
                  conn := cl.conn.map (fun c => { c with outgoingTimeout := v }) }
  | .connect t cb hello =>
    .ok { cl with conn := some (sendClientHello (cl.freshConn cb) t hello) }

/-- a sequence of API calls; stops at the first exception, as a Python program would -/
def Client.applyAll (cl : Client) : List Call → Except Err Client
  | [] => .ok cl
  | k :: ks =>
    match cl.apply k with
    | .error e => .error e
    | .ok cl' => cl'.applyAll ks

/-- the three values the live connection works with -/
def connSettings (c : Conn) : Settings := ⟨c.keepAlive, c.tempTimeout, c.outgoingTimeout⟩

/-! ### ServerContext and the places of the server loop that read it -/

structure ServerCtx where
  connectionTimeout : Int      -- `connection_timeout`
  tempTimeout : Int            -- `temp_connection_timeout`
  keepAlive : Int              -- `keep_alive_interval`
  outgoingTimeout : Int        -- `outgoing_timeout`
  interval : Int               -- `interval` (tick length)
  deriving DecidableEq, Repr

inductive CtxCall
  | setKeepAlive (v : Int) | setConnTimeout (v : Int) | setTempTimeout (v : Int)
  | setMsgTimeout (v : Int) | setInterval (v : Int)
  deriving Repr

def ServerCtx.apply (x : ServerCtx) : CtxCall → Except Err ServerCtx
  | .setKeepAlive v => .ok { x with keepAlive := v }
  | .setConnTimeout v => .ok { x with connectionTimeout := v }
  | .setTempTimeout v => .ok { x with tempTimeout := v }
  | .setMsgTimeout v => .ok { x with outgoingTimeout := v }
  | .setInterval v => .ok { x with interval := v }

def ServerCtx.applyAll (x : ServerCtx) : List CtxCall → Except Err ServerCtx
  | [] => .ok x
  | k :: ks =>
    match x.apply k with
    | .error e => .error e
    | .ok x' => x'.applyAll ks

/-- the connection object the loop creates for a CLIENT_HELLO from an unknown address
    (server.py:176-178): keep-alive interval and message time-out are copied from the context -/
def ServerCtx.newConn (x : ServerCtx) : Conn :=
  { isServer := true, keepAlive := x.keepAlive, outgoingTimeout := x.outgoingTimeout }

/-- sweep of the temp pool (server.py:234-236): is this half-open connection removed at clock `t`? -/
def sweepTempDrops (x : ServerCtx) (c : Conn) (t : Int) : Bool :=
  decide (c.status = .disconnected) || timedOut c t x.tempTimeout

/-- sweep of one established connection at clock `t` (server.py:208-232): a DISCONNECTING connection
    queues its final DISCONNECT first; the connection is removed (after `onDisconnect`) when it is
    DISCONNECTED or silent for `connection_timeout`; in both cases `update()` runs once more.
    Result: state after, removed?, events, what `update()` returned. -/
def sweepClient (sz : Sizes) (x : ServerCtx) (c : Conn) (t : Int) :
    Conn × Bool × List Event × Except Err (Option Packet) :=
  let c1 := if c.status = .disconnecting then disconnect c none else c
  let r := serverUpdate sz c1 t
  (r.1, decide (c1.status = .disconnected) || timedOut c1 t x.connectionTimeout, r.2.1, r.2.2)

/-- sweep of one half-open connection at clock `t` (server.py:234-243): removed without an update, or updated -/
def sweepTemp (sz : Sizes) (x : ServerCtx) (c : Conn) (t : Int) :
    Conn × Bool × List Event × Except Err (Option Packet) :=
  if sweepTempDrops x c t then (c, true, [], .ok none)
  else
    let r := serverUpdate sz c t
    (r.1, false, r.2.1, r.2.2)

/-! ### histories of an endpoint that also runs its `update()` method -/

/-- the send half of `UdpClient.update()` (client.py:205-213): at most one datagram per send
    interval (strictly more than `send_interval` since the last one), then the time-out scan; an
    exception from the build propagates before the scan -/
def clientSend (sz : Sizes) (c : Conn) (t : Int) : Conn × List Event × Except Err (Option Packet) :=
  if t - c.lastSend > c.sendInterval then
    match buildPacket sz c t with
    | (c1, .error e) => (c1, [], .error e)
    | (c1, .ok r) =>
      let r2 := checkTimeout c1 t
      (r2.1, r2.2, .ok r)
  else (c, [], .ok none)

/-- operations of a history: the endpoint operations of `ConnStep`, `ClientServerConnection.update()`,
    `ServerClientConnection.update()` and the send half of `UdpClient.update()`, each at a clock value -/
inductive XOp
  | base (op : Op)
  | cupd (t : Int)
  | supd (t : Int)
  | csend (t : Int)

/-- outputs of an `update()` that may hand a packet to the socket -/
def emitOuts (E : Env) (r : Conn × List Event × Except Err (Option Packet)) : Conn × List Out :=
  match r.2.2 with
  | .ok none => (r.1, r.2.1.map Out.ev)
  | .error e => (r.1, r.2.1.map Out.ev ++ [.raised e])
  | .ok (some pkt) =>
    match toBytes E.C r.1.key pkt with
    | .ok d => (r.1, r.2.1.map Out.ev ++ [.emit pkt.hdr d])
    | .error e => (r.1, r.2.1.map Out.ev ++ [.raised (Err.ofWire e)])

def xstep (E : Env) (c : Conn) : XOp → Conn × List Out
  | .base op => step E c op
  | .cupd t => ((clientUpdate c t).1, (clientUpdate c t).2.map Out.ev)
  | .supd t => emitOuts E (serverUpdate E.sz c t)
  | .csend t => emitOuts E (clientSend E.sz c t)

def xrun (E : Env) (c : Conn) : List XOp → Conn × List Out
  | [] => (c, [])
  | op :: ops =>
    let r1 := xstep E c op
    let r2 := xrun E r1.1 ops
    (r2.1, r1.2 ++ r2.2)

/-! ### the whole of `UdpClient.update()` -/

/-- the receive half of `UdpClient.update()` as repaired by 3918c48 (client.py:197-208): every
    datagram waiting on the socket is read, in arrival order, at this call's clock value; an
    exception (a header that does not decode, a handler that raises) propagates out of `update()`
    and leaves the rest unread.  Result: state, outputs, datagrams left unread, the exception. -/
def clientDrain (E : Env) (c : Conn) (t : Int) : List Bytes → Conn × List Out × List Bytes × Option Err
  | [] => (c, [], [], none)
  | d :: rest =>
    match decodeHdr false d with
    | .error e => (c, [], rest, some (Err.ofWire e))
    | .ok h =>
      let r := recvDatagram E.C E.R c t h d
      match r.2.2 with
      | .raised e => (r.1, r.2.1.map Out.ev ++ [.ret (.raised e)], rest, some e)
      | ret =>
        let r2 := clientDrain E r.1 t rest
        (r2.1, (r.2.1.map Out.ev ++ [.ret ret]) ++ r2.2.1, r2.2.2.1, r2.2.2.2)

/-- `UdpClient.update()` at clock `t` with `inbox` = the datagrams waiting on the socket:
    `conn.update()`; nothing more when DROPPED; else drain the socket, then the send half.
    Result: state, outputs, datagrams left unread. -/
def clientUpdateFull (E : Env) (c : Conn) (t : Int) (inbox : List Bytes) : Conn × List Out × List Bytes :=
  let r1 := clientUpdate c t
  if r1.1.status = .dropped then (r1.1, r1.2.map Out.ev, inbox)
  else
    let r2 := clientDrain E r1.1 t inbox
    match r2.2.2.2 with
    | some e => (r2.1, r1.2.map Out.ev ++ r2.2.1 ++ [.raised e], r2.2.2.1)
    | none =>
      let r3 := emitOuts E (clientSend E.sz r2.1 t)
      (r3.1, r1.2.map Out.ev ++ r2.2.1 ++ r3.2, r2.2.2.1)

end Mpgs.Conn
