/-
Decimal text of Python ints, as used by `json.dumps` for `int` dictionary keys (`str(n)`) and by
`int(s)` in `_fromJsonBasic` on the way back.  Core Lean only.

Python -> Lean
* `str` is a list of code points `List Char` (no lone surrogates).
* `str(n)` / the JSON encoder's key text for an `int`  ->  `toDecimal n` (optional `-`, then the
  decimal digits, most significant first, no leading zeros except for `0`).
* `int(s)` for a `str`  ->  `pyParseInt s : Option Int` (`none` = `ValueError`): surrounding
  white space is stripped (TAB..CR and SPACE; observed: CPython's `int()` does not strip FS..US), one optional
  sign, then decimal digits with single underscores allowed strictly between digits (PEP 515).
  Non-ASCII digits / white space that CPython would also accept are not modelled (the harness
  only feeds ASCII text into integer positions; such text is rejected here with `none`).
* CPython's 4300-digit limit on int<->str conversion is not modelled (stated assumption).
-/
namespace Mpgs.Json

abbrev Str := List Char

def digitChar (d : Nat) : Char := Char.ofNat (48 + d)

/-- decimal digits of `n`, least significant first; `fuel > n` suffices -/
def revDigits : Nat → Nat → List Char
  | 0, _ => []
  | fuel + 1, n => digitChar (n % 10) :: (if n / 10 = 0 then [] else revDigits fuel (n / 10))

def natDec (n : Nat) : Str := (revDigits (n + 1) n).reverse

/-- `str(n)` -/
def toDecimal : Int → Str
  | .ofNat n => natDec n
  | .negSucc n => '-' :: natDec (n + 1)

def digitVal (c : Char) : Option Nat :=
  if 48 ≤ c.toNat ∧ c.toNat ≤ 57 then some (c.toNat - 48) else none

/-- digits with single underscores strictly between digits; `prev` = the previous character was
a digit (initially `false`), `acc` = value so far -/
def parseDigits : List Char → Nat → Bool → Option Nat
  | [], acc, prev => if prev then some acc else none
  | c :: cs, acc, prev =>
    if c = '_' then (if prev then parseDigits cs acc false else none)
    else match digitVal c with
      | some d => parseDigits cs (acc * 10 + d) true
      | none => none

def isPySpace (c : Char) : Bool :=
  c.toNat = 32 || (9 ≤ c.toNat && c.toNat ≤ 13)

def pyStrip (s : Str) : Str := ((s.dropWhile isPySpace).reverse.dropWhile isPySpace).reverse

/-- `int(s)` for a `str`; `none` = `ValueError` -/
def pyParseInt (s : Str) : Option Int :=
  match pyStrip s with
  | '-' :: r => (parseDigits r 0 false).map (fun n => - (Int.ofNat n))
  | '+' :: r => (parseDigits r 0 false).map Int.ofNat
  | r => (parseDigits r 0 false).map Int.ofNat

end Mpgs.Json
