import MpgsModel.Model.Regex
/-
Model layer `Router` (C16): `Router.registerRoutes / patternToRegex / getRoute / dispatch` of
mpgameserver/http_server.py:876-1038, following the code **after** the two repairs
fixes/C16-1.patch (`:name+` → `\/(.+)`, the slash is mandatory) and fixes/C16-2.patch (literal
segments go through `re.escape`).

`Spec` (bottom of the file) is the *documented* matching rule, stated on path segments and without
any regular expression; Props/C16.lean proves the compiled regex equivalent to it.
Core Lean only.
-/
namespace Mpgs.Router
open Mpgs.Regex

inductive Err where
  | valueError
  deriving Repr, DecidableEq

/-- one pattern segment (`part`) after classification -/
inductive Elem where
  | lit (s : List Char)      -- `/abc`
  | param (n : List Char)    -- `/:n`
  | opt (n : List Char)      -- `/:n?`
  | plus (n : List Char)     -- `/:n+`
  | star (n : List Char)     -- `/:n*`
  deriving Repr, DecidableEq

/-- Python's `str.split('/')` -/
def splitSlash : List Char → List (List Char)
  | [] => [[]]
  | c :: cs =>
    if c = '/' then [] :: splitSlash cs
    else match splitSlash cs with
      | h :: t => (c :: h) :: t
      | [] => [[c]]

/-- the `if part.startswith(':')` ladder of patternToRegex (`part` is non-empty) -/
def classify (part : List Char) : Elem :=
  match part with
  | ':' :: rest =>
    match part.getLast? with
    | some '?' => .opt rest.dropLast
    | some '*' => .star rest.dropLast
    | some '+' => .plus rest.dropLast
    | _ => .param rest
  | _ => .lit part

/-- `parts = [part for part in pattern.split("/") if part]`, classified -/
def parsePattern (pattern : List Char) : List Elem :=
  ((splitSlash pattern).filter (fun p => !p.isEmpty)).map classify

def Elem.isFinal : Elem → Bool
  | .opt _ | .plus _ | .star _ => true
  | _ => false

/-- the token appended for a part (`None` for a literal part) -/
def Elem.token : Elem → Option (List Char)
  | .lit _ => none
  | .param n | .opt n | .plus n | .star n => some n

def Elem.ngroups (e : Elem) : Nat := if e.token.isSome then 1 else 0

def tokens (es : List Elem) : List (List Char) := es.filterMap Elem.token

/-- `re.escape(part)`, character by character -/
def litRe : List Char → Re
  | [] => .eps
  | c :: cs => .seq (.chr c) (litRe cs)

/-- the regex text appended for one part; `i` = index of the capture group it opens -/
def elemRe (i : Nat) : Elem → Re
  | .lit s => .seq (.chr '/') (litRe s)                                     -- `\/` + re.escape(part)
  | .param _ => .seq (.chr '/') (.grp i (.star .notSlash true))             -- `\/([^\/]+)`
  | .opt _ => .opt (.alt (.seq (.chr '/') (.grp i (.star .notSlash false))) (.chr '/'))  -- `(?:\/([^\/]*)|\/)?`
  | .plus _ => .seq (.chr '/') (.grp i (.star .any true))                   -- `\/(.+)`   (repaired)
  | .star _ => .opt (.alt (.seq (.chr '/') (.grp i (.star .any false))) (.chr '/'))      -- `(?:\/(.*)|\/)?`

/-- `\/?$` — the code appends `\/?` unless the text so far is exactly `^\/`, which cannot happen
    (a part is never empty), so it is always appended -/
def tailRe : Re := .seq (.opt (.chr '/')) .eol

/-- the loop over `parts`; `final` = a `?`/`*`/`+` parameter has been seen; a second one raises -/
def compileElems : List Elem → Bool → Nat → Except Err Re
  | [], _, _ => .ok tailRe
  | e :: es, final, i =>
    if e.isFinal && final then .error .valueError
    else match compileElems es (final || e.isFinal) (i + e.ngroups) with
      | .ok r => .ok (.seq (elemRe i e) r)
      | .error x => .error x

/-- `patternToRegex` on classified parts: (regex, tokens) or `ValueError` -/
def compile (es : List Elem) : Except Err (Re × List (List Char)) :=
  match compileElems es false 0 with
  | .ok r => .ok (.seq .bol r, tokens es)
  | .error x => .error x

def patternToRegex (pattern : List Char) : Except Err (Re × List (List Char)) :=
  compile (parsePattern pattern)

/-! ### route table -/

structure Route where
  id : Nat
  method : String
  pattern : List Char
  deriving Repr

structure Entry where
  re : Re
  tokens : List (List Char)
  route : Route
  deriving Repr

/-- `route_table`: method ↦ entries in registration order (the four keys always exist) -/
abbrev Table := List (String × List Entry)

def emptyTable : Table := [("DELETE", []), ("GET", []), ("POST", []), ("PUT", [])]

def tableGet (m : String) : Table → Option (List Entry)
  | [] => none
  | (k, v) :: rest => if k = m then some v else tableGet m rest

def tableAppend (m : String) (e : Entry) : Table → Table
  | [] => []
  | (k, v) :: rest => if k = m then (k, v ++ [e]) :: rest else (k, v) :: tableAppend m e rest

/-- body of the loop in `registerRoutes` for one route -/
def register (t : Table) (r : Route) : Except Err Table :=
  match patternToRegex r.pattern with
  | .error x => .error x
  | .ok (re, toks) =>
    match tableGet r.method t with
    | none => .error .valueError
    | some _ => .ok (tableAppend r.method ⟨re, toks, r⟩ t)

/-- `registerRoutes`: routes before a failing one stay registered -/
def registerRoutes : Table → List Route → Table × Option Err
  | t, [] => (t, none)
  | t, r :: rs => match register t r with
    | .error x => (t, some x)
    | .ok t' => registerRoutes t' rs

/-- `{k: v for k, v in zip(tokens, m.groups())}` — a dict: a repeated key keeps its first position
    and takes the last value -/
def dictSet (k : List Char) (v : Option (List Char)) :
    List (List Char × Option (List Char)) → List (List Char × Option (List Char))
  | [] => [(k, v)]
  | (k', v') :: rest => if k' = k then (k', v) :: rest else (k', v') :: dictSet k v rest

def mkDict (kvs : List (List Char × Option (List Char))) : List (List Char × Option (List Char)) :=
  kvs.foldl (fun d kv => dictSet kv.1 kv.2 d) []

abbrev Bindings := List (List Char × Option (List Char))

def firstMatch (path : List Char) : List Entry → Option (Route × Bindings)
  | [] => none
  | e :: es => match reMatch e.re path with
    | some caps => some (e.route, mkDict (e.tokens.zip (groups e.tokens.length caps)))
    | none => firstMatch path es

/-- `getRoute(method, path)` -/
def getRoute (t : Table) (method : String) (path : List Char) : Option (Route × Bindings) :=
  match tableGet method t with
  | none => none
  | some es => firstMatch path es

inductive Resp where
  | tooMany                                  -- 429
  | notFound                                 -- 404
  | routed (r : Route) (b : Bindings)        -- the route's callback answers
  deriving Repr

/-- `dispatch`; `limited` = what `self.limiter.insert(addr)` returned (oracle, not modelled) -/
def dispatch (t : Table) (limited : Bool) (method : String) (path : List Char) : Resp :=
  if limited then .tooMany
  else match getRoute t method path with
    | none => .notFound
    | some (r, b) => .routed r b

def Resp.status? : Resp → Option Nat
  | .tooMany => some 429
  | .notFound => some 404
  | .routed .. => none

/-! ### Spec: the documented rule, on segments

docs/http.md and the `Resource` docstring:
```
/abc        - match exactly. e.g. '/abc'
/:abc       - match a path component exactly once. e.g. '/one' or '/two'
/:abc?      - match a path component 0 or 1 times. e.g. '/' or '/one'
/:abc+      - match a path component 1 or more times. e.g. '/one' or '/one/two'
/:abc*      - match a path component 0 or more times. e.g. '/' or '/one' or '/one/two'
```
A path is `/seg/seg/…/seg`; one trailing `/` is tolerated, i.e. a path matches when it or it minus
its final `/` matches.  Where the documentation is silent (empty segments, i.e. `//`) the Spec
fixes: a literal never equals an empty segment (literal parts are non-empty), `:n` needs a
non-empty segment, `:n?` and `:n*` accept empty segments, `:n+` binds one or more segments whose
joined text is not empty.  On paths without empty segments none of these choices is visible.
-/
namespace Spec

abbrev Seg := List Char
/-- reported values, one per parameter in pattern order; `none` = parameter absent -/
abbrev Vals := List (Option (List Char))

/-- `"/".join(segs)` -/
def joinSlash : List Seg → List Char
  | [] => []
  | [x] => x
  | x :: xs => x ++ '/' :: joinSlash xs

/-- all ways to cut a list in two, longest first part first -/
def splits : List Seg → List (List Seg × List Seg)
  | [] => [([], [])]
  | x :: xs => (splits xs).map (fun p => (x :: p.1, p.2)) ++ [([], x :: xs)]

/-- every way the segments can be distributed over the pattern, as the list of reported values;
    longest binding first -/
def segSols : List Elem → List Seg → List Vals
  | [], xs => if xs.isEmpty then [[]] else []
  | .lit s :: ps, xs => match xs with
      | x :: xs' => if x = s then segSols ps xs' else []
      | [] => []
  | .param _ :: ps, xs => match xs with
      | x :: xs' => if x.isEmpty then [] else (segSols ps xs').map (fun b => some x :: b)
      | [] => []
  | .opt _ :: ps, xs =>
      (match xs with
        | x :: xs' => (segSols ps xs').map (fun b => some x :: b)
        | [] => [])
      ++ (segSols ps xs).map (fun b => none :: b)
  | .plus _ :: ps, xs =>
      (splits xs).flatMap (fun p =>
        -- (an empty joined text covers "no segment at all": joinSlash [] = "")
        if (joinSlash p.1).isEmpty then []
        else (segSols ps p.2).map (fun b => some (joinSlash p.1) :: b))
  | .star _ :: ps, xs =>
      (splits xs).flatMap (fun p =>
        if p.1.isEmpty then []
        else (segSols ps p.2).map (fun b => some (joinSlash p.1) :: b))
      ++ (segSols ps xs).map (fun b => none :: b)

/-- segments of a path written `/s1/s2/…/sn` (`""` has none; `"/"` has one empty segment) -/
def strictSegs (path : List Char) : List Seg := (splitSlash path).tail

/-- without / with the tolerated trailing slash -/
def sols (pat : List Elem) (path : List Char) : List Vals :=
  segSols pat (strictSegs path) ++
  (if path.getLast? = some '/' then segSols pat (strictSegs path.dropLast) else [])

/-- (`matches` is a reserved word in Lean 4, hence the name) -/
def pathMatches (pat : List Elem) (path : List Char) : Bool := !(sols pat path).isEmpty

/-- the reported values (greediest assignment) -/
def bindings (pat : List Elem) (path : List Char) : Option Vals := (sols pat path).head?

/-! #### the plain reading, for comparison

On paths without empty segments the rule above is just: drop one trailing `/` if there is one, what
remains is `/s1/…/sn`, and the parts consume `s1 … sn` from left to right (`C16_spec_is_plain_rule`). -/

def plainSegs (path : List Char) : List Seg :=
  strictSegs (if path.getLast? = some '/' then path.dropLast else path)

def segPlain : List Elem → List Seg → Bool
  | [], xs => xs.isEmpty
  | .lit s :: ps, xs => match xs with
      | x :: xs' => x == s && segPlain ps xs'
      | [] => false
  | .param _ :: ps, xs => match xs with
      | x :: xs' => !x.isEmpty && segPlain ps xs'
      | [] => false
  | .opt _ :: ps, xs =>
      segPlain ps xs || (match xs with
        | _ :: xs' => segPlain ps xs'
        | [] => false)
  | .plus _ :: ps, xs => (splits xs).any (fun p => !p.1.isEmpty && segPlain ps p.2)
  | .star _ :: ps, xs => (splits xs).any (fun p => segPlain ps p.2)

def plainMatches (pat : List Elem) (path : List Char) : Bool := segPlain pat (plainSegs path)

/-- no empty segment, i.e. no `//` in the path -/
def clean (path : List Char) : Bool := (plainSegs path).all (fun x => !x.isEmpty)

end Spec

end Mpgs.Router
