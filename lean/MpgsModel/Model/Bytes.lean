/-
Byte-level helpers shared by the wire models: big-endian packing as `struct.pack(">H"/">L")`
does it, Python slicing, CRC-32 (`binascii.crc32`, bitwise), hex-free.  Core Lean only.
-/
namespace Mpgs

abbrev Bytes := List UInt8

namespace Bytes

/-- `struct.pack(">B", n)` for `n < 256` (range checked by the caller) -/
def be8 (n : Nat) : Bytes := [UInt8.ofNat n]
/-- `struct.pack(">H", n)` for `n < 65536` -/
def be16 (n : Nat) : Bytes := [UInt8.ofNat (n / 256), UInt8.ofNat (n % 256)]
/-- `struct.pack(">L", n)` for `n < 2^32` -/
def be32 (n : Nat) : Bytes :=
  [UInt8.ofNat (n / 16777216), UInt8.ofNat (n / 65536 % 256), UInt8.ofNat (n / 256 % 256),
   UInt8.ofNat (n % 256)]

/-- big-endian value of a byte string (`int.from_bytes(b, "big")`) -/
def beVal : Bytes → Nat
  | bs => bs.foldl (fun acc b => acc * 256 + b.toNat) 0

/-- `b[:n]` -/
def take (n : Nat) (b : Bytes) : Bytes := List.take n b
/-- `b[n:]` -/
def drop (n : Nat) (b : Bytes) : Bytes := List.drop n b
/-- `b[i:j]` for `0 ≤ i`, `0 ≤ j` -/
def slice (i j : Nat) (b : Bytes) : Bytes := List.take (j - i) (List.drop i b)

/-! ### CRC-32 (IEEE, reflected, as `binascii.crc32`) -/

def crcBit (c : Nat) : Nat := if c % 2 = 1 then (c / 2) ^^^ 0xEDB88320 else c / 2

def crcByte (c : Nat) (b : UInt8) : Nat :=
  let c0 := c ^^^ b.toNat
  crcBit (crcBit (crcBit (crcBit (crcBit (crcBit (crcBit (crcBit c0)))))))

def crc32 (bs : Bytes) : Nat := (bs.foldl crcByte 0xFFFFFFFF) ^^^ 0xFFFFFFFF

/-! ### deterministic payload expansion shared with the Python harness (`len=<n> seed=<k>`) -/

def lcgNext (s : Nat) : Nat := (s * 1103515245 + 12345) % 4294967296

def lcgBytes : Nat → Nat → Bytes
  | 0, _ => []
  | n + 1, s => let s' := lcgNext s; UInt8.ofNat (s' / 65536 % 256) :: lcgBytes n s'

end Bytes
end Mpgs
