/-
Model of the WebSocket part of mpgameserver/http_server.py (repaired code):
`WebSocketOpCode`, `WebSocketFrame` (:164-318), `readFrameFactory` / `writeFrameFactory` (:320-343),
`WebSocketTemporaryRingBuffer` (:345-384), `WebSocketTemporaryHandler` (:386-451) and the raw-mode
forwarding of `HTTPFactory.Channel.dataReceived` (one `Handler.call` per TCP read).
Core Lean only.

Python -> Lean
* bytes -> `List UInt8` (`Buf`); Python ints -> `Nat`; `struct.pack/unpack` are modelled by hand
  (`packB`, `packH`, `packQ`, `unpackH`, `unpackQ`) with `struct.error` outside the range / on a
  short buffer.
* the socket the frame reader pulls from is the ring buffer: `recv n` returns at most `n` bytes
  and never fails (short reads are silent, exactly as `buf[:n]`).  Every reader returns the
  remaining buffer together with its result, *also on an exception*, because the bytes consumed
  before the exception stay consumed in the real object.
* the flag attributes `fin, rsv1..3, mask` only ever hold 0/1 (constructors and `parseHeader`):
  `Bool`.  `flags.opcode` is a `WebSocketOpCode`: enum `OpCode` (with the non-standard pseudo
  opcode `Open = 0xFF`, which never travels on the wire).
* a decoded Text payload (Python `str`) is represented by its UTF-8 bytes; `bytes.decode("utf-8")`
  is `validUtf8` (strict: no overlongs, no surrogates, nothing above U+10FFFF) + identity.
* the endpoint callback and the transport are outputs: `Event.deliver` / `Event.wrote`
  (one `wrote` per `sendall`).  The callback is assumed not to raise and not to re-enter.
* exceptions: `ValueError`, `struct.error`, `IndexError`, `UnicodeDecodeError`, bare `Exception`.

* `hasFrame` (the completeness test added by the repair) is modelled twice: `hasFrame`, by pattern
  matching on the buffer (used by the loop), and `hasFrameLit`, a statement-by-statement
  transcription; `C18_hasFrame_literal` proves them equal.

`Rfc` is an independent description of the RFC 6455 §5.2 wire format, written with arithmetic
(`*`, `/`, `%`) and sharing nothing with the library model (which uses the shifts and masks of
the Python source).
-/
namespace Mpgs.WebSocket

abbrev Buf := List UInt8

inductive Err | valueError | structError | indexError | unicodeError | exception
  deriving DecidableEq, Repr

/-- `WebSocketOpCode` -/
inductive OpCode | open_ | close | ping | pong | text | binary
  deriving DecidableEq, Repr

def OpCode.value : OpCode → Nat
  | .open_ => 0xFF
  | .close => 0x8
  | .ping => 0x9
  | .pong => 0xA
  | .text => 0x1
  | .binary => 0x2

/-- `WebSocketOpCode(v)`: `ValueError` unless `v` is the value of a member -/
def OpCode.ofValue (v : Nat) : Except Err OpCode :=
  if v = 0xFF then .ok .open_
  else if v = 0x8 then .ok .close
  else if v = 0x9 then .ok .ping
  else if v = 0xA then .ok .pong
  else if v = 0x1 then .ok .text
  else if v = 0x2 then .ok .binary
  else .error .valueError

/-- the opcodes that are RFC 6455 wire opcodes (4 bits); `Open` is the library's pseudo opcode
    for the connect event -/
def OpCode.isWire (o : OpCode) : Bool := o != .open_

def b2n (b : Bool) : Nat := if b then 1 else 0

/-! ## RFC 6455 §5.2, independent reference -/

/-- masking key: exactly four octets -/
structure Key where
  k0 : UInt8
  k1 : UInt8
  k2 : UInt8
  k3 : UInt8
  deriving DecidableEq, Repr

def Key.get (k : Key) (i : Nat) : UInt8 :=
  match i % 4 with
  | 0 => k.k0
  | 1 => k.k1
  | 2 => k.k2
  | _ => k.k3

def Key.toList (k : Key) : Buf := [k.k0, k.k1, k.k2, k.k3]

/-- an RFC 6455 frame: `mask = some key` for a masked (client-to-server) frame; `payload` is
    the application data (unmasked) -/
structure Frame where
  fin : Bool
  rsv1 : Bool
  rsv2 : Bool
  rsv3 : Bool
  opcode : OpCode
  mask : Option Key
  payload : Buf
  deriving DecidableEq, Repr

namespace Rfc

/-- §5.3: octet `i` of the transformed data is octet `i` of the original XOR octet `i mod 4` of
    the key (`i` = index of the first octet of the list) -/
def mask (k : Key) : Nat → Buf → Buf
  | _, [] => []
  | i, b :: bs => (b ^^^ k.get i) :: mask k (i + 1) bs

/-- the extended payload length field: nothing, 16 bit or 64 bit, network byte order -/
def extLen (n : Nat) : Buf :=
  if n ≤ 125 then []
  else if n ≤ 65535 then [UInt8.ofNat (n / 256), UInt8.ofNat (n % 256)]
  else [UInt8.ofNat (n / 2 ^ 56), UInt8.ofNat (n / 2 ^ 48 % 256), UInt8.ofNat (n / 2 ^ 40 % 256),
        UInt8.ofNat (n / 2 ^ 32 % 256), UInt8.ofNat (n / 2 ^ 24 % 256), UInt8.ofNat (n / 2 ^ 16 % 256),
        UInt8.ofNat (n / 2 ^ 8 % 256), UInt8.ofNat (n % 256)]

/-- the 7-bit payload length field -/
def lenCode (n : Nat) : Nat :=
  if n ≤ 125 then n else if n ≤ 65535 then 126 else 127

/-- first octet: FIN RSV1 RSV2 RSV3 opcode(4) -/
def byte0 (f : Frame) : UInt8 :=
  UInt8.ofNat (128 * b2n f.fin + 64 * b2n f.rsv1 + 32 * b2n f.rsv2 + 16 * b2n f.rsv3 + f.opcode.value)

/-- second octet: MASK payload-len(7) -/
def byte1 (f : Frame) : UInt8 :=
  UInt8.ofNat (128 * b2n f.mask.isSome + lenCode f.payload.length)

/-- the octets of a frame on the wire -/
def encode (f : Frame) : Buf :=
  [byte0 f, byte1 f] ++ extLen f.payload.length ++
    (match f.mask with
     | none => f.payload
     | some k => k.toList ++ mask k 0 f.payload)

end Rfc

/-! ## `struct` -/

def packB (n : Nat) : Except Err UInt8 :=
  if n < 256 then .ok (UInt8.ofNat n) else .error .structError

/-- `struct.pack("BB", a, b)` -/
def packBB (a b : Nat) : Except Err Buf :=
  match packB a, packB b with
  | .ok x, .ok y => .ok [x, y]
  | _, _ => .error .structError

/-- `struct.pack("!H", n)` -/
def packH (n : Nat) : Except Err Buf :=
  if n < 65536 then .ok [UInt8.ofNat (n >>> 8), UInt8.ofNat (n &&& 0xFF)] else .error .structError

/-- `struct.pack("!Q", n)` -/
def packQ (n : Nat) : Except Err Buf :=
  if n < 2 ^ 64 then
    .ok [UInt8.ofNat (n >>> 56), UInt8.ofNat ((n >>> 48) &&& 0xFF), UInt8.ofNat ((n >>> 40) &&& 0xFF),
         UInt8.ofNat ((n >>> 32) &&& 0xFF), UInt8.ofNat ((n >>> 24) &&& 0xFF),
         UInt8.ofNat ((n >>> 16) &&& 0xFF), UInt8.ofNat ((n >>> 8) &&& 0xFF), UInt8.ofNat (n &&& 0xFF)]
  else .error .structError

def be16 (a b : UInt8) : Nat := a.toNat * 256 + b.toNat

def be64 (a b c d e f g h : UInt8) : Nat :=
  a.toNat * 2 ^ 56 + b.toNat * 2 ^ 48 + c.toNat * 2 ^ 40 + d.toNat * 2 ^ 32 +
  e.toNat * 2 ^ 24 + f.toNat * 2 ^ 16 + g.toNat * 2 ^ 8 + h.toNat

/-- `struct.unpack("!H", data)`: `struct.error` unless exactly two bytes -/
def unpackH : Buf → Except Err Nat
  | [a, b] => .ok (be16 a b)
  | _ => .error .structError

/-- `struct.unpack("!Q", data)`: `struct.error` unless exactly eight bytes -/
def unpackQ : Buf → Except Err Nat
  | [a, b, c, d, e, f, g, h] => .ok (be64 a b c d e f g h)
  | _ => .error .structError

/-! ## `WebSocketFrame` -/

/-- the attributes of a `WebSocketFrame` object.  `length7` is `flags.length` (the 7-bit field as
    parsed; constructors leave it 0), `payload` is the `payload` attribute: what `writeData` puts on
    the wire, and after `readData` the unmasked data. -/
structure LibFrame where
  fin : Bool
  rsv1 : Bool
  rsv2 : Bool
  rsv3 : Bool
  opcode : OpCode
  mask : Bool
  length7 : Nat
  payloadLength : Nat
  maskingKey : Buf
  payload : Buf
  deriving DecidableEq, Repr

/-- what the static constructors `Ping/Pong/Text/Binary/Close` build: fin = 1, no mask,
    `payload_length = len(payload)` -/
def LibFrame.build (op : OpCode) (payload : Buf) : LibFrame :=
  { fin := true, rsv1 := false, rsv2 := false, rsv3 := false, opcode := op, mask := false,
    length7 := 0, payloadLength := payload.length, maskingKey := [0, 0, 0, 0], payload := payload }

def LibFrame.Ping (message : Buf) : LibFrame := .build .ping message
def LibFrame.Pong (message : Buf) : LibFrame := .build .pong message
def LibFrame.Binary (message : Buf) : LibFrame := .build .binary message
/-- `Text(message)`: `message.encode("utf-8")`; the `str` is given by its UTF-8 bytes -/
def LibFrame.Text (messageUtf8 : Buf) : LibFrame := .build .text messageUtf8
/-- `Close(status, message)`: payload = `struct.pack("!H", status) + message` -/
def LibFrame.Close (status : Nat) (message : Buf) : Except Err LibFrame :=
  match packH status with
  | .ok s => .ok (.build .close (s ++ message))
  | .error e => .error e

/-- `parseHeader(hdr)` (`struct.unpack("!BB", hdr)` needs exactly two bytes) -/
def parseHeader : Buf → Except Err LibFrame
  | [a, b] =>
    let flags := a.toNat
    let length := b.toNat
    match OpCode.ofValue ((flags &&& 0x0F) >>> 0) with
    | .error e => .error e
    | .ok op =>
      .ok { fin := (flags &&& 0x80) >>> 7 != 0
            rsv1 := (flags &&& 0x40) >>> 6 != 0
            rsv2 := (flags &&& 0x20) >>> 5 != 0
            rsv3 := (flags &&& 0x10) >>> 4 != 0
            opcode := op
            mask := length &&& 0x80 != 0
            length7 := length &&& 0x7F
            payloadLength := 0
            maskingKey := [0, 0, 0, 0]
            payload := [] }
  | _ => .error .structError

/-- `socket.recv(n)` on the ring buffer: `(data, remaining buffer)` -/
def recv (n : Nat) (buf : Buf) : Buf × Buf := (buf.take n, buf.drop n)

/-- `readHeader(socket)`: (remaining buffer, result) -/
def readHeader (buf : Buf) : Buf × Except Err LibFrame :=
  let (hdr, buf) := recv 2 buf
  if hdr.isEmpty then (buf, .error .valueError)
  else (buf, parseHeader hdr)

/-- first half of `readDataHeader`: the payload length, from the 7-bit field or from the
    extended field (repaired: `elif length == 127`) -/
def readExtLen (f : LibFrame) (buf : Buf) : Buf × Except Err Nat :=
  if f.length7 = 126 then
    let (d, buf) := recv 2 buf
    (buf, unpackH d)
  else if f.length7 = 127 then
    let (d, buf) := recv 8 buf
    (buf, unpackQ d)
  else (buf, .ok f.length7)

/-- `readDataHeader(socket)` -/
def readDataHeader (f : LibFrame) (buf : Buf) : Buf × Except Err LibFrame :=
  match readExtLen f buf with
  | (buf, .error e) => (buf, .error e)
  | (buf, .ok n) =>
    if f.mask then
      let (k, buf) := recv 4 buf
      (buf, .ok { f with payloadLength := n, maskingKey := k })
    else (buf, .ok { f with payloadLength := n })

/-- `for i in range(len(payload)): payload[i] ^= masking_key[i % 4]`, from index `i` on;
    `IndexError` if the key is too short -/
def xorLoop (key : Buf) : Nat → Buf → Except Err Buf
  | _, [] => .ok []
  | i, b :: bs =>
    match key[i % 4]? with
    | none => .error .indexError
    | some k =>
      match xorLoop key (i + 1) bs with
      | .ok r => .ok ((b ^^^ k) :: r)
      | .error e => .error e

/-- `readData(socket)` -/
def readData (f : LibFrame) (buf : Buf) : Buf × Except Err LibFrame :=
  let (p, buf) := recv f.payloadLength buf
  if f.mask then
    match xorLoop f.maskingKey 0 p with
    | .ok q => (buf, .ok { f with payload := q })
    | .error e => (buf, .error e)
  else (buf, .ok { f with payload := p })

/-- `readFrameFactory(socket)()` -/
def readFrame (buf : Buf) : Buf × Except Err LibFrame :=
  match readHeader buf with
  | (buf, .error e) => (buf, .error e)
  | (buf, .ok f) =>
    match readDataHeader f buf with
    | (buf, .error e) => (buf, .error e)
    | (buf, .ok f) => readData f buf

/-- `serializeHeader()` -/
def serializeHeader (f : LibFrame) : Except Err Buf :=
  let flags := (b2n f.fin <<< 7) ||| (b2n f.rsv1 <<< 6) ||| (b2n f.rsv2 <<< 5) |||
               (b2n f.rsv3 <<< 4) ||| (f.opcode.value <<< 0)
  let length :=
    if f.payloadLength ≤ 125 then f.payloadLength
    else if f.payloadLength ≤ 0xFFFF then 126
    else 127
  let length := length ||| (b2n f.mask <<< 7)
  packBB flags length

/-- `serializeDataHeader()` (repaired: `<= 0xFFFF`) -/
def serializeDataHeader (f : LibFrame) : Except Err Buf :=
  let ext : Except Err Buf :=
    if f.payloadLength > 125 then
      if f.payloadLength ≤ 0xFFFF then packH f.payloadLength else packQ f.payloadLength
    else .ok []
  match ext with
  | .error e => .error e
  | .ok e => .ok (e ++ (if f.mask then f.maskingKey else []))

/-- `writeFrameFactory(socket)(frame)`: the list of `sendall` payloads, and the exception that
    interrupted the sequence, if any (the header is already sent when the data header raises) -/
def writeFrame (f : LibFrame) : List Buf × Option Err :=
  match serializeHeader f with
  | .error e => ([], some e)
  | .ok h =>
    match serializeDataHeader f with
    | .error e => ([h], some e)
    | .ok d => ([h] ++ (if d.isEmpty then [] else [d]) ++ [f.payload], none)

/-! ## `bytes.decode("utf-8")` (strict) -/

/-- well-formed UTF-8 (Unicode table 3-7); `need` continuation bytes are still expected, the next
    of which must lie in `[lo, hi]` (byte values as `Nat`) -/
def utf8Ok : Nat → Nat → Nat → Buf → Bool
  | need, _, _, [] => need == 0
  | 0, _, _, b :: r =>
    let n := b.toNat
    if n < 0x80 then utf8Ok 0 0x80 0xBF r
    else if 0xC2 ≤ n ∧ n ≤ 0xDF then utf8Ok 1 0x80 0xBF r
    else if n = 0xE0 then utf8Ok 2 0xA0 0xBF r
    else if (0xE1 ≤ n ∧ n ≤ 0xEC) ∨ n = 0xEE ∨ n = 0xEF then utf8Ok 2 0x80 0xBF r
    else if n = 0xED then utf8Ok 2 0x80 0x9F r
    else if n = 0xF0 then utf8Ok 3 0x90 0xBF r
    else if 0xF1 ≤ n ∧ n ≤ 0xF3 then utf8Ok 3 0x80 0xBF r
    else if n = 0xF4 then utf8Ok 3 0x80 0x8F r
    else false
  | k + 1, lo, hi, b :: r => if lo ≤ b.toNat ∧ b.toNat ≤ hi then utf8Ok k 0x80 0xBF r else false

def validUtf8 (b : Buf) : Bool := utf8Ok 0 0x80 0xBF b

/-! ## `WebSocketTemporaryRingBuffer.hasFrame` (added by the repair) -/

/-- total size of the frame whose header starts the buffer; `none` while the header itself
    (2 bytes + extended length) is incomplete -/
def frameSize : Buf → Option Nat
  | _ :: b1 :: t =>
    let length := b1.toNat &&& 0x7F
    let m := if b1.toNat &&& 0x80 != 0 then 4 else 0
    if length = 126 then
      match t with
      | c :: d :: _ => some (2 + 2 + m + be16 c d)
      | _ => none
    else if length = 127 then
      match t with
      | c0 :: c1 :: c2 :: c3 :: c4 :: c5 :: c6 :: c7 :: _ => some (2 + 8 + m + be64 c0 c1 c2 c3 c4 c5 c6 c7)
      | _ => none
    else some (2 + m + length)
  | _ => none

/-- `hasFrame()`: the buffer starts with a complete frame -/
def hasFrame (buf : Buf) : Bool :=
  match frameSize buf with
  | some n => decide (n ≤ buf.length)
  | none => false

/-- `buf[i:j]` -/
def slice (buf : Buf) (i j : Nat) : Buf := (buf.drop i).take (j - i)

/-- `hasFrame()` transcribed statement by statement (lengths, indexing, slices, `struct.unpack`),
    with the exceptions indexing and unpacking could raise.  `hasFrame_literal` (Lemmas) shows that
    it never raises and equals the pattern-matching formulation `hasFrame` used by the loop. -/
def hasFrameLit (buf : Buf) : Except Err Bool :=
  let size := 2
  if buf.length < size then .ok false
  else
    match buf[1]? with
    | none => .error .indexError
    | some b1 =>
      let length := b1.toNat &&& 0x7F
      let r : Except Err (Option (Nat × Nat)) :=
        if length = 126 then
          let size := size + 2
          if buf.length < size then .ok none
          else match unpackH (slice buf 2 4) with
            | .ok l => .ok (some (size, l))
            | .error e => .error e
        else if length = 127 then
          let size := size + 8
          if buf.length < size then .ok none
          else match unpackQ (slice buf 2 10) with
            | .ok l => .ok (some (size, l))
            | .error e => .error e
        else .ok (some (size, length))
      match r with
      | .error e => .error e
      | .ok none => .ok false
      | .ok (some (size, length)) =>
        let size := if b1.toNat &&& 0x80 != 0 then size + 4 else size
        .ok (decide (buf.length ≥ size + length))

/-! ## `WebSocketTemporaryHandler` -/

inductive Event
  | deliver (op : OpCode) (payload : Buf)   -- `endpt.callback(handler, opcode, payload)`
  | wrote (bs : Buf)                        -- `request.write(bs)` through `sendall`
  deriving DecidableEq, Repr

structure Handler where
  buf : Buf
  closed : Bool
  deriving DecidableEq, Repr

def Handler.init : Handler := { buf := [], closed := false }

/-- `WebSocketFrame.Close()` with the default arguments `status=200, message=b'OK'` -/
def closeFrame : LibFrame := .build .close [0x00, 0xC8, 0x4F, 0x4B]

/-- `send(message)` for a `str` message (given as UTF-8) -/
def Handler.send (h : Handler) (messageUtf8 : Buf) : Handler × List Event × Option Err :=
  let (ws, e) := writeFrame (.Text messageUtf8)
  (h, ws.map .wrote, e)

/-- `close()` -/
def Handler.close (h : Handler) : Handler × List Event × Option Err :=
  if h.closed then (h, [], none)
  else
    match writeFrame closeFrame with
    | (ws, some e) => (h, ws.map .wrote, some e)
    | (ws, none) => ({ h with closed := true }, ws.map .wrote, none)

/-- body of the `while` loop of `__call__`: read one frame and hand it to the endpoint -/
def Handler.stepFrame (h : Handler) : Handler × List Event × Option Err :=
  match readFrame h.buf with
  | (buf, .error e) => ({ h with buf := buf }, [], some e)
  | (buf, .ok f) =>
    let h := { h with buf := buf }
    if !f.mask then (h, [], some .exception)
    else if f.opcode = .text && !validUtf8 f.payload then (h, [], some .unicodeError)
    else if f.opcode = .close then
      let (h, evs, e) := h.close
      (h, .deliver f.opcode f.payload :: evs, e)
    else (h, [.deliver f.opcode f.payload], none)

theorem readHeader_fst (buf : Buf) : (readHeader buf).1 = buf.drop 2 := by
  simp only [readHeader, recv]
  by_cases h : (List.take 2 buf).isEmpty = true <;> simp [h]

theorem readExtLen_fst_le (f : LibFrame) (buf : Buf) :
    (readExtLen f buf).1.length ≤ buf.length := by
  simp only [readExtLen, recv]
  by_cases h6 : f.length7 = 126
  · simp [h6]
  · by_cases h7 : f.length7 = 127
    · simp [h7]
    · simp [h6, h7]

theorem readDataHeader_fst_le (f : LibFrame) (buf : Buf) :
    (readDataHeader f buf).1.length ≤ buf.length := by
  have h1 := readExtLen_fst_le f buf
  simp only [readDataHeader]
  generalize readExtLen f buf = x at h1 ⊢
  obtain ⟨b, r⟩ := x
  simp only [] at h1
  cases r with
  | error e => exact h1
  | ok n =>
    by_cases hm : f.mask = true <;> simp [hm, recv] <;> omega

theorem readData_fst_le (f : LibFrame) (buf : Buf) :
    (readData f buf).1.length ≤ buf.length := by
  simp only [readData, recv]
  by_cases hm : f.mask = true
  · simp only [hm, if_true]
    cases xorLoop f.maskingKey 0 (List.take f.payloadLength buf) <;> simp
  · simp [hm]

theorem readFrame_length_le (buf : Buf) : (readFrame buf).1.length ≤ buf.length - 2 := by
  have h1 := readHeader_fst buf
  simp only [readFrame]
  generalize readHeader buf = x at h1 ⊢
  obtain ⟨b, r⟩ := x
  simp only [] at h1
  subst h1
  cases r with
  | error e => simp
  | ok f =>
    have h2 := readDataHeader_fst_le f (List.drop 2 buf)
    simp only []
    generalize readDataHeader f (List.drop 2 buf) = x at h2 ⊢
    obtain ⟨b2, r2⟩ := x
    simp only [List.length_drop] at h2
    cases r2 with
    | error e => exact h2
    | ok f2 =>
      have h3 := readData_fst_le f2 b2
      simp only []
      omega

theorem hasFrame_length {buf : Buf} (h : hasFrame buf = true) : 2 ≤ buf.length := by
  match buf, h with
  | _ :: _ :: _, _ => simp

theorem Handler.close_buf (h : Handler) : h.close.1.buf = h.buf := by
  simp only [Handler.close]
  by_cases hc : h.closed = true
  · simp [hc]
  · simp only [hc]
    generalize writeFrame closeFrame = x
    obtain ⟨ws, e⟩ := x
    cases e <;> simp

theorem Handler.stepFrame_buf (h : Handler) : h.stepFrame.1.buf = (readFrame h.buf).1 := by
  simp only [Handler.stepFrame]
  generalize readFrame h.buf = x
  obtain ⟨b, r⟩ := x
  cases r with
  | error e => rfl
  | ok f =>
    simp only []
    by_cases hm : (!f.mask) = true
    · simp [hm]
    · by_cases hu : (f.opcode = .text && !validUtf8 f.payload) = true
      · simp [hm, hu]
      · by_cases hc : f.opcode = .close
        · have := Handler.close_buf { h with buf := b }
          simp only [hm, hc, if_true]
          simpa using this
        · simp [hm, hu, hc]

set_option linter.unusedVariables false in
/-- `__call__` after `_push`: `while self._buffer.hasFrame(): …` -/
def Handler.drain (h : Handler) : Handler × List Event × Option Err :=
  if hf : hasFrame h.buf then
    match hs : h.stepFrame with
    | (h', evs, some e) => (h', evs, some e)
    | (h', evs, none) =>
      let (h'', evs', e) := h'.drain
      (h'', evs ++ evs', e)
  else (h, [], none)
termination_by h.buf.length
decreasing_by
  have h2 := hasFrame_length hf
  have h3 := readFrame_length_le h.buf
  have h4 := Handler.stepFrame_buf h
  rw [hs] at h4
  simp only [] at h4
  rw [h4]
  omega

/-- `__call__(data)`: one TCP read (`Channel.dataReceived` forwards it unchanged) -/
def Handler.call (h : Handler) (data : Buf) : Handler × List Event × Option Err :=
  Handler.drain { h with buf := h.buf ++ data }

/-- a sequence of TCP reads; an exception escapes into the reactor and ends the sequence -/
def Handler.feed (h : Handler) : List Buf → Handler × List Event × Option Err
  | [] => (h, [], none)
  | c :: cs =>
    match h.call c with
    | (h', evs, some e) => (h', evs, some e)
    | (h', evs, none) =>
      let (h'', evs', e) := h'.feed cs
      (h'', evs ++ evs', e)

end Mpgs.WebSocket
