/-
Model of `SeqNum` and `BitField` (mpgameserver/connection.py:92-264).  Core Lean only.

Python -> Lean
* `SeqNum` is an `int` subclass restricted to 0..65535 by `__new__` (ValueError outside);
  values are `Int` here and the constructor check is explicit (`mk`).
* `__add__/__sub__` do one wrap step in each direction and then call the constructor, so a
  huge operand raises ValueError: modelled exactly (`Except`).
* `diff` is plain integer subtraction corrected by at most one ring length.
* `__lt__/__gt__` compare `self` with `int(self) + other.diff(self)` (no wrapping).
* `BitField.bits` is an unbounded Python int -> `Nat`; `>>`, `|`, `&` are the `Nat` ones.
-/
namespace Mpgs.Seq

inductive Err | valueError | duplication
  deriving DecidableEq, Repr

/-- `SeqNum._max_sequence` -/
def M : Int := 65535
/-- `SeqNum._threshold = (M - 1) // 2` -/
def T : Int := 32767

/-- `SeqNum.__new__(value)` -/
def mk (v : Int) : Except Err Int :=
  if v > M then .error .valueError else if v < 0 then .error .valueError else .ok v

/-- the two `if`s shared by `__add__` and `__sub__` -/
def wrap (r : Int) : Int :=
  let r1 := if r < 1 then r + M else r
  if r1 > M then r1 - M else r1

/-- `SeqNum.__add__` -/
def add (a k : Int) : Except Err Int := mk (wrap (a + k))
/-- `SeqNum.__sub__` -/
def sub (a k : Int) : Except Err Int := mk (wrap (a - k))

/-- `SeqNum.diff` -/
def diff (a b : Int) : Int :=
  let r := a - b
  if r > T then r - M else if r < -T then r + M else r

/-- `SeqNum.newer_than` -/
def newerThan (a b : Int) : Bool := diff a b > 0
/-- `SeqNum.__lt__` : `int(a) < int(a) + b.diff(a)` -/
def lt (a b : Int) : Bool := a < a + diff b a
/-- `SeqNum.__gt__` -/
def gt (a b : Int) : Bool := a > a + diff b a

/-! ### BitField -/

structure BitField where
  nbits : Nat
  bits  : Nat
  cur   : Int          -- `current_seqnum`, 0 = nothing inserted yet
  deriving DecidableEq, Repr

/-- `BitField.__init__` : ValueError unless `nbits % 8 == 0`; for `nbits = 0` the expression
    `1 << (nbits - 1)` raises ValueError (negative shift count) -/
def BitField.new (nbits : Nat) : Except Err BitField :=
  if nbits % 8 != 0 then .error .valueError
  else if nbits = 0 then .error .valueError
  else .ok ⟨nbits, 0, 0⟩

def BitField.onehot (b : BitField) : Nat := 1 <<< (b.nbits - 1)

/-- `BitField.insert` -/
def BitField.insert (b : BitField) (s : Int) : Except Err BitField :=
  if b.cur = 0 then .ok { b with cur := s }
  else
    let d := diff b.cur s
    if d < 0 then
      let n := (-d).toNat
      if n ≤ b.nbits then
        .ok { b with cur := s, bits := (b.bits >>> n) ||| (b.onehot >>> (n - 1)) }
      else .ok { b with cur := s, bits := 0 }
    else if d = 0 then .error .duplication
    else
      let mask := b.onehot >>> (d.toNat - 1)
      if mask &&& b.bits != 0 then .error .duplication
      else .ok { b with bits := b.bits ||| mask }

/-- `BitField.contains` -/
def BitField.contains (b : BitField) (s : Int) : Bool :=
  let d := diff b.cur s
  if d = 0 then true
  else if d > 0 then (b.onehot >>> (d.toNat - 1)) &&& b.bits != 0
  else false

/-- the test `_handle_ack_bits` applies to a pending datagram `s` given the peer's header
    fields `(ack, ack_bits)` (connection.py:1333-1334) -/
def ackNames (ack : Int) (ackBits : Nat) (s : Int) : Bool :=
  let d := diff ack s
  d = 0 || (decide (1 ≤ d) && decide (d ≤ 32) && (ackBits &&& (0x80000000 >>> (d.toNat - 1)) != 0))

end Mpgs.Seq
