/-
Model of mpgameserver/serializable.py (`serialize_value` / `deserialize_value`, the per-type
writers and readers, `Serializable.serialize/deserialize/dumpb/loadb`, `SerializableEnum`)
and of the three handshake classes with custom codecs in mpgameserver/connection.py:630-735.
Core Lean only.

Python -> Lean
* a Python value of the serializer's grammar is a `Value`; `tuple` and `list` are both `seq`
  (the encoder writes the same bytes); a `set` is the list of its elements in iteration order
  (an oracle of the harness; decoded sets are compared modulo permutation); a `dict` is its
  insertion-ordered list of pairs.
* a Python `float` that is exactly a float32 is `f32 b0 b1 b2 b3` (its big-endian float32 bit
  pattern, what `struct.pack(">f")` writes); any Python float can also be given as
  `f64 bits` (the IEEE double bit pattern); `roundF32` is `struct.pack(">f", x)` on bit
  patterns (round to nearest even, `OverflowError` when a finite double rounds to infinity).
  The decoder yields `f64` only for type id 12 (float64), which no encoder emits.
* `str` is carried as its UTF-8 bytes; `validUtf8` is CPython's strict UTF-8 validity.
  A `str` whose bytes are not valid stands for a Python str that cannot be encoded
  (lone surrogates): `UnicodeEncodeError`.
* exceptions are `Err` (Python exception classes); `fuel` is not a Python exception: it marks
  exhaustion of the recursion budget of the model and is proved unreachable
  (`C14_total`, budget = input length + 1).
* the stream is the list of remaining bytes; `BytesIO.read(n)` returns at most `n` bytes and
  never fails; `read(negative)` returns everything that is left.
* `SerializableType.registry` is data (`Registry`), read from the live Python registry by the
  harness: per type id whether it is a default-codec `Serializable` (with the values a fresh
  instance has in its `_fields`), a `SerializableEnum` (with its member values), or one of the
  two handshake classes with custom codecs.
* cryptography (`load_der_public_key`, ECDSA verify / sign) and `os.urandom` are parameters
  (`Env`), instantiated in the driver with values recorded from the real run.
* the decoder is written once, in the cost-counting monad `R`; `decode` is its result part.
  The cost counts: one per `deserialize_value` call, every byte handed out by `stream.read`,
  and `len(_fields)` per `Serializable` instance constructed.  A second counter `re` adds up
  the lengths of signed payloads that are parsed again after their signature verified.
-/
namespace Mpgs.Serial

abbrev Bytes := List UInt8

inductive Err
  | headerError | serializableError | structError | typeError | valueError
  | unicodeDecodeError | unicodeEncodeError | indexError | attributeError | keyError
  | nameError | overflowError | invalidSignature | unsupportedAlgorithm
  | fuel
  deriving DecidableEq, Repr

def MAX_BYTES_LENGTH : Nat := 1048576   -- 2**20
def MAX_ARRAY_LENGTH : Nat := 16384     -- 2**14

inductive Value where
  | null
  | bool (b : Bool)
  | int (i : Int)
  | f32 (b0 b1 b2 b3 : UInt8)
  | f64 (bits : Nat)
  | str (utf8 : Bytes)
  | bytes (bs : Bytes)
  | seq (xs : List Value)
  | map (kvs : List (Value × Value))
  | set (xs : List Value)
  | object (tid : Nat) (fields : List Value)
  | enum (tid : Nat) (v : Value)
  | clientHello (tid : Nat) (key : Bytes) (version : Value)
  | serverHello (tid : Nat) (rootKey key : Bytes) (salt token : Value)
  | unsupported
  deriving Repr, Inhabited

/-! ## integers and fixed-width fields (`struct.pack` / `struct.unpack`, big endian) -/

def u8 (n : Nat) : UInt8 := UInt8.ofNat (n % 256)

def be1 (n : Nat) : Bytes := [u8 n]
def be2 (n : Nat) : Bytes := [u8 (n / 256), u8 n]
def be4 (n : Nat) : Bytes := [u8 (n / 16777216), u8 (n / 65536), u8 (n / 256), u8 n]
def be8 (n : Nat) : Bytes :=
  [u8 (n / 72057594037927936), u8 (n / 281474976710656), u8 (n / 1099511627776), u8 (n / 4294967296),
   u8 (n / 16777216), u8 (n / 65536), u8 (n / 256), u8 n]

/-- big-endian value of a byte list -/
def beNat : Bytes → Nat
  | [] => 0
  | b :: t => b.toNat * 256 ^ t.length + beNat t

/-- two's complement image of `i` in `w` bytes -/
def twos (i : Int) (w : Nat) : Nat := (i % (256 ^ w : Int)).toNat

/-- signed reading of a `w`-byte unsigned value -/
def sint (w : Nat) (n : Nat) : Int :=
  if n < 256 ^ w / 2 then (n : Int) else (n : Int) - (256 ^ w : Int)

/-- `struct.pack(">H", tid)`: `struct.error` outside 0..65535 -/
def packH (tid : Nat) : Except Err Bytes :=
  if tid < 65536 then .ok (be2 tid) else .error .structError

/-- `serialize_int` inside `serialize_value`: width by `abs(value)`; `struct.error` of `>q`
    outside 64 bits becomes `ValueError` (serializable.py:189-201, 246-251). -/
def encodeInt (i : Int) : Except Err Bytes :=
  let a := i.natAbs
  if a > 0x7FFFFFFF then
    if -9223372036854775808 ≤ i ∧ i < 9223372036854775808 then .ok ([0, 6] ++ be8 (twos i 8))
    else .error .valueError
  else if a > 0x7FFF then .ok ([0, 5] ++ be4 (twos i 4))
  else if a > 0x7F then .ok ([0, 4] ++ be2 (twos i 2))
  else .ok ([0, 3] ++ be1 (twos i 1))

/-! ## float64 -> float32 on bit patterns (`struct.pack(">f", x)`) -/

/-- number of binary digits -/
def bitLen (n : Nat) : Nat := if n = 0 then 0 else Nat.log2 n + 1

/-- `n / 2^s` rounded to nearest, ties to even -/
def shiftRound (n s : Nat) : Nat :=
  let q := n >>> s
  let r := n % 2 ^ s
  let half := 2 ^ s / 2
  if s = 0 then n
  else if r > half then q + 1
  else if r < half then q
  else if q % 2 = 1 then q + 1 else q

/-- float32 bit pattern of the double with bit pattern `bits`; `none` = `OverflowError` -/
def roundF32 (bits : Nat) : Option Nat :=
  let bits : Nat := bits % 2 ^ 64
  let s : Nat := bits / 2 ^ 63
  let e : Nat := bits / 2 ^ 52 % 2048
  let m : Nat := bits % 2 ^ 52
  let sign : Nat := s * 2 ^ 31
  if e = 2047 then
    if m = 0 then some (sign + 0x7F800000)
    else some (sign + 0x7FC00000 + (m / 2 ^ 29) % 2 ^ 22)     -- NaN: payload truncated, quiet bit set
  else
    -- value = M * 2^E
    let M : Nat := if e = 0 then m else 2 ^ 52 + m
    let E : Int := if e = 0 then -1074 else (e : Int) - 1075
    if M = 0 then some sign
    else
      -- target exponent of the unit in the last place
      let E32 : Int := max (E + (bitLen M : Int) - 24) (-149)
      let sh : Int := E32 - E
      let M32 : Nat := if sh ≥ 0 then shiftRound M sh.toNat else M <<< (-sh).toNat
      -- renormalise after a carry
      let (M32, E32) := if M32 = 2 ^ 24 then (2 ^ 23, E32 + 1) else (M32, E32)
      if M32 < 2 ^ 23 then some (sign + M32)     -- denormal (E32 = -149) or zero
      else
        let be : Int := E32 + 150                -- biased exponent
        if be ≥ 255 then none
        else some (sign + be.toNat * 2 ^ 23 + (M32 - 2 ^ 23))

/-! ## UTF-8 (CPython strict decoder) -/

def cont (b : UInt8) : Bool := 0x80 ≤ b && b ≤ 0xBF

def validUtf8 : Bytes → Bool
  | [] => true
  | b0 :: rest =>
    if b0 < 0x80 then validUtf8 rest
    else if 0xC2 ≤ b0 && b0 ≤ 0xDF then
      match rest with
      | b1 :: r => cont b1 && validUtf8 r
      | _ => false
    else if 0xE0 ≤ b0 && b0 ≤ 0xEF then
      match rest with
      | b1 :: b2 :: r =>
        (if b0 = 0xE0 then 0xA0 ≤ b1 && b1 ≤ 0xBF
         else if b0 = 0xED then 0x80 ≤ b1 && b1 ≤ 0x9F
         else cont b1) && cont b2 && validUtf8 r
      | _ => false
    else if 0xF0 ≤ b0 && b0 ≤ 0xF4 then
      match rest with
      | b1 :: b2 :: b3 :: r =>
        (if b0 = 0xF0 then 0x90 ≤ b1 && b1 ≤ 0xBF
         else if b0 = 0xF4 then 0x80 ≤ b1 && b1 ≤ 0x8F
         else cont b1) && cont b2 && cont b3 && validUtf8 r
      | _ => false
    else false

/-! ## hashing and equality of dict keys / set elements (CPython) -/

/-- a hashable value reduced to what `hash` and `==` look at -/
inductive Key
  | none
  | num (n : Int) (d : Nat)     -- n / 2^d, n odd or d = 0
  | inf (neg : Bool)
  | txt (bs : Bytes) (isStr : Bool)
  | uniq                        -- identity-hashed object (Serializable instance, NaN)
  deriving DecidableEq, Repr

def P61 : Nat := 2305843009213693951   -- 2**61 - 1

/-- strip common factors of two: canonical dyadic -/
def normDyadic : Nat → Int → Nat → Int × Nat
  | 0, n, d => (n, d)
  | fuel + 1, n, d => if d = 0 then (n, 0) else if n % 2 = 0 then normDyadic fuel (n / 2) (d - 1) else (n, d)

/-- numeric key of `(-1)^s * M * 2^E` -/
def dyadicKey (neg : Bool) (M : Nat) (E : Int) : Key :=
  if M = 0 then .num 0 0 else
  let sgn : Int := if neg then -1 else 1
  if E ≥ 0 then .num (sgn * (M <<< E.toNat : Nat)) 0
  else
    let (n, d) := normDyadic (-E).toNat (sgn * M) (-E).toNat
    .num n d

def f32Key (b0 b1 b2 b3 : UInt8) : Key :=
  let bits : Nat := beNat [b0, b1, b2, b3]
  let neg : Bool := bits / 2 ^ 31 = 1
  let e : Nat := bits / 2 ^ 23 % 256
  let m : Nat := bits % 2 ^ 23
  if e = 255 then (if m = 0 then .inf neg else .uniq)
  else if e = 0 then dyadicKey neg m (-149)
  else dyadicKey neg (2 ^ 23 + m) ((e : Int) - 150)

def f64Key (bits : Nat) : Key :=
  let bits : Nat := bits % 2 ^ 64
  let neg : Bool := bits / 2 ^ 63 = 1
  let e : Nat := bits / 2 ^ 52 % 2048
  let m : Nat := bits % 2 ^ 52
  if e = 2047 then (if m = 0 then .inf neg else .uniq)
  else if e = 0 then dyadicKey neg m (-1074)
  else dyadicKey neg (2 ^ 52 + m) ((e : Int) - 1075)

/-- hash class: values in different classes are never compared by dict/set -/
inductive HashC
  | int (h : Int)
  | txt (bs : Bytes)
  | uniq
  deriving DecidableEq, Repr

/-- CPython's numeric hash of `n / 2^d` (modulus 2^61-1, `-1` becomes `-2`) -/
def numHash (n : Int) (d : Nat) : Int :=
  let a := n.natAbs % P61
  let inv := 2 ^ ((61 - d % 61) % 61) % P61
  let h : Int := ((a * inv % P61 : Nat) : Int)
  let h := if n < 0 then -h else h
  if h = -1 then -2 else h

def Key.hashC : Key → HashC
  | .none => .int 4238894112            -- CPython 3.12: hash(None) is this constant
  | .num n d => .int (numHash n d)
  | .inf neg => .int (if neg then -314159 else 314159)
  | .txt [] _ => .int 0
  | .txt bs _ => .txt bs                -- str and bytes with the same buffer hash alike
  | .uniq => .uniq

/-- `hash(v)` may raise `TypeError` (unhashable); the `Nat` is the number of
    `SerializableEnum` wrappers around the underlying value -/
def keyOf : Value → Except Err (Nat × Key)
  | .null => .ok (0, .none)
  | .bool b => .ok (0, .num (if b then 1 else 0) 0)
  | .int i => .ok (0, .num i 0)
  | .f32 a b c d => .ok (0, f32Key a b c d)
  | .f64 bits => .ok (0, f64Key bits)
  | .str s => .ok (0, .txt s true)
  | .bytes s => .ok (0, .txt s false)
  | .seq _ => .error .typeError
  | .map _ => .error .typeError
  | .set _ => .error .typeError
  | .object _ _ => .ok (0, .uniq)
  | .enum _ v => match keyOf v with
      | .ok (n, k) => .ok (n + 1, k)
      | .error e => .error e
  | .clientHello _ _ _ => .ok (0, .uniq)
  | .serverHello _ _ _ _ _ => .ok (0, .uniq)
  | .unsupported => .error .typeError

/-- `existing == new` as dict/set lookup performs it: only when the hashes agree; an enum
    against a non-enum raises `AttributeError` (`SerializableEnum.__eq__` reads `other.value`) -/
def keyEq (a b : Nat × Key) : Except Err Bool :=
  if a.2.hashC = .uniq ∨ b.2.hashC = .uniq then .ok false
  else if a.2.hashC ≠ b.2.hashC then .ok false
  else if a.1 ≠ b.1 then .error .attributeError
  else .ok (decide (a.2 = b.2))

/-- is a key equal to `k` present?  (errors as the lookup raises them) -/
def keyMem (k : Nat × Key) : List (Nat × Key) → Except Err Bool
  | [] => .ok false
  | x :: t => match keyEq x k with
      | .error e => .error e
      | .ok true => .ok true
      | .ok false => keyMem k t

/-- `set(list)`: first occurrence of each element is kept -/
def dedupSetAux : List Value → List (Nat × Key) → Except Err (List Value)
  | [], _ => .ok []
  | x :: t, seen => match keyOf x with
      | .error e => .error e
      | .ok k => match keyMem k seen with
          | .error e => .error e
          | .ok true => dedupSetAux t seen
          | .ok false => match dedupSetAux t (seen ++ [k]) with
              | .error e => .error e
              | .ok r => .ok (x :: r)

def dedupSet (xs : List Value) : Except Err (List Value) := dedupSetAux xs []

/-- replace the value of the first entry whose key equals `k` -/
def dictReplace (k : Nat × Key) (v : Value) : List (Value × Value) → Except Err (Option (List (Value × Value)))
  | [] => .ok none
  | (k0, v0) :: t => match keyOf k0 with
      | .error e => .error e
      | .ok kk => match keyEq kk k with
          | .error e => .error e
          | .ok true => .ok (some ((k0, v) :: t))
          | .ok false => match dictReplace k v t with
              | .error e => .error e
              | .ok none => .ok none
              | .ok (some t') => .ok (some ((k0, v0) :: t'))

/-- `obj[k] = v` -/
def dictInsert (d : List (Value × Value)) (k v : Value) : Except Err (List (Value × Value)) :=
  match keyOf k with
  | .error e => .error e
  | .ok kk => match dictReplace kk v d with
      | .error e => .error e
      | .ok (some d') => .ok d'
      | .ok none => .ok (d ++ [(k, v)])

/-! ## registry and environment -/

inductive Kind
  | object (defaults : List Value)     -- default codec; values of `_fields` on a fresh instance
  | enum (members : List Value)        -- `_value2name` keys
  | clientHello                        -- HandshakeClientHelloMessage
  | serverHello                        -- HandshakeServerHelloMessage
  deriving Repr

abbrev Registry := List (Nat × Kind)

def lookup : Registry → Nat → Option Kind
  | [], _ => none
  | (k, v) :: t, tid => if k = tid then some v else lookup t tid

structure Env where
  reg : Registry
  /-- `Packet.MAX_PAYLOAD_SIZE - 2 - PacketHeader.SIZE - 2` -/
  padTarget : Int
  /-- the `server_public_key` kwarg of `loadb`: `none` = not passed (`KeyError`),
      `some none` = passed as `None`, `some (some der)` = pre-shared key -/
  serverKey : Option (Option Bytes)
  /-- the `server_root_key` kwarg of `dumpb`: public DER of the root key -/
  rootKey : Option Bytes
  /-- `EllipticCurvePublicKey.fromBytes(der).getBytes()` -/
  parseKey : Bytes → Except Err Bytes
  /-- `key.verify(signature, payload)`, key given by its DER -/
  verify : Bytes → Bytes → Bytes → Except Err Unit
  /-- `server_root_key.sign(payload)` -/
  sign : Bytes → Except Err Bytes
  /-- `os.urandom(n)` -/
  urandom : Nat → Bytes

/-! ## encoder -/

/-- `except struct.error` in `serialize_value` around the container writers -/
def wrapStruct {α : Type} : Except Err α → Except Err α
  | .error .structError => .error .valueError
  | r => r

/-- is the enum value a key of `_value2name`?  (`TypeError` unhashable, `AttributeError`) -/
def memberOf (v : Value) (members : List Value) : Except Err Bool :=
  match keyOf v with
  | .error e => .error e
  | .ok k =>
    let rec go : List Value → Except Err Bool
      | [] => .ok false
      | m :: t => match keyOf m with
          | .error e => .error e
          | .ok km => match keyEq km k with
              | .error e => .error e
              | .ok true => .ok true
              | .ok false => go t
    go members

/-- `serialize_bytes` (under `serialize_value`) -/
def encodeBytes (s : Bytes) : Except Err Bytes :=
  if s.length > MAX_BYTES_LENGTH then .error .valueError
  else do
    let l ← encodeInt s.length
    .ok ([0, 14] ++ l ++ s)

mutual
def encode (env : Env) : Value → Except Err Bytes
  | .null => .ok [0, 15]
  | .bool b => .ok [0, 1, if b then 1 else 0]
  | .int i => encodeInt i
  | .f32 a b c d => .ok [0, 11, a, b, c, d]
  | .f64 bits => match roundF32 bits with
      | some n => .ok ([0, 11] ++ be4 n)
      | none => .error .overflowError
  | .str s =>
      if !validUtf8 s then .error .unicodeEncodeError
      else if s.length > MAX_BYTES_LENGTH then .error .nameError
      else do
        let l ← encodeInt s.length
        .ok ([0, 13] ++ l ++ s)
  | .bytes s => encodeBytes s
  | .seq xs =>
      if xs.length > MAX_ARRAY_LENGTH then .error .valueError
      else wrapStruct do
        let l ← encodeInt xs.length
        let body ← encodeList env xs
        .ok ([0, 16] ++ l ++ body)
  | .map kvs =>
      if kvs.length > MAX_ARRAY_LENGTH then .error .valueError
      else wrapStruct do
        let l ← encodeInt kvs.length
        let body ← encodePairs env kvs
        .ok ([0, 17] ++ l ++ body)
  | .set xs =>
      if xs.length > MAX_ARRAY_LENGTH then .error .valueError
      else wrapStruct do
        let l ← encodeInt xs.length
        let body ← encodeList env xs
        .ok ([0, 18] ++ l ++ body)
  | .object tid fields => do
      let h ← packH tid
      let l ← encodeInt fields.length
      let body ← encodeList env fields
      .ok (h ++ l ++ body)
  | .enum tid v => do
      let h ← packH tid
      match lookup env.reg tid with
      | some (.enum members) =>
        match memberOf v members with
        | .error e => .error e
        | .ok false => .error .valueError
        | .ok true => do
          let body ← encode env v
          .ok (h ++ body)
      | _ => .error .typeError
  | .clientHello tid key version => do
      let h ← packH tid
      let a ← encodeBytes key
      let b ← encode env version
      let toWrite : Int := env.padTarget - ((a.length + b.length : Nat) : Int)
      if toWrite < 0 then .error .valueError
      else .ok (h ++ a ++ b ++ env.urandom toWrite.toNat)
  | .serverHello tid _ key salt token => do
      let h ← packH tid
      let a ← encodeBytes key
      let b ← encode env salt
      let c ← encode env token
      let payload := a ++ b ++ c
      match env.rootKey with
      | none => .error .keyError
      | some root => do
        let sig ← env.sign payload
        let x ← encodeBytes root
        let y ← encodeBytes payload
        let z ← encodeBytes sig
        .ok (h ++ x ++ y ++ z)
  | .unsupported => .error .typeError
def encodeList (env : Env) : List Value → Except Err Bytes
  | [] => .ok []
  | x :: t => do
      let a ← encode env x
      let b ← encodeList env t
      .ok (a ++ b)
def encodePairs (env : Env) : List (Value × Value) → Except Err Bytes
  | [] => .ok []
  | (k, v) :: t => do
      let a ← encode env k
      let b ← encode env v
      let c ← encodePairs env t
      .ok (a ++ b ++ c)
end

/-! ## when the encoder accepts -/

mutual
/-- the conditions under which `serialize_value` accepts a value (default-codec classes only):
    64-bit integers, floats inside the float32 range, encodable `str` of at most 2**20 UTF-8
    bytes, `bytes` of at most 2**20, collections of at most 2**14 elements, 16-bit type ids,
    enum values that are members - at every depth -/
def encodable (env : Env) : Value → Bool
  | .null => true
  | .bool _ => true
  | .f32 _ _ _ _ => true
  | .int i => decide (-9223372036854775808 ≤ i ∧ i < 9223372036854775808)
  | .f64 b => (roundF32 b).isSome
  | .str s => validUtf8 s && decide (s.length ≤ MAX_BYTES_LENGTH)
  | .bytes s => decide (s.length ≤ MAX_BYTES_LENGTH)
  | .seq xs => decide (xs.length ≤ MAX_ARRAY_LENGTH) && encodableList env xs
  | .set xs => decide (xs.length ≤ MAX_ARRAY_LENGTH) && encodableList env xs
  | .map kvs => decide (kvs.length ≤ MAX_ARRAY_LENGTH) && encodablePairs env kvs
  | .object tid fs =>
      decide (tid < 65536) && decide ((fs.length : Int) < 9223372036854775808) && encodableList env fs
  | .enum tid v =>
      decide (tid < 65536) && (match lookup env.reg tid with
        | some (.enum members) => (match memberOf v members with
            | .ok true => true
            | _ => false)
        | _ => false) && encodable env v
  | .clientHello _ _ _ => false
  | .serverHello _ _ _ _ _ => false
  | .unsupported => false
def encodableList (env : Env) : List Value → Bool
  | [] => true
  | x :: t => encodable env x && encodableList env t
def encodablePairs (env : Env) : List (Value × Value) → Bool
  | [] => true
  | (k, v) :: t => encodable env k && encodable env v && encodablePairs env t
end


/-- type ids of `deserialize_types` (the effective dict: 11 is float32, not uint64) -/
def isBase (tid : Nat) : Bool :=
  tid = 1 ∨ (3 ≤ tid ∧ tid ≤ 6) ∨ (8 ≤ tid ∧ tid ≤ 18)

/-! ## what a value comes back as; values the round trip is claimed for -/

/-- `d = {}; for k, v in pairs: d[k] = v` continued from `acc` -/
def buildDict : List (Value × Value) → List (Value × Value) → Except Err (List (Value × Value))
  | acc, [] => .ok acc
  | acc, (k, v) :: t => match dictInsert acc k v with
      | .error e => .error e
      | .ok acc' => buildDict acc' t

def f32OfNat (n : Nat) : Value := .f32 (u8 (n / 16777216)) (u8 (n / 65536)) (u8 (n / 256)) (u8 n)

mutual
/-- the value the property promises back: floats at float32 precision, sets and dicts rebuilt
    from the rounded elements with Python's own set/dict semantics (tuples are lists already).
    An error means Python itself could not build that value (unhashable key, enum/raw clash). -/
def canon : Value → Except Err Value
  | .f64 bits => match roundF32 bits with
      | some n => .ok (f32OfNat n)
      | none => .error .overflowError
  | .seq xs => do
      let ys ← canonList xs
      .ok (.seq ys)
  | .set xs => do
      let ys ← canonList xs
      let zs ← dedupSet ys
      .ok (.set zs)
  | .map kvs => do
      let ps ← canonPairs kvs
      let d ← buildDict [] ps
      .ok (.map d)
  | .object tid fs => do
      let ys ← canonList fs
      .ok (.object tid ys)
  | .enum tid v => do
      let w ← canon v
      .ok (.enum tid w)
  | .null => .ok .null
  | .bool b => .ok (.bool b)
  | .int i => .ok (.int i)
  | .f32 a b c d => .ok (.f32 a b c d)
  | .str s => .ok (.str s)
  | .bytes s => .ok (.bytes s)
  | .clientHello t k v => .ok (.clientHello t k v)
  | .serverHello t r k s tk => .ok (.serverHello t r k s tk)
  | .unsupported => .ok .unsupported
def canonList : List Value → Except Err (List Value)
  | [] => .ok []
  | x :: t => do
      let y ← canon x
      let ys ← canonList t
      .ok (y :: ys)
def canonPairs : List (Value × Value) → Except Err (List (Value × Value))
  | [] => .ok []
  | (k, v) :: t => do
      let k' ← canon k
      let v' ← canon v
      let ps ← canonPairs t
      .ok ((k', v') :: ps)
end

mutual
/-- every object / enum node is an instance of a class registered under a non-builtin id with
    that codec (objects: one value per field); `hs` = handshake messages allowed as nodes -/
def wt (hs : Bool) (reg : Registry) : Value → Bool
  | .seq xs => wtList hs reg xs
  | .set xs => wtList hs reg xs
  | .map kvs => wtPairs hs reg kvs
  | .object tid fs =>
      !isBase tid && (match lookup reg tid with
        | some (.object d) => d.length == fs.length
        | _ => false) && wtList hs reg fs
  | .enum tid v =>
      !isBase tid && (match lookup reg tid with
        | some (.enum _) => true
        | _ => false) && wt hs reg v
  | .clientHello tid _ v =>
      hs && !isBase tid && (match lookup reg tid with
        | some .clientHello => true
        | _ => false) && wt hs reg v
  | .serverHello tid _ _ s t =>
      hs && !isBase tid && (match lookup reg tid with
        | some .serverHello => true
        | _ => false) && wt hs reg s && wt hs reg t
  | .unsupported => false
  | .null => true
  | .bool _ => true
  | .int _ => true
  | .f32 _ _ _ _ => true
  | .f64 _ => true
  | .str _ => true
  | .bytes _ => true
def wtList (hs : Bool) (reg : Registry) : List Value → Bool
  | [] => true
  | x :: t => wt hs reg x && wtList hs reg t
def wtPairs (hs : Bool) (reg : Registry) : List (Value × Value) → Bool
  | [] => true
  | (k, v) :: t => wt hs reg k && wt hs reg v && wtPairs hs reg t
end

/-- the domain of the round-trip claim: a value of the grammar whose classes are registered
    (default codec) and which Python can rebuild at float32 precision.  Sizes, integer range,
    UTF-8 validity and enum membership are exactly the conditions under which `encode`
    succeeds (`C13_accepts` / `C13_refuse`). -/
def InDomain (env : Env) (v : Value) : Prop :=
  wt false env.reg v = true ∧ (canon v).isOk = true

instance (env : Env) (v : Value) : Decidable (InDomain env v) := by
  unfold InDomain; exact inferInstance

/-! ## decoder (in the cost-counting monad) -/

/-- result + cost + number of bytes the decoder was made to parse a second time (the signed
    payload of a server hello whose signature verified); both counters are kept when the
    computation raises -/
structure R (α : Type) where
  res : Except Err α
  cost : Nat
  re : Nat

def R.ok {α : Type} (a : α) : R α := ⟨.ok a, 0, 0⟩
def R.err {α : Type} (e : Err) : R α := ⟨.error e, 0, 0⟩
def R.lift {α : Type} (x : Except Err α) : R α := ⟨x, 0, 0⟩
def R.tick (n : Nat) : R Unit := ⟨.ok (), n, 0⟩
/-- `temp = BytesIO(payload)`: `n` bytes already read once are about to be parsed again -/
def R.reparse (n : Nat) : R Unit := ⟨.ok (), 0, n⟩
def R.bind {α β : Type} (x : R α) (f : α → R β) : R β :=
  match x.res with
  | .ok a => ⟨(f a).res, x.cost + (f a).cost, x.re + (f a).re⟩
  | .error e => ⟨.error e, x.cost, x.re⟩
instance : Monad R where
  pure := R.ok
  bind := R.bind

/-- `except SerializableHeaderError: raise SerializableError` in `deserialize_value` -/
def wrapHdrE {α : Type} : Except Err α → Except Err α
  | .error .headerError => .error .serializableError
  | r => r
def R.wrapHdr {α : Type} (x : R α) : R α := ⟨wrapHdrE x.res, x.cost, x.re⟩

/-- `stream.read(n)`; costs the bytes handed out -/
def readN (n : Int) (bs : Bytes) : Bytes × Bytes :=
  if n < 0 then (bs, []) else (bs.take n.toNat, bs.drop n.toNat)

/-- `struct.unpack(fmt, stream.read(w))`: exactly `w` bytes or `struct.error` -/
def readFixed (w : Nat) (bs : Bytes) : R (Bytes × Bytes) :=
  if w ≤ bs.length then ⟨.ok (bs.take w, bs.drop w), w, 0⟩ else ⟨.error .structError, bs.length, 0⟩

/-- `struct.unpack(">f", stream.read(4))`, kept as the bit pattern -/
def readF32 : Bytes → R (Value × Bytes)
  | a :: b :: c :: d :: r' => ⟨.ok (.f32 a b c d, r'), 4, 0⟩
  | r => ⟨.error .structError, r.length, 0⟩

/-- `isinstance(length, int)` (bool is an int) -/
def lenOf : Value → Except Err Int
  | .int i => .ok i
  | .bool b => .ok (if b then 1 else 0)
  | _ => .error .typeError

def asKeyBytes (env : Env) : Value → Except Err Bytes
  | .bytes d => env.parseKey d
  | _ => .error .typeError

mutual
/-- `deserialize_value(stream)`; first argument = recursion budget -/
def decodeC (env : Env) : Nat → Bytes → R (Value × Bytes)
  | 0, _ => R.err .fuel
  | f + 1, bs => do
    R.tick 1
    match bs with
    | t0 :: t1 :: r => do
      R.tick 2
      let tid := t0.toNat * 256 + t1.toNat
      if isBase tid then R.wrapHdr (decodeBase env f tid r)
      else match lookup env.reg tid with
        | some k => R.wrapHdr (decodeReg env f tid k r)
        | none => R.err .headerError
    | _ => do
      R.tick bs.length
      R.err .headerError
/-- the readers in `deserialize_types` -/
def decodeBase (env : Env) : Nat → Nat → Bytes → R (Value × Bytes)
  | 0, _, _ => R.err .fuel
  | f + 1, tid, r =>
    if tid = 1 then do
      let (d, r') ← readFixed 1 r
      R.ok (.bool (beNat d != 0), r')
    else if tid = 3 then do
      let (d, r') ← readFixed 1 r
      R.ok (.int (sint 1 (beNat d)), r')
    else if tid = 4 then do
      let (d, r') ← readFixed 2 r
      R.ok (.int (sint 2 (beNat d)), r')
    else if tid = 5 then do
      let (d, r') ← readFixed 4 r
      R.ok (.int (sint 4 (beNat d)), r')
    else if tid = 6 then do
      let (d, r') ← readFixed 8 r
      R.ok (.int (sint 8 (beNat d)), r')
    else if tid = 8 then do
      let (d, r') ← readFixed 1 r
      R.ok (.int (beNat d), r')
    else if tid = 9 then do
      let (d, r') ← readFixed 2 r
      R.ok (.int (beNat d), r')
    else if tid = 10 then do
      let (d, r') ← readFixed 4 r
      R.ok (.int (beNat d), r')
    else if tid = 11 then readF32 r
    else if tid = 12 then do
      let (d, r') ← readFixed 8 r
      R.ok (.f64 (beNat d), r')
    else if tid = 15 then R.ok (.null, r)
    else if tid = 13 then do
      let (lv, r1) ← decodeC env f r
      let n ← R.lift (lenOf lv)
      if n > MAX_BYTES_LENGTH then R.err .valueError
      else
        let (d, r2) := readN n r1
        R.tick d.length
        if validUtf8 d then R.ok (.str d, r2) else R.err .unicodeDecodeError
    else if tid = 14 then do
      let (lv, r1) ← decodeC env f r
      let n ← R.lift (lenOf lv)
      if n > MAX_BYTES_LENGTH then R.err .valueError
      else
        let (d, r2) := readN n r1
        R.tick d.length
        R.ok (.bytes d, r2)
    else if tid = 16 then do
      let (lv, r1) ← decodeC env f r
      let n ← R.lift (lenOf lv)
      if n > MAX_ARRAY_LENGTH then R.err .valueError
      else
        let (xs, r2) ← decodeList env f n.toNat r1
        R.ok (.seq xs, r2)
    else if tid = 17 then do
      let (lv, r1) ← decodeC env f r
      let n ← R.lift (lenOf lv)
      if n > MAX_ARRAY_LENGTH then R.err .valueError
      else
        let (kvs, r2) ← decodePairs env f n.toNat [] r1
        R.ok (.map kvs, r2)
    else if tid = 18 then do
      let (lv, r1) ← decodeC env f r
      let n ← R.lift (lenOf lv)
      if n > MAX_ARRAY_LENGTH then R.err .valueError
      else
        let (xs, r2) ← decodeList env f n.toNat r1
        let ys ← R.lift (dedupSet xs)
        R.ok (.set ys, r2)
    else R.err .valueError
/-- `obj = registry[type_id](); obj.deserialize(stream)` -/
def decodeReg (env : Env) : Nat → Nat → Kind → Bytes → R (Value × Bytes)
  | 0, _, _, _ => R.err .fuel
  | f + 1, tid, .object defaults, r => do
      R.tick defaults.length
      let (nv, r1) ← decodeC env f r
      let n ← R.lift (lenOf nv)
      let (vals, r2) ← decodeFields env f n.toNat defaults.length r1
      R.ok (.object tid (vals ++ defaults.drop vals.length), r2)
  | f + 1, tid, .enum _, r => do
      let (v, r1) ← decodeC env f r
      R.ok (.enum tid v, r1)
  | f + 1, tid, .clientHello, r => do
      R.tick 2
      let (der, r1) ← decodeC env f r
      let key ← R.lift (asKeyBytes env der)
      let (ver, r2) ← decodeC env f r1
      let toRead : Int := env.padTarget - ((r.length - r2.length : Nat) : Int)
      let (pad, r3) := readN toRead r2
      R.tick pad.length
      if (pad.length : Int) ≠ toRead then R.err .valueError
      else R.ok (.clientHello tid key ver, r3)
  | f + 1, tid, .serverHello, r => do
      R.tick 4
      let (rootV, r1) ← decodeC env f r
      let root ← R.lift (asKeyBytes env rootV)
      let (payload, r2) ← decodeC env f r1
      let (sig, r3) ← decodeC env f r2
      let key ← R.lift (match env.serverKey with
        | none => .error .keyError
        | some none => .ok root
        | some (some k) => .ok k)
      match sig, payload with
      | .bytes s, .bytes p => do
        R.lift (env.verify key s p)
        R.reparse p.length
        let (der, t1) ← decodeC env f p
        let k ← R.lift (asKeyBytes env der)
        let (salt, t2) ← decodeC env f t1
        let (token, _) ← decodeC env f t2
        R.ok (.serverHello tid root k salt token, r3)
      | _, _ => R.err .typeError
/-- `[deserialize_value(stream) for i in range(n)]` -/
def decodeList (env : Env) : Nat → Nat → Bytes → R (List Value × Bytes)
  | _, 0, bs => R.ok ([], bs)
  | 0, _ + 1, _ => R.err .fuel
  | f + 1, n + 1, bs => do
      let (x, r1) ← decodeC env f bs
      let (xs, r2) ← decodeList env f n r1
      R.ok (x :: xs, r2)
/-- the loop of `deserialize_map` -/
def decodePairs (env : Env) : Nat → Nat → List (Value × Value) → Bytes → R (List (Value × Value) × Bytes)
  | _, 0, acc, bs => R.ok (acc, bs)
  | 0, _ + 1, _, _ => R.err .fuel
  | f + 1, n + 1, acc, bs => do
      let (k, r1) ← decodeC env f bs
      let (v, r2) ← decodeC env f r1
      let acc' ← R.lift (dictInsert acc k v)
      decodePairs env f n acc' r2
/-- the loop of `Serializable.deserialize`: `n` announced fields, `k` fields left in `_fields` -/
def decodeFields (env : Env) : Nat → Nat → Nat → Bytes → R (List Value × Bytes)
  | _, 0, _, bs => R.ok ([], bs)
  | 0, _ + 1, _, _ => R.err .fuel
  | _ + 1, _ + 1, 0, _ => R.err .indexError
  | f + 1, n + 1, k + 1, bs => do
      let (x, r1) ← decodeC env f bs
      let (xs, r2) ← decodeFields env f n k r1
      R.ok (x :: xs, r2)
end

/-- `deserialize_value(BytesIO(bs))` with budget `f` -/
def decodeF (env : Env) (f : Nat) (bs : Bytes) : Except Err (Value × Bytes) := (decodeC env f bs).res

/-- `Serializable.loadb(bs)` / `deserialize_value(BytesIO(bs))`: value and unread rest -/
def decode (env : Env) (bs : Bytes) : Except Err (Value × Bytes) := decodeF env (bs.length + 1) bs

/-- `n` calls of `deserialize_value` on one stream -/
def decodeMany (env : Env) : Nat → Bytes → Except Err (List Value × Bytes)
  | 0, bs => .ok ([], bs)
  | n + 1, bs => do
      let (v, r) ← decode env bs
      let (vs, r') ← decodeMany env n r
      .ok (v :: vs, r')

/-- what the algorithm requested while decoding `bs` -/
def decodeCost (env : Env) (bs : Bytes) : Nat := (decodeC env (bs.length + 1) bs).cost

/-- bytes parsed a second time while decoding `bs`: total length of the server-hello payloads
    whose signature verified (0 unless a verification succeeds) -/
def decodeReparsed (env : Env) (bs : Bytes) : Nat := (decodeC env (bs.length + 1) bs).re

end Mpgs.Serial
