import MpgsModel.Model.Handshake
/-
Model of the server side: `ServerContext` (pools, settings, `get_token`), the entry point
(`TwistedServer.datagramReceived` / `_UdpServer.run` receive step) and one iteration of
`UdpServerThread.run` (server.py:136-350 as repaired), plus the shutdown sweep.  Core Lean only.

* addresses are `(ip, port)` pairs of naturals; the block list holds ips
* a connection object has an identity (`id`, birth order): a client that reconnects from the same
  address is a new object
* the event handler is the environment: for every handler call the next `HAct` of the iteration's
  script says what the user code does (return / raise / echo a message to that client / disconnect
  that client); exceptions are contained exactly where the code has a try/except
* clock: the loop reads `time`/`clock` when it handles datagrams (`tq`) and again after
  `handler.update` for the sweep (`ts`); both are inputs
* randomness and crypto enter per datagram as the handshake environment `Hs` and the drawn token
* not modelled: performance statistics, sleeping, the Twisted reactor, logging
-/
namespace Mpgs.Server
open Mpgs.Bytes Mpgs.Wire Mpgs.Conn

abbrev Addr := Nat × Nat

structure Ent where
  id : Nat
  conn : Conn

abbrev Pool := List (Addr × Ent)

def pget : Pool → Addr → Option Ent
  | [], _ => none
  | (k, v) :: t, a => if k = a then some v else pget t a

def pset : Pool → Addr → Ent → Pool
  | [], a, v => [(a, v)]
  | (k, w) :: t, a, v => if k = a then (k, v) :: t else (k, w) :: pset t a v

def pdel : Pool → Addr → Pool
  | [], _ => []
  | (k, w) :: t, a => if k = a then t else (k, w) :: pdel t a

structure SCfg where
  keepAlive : Int := 96
  outgoingTimeout : Int := 1024
  connTimeout : Int := 5120
  tempTimeout : Int := 2048
  blocklist : List Nat := []

structure Srv where
  cfg : SCfg := {}
  conns : Pool := []
  temps : Pool := []
  born : Nat := 0

/-- what the user's handler does when it is called -/
inductive HAct
  | ok | raise | echo | disc | echoRaise | discRaise
  | kick      -- `handler.update` only: disconnect every connected client ("end of the round"); a no-op in the per-client handlers
  deriving DecidableEq, Repr

def HAct.raises : HAct → Bool
  | .raise | .echoRaise | .discRaise => true
  | _ => false

inductive SEvent
  | connect (id : Nat) (addr : Addr) (token : Nat)
  | message (id : Nat) (seq : Nat) (payload : Bytes)
  | disconnect (id : Nat)
  | update
  | shutdown
  | sendTo (addr : Addr) (hdr : Header) (datagram : Bytes)
  | dropEntry (addr : Addr)            -- entry point refused the datagram (block list / header error)
  | contained (what : String)          -- an exception was caught by one of the loop's try/except
  deriving Repr

/-- `ServerContext.get_token()` for a stream of 32-bit draws: the first draw whose masked value is
    not the token of a connection in either pool; `none` = the stream ran out (the real loop would
    keep drawing) -/
def maskTok (d : Nat) : Nat := (d % 2147483648) ||| 1073741824     -- & 0x7fffffff | 0x40000000

def inUse (s : Srv) (tok : Nat) : Bool :=
  s.conns.any (fun p => p.2.conn.token == tok) || s.temps.any (fun p => p.2.conn.token == tok)

def getToken (s : Srv) : List Nat → Option Nat
  | [] => none
  | d :: ds => if maskTok d = 0 ∨ inUse s (maskTok d) then getToken s ds else some (maskTok d)

/-- the entry point: block list first, then the header must parse -/
def entry (s : Srv) (addr : Addr) (d : Bytes) : Option Header :=
  if s.cfg.blocklist.contains addr.1 then none
  else match decodeHdr true d with
    | .ok h => some h
    | .error _ => none

/-- the user's handler acting on a connection (`client.send(...)` / `client.disconnect()`) -/
def actOn (sz : Sizes) (c : Conn) (a : HAct) : Conn :=
  match a with
  | .echo | .echoRaise => (Conn.send sz c [0x65, 0x63, 0x68, 0x6f] 0 none).1
  | .disc | .discRaise => Conn.disconnect c none
  | _ => c

def nextAct : List HAct → HAct × List HAct
  | [] => (.ok, [])
  | a :: as => (a, as)

/-- dispatch the received messages of a connected client to `handle_message` -/
def dispatchMsgs (sz : Sizes) (id : Nat) : Conn → List (Nat × Bytes) → List HAct → Conn × List HAct × List SEvent
  | c, [], acts => ({ c with incoming := [] }, acts, [])
  | c, (sq, p) :: rest, acts =>
    let (a, acts') := nextAct acts
    let c1 := actOn sz c a
    let (c2, acts'', ev) := dispatchMsgs sz id c1 rest acts'
    (c2, acts'', .message id sq p :: (if a.raises then [.contained "handle_message"] else []) ++ ev)

structure Item where
  addr : Addr
  hdr : Header
  d : Bytes
  H : Hs                 -- handshake externals as answered for this datagram
  draws : List Nat       -- the random 32-bit values `get_token` would draw while handling it

/-- the token a fresh hello would be given, computed before the datagram is handled (the draw is
    only *used* if the hello is accepted) -/
def tokFor (s : Srv) (it : Item) : Nat := (getToken s it.draws).getD 0

/-- one queued datagram, at clock `t` -/
def handleItem (sz : Sizes) (C : Crypto) (s : Srv) (t : Int) (it : Item) (acts : List HAct) :
    Srv × List HAct × List SEvent :=
  match pget s.conns it.addr with
  | some e =>
    -- connected client: any packet type; then dispatch what arrived
    let tempTok := (pget s.temps it.addr).map (·.conn.token)
    let r := recvDatagram C (serverRole it.H (tokFor s it) tempTok) e.conn t it.hdr it.d
    match r.2.2 with
    | .raised _ =>
      ({ s with conns := pset s.conns it.addr { e with conn := r.1 } }, acts, [.contained "datagram"])
    | _ =>
      let (c2, acts', ev) := dispatchMsgs sz e.id r.1 r.1.incoming acts
      ({ s with conns := pset s.conns it.addr { e with conn := c2 } }, acts', ev)
  | none =>
    match pget s.temps it.addr with
    | some e =>
      if it.hdr.ptype ≠ .challengeResp then (s, acts, [])
      else
        -- `_onConnect` (inside `_recvChallengeResponse`): move to the connected pool, then
        -- `handler.connect`; the rest of the datagram's messages are processed afterwards
        let (a, acts') := nextAct acts
        let r := recvDatagram C (serverRoleOn it.H (tokFor s it) (some e.conn.token) (fun c => actOn sz c a)) e.conn t it.hdr it.d
        if r.2.1.contains .promoted then
          let c1 := r.1
          let s1 := { s with temps := pdel s.temps it.addr, conns := pset s.conns it.addr { e with conn := c1 } }
          let ev := [SEvent.connect e.id it.addr c1.token] ++ (if a.raises then [.contained "connect"] else [])
          match r.2.2 with
          | .raised _ => (s1, acts', ev ++ [.contained "datagram"])
          | _ => (s1, acts', ev)
        else
          let s1 := { s with temps := pset s.temps it.addr { e with conn := r.1 } }
          match r.2.2 with
          | .raised _ => (s1, acts, [.contained "datagram"])
          | _ => (s1, acts, [])
    | none =>
      if it.hdr.ptype ≠ .clientHello then (s, acts, [])
      else
        let c0 : Conn := { isServer := true, keepAlive := s.cfg.keepAlive, outgoingTimeout := s.cfg.outgoingTimeout }
        let s0 := { s with temps := pset s.temps it.addr ⟨s.born, c0⟩, born := s.born + 1 }
        -- the fresh connection is its own temp-pool entry (token 0 until the hello is accepted)
        let r := recvDatagram C (serverRole it.H (tokFor s0 it) (some c0.token)) c0 t it.hdr it.d
        let s1 := { s0 with temps := pset s0.temps it.addr ⟨s.born, r.1⟩ }
        match r.2.2 with
        | .raised _ => (s1, acts, [.contained "datagram"])
        | _ => (s1, acts, [])

def handleItems (sz : Sizes) (C : Crypto) (t : Int) : Srv → List Item → List HAct → Srv × List HAct × List SEvent
  | s, [], acts => (s, acts, [])
  | s, it :: rest, acts =>
    let (s1, acts1, e1) := handleItem sz C s t it acts
    let (s2, acts2, e2) := handleItems sz C t s1 rest acts1
    (s2, acts2, e1 ++ e2)

/-- what `client.update()` contributes to the `sending` list -/
def updateOut (C : Crypto) (sz : Sizes) (addr : Addr) (c : Conn) (t : Int) : Conn × List SEvent :=
  match serverUpdate sz c t with
  | (c1, _, .ok (some pkt)) =>
    (c1, match toBytes C c1.key pkt with
      | .ok d => [.sendTo addr pkt.hdr d]
      | .error _ => [.contained "encode"])
  | (c1, _, .ok none) => (c1, [])
  | (c1, _, .error _) => (c1, [.contained "client update"])

/-- the sweep over the connected pool (iterating a snapshot of the entries) -/
def sweepConns (C : Crypto) (sz : Sizes) (t : Int) : Srv → List (Addr × Ent) → List HAct → Srv × List HAct × List SEvent
  | s, [], acts => (s, acts, [])
  | s, (addr, e0) :: rest, acts =>
    -- the pool may have changed since the snapshot (only by this sweep): use the current entry
    match pget s.conns addr with
    | none => sweepConns C sz t s rest acts
    | some e =>
      let c1 := if e.conn.status = .disconnecting then Conn.disconnect e.conn none else e.conn
      if c1.status = .disconnected ∨ timedOut c1 t s.cfg.connTimeout then
        let (a, acts') := nextAct acts
        let c2 := actOn sz c1 a
        let (c3, out) := updateOut C sz addr c2 t
        let s1 := { s with conns := pdel s.conns addr }
        let (s2, acts'', ev) := sweepConns C sz t s1 rest acts'
        (s2, acts'', [SEvent.disconnect e.id] ++ (if a.raises then [.contained "disconnect"] else []) ++ out ++ ev)
      else
        let (c3, out) := updateOut C sz addr c1 t
        let s1 := { s with conns := pset s.conns addr { e with conn := c3 } }
        let (s2, acts', ev) := sweepConns C sz t s1 rest acts
        (s2, acts', out ++ ev)

def sweepTemps (C : Crypto) (sz : Sizes) (t : Int) : Srv → List (Addr × Ent) → Srv × List SEvent
  | s, [] => (s, [])
  | s, (addr, e) :: rest =>
    if e.conn.status = .disconnected ∨ timedOut e.conn t s.cfg.tempTimeout then
      sweepTemps C sz t { s with temps := pdel s.temps addr } rest
    else
      let (c3, out) := updateOut C sz addr e.conn t
      let (s2, ev) := sweepTemps C sz t { s with temps := pset s.temps addr { e with conn := c3 } } rest
      (s2, out ++ ev)

/-- `handler.update` calling `client.disconnect()` on every connected client -/
def kickAll (s : Srv) : Srv :=
  { s with conns := s.conns.map (fun p => (p.1, { p.2 with conn := Conn.disconnect p.2.conn none })) }

/-- one iteration of the main loop: queued datagrams at clock `tq`, `handler.update`, the two
    sweeps and the sends at clock `ts` -/
def iter (sz : Sizes) (C : Crypto) (s : Srv) (tq ts : Int) (batch : List Item) (acts : List HAct) :
    Srv × List SEvent :=
  let (s1, acts1, e1) := handleItems sz C tq s batch acts
  let (a, acts2) := nextAct acts1
  let eu := [SEvent.update] ++ (if a.raises then [.contained "update"] else [])
  let s1k := if a = .kick then kickAll s1 else s1
  let (s2, _, e2) := sweepConns C sz ts s1k s1k.conns acts2
  let (s3, e3) := sweepTemps C sz ts s2 s2.temps
  (s3, e1 ++ eu ++ e2 ++ e3)

/-- after the loop exits: every connected client gets its disconnect event, then `shutdown` -/
def shutdownSweep : Pool → List HAct → List SEvent
  | [], _ => [.shutdown]
  | (_, e) :: rest, acts =>
    let (a, acts') := nextAct acts
    [SEvent.disconnect e.id] ++ (if a.raises then [.contained "disconnect"] else []) ++ shutdownSweep rest acts'

end Mpgs.Server
