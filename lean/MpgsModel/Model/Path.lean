/-
Model of `path_join_safe` (mpgameserver/http_server.py:33-61, repaired: an absolute file name is
refused) and of the three `posixpath` functions it rests on.  Core Lean only.

Python -> Lean
* `str` -> `List Char` (a Lean `Char` is a Unicode scalar value; Python strings that contain lone
  surrogates are outside the model — they cannot be produced by decoding UTF-8).
* `os.path` is `posixpath` (the harness runs on Linux; `ntpath` is not modelled).
* `os.getcwd()` is the parameter `cwd` of `abspath` / `pathJoinSafe`.
* `posixpath.normpath` is the C function `posix._path_normpath` on this interpreter; the model
  mirrors the pure-Python reference implementation in the same file (CPython 3.12
  `Lib/posixpath.py`, the `except ImportError` branch) line by line.  The differential ties the
  model to the function that is really called.
* `new_comps` (a Python list used as a stack: `append` / `pop` / `[-1]`) is a `List` in the same
  order: `st ++ [c]`, `st.dropLast`, `st.getLast?`.
* `raise ValueError` -> `.error .valueError`.
-/
namespace Mpgs.Path

abbrev Str := List Char

inductive Err | valueError
  deriving DecidableEq, Repr

def sep : Char := '/'
def dot : Str := ['.']
def dotdot : Str := ['.', '.']

/-- `s.replace("\\", "/")` -/
def fixSep : Str → Str
  | [] => []
  | c :: cs => (if c = '\\' then '/' else c) :: fixSep cs

/-- `s.split("/")` as (first component, remaining components): never empty, like Python's -/
def splitAux : Str → Str × List Str
  | [] => ([], [])
  | c :: cs =>
    let r := splitAux cs
    if c = '/' then ([], r.1 :: r.2) else (c :: r.1, r.2)

/-- `s.split("/")` -/
def split (s : Str) : List Str := (splitAux s).1 :: (splitAux s).2

/-- `"/".join(comps)` -/
def joinSlash : List Str → Str
  | [] => []
  | [c] => c
  | c :: d :: cs => c ++ '/' :: joinSlash (d :: cs)

/-- `s.startswith("/")` -/
def isabs (s : Str) : Bool := s.head? = some '/'

/-- `s.endswith("/")` -/
def endsSlash (s : Str) : Bool := s.getLast? = some '/'

/-- `posixpath.join(a, b)` (two arguments) -/
def join (a b : Str) : Str :=
  if isabs b then b                                -- if b.startswith(sep): path = b
  else if a = [] ∨ endsSlash a then a ++ b         -- elif not path or path.endswith(sep): path += b
  else a ++ '/' :: b                               -- else: path += sep + b

/-- `posixpath.splitroot(p)[1:]` : (root, tail); root is `""`, `"/"` or `"//"` -/
def splitroot (p : Str) : Str × Str :=
  match p with
  | [] => ([], p)
  | c0 :: r1 =>
    if c0 ≠ '/' then ([], p)                       -- if p[:1] != sep: relative
    else match r1 with
      | [] => (['/'], r1)                          -- p[1:2] != sep
      | c1 :: r2 =>
        if c1 ≠ '/' then (['/'], r1)               -- p[1:2] != sep
        else match r2 with
          | [] => (['/', '/'], r2)                 -- precisely two leading slashes
          | c2 :: _ =>
            if c2 = '/' then (['/'], r1)           -- p[2:3] == sep
            else (['/', '/'], r2)                  -- precisely two leading slashes

/-- one iteration of the `for comp in comps` loop of `normpath`; `hasRoot` = `bool(initial_slashes)` -/
def normStep (hasRoot : Bool) (st : List Str) (comp : Str) : List Str :=
  if comp = [] ∨ comp = dot then st                                  -- continue
  else if comp ≠ dotdot ∨ (hasRoot = false ∧ st = []) ∨ (st ≠ [] ∧ st.getLast? = some dotdot) then
    st ++ [comp]                                                     -- new_comps.append(comp)
  else if st ≠ [] then st.dropLast                                   -- new_comps.pop()
  else st

/-- `posixpath.normpath` -/
def normpath (path : Str) : Str :=
  if path = [] then dot
  else
    let r := splitroot path
    let comps := split r.2
    let newComps := comps.foldl (normStep (r.1 ≠ [])) []
    let out := r.1 ++ joinSlash newComps
    if out = [] then dot else out                                    -- return path or dot

/-- `posixpath.abspath` with `os.getcwd()` = `cwd` -/
def abspath (cwd path : Str) : Str :=
  if isabs path then normpath path else normpath (join cwd path)

/-- `path_join_safe(root_directory, filename)` (repaired) -/
def pathJoinSafe (cwd root filename : Str) : Except Err Str :=
  let root := fixSep root
  let filename := fixSep filename
  let parts := split filename                      -- set(filename.split("/"))
  if dotdot ∈ parts ∨ dot ∈ parts then .error .valueError
  else if isabs filename then .error .valueError   -- repair: absolute file name refused
  else .ok (abspath cwd (join root filename))

/-- the code before the repair (no absolute-name check); kept for the witness theorem only -/
def pathJoinSafeOld (cwd root filename : Str) : Except Err Str :=
  let root := fixSep root
  let filename := fixSep filename
  let parts := split filename
  if dotdot ∈ parts ∨ dot ∈ parts then .error .valueError
  else .ok (abspath cwd (join root filename))

/-! ### vocabulary of the property statements (`Props/C17.lean`) -/

/-- a component of a normalised path: non-empty, not `.`, not `..`, no separator inside -/
def Clean (c : Str) : Prop := c ≠ [] ∧ c ≠ dot ∧ c ≠ dotdot ∧ '/' ∉ c

/-- `p` is an absolute normalised path: `/` or `//` followed by clean components joined by single
    slashes (no empty, `.` or `..` component, no trailing slash) -/
def Normalised (p : Str) : Prop :=
  ∃ sl comps, (sl = ['/'] ∨ sl = ['/', '/']) ∧ (∀ c ∈ comps, Clean c) ∧ p = sl ++ joinSlash comps

/-- `p` is the directory `r` or lies beneath it: `p = r`, or `r ++ "/"` is a prefix of `p`, or `r` is
    one of the two root directories `/`, `//` (which already end with the separator) and is a prefix -/
def Beneath (r p : Str) : Prop :=
  p = r ∨ (r ++ ['/']) <+: p ∨ ((r = ['/'] ∨ r = ['/', '/']) ∧ r <+: p)

end Mpgs.Path
