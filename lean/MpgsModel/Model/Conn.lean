import MpgsModel.Model.SeqNum
import MpgsModel.Model.Wire
/-
Model of `ConnectionBase` (mpgameserver/connection.py:829-1448 as repaired by the `fix:` commits),
`FragmentSender`, `FragmentReceiver`, `RetrySender`.  Core Lean only.

Conventions
* time is integer ticks of 1/1024 s (`Int`); the harness only uses clock values k/1024, so the
  float comparisons of the code are exact
* dicts are insertion-ordered association lists (`aget/aset/adel`)
* callbacks are data (`Cb`); a user callback firing is the event `userCb id value`
* objects with identity and mutable state that closures keep alive (`RetrySender.done`,
  `FragmentSender.acks`) live in append-only tables (`retryObjs`, `fragObjs`) and are referred
  to by index
* exceptions that escape `_recv_datagram` (raised while a message is processed) are the
  `raised` outcome; the rest of that datagram is then skipped, exactly as in Python
* not modelled: latency, the rolling per-second stats lists, logging; clock values are ≥ 0
  (a negative `int(time)` would make `struct.pack` raise in `_encode_packet`)
-/
namespace Mpgs.Conn
open Mpgs.Bytes Mpgs.Wire

/-! ### association lists (Python dict, insertion ordered) -/

def aget {α : Type} : List (Nat × α) → Nat → Option α
  | [], _ => none
  | (k, v) :: t, x => if k = x then some v else aget t x

/-- `d[k] = v` : replaces in place, or appends a new key -/
def aset {α : Type} : List (Nat × α) → Nat → α → List (Nat × α)
  | [], x, v => [(x, v)]
  | (k, w) :: t, x, v => if k = x then (k, v) :: t else (k, w) :: aset t x v

/-- `del d[k]` / `d.pop(k, None)` -/
def adel {α : Type} : List (Nat × α) → Nat → List (Nat × α)
  | [], _ => []
  | (k, w) :: t, x => if k = x then t else (k, w) :: adel t x

def ahas {α : Type} (l : List (Nat × α)) (x : Nat) : Bool := (aget l x).isSome

/-! ### data -/

inductive Status | connecting | connected | disconnecting | disconnected | dropped
  deriving DecidableEq, Repr, Inhabited

inductive Cb
  | user (id : Nat)
  | retry (rid : Nat)              -- a `RetrySender` object (index into `retryObjs`)
  | frag (fid : Nat) (idx : Nat)   -- `FragmentSender.callback(idx, ·)` of object `fid`
  | helloTimeout | challengeTimeout | clientDisconnect
  deriving DecidableEq, Repr

structure PMsg where
  seq : Nat
  ty : PType
  payload : Bytes
  cb : Option Cb
  retry : Int            -- RetryMode value: 0 NONE, 1 BEST_EFFORT, -1 RETRY_ON_TIMEOUT
  assembled : Int
  deriving DecidableEq, Repr

structure RetrySender where
  mseq : Nat
  ty : PType
  payload : Bytes
  inner : Option Cb
  done : Bool
  deriving DecidableEq, Repr

structure FragSender where
  fragId : Nat
  retry : Int
  userCb : Option Nat
  fragments : List Bytes
  acks : List (Option Bool)
  deriving DecidableEq, Repr

structure FragRecv where
  ctime : Int
  slots : List (Option Bytes)
  msgseq : Nat
  count : Nat
  deriving DecidableEq, Repr

inductive Err
  | valueError | typeError | structError | packetError | invalidTag | invalidSignature
  | nameError | exception
  deriving DecidableEq, Repr

def Err.ofWire : Wire.Err → Err
  | .structError => .structError | .valueError => .valueError
  | .packetError => .packetError | .invalidTag => .invalidTag

inductive Event
  | userCb (id : Nat) (v : Bool)
  | connectCb (v : Bool)
  | deliver (seq : Nat) (payload : Bytes)
  | resolved (seq : Nat) (acked : Bool)
  | dropped
  | clientDisconnectCb
  | promoted                          -- server: `ctxt._onConnect(self)` was called for this connection
  deriving DecidableEq, Repr

structure Conn where
  isServer : Bool
  key : Option Bytes := none
  status : Status := .disconnected
  incoming : List (Nat × Bytes) := []
  outgoing : List PMsg := []
  pendingAcks : List (Nat × Int) := []
  pendingCbs : List (Nat × List Cb) := []
  pendingRetry : List (Nat × List Nat) := []
  pendingRetryMsg : List (Nat × PMsg) := []
  pendingFrags : List (Nat × Nat) := []
  fragObjs : List FragSender := []
  retryObjs : List RetrySender := []
  recvFrags : List (Nat × FragRecv) := []
  seqSending : Nat := 0
  seqMessage : Nat := 0
  seqFragment : Nat := 0
  bfPkt : Seq.BitField := ⟨32, 0, 0⟩
  bfMsg : Seq.BitField := ⟨256, 0, 0⟩
  outgoingTimeout : Int := 1024
  tempTimeout : Int := 2048
  sendInterval : Int := 16
  keepAlive : Int := 96
  lastRecv : Int := -1024
  lastSend : Int := -1024
  lastKeepAlive : Int := -1024
  assembled : Nat := 0
  sent : Nat := 0
  dropped : Nat := 0
  received : Nat := 0
  acked : Nat := 0
  timeouts : Nat := 0
  -- ClientServerConnection / ServerClientConnection
  token : Nat := 0
  helloSentAt : Int := 0             -- `time_client_hello_sent` (0 = not waiting for a server hello)
  hasConnectCb : Bool := false       -- `connection_callback is not None`
  pinned : Option Bytes := none      -- `server_public_key` (DER) configured on the client
  deriving Repr

/-- `seq += 1` on a `SeqNum` counter (values stay in 0..65535, so the constructor never raises) -/
def seqInc (s : Nat) : Nat :=
  match Seq.add (s : Int) 1 with
  | .ok v => v.toNat
  | .error _ => s

/-! ### sending -/

/-- `_send_type` -/
def sendType (c : Conn) (ty : PType) (payload : Bytes) (retry : Int) (cb : Option Cb) : Conn :=
  let ms := seqInc c.seqMessage
  let (cb', robjs) :=
    if retry = -1 then
      (some (Cb.retry c.retryObjs.length), c.retryObjs ++ [⟨ms, ty, payload, cb, false⟩])
    else (cb, c.retryObjs)
  { c with seqMessage := ms, retryObjs := robjs,
           outgoing := c.outgoing ++ [⟨ms, ty, payload, cb', retry, 0⟩], sent := c.sent + 1 }

/-- the `while` loop of `FragmentSender.build`; `fuel` bounds the iterations (≥ payload length) -/
def splitFrags (maxPayload maxFragment : Nat) : Nat → Bytes → List Bytes
  | 0, _ => []
  | fuel + 1, p =>
    if p.length = 0 then []
    else if p.length < maxPayload - 6 then [p]
    else take maxFragment p :: splitFrags maxPayload maxFragment fuel (drop maxFragment p)

def fragPrefix (fragId index count : Nat) : Bytes := be16 fragId ++ be16 index ++ be16 count

/-- queue the fragments produced by `FragmentSender.build` (the `for` loop in `send`) -/
def sendFrags (c : Conn) (fid fragId count : Nat) (retry : Int) : Nat → List Bytes → Conn
  | _, [] => c
  | i, f :: fs =>
    sendFrags (sendType c .appFragment (fragPrefix fragId (1 + i) count ++ f) retry (some (.frag fid i)))
      fid fragId count retry (i + 1) fs

/-- the branch of `send` for payloads above `MAX_PAYLOAD_SIZE` -/
def sendFragmented (sz : Sizes) (c : Conn) (payload : Bytes) (retry : Int) (cb : Option Nat) : Conn × Option Err :=
  let fragId := seqInc c.seqFragment
  if payload.length > sz.maxFragment * maxFragments then
    -- `build` raises before yielding anything; the (unreferenced) sender object exists
    ({ c with seqFragment := fragId, fragObjs := c.fragObjs ++ [⟨fragId, retry, cb, [], []⟩] }, some .valueError)
  else
    let frags := splitFrags sz.maxPayload sz.maxFragment payload.length payload
    let fid := c.fragObjs.length
    let obj : FragSender := ⟨fragId, retry, cb, frags, frags.map (fun _ => none)⟩
    let c2 := { c with seqFragment := fragId, fragObjs := c.fragObjs ++ [obj] }
    let c3 := sendFrags c2 fid fragId frags.length (if retry = -1 then 0 else retry) 0 frags
    ({ c3 with pendingFrags := aset c3.pendingFrags fragId fid }, none)

/-- `ConnectionBase.send(payload, retry, callback)`; returns the new state and the exception, if any -/
def send (sz : Sizes) (c : Conn) (payload : Bytes) (retry : Int) (cb : Option Nat) : Conn × Option Err :=
  if retry ≠ 0 ∧ retry ≠ 1 ∧ retry ≠ -1 then (c, some .valueError)     -- RetryMode(retry)
  else if c.status ≠ .connected then (c, none)
  else if payload.length > sz.maxPayload then sendFragmented sz c payload retry cb
  else (sendType c .app payload retry (cb.map Cb.user), none)

/-- `ConnectionBase.disconnect(callback)` -/
def disconnect (c : Conn) (cb : Option Cb) : Conn :=
  if c.status = .connected ∨ c.status = .disconnecting then
    let c1 := { c with outgoing := [], incoming := [], pendingCbs := [], pendingRetry := [],
                       pendingAcks := [] }
    { sendType c1 .disconnect [] 0 cb with status := .disconnected }
  else { c with status := .disconnected }

/-! ### callbacks -/

def setAck : List (Option Bool) → Nat → Bool → List (Option Bool)
  | [], _, _ => []
  | _ :: t, 0, v => some v :: t
  | a :: t, n + 1, v => a :: setAck t n v

def setObj {α : Type} : List α → Nat → α → List α
  | [], _, _ => []
  | _ :: t, 0, v => v :: t
  | a :: t, n + 1, v => a :: setObj t n v

/-- a callback that is not a `RetrySender` -/
def runLeaf (c : Conn) (cb : Cb) (v : Bool) : Conn × List Event :=
  match cb with
  | .user id => (c, [.userCb id v])
  | .frag fid idx =>
    match c.fragObjs[fid]? with
    | none => (c, [])
    | some obj =>
      match obj.acks[idx]? with
      | none => (c, [])                       -- IndexError swallowed by the caller's try/except
      | some (some _) => (c, [])              -- already resolved by another datagram
      | some none =>
        if !v ∧ obj.retry ≠ 0 then
          let payload := fragPrefix obj.fragId (1 + idx) obj.fragments.length ++
            (obj.fragments[idx]?).getD []
          (sendType c .appFragment payload obj.retry (some (.frag fid idx)), [])
        else
          let acks := setAck obj.acks idx v
          let obj' := { obj with acks := acks }
          let c1 := { c with fragObjs := setObj c.fragObjs fid obj' }
          if acks.all (fun a => a.isSome) then
            let c2 := { c1 with pendingFrags := adel c1.pendingFrags obj.fragId }
            match obj.userCb with
            | some id => (c2, [.userCb id (acks.all (fun a => a == some true))])
            | none => (c2, [])
          else (c1, [])
  | .clientDisconnect => (c, [.clientDisconnectCb])
  | .helloTimeout => (c, [])
  | .challengeTimeout => (c, [])
  | .retry _ => (c, [])

/-- `cbk(success)` for any callback, `RetrySender.__call__` included -/
def runCb (c : Conn) (cb : Cb) (v : Bool) : Conn × List Event :=
  match cb with
  | .retry rid =>
    match c.retryObjs[rid]? with
    | none => (c, [])
    | some obj =>
      if obj.done then (c, [])
      else if !v then
        ({ c with outgoing := c.outgoing ++ [⟨obj.mseq, obj.ty, obj.payload, some (.retry rid), -1, 0⟩] }, [])
      else
        let c1 := { c with retryObjs := setObj c.retryObjs rid { obj with done := true } }
        match obj.inner with
        | some inner => runLeaf c1 inner true
        | none => (c1, [])
  | other => runLeaf c other v

def runCbs (c : Conn) : List Cb → Bool → Conn × List Event
  | [], _ => (c, [])
  | cb :: rest, v =>
    let (c1, e1) := runCb c cb v
    let (c2, e2) := runCbs c1 rest v
    (c2, e1 ++ e2)

def clearRetry (prm : List (Nat × PMsg)) : List Nat → List (Nat × PMsg)
  | [] => prm
  | ms :: rest => clearRetry (adel prm ms) rest

/-- shared tail of `_handle_ack` / `_handle_timeout` -/
def resolve (c : Conn) (seq : Nat) (ok : Bool) : Conn × List Event :=
  let c0 := if ok then { c with acked := c.acked + 1 } else { c with timeouts := c.timeouts + 1 }
  let (c1, ev) :=
    match aget c0.pendingCbs seq with
    | some cbs =>
      let (c', ev) := runCbs c0 cbs ok
      ({ c' with pendingCbs := adel c'.pendingCbs seq }, ev)
    | none => (c0, [])
  let c2 :=
    match aget c1.pendingRetry seq with
    | some mseqs => { c1 with pendingRetryMsg := clearRetry c1.pendingRetryMsg mseqs,
                              pendingRetry := adel c1.pendingRetry seq }
    | none => c1
  ({ c2 with pendingAcks := adel c2.pendingAcks seq }, .resolved seq ok :: ev)

/-- `_check_timeout(t0)` : `>=` -/
def checkTimeoutKeys (c : Conn) (t : Int) : List Nat → Conn × List Event
  | [] => (c, [])
  | s :: rest =>
    match aget c.pendingAcks s with
    | none => checkTimeoutKeys c t rest          -- KeyError cannot happen: keys are a snapshot
    | some st =>
      if t - st ≥ c.outgoingTimeout then
        let (c1, e1) := resolve c s false
        let (c2, e2) := checkTimeoutKeys c1 t rest
        (c2, e1 ++ e2)
      else checkTimeoutKeys c t rest

def checkTimeout (c : Conn) (t : Int) : Conn × List Event :=
  checkTimeoutKeys c t (c.pendingAcks.map (·.1))

/-- the loop of `ServerClientConnection.update` : `>` -/
def checkTimeoutStrictKeys (c : Conn) (t : Int) : List Nat → Conn × List Event
  | [] => (c, [])
  | s :: rest =>
    match aget c.pendingAcks s with
    | none => checkTimeoutStrictKeys c t rest
    | some st =>
      if t - st > c.outgoingTimeout then
        let (c1, e1) := resolve c s false
        let (c2, e2) := checkTimeoutStrictKeys c1 t rest
        (c2, e1 ++ e2)
      else checkTimeoutStrictKeys c t rest

/-- `_handle_ack_bits(hdr)` -/
def handleAckKeys (c : Conn) (ack : Nat) (ackBits : Nat) : List Nat → Conn × List Event
  | [] => (c, [])
  | s :: rest =>
    match aget c.pendingAcks s with
    | none => handleAckKeys c ack ackBits rest
    | some st =>
      if Seq.ackNames (ack : Int) ackBits (s : Int) then
        let (c1, e1) := resolve c s true
        let (c2, e2) := handleAckKeys c1 ack ackBits rest
        (c2, e1 ++ e2)
      else if c.lastRecv - st > c.outgoingTimeout then
        let (c1, e1) := resolve c s false
        let (c2, e2) := handleAckKeys c1 ack ackBits rest
        (c2, e1 ++ e2)
      else handleAckKeys c ack ackBits rest

def handleAckBits (c : Conn) (h : Header) : Conn × List Event :=
  handleAckKeys c h.ack h.ackBits (c.pendingAcks.map (·.1))

/-! ### building packets -/

/-- `sorted(pending_retry_msg.items())` : insertion sort by `SeqNum.__lt__` on the keys -/
def insertBySeq (x : Nat × PMsg) : List (Nat × PMsg) → List (Nat × PMsg)
  | [] => [x]
  | y :: ys => if Seq.lt (x.1 : Int) (y.1 : Int) then x :: y :: ys else y :: insertBySeq x ys

def sortBySeq (l : List (Nat × PMsg)) : List (Nat × PMsg) := l.foldr insertBySeq []

structure Pack where
  msgs : List PMsg := []
  len : Nat := 0

def fits (sz : Sizes) (p : Pack) (m : PMsg) : Bool :=
  decide (m.payload.length + overhead (1 + p.msgs.length) + p.len ≤ sz.maxPayload + 2) &&
  decide (p.msgs.length < 255)

def Pack.add (p : Pack) (m : PMsg) : Pack := ⟨p.msgs ++ [m], p.len + m.payload.length⟩

/-- resend loop of `_build_packet_impl` -/
def packResend (sz : Sizes) (t delay : Int) :
    List (Nat × PMsg) → Pack → List (Nat × PMsg) → Pack × List (Nat × PMsg)
  | [], p, prm => (p, prm)
  | (ms, m) :: rest, p, prm =>
    if t - m.assembled < delay then packResend sz t delay rest p prm
    else if fits sz p m then packResend sz t delay rest (p.add m) (adel prm ms)
    else packResend sz t delay rest p prm

/-- first-fit loop over `outgoing_messages`; returns the pack and the messages left queued -/
def packNew (sz : Sizes) : List PMsg → Pack → Pack × List PMsg
  | [], p => (p, [])
  | m :: rest, p =>
    if fits sz p m then packNew sz rest (p.add m)
    else
      let (p', kept) := packNew sz rest p
      (p', m :: kept)

/-- register the packed messages (callbacks, resend set, assembled time) -/
def registerMsgs (t : Int) : List PMsg → List (Nat × PMsg) → List Cb → List Nat →
    List (Nat × PMsg) × List Cb × List Nat
  | [], prm, cbs, rts => (prm, cbs, rts)
  | m :: rest, prm, cbs, rts =>
    let cbs' := match m.cb with | some cb => cbs ++ [cb] | none => cbs
    let m' := { m with assembled := t }
    if m.retry ≠ 0 then registerMsgs t rest (aset prm m.seq m') cbs' (rts ++ [m.seq])
    else registerMsgs t rest prm cbs' rts

def toWMsg (m : PMsg) : WMsg := ⟨m.seq, m.ty, m.payload⟩

/-- the packet type chosen by `_build_packet_impl` -/
def pktType (c : Conn) (sendKeepAlive : Bool) (msgs : List PMsg) : PType :=
  match msgs with
  | [] => if sendKeepAlive ∧ c.status = .connected then .keepAlive else .unknown
  | m :: _ => m.ty

/-- bookkeeping for a packet that will be sent: next datagram seq, pending ack, callbacks, resend set -/
def registerPacket (c : Conn) (t : Int) (msgs : List PMsg) : Conn :=
  let s := seqInc c.seqSending
  let r := registerMsgs t msgs c.pendingRetryMsg [] []
  { c with seqSending := s, pendingAcks := aset c.pendingAcks s t,
           pendingRetryMsg := r.1,
           pendingCbs := if r.2.1.isEmpty then c.pendingCbs else aset c.pendingCbs s r.2.1,
           pendingRetry := if r.2.2.isEmpty then c.pendingRetry else aset c.pendingRetry s r.2.2 }

def mkHdr (c : Conn) (t : Int) (ty : PType) (s : Nat) : Header :=
  ⟨c.isServer, (t / 1024).toNat, ty, s, c.bfPkt.cur.toNat, c.bfPkt.bits, 0, 0⟩

/-- the two packing loops of `_build_packet_impl`: (pack, resend set after, queue after) -/
def packAll (sz : Sizes) (c : Conn) (t delay : Int) : Pack × List (Nat × PMsg) × List PMsg :=
  let r1 := packResend sz t delay (sortBySeq c.pendingRetryMsg) {} c.pendingRetryMsg
  let r2 := packNew sz c.outgoing r1.1
  (r2.1, r1.2, r2.2)

/-- `_build_packet_impl(current_time, send_keep_alive, resend_delay)` -/
def buildPacketImpl (sz : Sizes) (c : Conn) (t : Int) (sendKeepAlive : Bool) (delay : Int) :
    Conn × Except Err (Option Packet) :=
  let pk := packAll sz c t delay
  let c1 := { c with pendingRetryMsg := pk.2.1, outgoing := pk.2.2 }
  let ty := pktType c sendKeepAlive pk.1.msgs
  if ty = .unknown then (c1, .ok none)
  else
    let c2 := registerPacket c1 t pk.1.msgs
    match create (mkHdr c t ty c2.seqSending) (pk.1.msgs.map toWMsg) with
    | .ok pkt => (c2, .ok (some pkt))
    | .error e => (c2, .error (Err.ofWire e))

/-- bookkeeping of `_build_packet` once a packet exists -/
def finishBuild (c : Conn) (t : Int) : Conn :=
  { c with lastSend := t, lastKeepAlive := t, assembled := c.assembled + 1 }

/-- `_build_packet()` at clock value `t` -/
def buildPacket (sz : Sizes) (c : Conn) (t : Int) : Conn × Except Err (Option Packet) :=
  if t - c.lastSend < c.sendInterval then (c, .ok none)
  else
    match (buildPacketImpl sz c t (decide (t - c.lastKeepAlive > c.keepAlive)) c.keepAlive).2 with
    | .ok (some pkt) =>
      (finishBuild (buildPacketImpl sz c t (decide (t - c.lastKeepAlive > c.keepAlive)) c.keepAlive).1 t,
       .ok (some pkt))
    | other => ((buildPacketImpl sz c t (decide (t - c.lastKeepAlive > c.keepAlive)) c.keepAlive).1, other)

/-! ### receiving -/

def setSlot : List (Option Bytes) → Nat → Bytes → List (Option Bytes)
  | [], _, _ => []
  | none :: t, 0, v => some v :: t
  | some x :: t, 0, _ => some x :: t
  | a :: t, n + 1, v => a :: setSlot t n v

/-- `all(self.fragments)` : every slot holds a non-empty byte string -/
def slotsComplete (s : List (Option Bytes)) : Bool :=
  s.all (fun o => match o with | some b => !b.isEmpty | none => false)

def joinSlots : List (Option Bytes) → Bytes
  | [] => []
  | some b :: t => b ++ joinSlots t
  | none :: t => joinSlots t

def expireFrags (t : Int) : List (Nat × FragRecv) → List (Nat × FragRecv)
  | [] => []
  | (k, r) :: rest =>
    if t - r.ctime > 1024 + 512 * (r.count : Int) then expireFrags t rest
    else (k, r) :: expireFrags t rest

/-- the receiver context after storing one fragment (`FragmentReceiver.receive`), creating the
    context on the first fragment of an id -/
def fragUpdate (c : Conn) (t : Int) (mseq : Nat) (frag : Bytes) : FragRecv :=
  let fragId := beVal (slice 0 2 frag)
  let index := beVal (slice 2 4 frag)
  let count := beVal (slice 4 6 frag)
  let r0 : FragRecv := match aget c.recvFrags fragId with
    | some r => r
    | none => ⟨t, List.replicate count none, 0, count⟩
  { r0 with slots := if 1 ≤ index ∧ index ≤ r0.slots.length then setSlot r0.slots (index - 1) (drop 6 frag) else r0.slots,
            msgseq := if index = 1 then mseq else r0.msgseq }

/-- the message is complete: deliver it, drop the context, purge expired contexts -/
def fragDeliver (c : Conn) (t : Int) (fragId : Nat) (r : FragRecv) : Conn :=
  { c with incoming := c.incoming ++ [(r.msgseq, joinSlots r.slots)],
           recvFrags := expireFrags t (adel (aset c.recvFrags fragId r) fragId) }

/-- not complete yet: keep the context, purge expired contexts -/
def fragStore (c : Conn) (t : Int) (fragId : Nat) (r : FragRecv) : Conn :=
  { c with recvFrags := expireFrags t (aset c.recvFrags fragId r) }

/-- `_recvAppFragment(msgseq, fragment)` at clock value `t` -/
def recvAppFragment (c : Conn) (t : Int) (mseq : Nat) (frag : Bytes) : Conn × List Event × Option Err :=
  if (take 6 frag).length < 6 then (c, [], some .structError)
  else
    let fragId := beVal (slice 0 2 frag)
    let r := fragUpdate c t mseq frag
    if slotsComplete r.slots then (fragDeliver c t fragId r, [.deliver r.msgseq (joinSlots r.slots)], none)
    else (fragStore c t fragId r, [], none)

/-- hook for the three handshake message types (base class: log only) -/
structure Role where
  clientHello : Conn → Int → Bytes → Conn × List Event × Option Err
  serverHello : Conn → Int → Bytes → Conn × List Event × Option Err
  challengeResp : Conn → Int → Bytes → Conn × List Event × Option Err

def baseRole : Role := ⟨fun c _ _ => (c, [], none), fun c _ _ => (c, [], none), fun c _ _ => (c, [], none)⟩

/-- `_recv_message(pkt_typ, msgseq, msg)` -/
def recvMessage (R : Role) (c : Conn) (t : Int) (m : WMsg) : Conn × List Event × Option Err :=
  match c.bfMsg.insert (m.seq : Int) with
  | .error _ => (c, [], none)
  | .ok bf =>
    let c1 := { c with bfMsg := bf }
    match m.ty with
    | .clientHello => R.clientHello c1 t m.payload
    | .serverHello => R.serverHello c1 t m.payload
    | .challengeResp => R.challengeResp c1 t m.payload
    | .keepAlive => (c1, [], none)
    | .disconnect => ({ c1 with status := .disconnecting }, [], none)
    | .appFragment => recvAppFragment c1 t m.seq m.payload
    | .app => ({ c1 with incoming := c1.incoming ++ [(m.seq, m.payload)] }, [.deliver m.seq m.payload], none)
    | .unknown => (c1, [], none)

def recvMessages (R : Role) (c : Conn) (t : Int) : List WMsg → Conn × List Event × Option Err
  | [] => (c, [], none)
  | m :: rest =>
    match recvMessage R c t m with
    | (c1, e1, some err) => (c1, e1, some err)
    | (c1, e1, none) =>
      let (c2, e2, r) := recvMessages R c1 t rest
      (c2, e1 ++ e2, r)

inductive Ret | accepted | rejected | raised (e : Err)
  deriving DecidableEq, Repr

def drop1 (c : Conn) : Conn × List Event × Ret := ({ c with dropped := c.dropped + 1 }, [.dropped], .rejected)

/-- the hello an endpoint without a key expects -/
def expectedHello (c : Conn) : PType := if c.isServer then .clientHello else .serverHello

/-- repaired gate: before a key exists only the single expected hello is processed -/
def gateUnkeyed (c : Conn) (pkt : Packet) : Bool :=
  (keyed c.key).isNone && (pkt.hdr.count != 1 || pkt.hdr.ptype != expectedHello c)

/-- repaired gate: a datagram older than the receive window is dropped like a duplicate -/
def stale (c : Conn) (seq : Nat) : Bool :=
  c.bfPkt.cur != 0 && decide (Seq.diff c.bfPkt.cur (seq : Int) > (c.bfPkt.nbits : Int))

/-- the part of `_recv_datagram` after the datagram was decoded and found new -/
def accept (R : Role) (c : Conn) (t : Int) (h : Header) (pkt : Packet) (bf : Seq.BitField) :
    Conn × List Event × Ret :=
  let c1 := { c with bfPkt := bf, received := c.received + 1, lastRecv := t }
  let r2 := handleAckBits c1 h
  let r3 := recvMessages R r2.1 t pkt.msgs
  (r3.1, r2.2 ++ r3.2.1, match r3.2.2 with | none => .accepted | some err => .raised err)

/-- `_recv_datagram(hdr, datagram)` at clock value `t` -/
def recvDatagram (C : Crypto) (R : Role) (c : Conn) (t : Int) (h : Header) (d : Bytes) :
    Conn × List Event × Ret :=
  match fromBytes C h c.key d with
  | .error _ => drop1 c
  | .ok pkt =>
    if gateUnkeyed c pkt then drop1 c
    else if stale c pkt.hdr.seq then drop1 c
    else
      match c.bfPkt.insert (pkt.hdr.seq : Int) with
      | .error _ => drop1 c
      | .ok bf => accept R c t h pkt bf

/-- `timedout(timeout)` at clock value `t` -/
def timedOut (c : Conn) (t : Int) (timeout : Int) : Bool := decide (t - c.lastRecv ≥ timeout)

end Mpgs.Conn
