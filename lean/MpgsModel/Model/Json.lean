import MpgsModel.Model.JsonDec
/-
Model of the typed-JSON half of mpgameserver/serializable.py:
`_toJsonBasic` / `_fromJsonBasic` (:468-494), `Serializable.toJson` / `fromJson` / `dumps` / `loads`
(:595-596, :623-625, :640-767), `SerializableEnum.toJson` / `fromJson` (:861-868).  Core Lean only.

Python -> Lean
* annotations: `Ty` = a basic / enum / Serializable type `BTy`, or one generic level
  `List[T] Set[T] Dict[K,V] Tuple[T...]` over `BTy` (the shapes the documentation lists).
* the *class table* `Table` is data read from the live classes by the harness: for every Serializable
  class its `_fields` in order with annotation and the value `cls()` gives the field (`dflt`; what a
  record that lacks the key leaves in place), for every SerializableEnum its public members
  `(NAME, raw value)` in `dir()` order, which is the order in which the metaclass fills
  `_value2name` / `_name2value` (later entries overwrite earlier ones: aliases).
* values: `Atom` = None / bool / int / float / str are the things both directions pass through
  unchanged; floats are opaque 64-bit patterns, never computed with (`floatEq`, used only where
  `set(lst)` / `map[k] = v` compare elements, identifies +0.0 and -0.0; NaN inside a set is outside
  the model: identity vs. equality).
  `Val.enum e v` is an instance of enum class `e` whose `.value` is the int `v` (bound: enums with
  int raw values; the code only ever uses raw values as dict keys); `Val.obj c vs` an instance of
  Serializable class `c` with the values of its `_fields` in order; `list/set/tuple/dict` the Python
  containers (a set is the list of its elements in *iteration order*, which is what `toJson` emits;
  a dict is its insertion-ordered item list).
* plain data handed to / returned by `json`: `JsonVal` (atoms, arrays, objects whose keys are atoms).
* exceptions: `Err` (Python classes) + `unmodelled`: the model declines inputs on which the code
  would pass non-plain Python objects through unchanged or needs float arithmetic / `repr`
  (listed at each use).  The harness never generates those; `unmodelled` can never equal a line
  printed by the real side, so a generator that strays is reported as a disagreement.
-/
namespace Mpgs.Json

inductive Err | typeError | valueError | keyError | attributeError | unmodelled
  deriving DecidableEq, Repr

inductive BTy | int | float | str | bool | enum (e : Str) | obj (c : Str)
  deriving DecidableEq, Repr

inductive Ty
  | basic (b : BTy) | list (t : BTy) | set (t : BTy) | dict (k v : BTy) | tuple (ts : List BTy)
  deriving DecidableEq, Repr

inductive Atom | none | bool (b : Bool) | int (n : Int) | float (tok : Nat) | str (s : Str)
  deriving DecidableEq, Repr

inductive Val
  | atom (a : Atom)
  | enum (e : Str) (v : Int)
  | obj (c : Str) (fields : List Val)
  | list (xs : List Val)
  | set (xs : List Val)
  | tuple (xs : List Val)
  | dict (kvs : List (Val × Val))
  deriving Repr

inductive JsonVal
  | atom (a : Atom)
  | arr (xs : List JsonVal)
  | obj (kvs : List (Atom × JsonVal))
  deriving Repr

structure Field where
  name : Str
  ty   : Ty
  dflt : Val
  deriving Repr

structure Table where
  classes : List (Str × List Field)
  enums   : List (Str × List (Str × Int))
  deriving Repr

def assoc {α : Type} : List (Str × α) → Str → Option α
  | [], _ => none
  | (k, a) :: t, x => if k = x then some a else assoc t x

/-! ### SerializableEnum -/

/-- `_value2name[v]` after the metaclass loop `for name in dir(cls): _value2name[value] = name` -/
def value2name : List (Str × Int) → Int → Option Str
  | [], _ => none
  | (n, x) :: rest, v =>
    match value2name rest v with
    | some n' => some n'
    | none => if x = v then some n else none

/-- `_name2value[n]` -/
def name2value : List (Str × Int) → Str → Option Int
  | [], _ => none
  | (n, x) :: rest, m =>
    match name2value rest m with
    | some x' => some x'
    | none => if n = m then some x else none

/-- `str.upper()`; ASCII only (member names and the harness's enum-position strings are ASCII) -/
def pyUpper (s : Str) : Str := s.map Char.toUpper

/-- `SerializableEnum.toJson`: `self.__class__._value2name[self.value]` -/
def enumName (tbl : Table) (e : Str) (v : Int) : Except Err Str :=
  match assoc tbl.enums e with
  | none => .error .unmodelled
  | some ms => match value2name ms v with
    | some n => .ok n
    | none => .error .keyError

/-- `E(n).toJson()` for a raw value `n`: the constructor accepts members only -/
def memberName (tbl : Table) (e : Str) (n : Int) : Except Err JsonVal :=
  match assoc tbl.enums e with
  | none => .error .unmodelled
  | some ms => match value2name ms n with
    | some nm => .ok (.atom (.str nm))
    | none => .error .valueError

/-- `_toJsonBasic` for an enum annotation: `E(value).toJson()`.
`unmodelled`: instance of another enum class, float, tuple (hash/eq interplay with int keys). -/
def enumCast (tbl : Table) (e : Str) : Val → Except Err JsonVal
  | .enum e' v =>
    if e' = e then
      match enumName tbl e v with
      | .ok n => .ok (.atom (.str n))
      | .error x => .error x
    else .error .unmodelled
  | .atom (.int n) => memberName tbl e n
  | .atom (.bool b) => memberName tbl e (if b then 1 else 0)
  | .atom .none => .error .keyError          -- `E(None)` is allowed, its name is not
  | .atom (.str _) => .error .valueError
  | .atom (.float _) => .error .unmodelled
  | .obj _ _ => .error .valueError
  | .tuple _ => .error .unmodelled
  | .list _ => .error .typeError             -- unhashable in `value in _value2name`
  | .set _ => .error .typeError
  | .dict _ => .error .typeError

/-- `_fromJsonBasic` for an enum annotation on an atom: `E(E._name2value[value.upper()])` -/
def enumFromAtom (tbl : Table) (e : Str) : Atom → Except Err Val
  | .str s =>
    match assoc tbl.enums e with
    | none => .error .unmodelled
    | some ms => match name2value ms (pyUpper s) with
      | some v => .ok (.enum e v)
      | none => .error .keyError
  | _ => .error .attributeError

/-! ### `int(x)`, `float(x)`, `str(x)`, `bool(x)` on atoms -/

def floatZeroTok : Nat := 0
def floatOneTok : Nat := 0x3FF0000000000000
def floatIsZero (t : Nat) : Bool := t % 0x8000000000000000 = 0
/-- `==` on (non-NaN) floats given as bit patterns: equal patterns, or both zeros -/
def floatEq (a b : Nat) : Bool := a = b || (floatIsZero a && floatIsZero b)

/-- `int(x)`; `unmodelled`: float argument (truncation) -/
def pyInt : Atom → Except Err Int
  | .none => .error .typeError
  | .bool b => .ok (if b then 1 else 0)
  | .int n => .ok n
  | .float _ => .error .unmodelled
  | .str s => match pyParseInt s with
    | some n => .ok n
    | none => .error .valueError

/-- `float(x)`; `unmodelled`: int and str arguments (rounding / parsing) -/
def pyFloat : Atom → Except Err Nat
  | .none => .error .typeError
  | .bool b => .ok (if b then floatOneTok else floatZeroTok)
  | .int _ => .error .unmodelled
  | .float t => .ok t
  | .str _ => .error .unmodelled

/-- `str(x)`; `unmodelled`: float argument (`repr`) -/
def pyStr : Atom → Except Err Str
  | .none => .ok "None".toList
  | .bool b => .ok (if b then "True".toList else "False".toList)
  | .int n => .ok (toDecimal n)
  | .float _ => .error .unmodelled
  | .str s => .ok s

/-- `bool(x)` -/
def pyBool : Atom → Bool
  | .none => false
  | .bool b => b
  | .int n => n != 0
  | .float t => !floatIsZero t
  | .str s => !s.isEmpty

/-- `_fromJsonBasic(type, field, value)` for `type` in int/float/str/bool and an atom `value` -/
def plainFromAtom (b : BTy) (a : Atom) : Except Err Val :=
  match b with
  | .int => match pyInt a with | .ok n => .ok (.atom (.int n)) | .error e => .error e
  | .float => match pyFloat a with | .ok t => .ok (.atom (.float t)) | .error e => .error e
  | .str => match pyStr a with | .ok s => .ok (.atom (.str s)) | .error e => .error e
  | .bool => .ok (.atom (.bool (pyBool a)))
  | _ => .error .unmodelled

/-! ### Python equality / hashing as used by `set(lst)` and `map[k] = v` in `fromJson` -/

def atomEq : Atom → Atom → Bool
  | .none, .none => true
  | .bool a, .bool b => a = b
  | .int a, .int b => a = b
  | .float a, .float b => floatEq a b
  | .str a, .str b => a = b
  | _, _ => false

/-- `a == b` for two values produced by the *same* `_fromJsonBasic(T, ..)`: atoms of one kind by
value, enum instances by `.value`, Serializable instances by identity (fresh objects: never equal) -/
def pyEq : Val → Val → Bool
  | .atom a, .atom b => atomEq a b
  | .enum _ v, .enum _ w => v = w
  | _, _ => false

def memV (x : Val) : List Val → Bool
  | [] => false
  | y :: ys => pyEq y x || memV x ys

/-- `set(lst)`: first occurrences, in first-occurrence order (the real order is hash order; both
drivers sort before printing) -/
def pySetAux : List Val → List Val → List Val
  | [], acc => acc
  | x :: xs, acc => pySetAux xs (if memV x acc then acc else acc ++ [x])

def pySet (xs : List Val) : List Val := pySetAux xs []

/-- `map[k] = v` on an insertion-ordered dict -/
def dictSetV : List (Val × Val) → Val → Val → List (Val × Val)
  | [], k, v => [(k, v)]
  | (k0, v0) :: rest, k, v => if pyEq k0 k then (k0, v) :: rest else (k0, v0) :: dictSetV rest k v

/-! ### toJson -/

/-- iterating a `str` yields its characters as one-character strings -/
def strChars (s : Str) : List Atom := s.map (fun c => .str [c])

/-- `_toJsonBasic(T, field, a)` for an atom `a`: atoms have no `toJson` method -/
def toJsonAtom (tbl : Table) (t : BTy) (a : Atom) : Except Err JsonVal :=
  match t with
  | .obj _ => .error .attributeError
  | .enum e => enumCast tbl e (.atom a)
  | _ => .ok (.atom a)

/-- `[_toJsonBasic(T, field, a) for a in atoms]` (first failure wins) -/
def toJsonAtoms (tbl : Table) (t : BTy) : List Atom → Except Err (List JsonVal)
  | [] => .ok []
  | a :: as =>
    match toJsonAtom tbl t a with
    | .ok j =>
      match toJsonAtoms tbl t as with
      | .ok rest => .ok (j :: rest)
      | .error e => .error e
    | .error e => .error e

/-- Tuple annotation over a `str` value: `record[i]` is the i-th character; padding as usual -/
def toJsonAtomsTuple (tbl : Table) : List Atom → List BTy → Except Err (List JsonVal)
  | _, [] => .ok []
  | [], _ :: ts' => .ok (.atom .none :: ts'.map (fun _ => .atom .none))
  | a :: as, t :: ts' =>
    match toJsonAtom tbl t a with
    | .ok j =>
      match toJsonAtomsTuple tbl as ts' with
      | .ok rest => .ok (j :: rest)
      | .error e => .error e
    | .error e => .error e

mutual
/-- `_toJsonBasic` (annotation `.basic b`) and the per-field dispatch of `Serializable.toJson`
(generic annotations) on the value `x` held by the field.
`unmodelled`: a non-atom in an int/float/str/bool position (passed through as a Python object);
a dict iterated as the content of a List/Set field; a set / dict indexed by a Tuple field. -/
def toJsonField (tbl : Table) (x : Val) (t : Ty) : Except Err JsonVal :=
  match t with
  | .basic (.obj _) =>                      -- `value.toJson()`
    match x with
    | .obj c vs =>
      match assoc tbl.classes c with
      | some fs =>
        match toJsonFields tbl vs fs with
        | .ok kvs => .ok (.obj kvs)
        | .error e => .error e
      | none => .error .unmodelled
    | .enum e v =>
      match enumName tbl e v with
      | .ok n => .ok (.atom (.str n))
      | .error e => .error e
    | _ => .error .attributeError
  | .basic (.enum e) => enumCast tbl e x   -- `E(value).toJson()`
  | .basic _ =>
    match x with
    | .atom a => .ok (.atom a)
    | _ => .error .unmodelled
  | .list t' =>
    match x with
    | .list xs => match toJsonElems tbl xs t' with | .ok js => .ok (.arr js) | .error e => .error e
    | .set xs => match toJsonElems tbl xs t' with | .ok js => .ok (.arr js) | .error e => .error e
    | .tuple xs => match toJsonElems tbl xs t' with | .ok js => .ok (.arr js) | .error e => .error e
    | .atom .none => .ok (.atom .none)
    | .atom (.str s) =>                     -- a str is Iterable: its characters
      match toJsonAtoms tbl t' (strChars s) with | .ok js => .ok (.arr js) | .error e => .error e
    | .dict _ => .error .unmodelled
    | _ => .error .typeError
  | .set t' =>
    match x with
    | .list xs => match toJsonElems tbl xs t' with | .ok js => .ok (.arr js) | .error e => .error e
    | .set xs => match toJsonElems tbl xs t' with | .ok js => .ok (.arr js) | .error e => .error e
    | .tuple xs => match toJsonElems tbl xs t' with | .ok js => .ok (.arr js) | .error e => .error e
    | .atom .none => .ok (.atom .none)
    | .atom (.str s) =>
      match toJsonAtoms tbl t' (strChars s) with | .ok js => .ok (.arr js) | .error e => .error e
    | .dict _ => .error .unmodelled
    | _ => .error .typeError
  | .dict kt vt =>
    match x with
    | .dict kvs => match toJsonDict tbl kvs kt vt with | .ok m => .ok (.obj m) | .error e => .error e
    | .atom .none => .ok (.atom .none)
    | _ => .error .typeError
  | .tuple ts =>
    match x with
    | .list xs => match toJsonTuple tbl xs ts with | .ok js => .ok (.arr js) | .error e => .error e
    | .tuple xs => match toJsonTuple tbl xs ts with | .ok js => .ok (.arr js) | .error e => .error e
    | .atom .none => .ok (.atom .none)
    | .atom (.str s) =>
      match toJsonAtomsTuple tbl (strChars s) ts with | .ok js => .ok (.arr js) | .error e => .error e
    | .set _ => .error .unmodelled
    | .dict _ => .error .unmodelled
    | _ => .error .typeError

/-- the `for field in self._fields` loop of `toJson`; `obj[field] = ...` (field names of a class are
distinct, so no entry is ever overwritten). A value list that does not match `_fields` is not a
Python state. -/
def toJsonFields (tbl : Table) (vs : List Val) (fs : List Field) : Except Err (List (Atom × JsonVal)) :=
  match vs, fs with
  | [], [] => .ok []
  | v :: vs', f :: fs' =>
    match toJsonField tbl v f.ty with
    | .ok j =>
      match toJsonFields tbl vs' fs' with
      | .ok rest => .ok ((.str f.name, j) :: rest)
      | .error e => .error e
    | .error e => .error e
  | _, _ => .error .unmodelled

/-- `for tmp in record: lst.append(_toJsonBasic(args[0], field, tmp))` -/
def toJsonElems (tbl : Table) (xs : List Val) (t : BTy) : Except Err (List JsonVal) :=
  match xs with
  | [] => .ok []
  | x :: xs' =>
    match toJsonField tbl x (.basic t) with
    | .ok j =>
      match toJsonElems tbl xs' t with
      | .ok rest => .ok (j :: rest)
      | .error e => .error e
    | .error e => .error e

/-- `for i, t in enumerate(args)`: convert `record[i]` while it exists, then pad with None -/
def toJsonTuple (tbl : Table) (xs : List Val) (ts : List BTy) : Except Err (List JsonVal) :=
  match xs, ts with
  | _, [] => .ok []
  | [], _ :: ts' => .ok (.atom .none :: ts'.map (fun _ => .atom .none))
  | x :: xs', t :: ts' =>
    match toJsonField tbl x (.basic t) with
    | .ok j =>
      match toJsonTuple tbl xs' ts' with
      | .ok rest => .ok (j :: rest)
      | .error e => .error e
    | .error e => .error e

/-- `for key, val in record.items(): map[k] = v`.  The keys of a Python dict are pairwise
distinct and so are their images for the modelled key kinds, so nothing is overwritten.
A converted key that is a list or dict is unhashable: `TypeError`. -/
def toJsonDict (tbl : Table) (kvs : List (Val × Val)) (kt vt : BTy) :
    Except Err (List (Atom × JsonVal)) :=
  match kvs with
  | [] => .ok []
  | (k, v) :: rest =>
    match toJsonField tbl k (.basic kt) with
    | .ok jk =>
      match toJsonField tbl v (.basic vt) with
      | .ok jv =>
        match jk with
        | .atom a =>
          match toJsonDict tbl rest kt vt with
          | .ok m => .ok ((a, jv) :: m)
          | .error e => .error e
        | _ => .error .typeError
      | .error e => .error e
    | .error e => .error e
end

/-- `x.toJson()` -/
def toJson (tbl : Table) (x : Val) : Except Err JsonVal :=
  match x with
  | .obj c vs => toJsonField tbl (.obj c vs) (.basic (.obj c))
  | _ => .error .attributeError

/-! ### fromJson -/

/-- the `for field in inst._fields` loop of `fromJson`, given `look name ty` = the converted
`record[name]` when `name in record` -/
def fieldsLoop (look : Str → Ty → Option (Except Err Val)) : List Field → Except Err (List Val)
  | [] => .ok []
  | f :: fs =>
    match (match look f.name f.ty with | some r => r | none => .ok f.dflt) with
    | .ok v =>
      match fieldsLoop look fs with
      | .ok rest => .ok (v :: rest)
      | .error e => .error e
    | .error e => .error e

def isPrefixOf : Str → Str → Bool
  | [], _ => true
  | _ :: _, [] => false
  | a :: as, b :: bs => a = b && isPrefixOf as bs

/-- `needle in hay` for two `str` -/
def isSubstr (needle : Str) : Str → Bool
  | [] => needle.isEmpty
  | c :: cs => isPrefixOf needle (c :: cs) || isSubstr needle cs

def isStrAtom (s : Str) : JsonVal → Bool
  | .atom (.str s') => s = s'
  | _ => false

/-- `C.fromJson(record)` when `record` is not a dict: `field in record` raises for None and
numbers, is a substring test for a str and a membership test for a list; a hit then fails in
`record[field]`; no hit at all leaves the default instance. -/
def fromNonDict (c : Str) (fs : List Field) (hit : Str → Option Bool) : Except Err Val :=
  match fs with
  | [] => .ok (.obj c [])
  | f :: _ =>
    match hit f.name with
    | none => .error .typeError
    | some _ =>
      if fs.any (fun g => hit g.name = some true) then .error .typeError
      else .ok (.obj c (fs.map (·.dflt)))

/-- `_fromJsonBasic(type, field, value)` for an atom `value` (also used for dict keys) -/
def atomConv (tbl : Table) (b : BTy) (a : Atom) : Except Err Val :=
  match b with
  | .obj c =>
    match assoc tbl.classes c with
    | none => .error .unmodelled
    | some fs =>
      match a with
      | .none => .ok (.atom .none)
      | .str s => fromNonDict c fs (fun n => some (isSubstr n s))
      | _ => fromNonDict c fs (fun _ => none)
  | .enum e => enumFromAtom tbl e a
  | b => plainFromAtom b a

/-- `[_fromJsonBasic(T, field, a) for a in atoms]` (first failure wins) -/
def atomsConv (tbl : Table) (t : BTy) : List Atom → Except Err (List Val)
  | [] => .ok []
  | a :: as =>
    match atomConv tbl t a with
    | .ok v =>
      match atomsConv tbl t as with
      | .ok rest => .ok (v :: rest)
      | .error e => .error e
    | .error e => .error e

/-- Tuple annotation over a `str` record: `record[i]` is the i-th character; padding as usual -/
def atomsTuple (tbl : Table) : List Atom → List BTy → Except Err (List Val)
  | _, [] => .ok []
  | [], _ :: ts' => .ok (.atom .none :: ts'.map (fun _ => .atom .none))
  | a :: as, t :: ts' =>
    match atomConv tbl t a with
    | .ok v =>
      match atomsTuple tbl as ts' with
      | .ok rest => .ok (v :: rest)
      | .error e => .error e
    | .error e => .error e

mutual
/-- `_fromJsonBasic` (annotation `.basic b`) and the per-field dispatch of `Serializable.fromJson`
on `record[field] = j`.
`unmodelled`: a dict indexed by a Tuple annotation, `str()` of a list or dict, and what
`pyInt` / `pyFloat` / `pyStr` decline. -/
def fromJsonField (tbl : Table) (j : JsonVal) (t : Ty) : Except Err Val :=
  match t with
  | .basic b =>
    match j with
    | .atom a => atomConv tbl b a
    | .arr xs =>
      match b with
      | .obj c =>
        match assoc tbl.classes c with
        | none => .error .unmodelled
        | some fs => fromNonDict c fs (fun n => some (xs.any (isStrAtom n)))
      | .enum _ => .error .attributeError
      | .bool => .ok (.atom (.bool (!xs.isEmpty)))
      | .str => .error .unmodelled
      | _ => .error .typeError
    | .obj kvs =>
      match b with
      | .obj c =>
        match assoc tbl.classes c with
        | none => .error .unmodelled
        | some fs =>
          match fieldsLoop (fun n ty => lookConv tbl kvs n ty) fs with
          | .ok vs => .ok (.obj c vs)
          | .error e => .error e
      | .enum _ => .error .attributeError
      | .bool => .ok (.atom (.bool (!kvs.isEmpty)))
      | .str => .error .unmodelled
      | _ => .error .typeError
  | .list t' =>
    match j with
    | .arr xs => match fromJsonElems tbl xs t' with | .ok vs => .ok (.list vs) | .error e => .error e
    | .atom .none => .ok (.atom .none)
    | .atom (.str s) =>                     -- a str is Iterable: its characters
      match atomsConv tbl t' (strChars s) with | .ok vs => .ok (.list vs) | .error e => .error e
    | .obj kvs =>                           -- a dict is Iterable: its keys
      match atomsConv tbl t' (kvs.map (·.1)) with | .ok vs => .ok (.list vs) | .error e => .error e
    | _ => .error .typeError
  | .set t' =>
    match j with
    | .arr xs => match fromJsonElems tbl xs t' with | .ok vs => .ok (.set (pySet vs)) | .error e => .error e
    | .atom .none => .ok (.atom .none)
    | .atom (.str s) =>
      match atomsConv tbl t' (strChars s) with | .ok vs => .ok (.set (pySet vs)) | .error e => .error e
    | .obj kvs =>
      match atomsConv tbl t' (kvs.map (·.1)) with | .ok vs => .ok (.set (pySet vs)) | .error e => .error e
    | _ => .error .typeError
  | .dict kt vt =>
    match j with
    | .obj kvs => match fromJsonDict tbl kvs kt vt [] with | .ok m => .ok (.dict m) | .error e => .error e
    | .atom .none => .ok (.atom .none)
    | _ => .error .typeError
  | .tuple ts =>
    match j with
    | .arr xs => match fromJsonTuple tbl xs ts with | .ok vs => .ok (.tuple vs) | .error e => .error e
    | .atom .none => .ok (.atom .none)
    | .atom (.str s) =>
      match atomsTuple tbl (strChars s) ts with | .ok vs => .ok (.tuple vs) | .error e => .error e
    | .obj _ => .error .unmodelled          -- `record[i]` on a dict: lookup of the int key i
    | _ => .error .typeError

/-- `record[name]` converted at type `ty`, if `name in record` (first entry with that key; a
Python dict has one) -/
def lookConv (tbl : Table) (kvs : List (Atom × JsonVal)) (n : Str) (ty : Ty) : Option (Except Err Val) :=
  match kvs with
  | [] => none
  | (k, v) :: rest => if k = .str n then some (fromJsonField tbl v ty) else lookConv tbl rest n ty

/-- `for rec in record[field]: lst.append(_fromJsonBasic(args[0], field, rec))` -/
def fromJsonElems (tbl : Table) (xs : List JsonVal) (t : BTy) : Except Err (List Val) :=
  match xs with
  | [] => .ok []
  | x :: xs' =>
    match fromJsonField tbl x (.basic t) with
    | .ok v =>
      match fromJsonElems tbl xs' t with
      | .ok rest => .ok (v :: rest)
      | .error e => .error e
    | .error e => .error e

/-- `for i, t in enumerate(args)`: convert while the record has an element, then pad with None -/
def fromJsonTuple (tbl : Table) (xs : List JsonVal) (ts : List BTy) : Except Err (List Val) :=
  match xs, ts with
  | _, [] => .ok []
  | [], _ :: ts' => .ok (.atom .none :: ts'.map (fun _ => .atom .none))
  | x :: xs', t :: ts' =>
    match fromJsonField tbl x (.basic t) with
    | .ok v =>
      match fromJsonTuple tbl xs' ts' with
      | .ok rest => .ok (v :: rest)
      | .error e => .error e
    | .error e => .error e

/-- `for key, val in record[field].items(): map[conv(key)] = conv(val)` -/
def fromJsonDict (tbl : Table) (kvs : List (Atom × JsonVal)) (kt vt : BTy) (acc : List (Val × Val)) :
    Except Err (List (Val × Val)) :=
  match kvs with
  | [] => .ok acc
  | (k, v) :: rest =>
    match atomConv tbl kt k with
    | .ok k' =>
      match fromJsonField tbl v (.basic vt) with
      | .ok v' => fromJsonDict tbl rest kt vt (dictSetV acc k' v')
      | .error e => .error e
    | .error e => .error e
end

/-- `cls.fromJson(record)`.  Unlike the nested call in `_fromJsonBasic`, None is not special. -/
def fromJson (tbl : Table) (c : Str) (j : JsonVal) : Except Err Val :=
  match j with
  | .atom .none =>
    match assoc tbl.classes c with
    | none => .error .unmodelled
    | some fs => fromNonDict c fs (fun _ => none)
  | _ => fromJsonField tbl j (.basic (.obj c))

/-! ### `json.loads(json.dumps(j))` on plain data: what happens to dictionary keys -/

/-- the text `json.dumps` writes for a key (keys are always strings in JSON text).
`unmodelled`: float key (`repr`). -/
def keyStr : Atom → Except Err Str
  | .str s => .ok s
  | .int n => .ok (toDecimal n)
  | .bool b => .ok (if b then "true".toList else "false".toList)
  | .none => .ok "null".toList
  | .float _ => .error .unmodelled

/-- `json.loads` building an object: a repeated key keeps its first position, last value wins -/
def dictSetJ : List (Atom × JsonVal) → Atom → JsonVal → List (Atom × JsonVal)
  | [], k, v => [(k, v)]
  | (k0, v0) :: rest, k, v => if k0 = k then (k0, v) :: rest else (k0, v0) :: dictSetJ rest k v

mutual
/-- `json.loads(json.dumps(j))`: identity on atoms (ints exactly, floats via `repr`, strings via
escapes — CPython facts checked by the harness on every real output), arrays element-wise, object
keys replaced by their text. -/
def stringifyKeys (j : JsonVal) : Except Err JsonVal :=
  match j with
  | .atom a => .ok (.atom a)
  | .arr xs => match stringifyList xs with | .ok ys => .ok (.arr ys) | .error e => .error e
  | .obj kvs => match stringifyObj kvs [] with | .ok m => .ok (.obj m) | .error e => .error e

def stringifyList (xs : List JsonVal) : Except Err (List JsonVal) :=
  match xs with
  | [] => .ok []
  | x :: xs' =>
    match stringifyKeys x with
    | .ok y => match stringifyList xs' with | .ok ys => .ok (y :: ys) | .error e => .error e
    | .error e => .error e

def stringifyObj (kvs : List (Atom × JsonVal)) (acc : List (Atom × JsonVal)) :
    Except Err (List (Atom × JsonVal)) :=
  match kvs with
  | [] => .ok acc
  | (k, v) :: rest =>
    match keyStr k with
    | .ok s =>
      match stringifyKeys v with
      | .ok v' => stringifyObj rest (dictSetJ acc (.str s) v')
      | .error e => .error e
    | .error e => .error e
end

/-- `x.dumps()` then `json.loads` : the plain data `cls.loads` hands to `fromJson` -/
def dumpsLoads (tbl : Table) (x : Val) : Except Err JsonVal :=
  match toJson tbl x with
  | .ok j => stringifyKeys j
  | .error e => .error e

/-- `cls.loads(x.dumps())` -/
def loadsDumps (tbl : Table) (c : Str) (x : Val) : Except Err Val :=
  match dumpsLoads tbl x with
  | .ok j => fromJson tbl c j
  | .error e => .error e

/-- `cls.fromJson(x.toJson())` -/
def fromTo (tbl : Table) (c : Str) (x : Val) : Except Err Val :=
  match toJson tbl x with
  | .ok j => fromJson tbl c j
  | .error e => .error e

/-! ### plain data: only None/bool/number/str/array/object, object keys int or str -/

def keyPlain : Atom → Bool
  | .int _ => true
  | .str _ => true
  | _ => false

mutual
def JsonVal.plain (j : JsonVal) : Bool :=
  match j with
  | .atom _ => true
  | .arr xs => plainList xs
  | .obj kvs => plainObj kvs
def plainList (xs : List JsonVal) : Bool :=
  match xs with
  | [] => true
  | x :: xs' => x.plain && plainList xs'
def plainObj (kvs : List (Atom × JsonVal)) : Bool :=
  match kvs with
  | [] => true
  | (k, v) :: rest => keyPlain k && v.plain && plainObj rest
end

/-! ### WellTyped: "fields hold values of their annotated types" -/

def isMember (ms : List (Str × Int)) (v : Int) : Bool := ms.any (fun m => m.2 = v)

/-- no element is `==` to an earlier one (what makes a list the element list of a Python set) -/
def nodupAcc : List Val → List Val → Bool
  | [], _ => true
  | x :: xs, acc => !memV x acc && nodupAcc xs (acc ++ [x])

def memKey (k : Val) : List (Val × Val) → Bool
  | [] => false
  | (k0, _) :: rest => pyEq k0 k || memKey k rest

/-- no key is `==` to an earlier one (the item list of a Python dict) -/
def keysNodupAcc : List (Val × Val) → List (Val × Val) → Bool
  | [], _ => true
  | (k, v) :: rest, acc => !memKey k acc && keysNodupAcc rest (acc ++ [(k, v)])

mutual
/-- the value `x` of a field annotated `t` is of that type: exact kinds for basic types (None is
*not* an int/float/str/bool/enum/object), a member of the enum class, an instance of the class with
well-typed fields; containers hold well-typed elements or are None; tuples have exactly the
annotated arity. -/
def hasTy (tbl : Table) (x : Val) (t : Ty) : Bool :=
  match t with
  | .basic .int => match x with | .atom (.int _) => true | _ => false
  | .basic .float => match x with | .atom (.float _) => true | _ => false
  | .basic .str => match x with | .atom (.str _) => true | _ => false
  | .basic .bool => match x with | .atom (.bool _) => true | _ => false
  | .basic (.enum e) =>
    match x with
    | .enum e' v => e' = e && (match assoc tbl.enums e with | some ms => isMember ms v | none => false)
    | _ => false
  | .basic (.obj c) =>
    match x with
    | .obj c' vs =>
      c' = c && (match assoc tbl.classes c with | some fs => hasTyFields tbl vs fs | none => false)
    | _ => false
  | .list t' =>
    match x with
    | .list xs => hasTyElems tbl xs t'
    | .atom .none => true
    | _ => false
  | .set t' =>
    match x with
    | .set xs => hasTyElems tbl xs t' && nodupAcc xs []
    | .atom .none => true
    | _ => false
  | .dict kt vt =>
    match x with
    | .dict kvs => hasTyDict tbl kvs kt vt && keysNodupAcc kvs []
    | .atom .none => true
    | _ => false
  | .tuple ts =>
    match x with
    | .tuple xs => hasTyTuple tbl xs ts
    | .atom .none => true
    | _ => false

def hasTyFields (tbl : Table) (vs : List Val) (fs : List Field) : Bool :=
  match vs, fs with
  | [], [] => true
  | v :: vs', f :: fs' => hasTy tbl v f.ty && hasTyFields tbl vs' fs'
  | _, _ => false

def hasTyElems (tbl : Table) (xs : List Val) (t : BTy) : Bool :=
  match xs with
  | [] => true
  | x :: xs' => hasTy tbl x (.basic t) && hasTyElems tbl xs' t

def hasTyTuple (tbl : Table) (xs : List Val) (ts : List BTy) : Bool :=
  match xs, ts with
  | [], [] => true
  | x :: xs', t :: ts' => hasTy tbl x (.basic t) && hasTyTuple tbl xs' ts'
  | _, _ => false

def hasTyDict (tbl : Table) (kvs : List (Val × Val)) (kt vt : BTy) : Bool :=
  match kvs with
  | [] => true
  | (k, v) :: rest => hasTy tbl k (.basic kt) && hasTy tbl v (.basic vt) && hasTyDict tbl rest kt vt
end

def namesNodup {α : Type} : List (Str × α) → Bool
  | [] => true
  | (n, _) :: rest => !(rest.any (fun m => m.1 = n)) && namesNodup rest

def fieldNamesNodup : List Field → Bool
  | [] => true
  | f :: rest => !(rest.any (fun g => g.name = f.name)) && fieldNamesNodup rest

/-- dictionary keys are int, str or enum (the documented key types) -/
def tyOK : Ty → Bool
  | .dict .int _ => true
  | .dict .str _ => true
  | .dict (.enum _) _ => true
  | .dict _ _ => false
  | _ => true

/-- what the documentation asks of the classes: enum member names are upper-case (and distinct,
as attribute names of one class are); field names of a class are distinct; Dict keys int/str/enum -/
def tableOK (tbl : Table) : Bool :=
  tbl.enums.all (fun e => namesNodup e.2 && e.2.all (fun m => pyUpper m.1 = m.1)) &&
  tbl.classes.all (fun c => fieldNamesNodup c.2 && c.2.all (fun f => tyOK f.ty))

def wellTyped (tbl : Table) (c : Str) (x : Val) : Bool :=
  tableOK tbl && hasTy tbl x (.basic (.obj c))

/-- `x` is an instance of Serializable class `c` of a documented shape whose fields hold values of
their annotated types (decidable: a Boolean function). -/
def WellTyped (tbl : Table) (c : Str) (x : Val) : Prop := wellTyped tbl c x = true

instance (tbl : Table) (c : Str) (x : Val) : Decidable (WellTyped tbl c x) := by
  unfold WellTyped; infer_instance

end Mpgs.Json
