/-
Model of mpgameserver/dispatch.py (MessageDispatcher, ServerMessageDispatcher,
ClientMessageDispatcher).  Core Lean only.

Python -> Lean
* `registered_events : dict[str, callable]`  ->  insertion-ordered association list
  `List (String × Handler)`; the code only ever tests membership, inserts a fresh key and
  deletes a key, so there is at most one entry per key (invariant `NoDup`, proved).
* a *resource* is an object; `dir(resource)` lists attribute names in sorted order, so a
  resource is the list of its decorated methods `(methodName, eventName)` in that order.
  The decorator's annotation (class or string) is normalised to the class *name*, which is
  what `register_function` / `unregister_function` do with `isinstance(event_type, type)`.
* a handler is identified by `(resource id, method name)`; free functions registered through
  `register_function` use resource id of the caller's choice.
* exceptions: `Exception` for duplicate / unknown registration, `DispatchError` for dispatch.
-/
namespace Mpgs.Dispatch

structure Handler where
  res  : Nat
  meth : String
  deriving DecidableEq, Repr

abbrev Table := List (String × Handler)

/-- a resource: id + decorated methods `(method name, event class name)` in `dir()` order -/
structure Resource where
  id      : Nat
  methods : List (String × String)
  deriving Repr

inductive Err | exception | dispatchError
  deriving DecidableEq, Repr

/-- `registered_events.get(ev)` -/
def lookup : Table → String → Option Handler
  | [], _ => none
  | (k, h) :: t, ev => if k = ev then some h else lookup t ev

/-- `ev in registered_events` -/
def bound (t : Table) (ev : String) : Bool := (lookup t ev).isSome

/-- `del registered_events[ev]` -/
def erase : Table → String → Table
  | [], _ => []
  | (k, h) :: t, ev => if k = ev then erase t ev else (k, h) :: erase t ev

/-- `register_function(event_type, fn)` -/
def registerFunction (t : Table) (ev : String) (h : Handler) : Except Err Table :=
  if bound t ev then .error .exception else .ok (t ++ [(ev, h)])

/-- `unregister_function(event_type)` (repaired guard: error when *not* registered) -/
def unregisterFunction (t : Table) (ev : String) : Except Err Table :=
  if bound t ev then .ok (erase t ev) else .error .exception

/-- `register(resource)`: methods in `dir()` order; the first duplicate raises and leaves the
    earlier registrations of this call in place (Python does not roll back). -/
def registerMethods (rid : Nat) : Table → List (String × String) → Table × Option Err
  | t, [] => (t, none)
  | t, (m, ev) :: rest =>
    match registerFunction t ev ⟨rid, m⟩ with
    | .ok t' => registerMethods rid t' rest
    | .error e => (t, some e)

def register (t : Table) (r : Resource) : Table × Option Err := registerMethods r.id t r.methods

/-- `unregister(resource)`: every event name of the resource that is bound is unbound. -/
def unregisterMethods : Table → List (String × String) → Table
  | t, [] => t
  | t, (_, ev) :: rest => unregisterMethods (if bound t ev then erase t ev else t) rest

def unregister (t : Table) (r : Resource) : Table := unregisterMethods t r.methods

/-- outcome of `dispatch`: which handler was called with which (opaque) argument tuple -/
inductive Outcome (α : Type) where
  | called (h : Handler) (args : α)
  | raised (e : Err)
  deriving Repr

def dispatch {α : Type} (t : Table) (cls : String) (args : α) : Outcome α :=
  match lookup t cls with
  | some h => .called h args
  | none => .raised .dispatchError

/-- what the invoked handler itself does: it returns, or it raises an exception (named by its
    class; the handler may raise anything, `KeyError` and `DispatchError` included) -/
inductive Beh where
  | returns
  | raises (exc : String)
  deriving DecidableEq, Repr

/-- what the caller of `dispatch` observes -/
inductive Result (α : Type) where
  | returned (h : Handler) (args : α)
  | handlerRaised (h : Handler) (args : α) (exc : String)
  | dispatchError
  deriving Repr

/-- `dispatch` with the handler's own behaviour: the call of the handler is the last thing
    `dispatch` does, so whatever the handler does is what the caller sees -/
def dispatchWith {α : Type} (t : Table) (cls : String) (args : α) (beh : Handler → Beh) : Result α :=
  match dispatch t cls args with
  | .called h a =>
    match beh h with
    | .returns => .returned h a
    | .raises e => .handlerRaised h a e
  | .raised _ => .dispatchError

/-! ### operation-level state machine (used by the driver and by history theorems) -/

inductive Op where
  | register (r : Resource)
  | unregister (r : Resource)
  | regFn (ev : String) (h : Handler)
  | unregFn (ev : String)
  | dispatch (cls : String) (args : List Nat)

inductive Out where
  | ok
  | err (e : Err)
  | called (h : Handler) (args : List Nat)
  deriving DecidableEq, Repr

def step (t : Table) : Op → Table × Out
  | .register r => match register t r with
      | (t', none) => (t', .ok)
      | (t', some e) => (t', .err e)
  | .unregister r => (unregister t r, .ok)
  | .regFn ev h => match registerFunction t ev h with
      | .ok t' => (t', .ok)
      | .error e => (t, .err e)
  | .unregFn ev => match unregisterFunction t ev with
      | .ok t' => (t', .ok)
      | .error e => (t, .err e)
  | .dispatch cls args => match dispatch t cls args with
      | .called h a => (t, .called h a)
      | .raised e => (t, .err e)

def run (t : Table) : List Op → Table × List Out
  | [] => (t, [])
  | op :: ops =>
    let (t', o) := step t op
    let (t'', os) := run t' ops
    (t'', o :: os)

end Mpgs.Dispatch
