/-
Shared helpers for the line-protocol drivers (`Driver/*.lean`): hex, splitting, stdin loop.
Core Lean only.
-/
namespace Mpgs.Util

def hexDigit (n : Nat) : Char :=
  if n < 10 then Char.ofNat (48 + n) else Char.ofNat (87 + n)

def toHex (bs : List UInt8) : String :=
  String.ofList (bs.flatMap (fun b => [hexDigit (b.toNat / 16), hexDigit (b.toNat % 16)]))

def hexVal (c : Char) : Option Nat :=
  if '0' ≤ c ∧ c ≤ '9' then some (c.toNat - 48)
  else if 'a' ≤ c ∧ c ≤ 'f' then some (c.toNat - 87)
  else if 'A' ≤ c ∧ c ≤ 'F' then some (c.toNat - 55)
  else none

def fromHexChars : List Char → Option (List UInt8)
  | [] => some []
  | [_] => none
  | a :: b :: rest => do
    let x ← hexVal a
    let y ← hexVal b
    let r ← fromHexChars rest
    pure (UInt8.ofNat (x * 16 + y) :: r)

/-- `-` denotes the empty byte string (so that a field is never an empty token) -/
def fromHex (s : String) : Option (List UInt8) :=
  if s == "-" then some [] else fromHexChars s.toList

def toHexD (bs : List UInt8) : String := if bs.isEmpty then "-" else toHex bs

def words (s : String) : List String :=
  (s.splitOn " ").filter (fun w => !w.isEmpty)

def stripNl (s : String) : String :=
  let s := if s.endsWith "\n" then (s.dropEnd 1).toString else s
  if s.endsWith "\r" then (s.dropEnd 1).toString else s

/-- decimal, optionally signed -/
def parseInt (s : String) : Option Int :=
  if s.startsWith "-" then (s.drop 1).toString.toNat?.map (fun n => - (Int.ofNat n))
  else s.toNat?.map Int.ofNat

/-- generic stdin loop: state machine over lines; prints each returned line -/
partial def loop {σ : Type} (h : IO.FS.Stream) (out : IO.FS.Stream) (st : σ)
    (step : σ → String → σ × List String) : IO Unit := do
  let line ← h.getLine
  if line.isEmpty then
    out.flush
    return ()
  let (st', outs) := step st (stripNl line)
  for o in outs do
    out.putStrLn o
  loop h out st' step

def runLoop {σ : Type} (init : σ) (step : σ → String → σ × List String) : IO Unit := do
  let stdin ← IO.getStdin
  let stdout ← IO.getStdout
  loop stdin stdout init step

end Mpgs.Util
