import MpgsModel.Model.Conn
/-
Model of the handshake halves of `ClientServerConnection` and `ServerClientConnection`
(connection.py:1450-1640 as repaired) and of their `update()` methods.  Core Lean only.

Everything cryptographic or serializer-related is a *parameter* (`Hs`): decoding of the peer's
hello bytes (`Serializable.loadb` + attribute access; its safety on hostile bytes is C14's
subject), ECDSA verification, ECDH + HKDF, signing, random padding.  No law about them is assumed
unless a theorem states it as a hypothesis.  The driver instantiates them per operation with the
values recorded from the real run (oracle), the model decides *whether* they are consulted.
-/
namespace Mpgs.Conn
open Mpgs.Bytes Mpgs.Wire

structure Hs where
  /-- `Serializable.loadb(data)` as a client hello: the client version (public key and padding are
      validated inside; any failure is the exception raised) -/
  parseClientHello : Bytes → Except Err Int
  /-- the outer structure of a server hello: (root public key DER, signed payload, signature) -/
  parseServerHello : Bytes → Except Err (Bytes × Bytes × Bytes)
  /-- `key.verify(signature, payload)` does not raise InvalidSignature -/
  verify : Bytes → Bytes → Bytes → Bool
  /-- the signed payload: (server ephemeral public key DER, salt, token) -/
  parsePayload : Bytes → Except Err (Bytes × Bytes × Nat)
  /-- `Serializable.loadb(data).token` of a challenge response -/
  parseChallenge : Bytes → Except Err Nat
  /-- `crypto.ecdh_client(session_key, server_pubkey, salt)` for this client's ephemeral key -/
  ecdhClient : Bytes → Bytes → Bytes
  /-- server side: `ecdh_server` + signed `HandshakeServerHelloMessage.dumpb` for a client hello and
      a token: (session key, server hello bytes) -/
  serverReply : Bytes → Nat → Bytes × Bytes
  /-- `HandshakeClientChallengeResponseMessage(token).dumpb()` -/
  challengeBytes : Nat → Bytes

/-- `ClientServerConnection._sendClientHello()` at clock `t`; `hello` = `msg.dumpb()` (random padding) -/
def sendClientHello (c : Conn) (t : Int) (hello : Bytes) : Conn :=
  { sendType c .clientHello hello 0 (some .helloTimeout) with status := .connecting, helloSentAt := t }

/-- the key the client checks the signature with: the pinned one, else the one inside the hello -/
def checkKey (c : Conn) (root : Bytes) : Bytes :=
  match c.pinned with
  | some k => k
  | none => root

/-- the state after a verified server hello: key and token adopted, challenge queued, CONNECTED -/
def adopt (H : Hs) (c : Conn) (spub salt : Bytes) (token : Nat) : Conn :=
  { sendType { c with token := token, key := some (H.ecdhClient spub salt) } .challengeResp
      (H.challengeBytes token) 0 (some .challengeTimeout) with status := .connected, helloSentAt := 0 }

/-- `ClientServerConnection._recvServerHello(data)` -/
def clientServerHello (H : Hs) (c : Conn) (_t : Int) (data : Bytes) : Conn × List Event × Option Err :=
  match H.parseServerHello data with
  | .error e => (c, [], some e)
  | .ok r =>
    if H.verify (checkKey c r.1) r.2.2 r.2.1 = false then
      ({ c with status := .disconnected }, [], some .invalidSignature)
    else
      match H.parsePayload r.2.1 with
      | .error e => (c, [], some e)
      | .ok q => (adopt H c q.1 q.2.1 q.2.2, if c.hasConnectCb then [.connectCb true] else [], none)

/-- the client's handlers: hellos from the server only -/
def clientRole (H : Hs) : Role :=
  ⟨fun c _ _ => (c, [], none), clientServerHello H, fun c _ _ => (c, [], none)⟩

/-- `ClientServerConnection.update()` at clock `t` -/
def clientUpdate (c : Conn) (t : Int) : Conn × List Event :=
  let c1 := if c.lastRecv > 0 ∧ t > c.lastRecv + 5120 then { c with status := .dropped } else c
  if c1.helloSentAt ≠ 0 ∧ t - c1.helloSentAt > c1.tempTimeout then
    ({ c1 with status := .disconnected, helloSentAt := 0 },
     if c1.hasConnectCb then [.connectCb false] else [])
  else (c1, [])

/-- `ServerClientConnection._recvClientHello(data)`; `tok` = what `ctxt.get_token()` returns -/
def serverClientHello (H : Hs) (tok : Nat) (c : Conn) (_t : Int) (data : Bytes) :
    Conn × List Event × Option Err :=
  -- one hello per connection (repaired): a connection that already has a session key ignores
  -- further hellos, before anything of them is parsed
  if c.key.isSome then (c, [], none) else
  match H.parseClientHello data with
  | .error e => (c, [], some e)
  | .ok ver =>
    if ver ≠ 1 then (c, [], none)
    else if (H.serverReply data tok).2.length > data.length then
      -- anti-amplification (repaired): a hello shorter than the reply it asks for is not answered;
      -- the key and token just derived are dropped again
      ({ c with token := 0, key := none }, [], none)
    else
      let c1 := { c with token := tok, key := some (H.serverReply data tok).1, status := .connecting }
      (sendType c1 .serverHello (H.serverReply data tok).2 0 none, [], none)

/-- `ServerClientConnection._recvChallengeResponse(data)`; `tempTok` = token of the temp-pool entry
    for this address, if any (`ctxt._validateChallengeResponse`) -/
def serverChallenge (H : Hs) (tempTok : Option Nat) (c : Conn) (_t : Int) (data : Bytes) :
    Conn × List Event × Option Err :=
  match H.parseChallenge data with
  | .error e => (c, [], some e)
  | .ok tk =>
    if tempTok = some tk then ({ c with status := .connected }, [.promoted], none)
    else (c, [], some .nameError)      -- the failure branch references an undefined name

def serverRole (H : Hs) (tok : Nat) (tempTok : Option Nat) : Role :=
  ⟨serverClientHello H tok, fun c _ _ => (c, [], none), serverChallenge H tempTok⟩

/-- the server role as the loop sees it: `_onConnect` calls the user's `connect` handler from
    inside `_recvChallengeResponse`, i.e. between the challenge message and the remaining messages
    of the same datagram; `onConnect` is what that handler does to the connection -/
def serverRoleOn (H : Hs) (tok : Nat) (tempTok : Option Nat) (onConnect : Conn → Conn) : Role :=
  ⟨serverClientHello H tok, fun c _ _ => (c, [], none),
   fun c t d =>
     if (serverChallenge H tempTok c t d).2.1.contains .promoted then
       (onConnect (serverChallenge H tempTok c t d).1, (serverChallenge H tempTok c t d).2.1,
        (serverChallenge H tempTok c t d).2.2)
     else serverChallenge H tempTok c t d⟩

/-- `ServerClientConnection.update()` at clock `t`: build (if the send interval elapsed) and time
    out pending datagrams with `>`; an exception from the build propagates before the time-outs -/
def serverUpdate (sz : Sizes) (c : Conn) (t : Int) : Conn × List Event × Except Err (Option Packet) :=
  if t - c.lastSend > c.sendInterval then
    match buildPacket sz c t with
    | (c1, .error e) => (c1, [], .error e)
    | (c1, .ok r) =>
      let r2 := checkTimeoutStrictKeys c1 t (c1.pendingAcks.map (·.1))
      (r2.1, r2.2, .ok r)
  else (c, [], .ok none)

end Mpgs.Conn
