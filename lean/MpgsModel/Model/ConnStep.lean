import MpgsModel.Model.Conn
/-
Operation-level state machine of one endpoint: the public operations of `ConnectionBase` as one
`step` function, and `run` over arbitrary operation histories.  Core Lean only.
-/
namespace Mpgs.Conn
open Mpgs.Bytes Mpgs.Wire

inductive Op
  | send (payload : Bytes) (retry : Int) (cb : Option Nat)
  | build (t : Int)                       -- `_build_packet()` + `_encode_packet()` at clock `t`
  | recv (t : Int) (h : Header) (d : Bytes)
  | tmo (t : Int)                         -- `_check_timeout(t)`
  | disconnect (cb : Option Cb)
  | take                                  -- the application drains `incoming_messages`

/-- observable output of a step -/
inductive Out
  | ev (e : Event)
  | emit (hdr : Header) (datagram : Bytes)    -- a datagram handed to the socket
  | raised (e : Err)
  | ret (r : Ret)
  | took (msgs : List (Nat × Bytes))

structure Env where
  sz : Sizes
  C : Crypto
  R : Role

def step (E : Env) (c : Conn) : Op → Conn × List Out
  | .send p r cb =>
    match send E.sz c p r cb with
    | (c', none) => (c', [])
    | (c', some e) => (c', [.raised e])
  | .build t =>
    match buildPacket E.sz c t with
    | (c', .ok none) => (c', [])
    | (c', .error e) => (c', [.raised e])
    | (c', .ok (some pkt)) =>
      match toBytes E.C c'.key pkt with
      | .ok d => (c', [.emit pkt.hdr d])
      | .error e => (c', [.raised (Err.ofWire e)])
  | .recv t h d =>
    let (c', ev, r) := recvDatagram E.C E.R c t h d
    (c', ev.map Out.ev ++ [.ret r])
  | .tmo t =>
    let (c', ev) := checkTimeout c t
    (c', ev.map Out.ev)
  | .disconnect cb => (disconnect c cb, [])
  | .take => ({ c with incoming := [] }, [.took c.incoming])

def run (E : Env) (c : Conn) : List Op → Conn × List Out
  | [] => (c, [])
  | op :: ops =>
    let (c1, o1) := step E c op
    let (c2, o2) := run E c1 ops
    (c2, o1 ++ o2)

end Mpgs.Conn
