import MpgsModel.Model.Wire
/-
A toy AEAD used only by the executable driver so that two-party histories can be run inside
the model: `seal` appends a 16-byte polynomial MAC of (key, iv, aad, plaintext) to the plaintext
(ciphertext length = plaintext length + 16, like AES-GCM), `open` recomputes and compares.
No theorem depends on it: theorems quantify over an arbitrary `Crypto`.
-/
namespace Mpgs.Toy
open Mpgs.Bytes Mpgs.Wire

def P : Nat := 4294967291

def lane (c : Nat) (bs : Bytes) : Nat := bs.foldl (fun h b => ((h + b.toNat + 1) * c) % P) 7

def mac (key iv aad pt : Bytes) : Bytes :=
  let all := key ++ [0xAA] ++ iv ++ [0xBB] ++ aad ++ [0xCC] ++ pt
  be32 (lane 65537 all) ++ be32 (lane 1000003 all) ++ be32 (lane 16777619 all) ++ be32 (lane 2654435761 all)

def aseal (key iv aad pt : Bytes) : Bytes := pt ++ mac key iv aad pt

def aopen (key iv aad ct : Bytes) : Option Bytes :=
  if ct.length < 16 then none
  else
    let pt := take (ct.length - 16) ct
    let tag := drop (ct.length - 16) ct
    if tag == mac key iv aad pt then some pt else none

def crypto : Crypto := ⟨aseal, aopen⟩

end Mpgs.Toy
