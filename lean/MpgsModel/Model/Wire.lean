import MpgsModel.Model.Bytes
/-
Model of `PacketType`, `PacketHeader`, `Packet` (mpgameserver/connection.py:296-628, as repaired:
keyed => always AEAD, exact datagram length).  Core Lean only.

* exceptions are `Except Err`: the Python exception *class* a call raises
* AES-GCM is a parameter (`Crypto`): `seal key iv aad pt` / `open key iv aad ct`
* `hdr.isServer` of a *built* header means "built by the server" (magic TO_CLIENT); of a
  *decoded* header it means "addressed to the server" (magic TO_SERVER) - as in the code.
-/
namespace Mpgs.Wire
open Mpgs.Bytes

inductive Err
  | structError | valueError | packetError | invalidTag
  deriving DecidableEq, Repr

inductive PType
  | unknown | clientHello | serverHello | challengeResp | keepAlive | disconnect | app | appFragment
  deriving DecidableEq, Repr, Inhabited

def PType.toNat : PType → Nat
  | .unknown => 0 | .clientHello => 1 | .serverHello => 2 | .challengeResp => 3
  | .keepAlive => 4 | .disconnect => 5 | .app => 6 | .appFragment => 7

/-- `PacketType(n)` : ValueError for a value that is no member -/
def PType.ofWire (n : Nat) : Except Err PType :=
  match n with
  | 0 => .ok .unknown | 1 => .ok .clientHello | 2 => .ok .serverHello | 3 => .ok .challengeResp
  | 4 => .ok .keepAlive | 5 => .ok .disconnect | 6 => .ok .app | 7 => .ok .appFragment
  | _ => .error .valueError

structure Header where
  isServer : Bool
  ctime : Nat
  ptype : PType
  seq : Nat
  ack : Nat
  ackBits : Nat
  length : Nat
  count : Nat
  deriving DecidableEq, Repr

def magicToServer : Bytes := [0x46, 0x53, 0x4F, 0x53]   -- b"FSOS"
def magicToClient : Bytes := [0x46, 0x53, 0x4F, 0x43]   -- b"FSOC"

def hdrSize : Nat := 20
def tagSize : Nat := 16
def crcSize : Nat := 4

/-- `PacketHeader.to_bytes` : struct.error when a field does not fit its format code -/
def encodeHdr (h : Header) : Except Err Bytes :=
  if h.ctime < 4294967296 ∧ h.seq < 65536 ∧ h.ack < 65536 ∧ h.length < 65536 ∧ h.count < 256 ∧
     h.ackBits < 4294967296 then
    .ok ((if h.isServer then magicToClient else magicToServer) ++ be32 h.ctime ++ be16 h.seq ++
         be16 h.ack ++ be8 h.ptype.toNat ++ be16 h.length ++ be8 h.count ++ be32 h.ackBits)
  else .error .structError

/-- `PacketHeader.from_bytes(isServer, datagram)` (`isServer` = the receiver is the server) -/
def decodeHdr (recvIsServer : Bool) (d : Bytes) : Except Err Header :=
  let b := take 20 d
  if b.length < 20 then .error .structError      -- struct.unpack on a short slice
  else
    let ident := take 4 b
    match PType.ofWire (beVal (slice 12 13 b)) with
    | .error e => .error e
    | .ok ty =>
      let h : Header := {
        isServer := ident == magicToServer
        ctime := beVal (slice 4 8 b)
        ptype := ty
        seq := beVal (slice 8 10 b)
        ack := beVal (slice 10 12 b)
        ackBits := beVal (slice 16 20 b)
        length := beVal (slice 13 15 b)
        count := beVal (slice 15 16 b) }
      if ident != magicToServer && ident != magicToClient then .error .packetError
      else if h.isServer != recvIsServer then .error .packetError
      else .ok h

/-- a message as carried in a packet: `(seq, type, payload)` of `PendingMessage` -/
structure WMsg where
  seq : Nat
  ty : PType
  payload : Bytes
  deriving DecidableEq, Repr

structure Packet where
  hdr : Header
  msg : Bytes           -- plaintext payload
  msgs : List WMsg
  deriving Repr

def packMulti : List WMsg → Bytes
  | [] => []
  | m :: ms => be16 m.payload.length ++ be16 m.seq ++ be8 m.ty.toNat ++ m.payload ++ packMulti ms

/-- `Packet.create(hdr, msgs)`; the struct.pack calls inside raise struct.error when a message
    sequence number or length does not fit 16 bits -/
def create (h : Header) (ms : List WMsg) : Except Err Packet :=
  match ms with
  | [] => .ok { hdr := { h with length := 0, count := 0 }, msg := [], msgs := [] }
  | [m] =>
    if m.seq < 65536 then
      let p := be16 m.seq ++ m.payload
      .ok { hdr := { h with length := p.length, count := 1 }, msg := p, msgs := [m] }
    else .error .structError
  | _ =>
    if ms.all (fun m => m.seq < 65536 && m.payload.length < 65536) then
      let p := packMulti ms
      .ok { hdr := { h with length := p.length, count := ms.length }, msg := p, msgs := ms }
    else .error .structError

/-- AES-GCM as a parameter: no law is assumed unless a theorem states it as a hypothesis -/
structure Crypto where
  aseal : Bytes → Bytes → Bytes → Bytes → Bytes             -- key iv aad plaintext -> ct ++ tag
  aopen : Bytes → Bytes → Bytes → Bytes → Option Bytes     -- key iv aad (ct ++ tag)

/-- Python truthiness of the key: `None` and `b""` are falsy -/
def keyed (key : Option Bytes) : Option Bytes :=
  match key with
  | some k => if k.isEmpty then none else some k
  | none => none

/-- `Packet.to_bytes(key)` -/
def toBytes (C : Crypto) (key : Option Bytes) (p : Packet) : Except Err Bytes :=
  match encodeHdr p.hdr with
  | .error e => .error e
  | .ok hb =>
    match keyed key with
    | some k =>
      if p.hdr.ptype != .serverHello then .ok (hb ++ C.aseal k (take 12 hb) hb p.msg)
      else let d := hb ++ p.msg; .ok (d ++ be32 (crc32 d))
    | none => let d := hb ++ p.msg; .ok (d ++ be32 (crc32 d))

/-- the loop of `Packet.from_bytes` for `count > 1` -/
def unpackMulti : Nat → Bytes → Except Err (List WMsg)
  | 0, _ => .ok []
  | n + 1, payload =>
    if (take 5 payload).length < 5 then .error .structError
    else
      let len := beVal (slice 0 2 payload)
      let seq := beVal (slice 2 4 payload)
      match PType.ofWire (beVal (slice 4 5 payload)) with
      | .error e => .error e
      | .ok ty =>
        match unpackMulti n (drop (5 + len) payload) with
        | .error e => .error e
        | .ok rest => .ok (⟨seq, ty, slice 5 (5 + len) payload⟩ :: rest)

/-- first half of `Packet.from_bytes`: length checks, then AES-GCM open (keyed) or CRC (unkeyed);
    returns the plaintext payload.  Repaired code: keyed ⇒ AEAD for every packet type, and the
    datagram must be exactly header (20) + length + tag (16) / crc (4) bytes long. -/
def openBody (C : Crypto) (h : Header) (key : Option Bytes) (d : Bytes) : Except Err Bytes :=
  if 20 + h.length > d.length then .error .packetError
  else
    match keyed key with
    | some k =>
      if 20 + h.length + 16 ≠ d.length then .error .packetError
      else match C.aopen k (take 12 d) (take 20 d) (slice 20 (20 + h.length + 16) d) with
        | some pt => .ok pt
        | none => .error .invalidTag
    | none =>
      if 20 + h.length + 4 ≠ d.length then .error .packetError
      else if crc32 (take (20 + h.length) d) ≠
              beVal (slice (20 + h.length) (20 + h.length + 4) d) then .error .packetError
      else .ok (drop 20 (take (20 + h.length) d))

/-- second half: unpack the payload into messages according to `hdr.count` -/
def parseMsgs (h : Header) (msg : Bytes) : Except Err Packet :=
  if h.count = 1 then
    if (take 2 msg).length < 2 then .error .structError
    else .ok { hdr := h, msg := msg, msgs := [⟨beVal (take 2 msg), h.ptype, drop 2 msg⟩] }
  else if h.count > 1 then
    match unpackMulti h.count msg with
    | .error e => .error e
    | .ok ms => .ok { hdr := h, msg := msg, msgs := ms }
  else .ok { hdr := h, msg := msg, msgs := [] }

/-- `Packet.from_bytes(hdr, key, datagram)` -/
def fromBytes (C : Crypto) (h : Header) (key : Option Bytes) (d : Bytes) : Except Err Packet :=
  match openBody C h key d with
  | .error e => .error e
  | .ok msg => parseMsgs h msg

/-! ### size constants (`Packet.setMTU`) -/

structure Sizes where
  mtu : Nat
  deriving Repr

def Sizes.maxSize (s : Sizes) : Nat := s.mtu - 28
def Sizes.maxPayload (s : Sizes) : Nat := s.maxSize - 20 - 16 - 2
def Sizes.maxFragment (s : Sizes) : Nat :=
  if s.maxPayload < 1024 + 6 then s.maxPayload - 6 else 1024
def maxFragments : Nat := 0x2000

/-- `Packet.overhead(n)` -/
def overhead (n : Nat) : Nat := if n = 0 then 0 else if n = 1 then 2 else 5 * n

/-- `Packet.total_size(key)` -/
def totalSize (key : Option Bytes) (p : Packet) : Nat :=
  match keyed key with
  | some _ => if p.hdr.ptype != .serverHello then p.msg.length + 36 else p.msg.length + 24
  | none => p.msg.length + 24

end Mpgs.Wire
