/-
Model of mpgameserver/auth.py (`Auth.hash_password`, `Auth.verify_password`), *with the two
C19 repairs applied* (fixes/C19-1.patch: field-count check, fixes/C19-2.patch: digest-length
check).  Core Lean only.

Python -> Lean
* `bytes`                      -> `List UInt8`
* `str`                        -> `List CodePoint`, `CodePoint = Fin 0x110000` (exactly the values a
                                  Python `str` can hold, lone surrogates included)
* an argument of unknown type  -> `PyArg` (`bytes b | str s | other`), so that the two
                                  `isinstance` checks are part of the model
* exceptions                   -> `Except Err _`; `Err` lists the Python exception classes that can
                                  occur, `Err.isa` is the subclass relation
* `str.encode('utf-8')`        -> `encodeUtf8` (full UTF-8 encoder; surrogates raise
                                  `UnicodeEncodeError`, a `ValueError` subclass)
* `bytes.decode('utf-8')`      -> `decodeAscii`: only ever applied to base64/ASCII text by the
                                  code; the non-ASCII branch is kept as an error and proved
                                  unreachable (`Lemmas/Auth.lean: hashPassword_ok`)
* `bytes.split(b':')`          -> `splitOn 58`
* `base64.b64encode`           -> `b64encode` (standard alphabet, `=` padding)
* `base64.b64decode(s)`        -> `b64decode` = `binascii.a2b_base64(s, strict_mode=False)` of
                                  CPython 3.12, transcribed from the C state machine
                                  (`quad_pos`, `leftchar`, `pads`): non-alphabet bytes are skipped,
                                  `=` ends the input only when it completes a quad, a dangling
                                  partial quad raises `binascii.Error` (a `ValueError` subclass)
* `struct.pack/unpack(">HBBBB")`-> `packParams` / `unpackParams` (`struct.error` outside range /
                                  when the buffer is not exactly 6 bytes)
* `scrypt.Scrypt(...)`         -> `scryptInit` (the constructor's argument checks: n a power of
                                  two > 1, r ≥ 1, p ≥ 1, else `ValueError`) followed by the KDF
                                  itself, which is a **parameter** `kdf : Kdf` (arbitrary function)
* `hashes.Hash(SHA256)`        -> parameter `sha : Bytes → Bytes` (arbitrary function)
* `os.urandom(16)`             -> the salt is an input of `hashPassword`
* `kdf.verify(km, expected)`   -> `scryptVerify` (`derive` + `constant_time.bytes_eq`, raising
                                  `InvalidKey`), caught at the same place as in the code
-/
namespace Mpgs.Auth

abbrev Bytes := List UInt8

/-- a Unicode code point as a Python `str` can hold it (0 … 0x10FFFF, surrogates included) -/
abbrev CodePoint := Fin 0x110000
abbrev PyStr := List CodePoint

/-- a Python argument as far as the `isinstance` checks can tell -/
inductive PyArg where
  | bytes (b : Bytes)
  | str (s : PyStr)
  | other
  deriving DecidableEq, Repr

/-- Python exception classes that occur in `auth.py` and the library calls it makes -/
inductive Err where
  | typeError
  | valueError
  | binasciiError        -- binascii.Error(ValueError)
  | unicodeEncodeError   -- UnicodeEncodeError(UnicodeError(ValueError))
  | unicodeDecodeError   -- UnicodeDecodeError(UnicodeError(ValueError))
  | structError          -- struct.error(Exception): caught inside verify_password
  | invalidKey           -- cryptography.exceptions.InvalidKey(Exception): caught inside verify_password
  | indexError           -- IndexError(LookupError): only raised by the code *before* fix C19-1
  deriving DecidableEq, Repr

/-- subclass relation `issubclass(e, base)` restricted to the classes above -/
def Err.isa : Err → Err → Bool
  | .binasciiError, .valueError => true
  | .unicodeEncodeError, .valueError => true
  | .unicodeDecodeError, .valueError => true
  | a, b => a == b

/-- "raises ValueError or TypeError" (subclasses included, as `except ValueError` would see it) -/
def Err.isValueOrType (e : Err) : Bool := e.isa .valueError || e.isa .typeError

/-! ## base64 -/

/-- standard alphabet: sextet value → ASCII code -/
def encChar (n : Nat) : UInt8 :=
  if n < 26 then UInt8.ofNat (65 + n)        -- 'A'..'Z'
  else if n < 52 then UInt8.ofNat (71 + n)   -- 'a'..'z'  (97 + (n-26))
  else if n < 62 then UInt8.ofNat (n - 4)    -- '0'..'9'  (48 + (n-52))
  else if n = 62 then 43                     -- '+'
  else 47                                    -- '/'

/-- `table_a2b_base64`: ASCII code → sextet value, `none` for every byte outside the alphabet -/
def sextet (c : UInt8) : Option Nat :=
  let x := c.toNat
  if 65 ≤ x ∧ x ≤ 90 then some (x - 65)
  else if 97 ≤ x ∧ x ≤ 122 then some (x - 71)
  else if 48 ≤ x ∧ x ≤ 57 then some (x + 4)
  else if x = 43 then some 62
  else if x = 47 then some 63
  else none

/-- `=` -/
def padChar : UInt8 := 61

/-- `base64.b64encode`: 3 bytes → 4 characters, `=`-padded tail -/
def b64encode : Bytes → Bytes
  | a :: b :: c :: rest =>
      encChar (a.toNat / 4) :: encChar (a.toNat % 4 * 16 + b.toNat / 16)
        :: encChar (b.toNat % 16 * 4 + c.toNat / 64) :: encChar (c.toNat % 64) :: b64encode rest
  | [a, b] =>
      [encChar (a.toNat / 4), encChar (a.toNat % 4 * 16 + b.toNat / 16), encChar (b.toNat % 16 * 4), padChar]
  | [a] => [encChar (a.toNat / 4), encChar (a.toNat % 4 * 16), padChar, padChar]
  | [] => []

/-- `binascii.a2b_base64(data, strict_mode=False)`, CPython 3.12 (`Modules/binascii.c`).
State: `q` = `quad_pos` (0..3), `left` = `leftchar`, `pads` = `pads`.
* `=`: when `quad_pos ≥ 2` count it, and if `quad_pos + pads ≥ 4` stop (`goto done`) and return
  what has been produced; otherwise ignore it;
* a byte outside the alphabet is ignored;
* an alphabet character resets `pads` and advances the quad, emitting a byte at positions 1, 2, 3;
* at the end of the input a non-empty partial quad raises `binascii.Error`.
(The C code writes into a buffer and discards it on error; consing onto the recursive result is the
same function.) -/
def a2b : Nat → Nat → Nat → Bytes → Except Err Bytes
  | q, _, _, [] => if q = 0 then .ok [] else .error .binasciiError
  | q, left, pads, c :: cs =>
    if c = padChar then
      if 2 ≤ q then
        if 4 ≤ q + (pads + 1) then .ok [] else a2b q left (pads + 1) cs
      else a2b q left pads cs
    else match sextet c with
      | none => a2b q left pads cs
      | some v =>
        if q = 0 then a2b 1 v 0 cs
        else if q = 1 then (a2b 2 (v % 16) 0 cs).map (UInt8.ofNat (left * 4 + v / 16) :: ·)
        else if q = 2 then (a2b 3 (v % 4) 0 cs).map (UInt8.ofNat (left * 16 + v / 4) :: ·)
        else (a2b 0 0 0 cs).map (UInt8.ofNat (left * 64 + v) :: ·)

/-- `base64.b64decode(s)` (default `validate=False`) -/
def b64decode (s : Bytes) : Except Err Bytes := a2b 0 0 0 s

/-! ## str ↔ bytes -/

/-- `str.encode('utf-8')`: raises `UnicodeEncodeError` on a surrogate code point -/
def encodeUtf8 : PyStr → Except Err Bytes
  | [] => .ok []
  | c :: cs =>
    let n := c.val
    if n < 0x80 then (encodeUtf8 cs).map (UInt8.ofNat n :: ·)
    else if n < 0x800 then
      (encodeUtf8 cs).map (fun r => UInt8.ofNat (0xC0 + n / 64) :: UInt8.ofNat (0x80 + n % 64) :: r)
    else if 0xD800 ≤ n ∧ n ≤ 0xDFFF then .error .unicodeEncodeError
    else if n < 0x10000 then
      (encodeUtf8 cs).map (fun r => UInt8.ofNat (0xE0 + n / 4096) :: UInt8.ofNat (0x80 + n / 64 % 64)
        :: UInt8.ofNat (0x80 + n % 64) :: r)
    else
      (encodeUtf8 cs).map (fun r => UInt8.ofNat (0xF0 + n / 262144) :: UInt8.ofNat (0x80 + n / 4096 % 64)
        :: UInt8.ofNat (0x80 + n / 64 % 64) :: UInt8.ofNat (0x80 + n % 64) :: r)

/-- `bytes.decode('utf-8')` on ASCII text (the only use in `hash_password`: base64 characters,
`scrypt`, `1`, `:`).  A byte ≥ 0x80 is answered with `UnicodeDecodeError`; that branch is proved
unreachable from `hashPassword`. -/
def decodeAscii : Bytes → Except Err PyStr
  | [] => .ok []
  | b :: bs =>
    if h : b.toNat < 128 then (decodeAscii bs).map (⟨b.toNat, by omega⟩ :: ·)
    else .error .unicodeDecodeError

/-- `bytes.split(sep)` for a one-byte separator: always at least one field -/
def splitOn (sep : UInt8) : Bytes → List Bytes
  | [] => [[]]
  | c :: cs =>
    if c = sep then [] :: splitOn sep cs
    else match splitOn sep cs with
      | [] => [[c]]
      | p :: ps => (c :: p) :: ps

/-! ## parameter block -/

structure Params where
  N : Nat
  r : Nat
  p : Nat
  saltLen : Nat
  len : Nat
  deriving DecidableEq, Repr

/-- `struct.pack(">HBBBB", N, r, p, salt_length, length)` -/
def packParams (P : Params) : Except Err Bytes :=
  if P.N < 65536 ∧ P.r < 256 ∧ P.p < 256 ∧ P.saltLen < 256 ∧ P.len < 256 then
    .ok [UInt8.ofNat (P.N / 256), UInt8.ofNat (P.N % 256), UInt8.ofNat P.r, UInt8.ofNat P.p,
         UInt8.ofNat P.saltLen, UInt8.ofNat P.len]
  else .error .structError

/-- `struct.unpack(">HBBBB", params)`: the buffer must be exactly 6 bytes -/
def unpackParams : Bytes → Except Err Params
  | [n1, n0, r, p, s, l] => .ok ⟨n1.toNat * 256 + n0.toNat, r.toNat, p.toNat, s.toNat, l.toNat⟩
  | _ => .error .structError

/-! ## scrypt (library boundary) -/

/-- the key-derivation function proper: `Scrypt(salt, length, n, r, p).derive(km)`.
A parameter of the model: theorems quantify over every function of this type. -/
abbrev Kdf := (N r p length : Nat) → (salt km : Bytes) → Bytes

/-- argument checks of the `Scrypt` constructor (cryptography): `n` a power of two greater than 1,
`r ≥ 1`, `p ≥ 1`, else `ValueError` -/
def scryptInit (N r p : Nat) : Except Err Unit :=
  if N < 2 ∨ N &&& (N - 1) ≠ 0 then .error .valueError
  else if r < 1 then .error .valueError
  else if p < 1 then .error .valueError
  else .ok ()

/-- everything `verify_password` has established when it hands over to scrypt -/
structure Query where
  N : Nat
  r : Nat
  p : Nat
  len : Nat
  salt : Bytes
  km : Bytes
  expected : Bytes
  deriving DecidableEq, Repr

/-- `kdf.verify(key_material, expected)`: derive, compare whole digests (`constant_time.bytes_eq`:
equal length and equal content), raise `InvalidKey` on mismatch -/
def scryptVerify (kdf : Kdf) (q : Query) : Except Err Unit :=
  if kdf q.N q.r q.p q.len q.salt q.km = q.expected then .ok () else .error .invalidKey

/-! ## Auth -/

def SALT_LENGTH : Nat := 16
def DIGEST_LENGTH : Nat := 24
def defaultN : Nat := 16384
def defaultR : Nat := 16
def defaultP : Nat := 1

/-- `b"scrypt"` -/
def kScrypt : Bytes := [115, 99, 114, 121, 112, 116]
/-- `b"1"` -/
def kOne : Bytes := [49]
/-- `b":"[0]` -/
def colon : UInt8 := 58

/-- `Auth.hash_password(password)`; `salt` is what `os.urandom(SALT_LENGTH)` returned -/
def hashPassword (kdf : Kdf) (sha : Bytes → Bytes) (salt : Bytes) (password : PyArg) :
    Except Err PyStr :=
  match password with
  | .bytes pw =>
    let km := sha pw
    match packParams ⟨defaultN, defaultR, defaultP, SALT_LENGTH, DIGEST_LENGTH⟩ with
    | .error e => .error e
    | .ok params =>
      let header := kScrypt ++ [colon] ++ kOne ++ [colon] ++ b64encode params ++ [colon]
      match scryptInit defaultN defaultR defaultP with
      | .error e => .error e
      | .ok () =>
        let out := kdf defaultN defaultR defaultP DIGEST_LENGTH salt km
        let footer := b64encode (salt ++ out)
        decodeAscii (header ++ footer)
  | _ => .error .typeError

/-- `Auth.verify_password` up to (excluding) `kdf.verify`: type checks, pre-hash, split, base64,
method/version, parameter block, salt/digest split, the repaired length check, the `Scrypt`
constructor.  Returns the query that is put to the KDF. -/
def verifyPrepare (sha : Bytes → Bytes) (password passwordHash : PyArg) : Except Err Query :=
  match password with
  | .bytes pw =>
    match passwordHash with
    | .str hs =>
      let km := sha pw
      match encodeUtf8 hs with
      | .error e => .error e
      | .ok enc =>
        match splitOn colon enc with
        | [kind, version, f2, f3] =>
          match b64decode f2 with
          | .error e => .error e
          | .ok params =>
            match b64decode f3 with
            | .error e => .error e
            | .ok data =>
              if kind ≠ kScrypt ∨ version ≠ kOne then .error .valueError
              else if version ≠ kOne then .error .valueError
              else
                -- try: struct.unpack  except struct.error: raise ValueError
                match unpackParams params with
                | .error .structError => .error .valueError
                | .error e => .error e
                | .ok P =>
                  let salt := data.take P.saltLen
                  let expected := data.drop P.saltLen
                  -- C19-2: refuse an empty digest / a digest of the wrong length
                  if P.len < 1 ∨ expected.length ≠ P.len then .error .valueError
                  else
                    match scryptInit P.N P.r P.p with
                    | .error e => .error e
                    | .ok () => .ok ⟨P.N, P.r, P.p, P.len, salt, km, expected⟩
        -- C19-1: anything but exactly four fields is refused
        | _ => .error .valueError
    | _ => .error .typeError
  | _ => .error .typeError

/-- `Auth.verify_password(password, password_hash)` -/
def verifyPassword (kdf : Kdf) (sha : Bytes → Bytes) (password passwordHash : PyArg) :
    Except Err Bool :=
  match verifyPrepare sha password passwordHash with
  | .error e => .error e
  | .ok q =>
    -- try: kdf.verify(...); result = True   except InvalidKey: pass
    match scryptVerify kdf q with
    | .ok () => .ok true
    | .error .invalidKey => .ok false
    | .error e => .error e

/-! ## the code before the repairs (used only by the witness theorems `C19_unrepaired_*`)

`parts[0] … parts[3]` indexed without a length check (surplus fields ignored, missing ones raise
`IndexError`), no check of the digest length. -/

def verifyPrepareUnrepaired (sha : Bytes → Bytes) (password passwordHash : PyArg) : Except Err Query :=
  match password with
  | .bytes pw =>
    match passwordHash with
    | .str hs =>
      let km := sha pw
      match encodeUtf8 hs with
      | .error e => .error e
      | .ok enc =>
        match splitOn colon enc with
        | kind :: version :: f2 :: f3 :: _ =>
          match b64decode f2 with
          | .error e => .error e
          | .ok params =>
            match b64decode f3 with
            | .error e => .error e
            | .ok data =>
              if kind ≠ kScrypt ∨ version ≠ kOne then .error .valueError
              else
                match unpackParams params with
                | .error .structError => .error .valueError
                | .error e => .error e
                | .ok P =>
                  match scryptInit P.N P.r P.p with
                  | .error e => .error e
                  | .ok () => .ok ⟨P.N, P.r, P.p, P.len, data.take P.saltLen, km, data.drop P.saltLen⟩
        | _ => .error .indexError
    | _ => .error .typeError
  | _ => .error .typeError

def verifyPasswordUnrepaired (kdf : Kdf) (sha : Bytes → Bytes) (password passwordHash : PyArg) :
    Except Err Bool :=
  match verifyPrepareUnrepaired sha password passwordHash with
  | .error e => .error e
  | .ok q =>
    match scryptVerify kdf q with
    | .ok () => .ok true
    | .error .invalidKey => .ok false
    | .error e => .error e

end Mpgs.Auth
