import MpgsModel.Lemmas.Path
/-!
# C17 — `path_join_safe` never returns a path outside the root

Property theorems only (helper lemmas live in `Lemmas/Path.lean`).  The model is `Mpgs.Path`
(`Model/Path.lean`): `pathJoinSafe cwd root name` is `path_join_safe(root, name)` of
`mpgameserver/http_server.py` (with the repair `fixes/C17-1.patch`: an absolute file name is
refused) under `os.getcwd() = cwd`, with `os.path` = `posixpath`.

Vocabulary (defined at the end of `Model/Path.lean`):
* `fixSep s` = `s.replace("\\", "/")` — how the function itself reads both arguments;
* `abspath cwd (fixSep root)` — *the root directory*;
* `Clean c` — `c` is non-empty, is not `.` or `..`, and contains no `/`;
* `Normalised p` — `p` is `/` or `//` followed by `Clean` components joined by single `/`;
* `Beneath r p` — `p = r`, or `r ++ "/"` is a prefix of `p`, or `r` is `/` or `//` and a prefix of `p`.

Every theorem quantifies over **all** strings `root` and `name` (any characters, any length) and
every absolute `cwd`; `os.getcwd()` always returns an absolute path.
-/
namespace Mpgs.Path

/-- **Containment.** Whenever `path_join_safe` returns, the result is the root directory or lies
beneath it, and it is normalised (no empty, `.` or `..` component). -/
theorem C17_contained (cwd root name p : Str) (hcwd : isabs cwd = true)
    (h : pathJoinSafe cwd root name = .ok p) :
    Beneath (abspath cwd (fixSep root)) p ∧ Normalised p := by
  obtain ⟨hdd, _, hrel, rfl⟩ := pathJoinSafe_ok cwd root name p h
  obtain ⟨sl, s, hsl, hs, hf, hR, hP⟩ := contained_core cwd (fixSep root) (fixSep name) hcwd hrel hdd
  rw [hR, hP]
  refine ⟨beneath_join sl s _ hsl, sl, s ++ keep (split (fixSep name)), hsl, ?_, rfl⟩
  intro c hc
  rcases List.mem_append.mp hc with hc | hc
  · exact hs c hc
  · exact hf c hc

/-- **Containment, component form** (what `os.path.commonpath([root, p]) == root` says, and more):
root directory and result have the same root slashes; the result's components are the root
directory's components followed by exactly the non-empty components of the file name (read with
`\` as a separator); all components are clean.  In particular the function does not collapse
distinct names: nothing of the name is dropped except empty segments. -/
theorem C17_components (cwd root name p : Str) (hcwd : isabs cwd = true)
    (h : pathJoinSafe cwd root name = .ok p) :
    ∃ sl rootComps,
      (sl = ['/'] ∨ sl = ['/', '/']) ∧
      (∀ c ∈ rootComps, Clean c) ∧
      (∀ c ∈ (split (fixSep name)).filter (fun c => !c.isEmpty), Clean c) ∧
      abspath cwd (fixSep root) = sl ++ joinSlash rootComps ∧
      p = sl ++ joinSlash (rootComps ++ (split (fixSep name)).filter (fun c => !c.isEmpty)) := by
  obtain ⟨hdd, hd, hrel, rfl⟩ := pathJoinSafe_ok cwd root name p h
  obtain ⟨sl, s, hsl, hs, hf, hR, hP⟩ := contained_core cwd (fixSep root) (fixSep name) hcwd hrel hdd
  rw [keep_eq_filter _ hd] at hf hP
  exact ⟨sl, s, hsl, hs, hf, hR, hP⟩

/-- The result is a fixpoint of `normpath` (the monitor's `normpath(result) == result`). -/
theorem C17_result_is_fixpoint_of_normpath (cwd root name p : Str) (hcwd : isabs cwd = true)
    (h : pathJoinSafe cwd root name = .ok p) : normpath p = p := by
  obtain ⟨sl, cs, hsl, hcs, rfl⟩ := (C17_contained cwd root name p hcwd h).2
  exact normpath_normalised sl cs hsl hcs

/-- The only error `path_join_safe` raises is `ValueError`. -/
theorem C17_error_is_valueError (cwd root name : Str) (e : Err)
    (_h : pathJoinSafe cwd root name = .error e) : e = .valueError := by
  cases e; rfl

/-- **The property as stated**, for every string an HTTP client can make the server pass as
`name` — in particular every value a `:name*` capture of the router can take (a capture is a
string; no side condition on it is needed): either `ValueError`, or a normalised path that is
the root directory or lies beneath it. -/
theorem C17_every_name (cwd root : Str) (hcwd : isabs cwd = true) (name : Str) :
    pathJoinSafe cwd root name = .error .valueError ∨
    ∃ p, pathJoinSafe cwd root name = .ok p ∧
      Beneath (abspath cwd (fixSep root)) p ∧ Normalised p := by
  cases h : pathJoinSafe cwd root name with
  | error e => cases e; exact Or.inl rfl
  | ok p => exact Or.inr ⟨p, rfl, C17_contained cwd root name p hcwd h⟩

/-- The function is not vacuous: a relative name without `.` / `..` components is accepted
(so the containment theorems talk about every ordinary file name), and the three refusals are
exactly the `.`, `..` and leading-separator cases. -/
theorem C17_clean_relative_accepted (cwd root name : Str) :
    (∃ p, pathJoinSafe cwd root name = .ok p) ↔
    (dotdot ∉ split (fixSep name) ∧ dot ∉ split (fixSep name) ∧ isabs (fixSep name) = false) := by
  constructor
  · rintro ⟨p, h⟩
    obtain ⟨h1, h2, h3, _⟩ := pathJoinSafe_ok cwd root name p h
    exact ⟨h1, h2, h3⟩
  · rintro ⟨h1, h2, h3⟩
    exact ⟨_, pathJoinSafe_of_clean cwd root name h1 h2 h3⟩

/-- The root directory itself (`abspath` of any string under an absolute cwd) is normalised. -/
theorem C17_root_normalised (cwd r : Str) (hcwd : isabs cwd = true) : Normalised (abspath cwd r) := by
  have hx := isabs_absBase cwd r hcwd
  rw [abspath_eq, normpath_abs _ hx]
  exact ⟨_, _, (splitroot_abs _ hx).1, stack_clean _, rfl⟩

/-- Backslashes are separators in both arguments: the `\` spelling of a name is treated exactly
as its `/` spelling (and the preprocessed arguments contain no backslash). -/
theorem C17_backslash_is_separator (cwd root name : Str) :
    pathJoinSafe cwd root name = pathJoinSafe cwd (fixSep root) (fixSep name) ∧
    '\\' ∉ fixSep name := by
  refine ⟨?_, fixSep_noBackslash name⟩
  simp [pathJoinSafe, fixSep_idem]

/-- The router mechanism: a `:name*` capture may begin with a separator (`/static//etc/passwd`
captures `/etc/passwd`; a backslash counts as a separator).  Every such name is refused, whatever the
root and whatever follows the separator. -/
theorem C17_leading_separator_refused (cwd root name : Str) (c : Char) (rest : Str)
    (hname : name = c :: rest) (hc : c = '/' ∨ c = '\\') :
    pathJoinSafe cwd root name = .error .valueError := by
  subst hname
  cases h : pathJoinSafe cwd root (c :: rest) with
  | error e => cases e; rfl
  | ok p =>
    obtain ⟨_, _, h3, _⟩ := pathJoinSafe_ok cwd root (c :: rest) p h
    rcases hc with rfl | rfl <;> simp [fixSep, isabs] at h3

/-- `.` and `..` segments are refused wherever they stand and whichever separator delimits them. -/
theorem C17_dot_segments_refused (cwd root pre post seg : Str) (hseg : seg = dot ∨ seg = dotdot)
    (hpre : pre = [] ∨ ∃ q, pre = q ++ ['/'] ∨ pre = q ++ ['\\'])
    (hpost : post = [] ∨ ∃ q, post = '/' :: q ∨ post = '\\' :: q) :
    pathJoinSafe cwd root (pre ++ seg ++ post) = .error .valueError := by
  cases h : pathJoinSafe cwd root (pre ++ seg ++ post) with
  | error e => cases e; rfl
  | ok p =>
    obtain ⟨h1, h2, _, _⟩ := pathJoinSafe_ok cwd root _ p h
    exact absurd (seg_mem_split pre post seg hseg hpre hpost) (by
      rcases hseg with rfl | rfl
      · exact h2
      · exact h1)

/-- Witness that the repair is needed: the function as it was (no absolute-name check) returns
`/etc/passwd` for root `/srv/www`, which is not beneath the root; the repaired function refuses
the same input, and also its backslash and router-capture (`//etc/passwd`) spellings. -/
theorem C17_unrepaired_escapes :
    pathJoinSafeOld "/cwd".toList "/srv/www".toList "/etc/passwd".toList = .ok "/etc/passwd".toList ∧
    ¬ Beneath (abspath "/cwd".toList "/srv/www".toList) "/etc/passwd".toList ∧
    pathJoinSafe "/cwd".toList "/srv/www".toList "/etc/passwd".toList = .error .valueError ∧
    pathJoinSafe "/cwd".toList "/srv/www".toList "\\etc\\passwd".toList = .error .valueError ∧
    pathJoinSafe "/cwd".toList "/srv/www".toList "//etc/passwd".toList = .error .valueError := by
  decide

/-! ### non-vacuity examples -/

/-- the hypotheses of `C17_contained` are met by an ordinary request -/
example : isabs "/home/u".toList = true ∧
    pathJoinSafe "/home/u".toList "www".toList "css//site.css".toList
      = .ok "/home/u/www/css/site.css".toList := by decide

/-- root `/`: the special case of `Beneath` -/
example : pathJoinSafe "/x".toList "/".toList "a\\b".toList = .ok "/a/b".toList ∧
    Beneath "/".toList "/a/b".toList := by decide

/-- root `//` keeps its two slashes -/
example : pathJoinSafe "/x".toList "//".toList "a".toList = .ok "//a".toList := by decide

/-- empty name: the root directory itself -/
example : pathJoinSafe "/x".toList "/srv/www/".toList [] = .ok "/srv/www".toList := by decide

/-- refusals -/
example : pathJoinSafe "/x".toList "/srv".toList "a/../b".toList = .error .valueError ∧
    pathJoinSafe "/x".toList "/srv".toList "a\\.\\b".toList = .error .valueError ∧
    pathJoinSafe "/x".toList "/srv".toList "\\a".toList = .error .valueError := by decide

/-- hypotheses of `C17_leading_separator_refused`: the capture of `GET /static//etc/passwd` -/
example : pathJoinSafe "/x".toList "/srv/www".toList "/etc/passwd".toList = .error .valueError :=
  C17_leading_separator_refused _ _ _ '/' "etc/passwd".toList (by decide) (Or.inl rfl)

/-- hypotheses of `C17_dot_segments_refused`: `a/..\b` -/
example : pathJoinSafe "/x".toList "/srv".toList ("a/".toList ++ dotdot ++ "\\b".toList)
    = .error .valueError :=
  C17_dot_segments_refused _ _ "a/".toList "\\b".toList dotdot (Or.inr rfl)
    (Or.inr ⟨"a".toList, Or.inl (by decide)⟩) (Or.inr ⟨"b".toList, Or.inr (by decide)⟩)

end Mpgs.Path
