/-
Secondary tie (DESIGN 4.2), group Ack: the kernels that `harness/translate.py` regenerates from the source of the tree under test
(`MpgsModel/Generated/Ack.lean`, rewritten on every run of the checks that list this group) equal the hand-written model
definitions that the property theorems are about.  Proofs are `unfold` + `grind` (case splitting, linear integer arithmetic) so
that they survive behaviour-preserving rewrites of the Python; what breaks them is a change of behaviour.
-/
import MpgsModel.Generated.Ack
import MpgsModel.Props.EquivSeq

namespace Mpgs.Equiv
open Mpgs

/-- the acknowledgement test of `_handle_ack_bits` -/
theorem gen_ack_names (ack : Int) (bits : Nat) (s : Int) :
    Gen.ack_names s ack bits = .ok (Seq.ackNames ack bits s) := by
  unfold Gen.ack_names Seq.ackNames
  have h2 : (Seq.diff ack s - 1).toNat = (Seq.diff ack s).toNat - 1 := by omega
  try simp only [gen_diffV, h2]
  all_goals grind

end Mpgs.Equiv
