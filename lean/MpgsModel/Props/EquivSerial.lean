/-
Secondary tie (DESIGN 4.2), group Serial: the kernels that `harness/translate.py` regenerates from the source of the tree under test
(`MpgsModel/Generated/Serial.lean`, rewritten on every run of the checks that list this group) equal the hand-written model
definitions that the property theorems are about.  Proofs are `unfold` + `grind` (case splitting, linear integer arithmetic) so
that they survive behaviour-preserving rewrites of the Python; what breaks them is a change of behaviour.
-/
import MpgsModel.Generated.Serial
import MpgsModel.Model.Serial

namespace Mpgs.Equiv
open Mpgs

theorem be2_eq (n : Nat) : Gen.beBytes 2 n = Serial.be2 n := by
  simp [Gen.beBytes, Serial.be2, Serial.u8]
theorem be1_eq (n : Nat) : Gen.beBytes 1 n = Serial.be1 n := by
  simp [Gen.beBytes, Serial.be1, Serial.u8]
theorem be4_eq (n : Nat) : Gen.beBytes 4 n = Serial.be4 n := by
  simp [Gen.beBytes, Serial.be4, Serial.u8]
theorem be8_eq (n : Nat) : Gen.beBytes 8 n = Serial.be8 n := by
  simp [Gen.beBytes, Serial.be8, Serial.u8]

/-- `serialize_value` turns the `struct.error` of an out-of-range `struct.pack` into `ValueError` -/
def liftS {α : Type} : Except Gen.Err α → Except Serial.Err α
  | .ok v => .ok v
  | .error _ => .error .valueError

theorem packH (t : Nat) (h : t < 65536) : Gen.packField 'H' t = .ok (Serial.be2 t) := by
  have : (t : Int) < 65536 := by omega
  simp [Gen.packField, be2_eq, this]

theorem structPack2 (c : Char) (t : Nat) (v : Int) (h : t < 65536) :
    Gen.structPack (String.ofList ['H', c]) [(t : Int), v] =
      match Gen.packField c v with
      | .error e => .error e
      | .ok b => .ok (Serial.be2 t ++ b) := by
  simp only [Gen.structPack, String.toList_ofList, Gen.structPackL, packH t h]
  cases Gen.packField c v <;> simp

theorem twos_eq (v : Int) (w : Nat) : (v % (256 ^ w : Int)).toNat = Serial.twos v w := rfl

theorem gen_serialize_int (v : Int) (out : List UInt8) :
    liftS (Gen.serialize_int () v out) = (Serial.encodeInt v).map (fun b => out ++ b) := by
  unfold Gen.serialize_int Serial.encodeInt
  have e1 : ("Hq" : String) = String.ofList ['H', 'q'] := rfl
  have e2 : ("Hl" : String) = String.ofList ['H', 'l'] := rfl
  have e3 : ("Hh" : String) = String.ofList ['H', 'h'] := rfl
  have e4 : ("Hb" : String) = String.ofList ['H', 'b'] := rfl
  have c6 : ((6 : Int)) = ((6 : Nat) : Int) := rfl
  have c5 : ((5 : Int)) = ((5 : Nat) : Int) := rfl
  have c4 : ((4 : Int)) = ((4 : Nat) : Int) := rfl
  have c3 : ((3 : Int)) = ((3 : Nat) : Int) := rfl
  simp only [decide_eq_true_eq]
  rw [e1, e2, e3, e4, c6, c5, c4, c3]
  simp only [structPack2 _ _ _ (by decide : (6:Nat) < 65536), structPack2 _ _ _ (by decide : (5:Nat) < 65536),
    structPack2 _ _ _ (by decide : (4:Nat) < 65536), structPack2 _ _ _ (by decide : (3:Nat) < 65536)]
  simp only [Gen.packField, be1_eq, be2_eq, be4_eq, be8_eq, twos_eq]
  have b6 : Serial.be2 6 = [0, 6] := by decide
  have b5 : Serial.be2 5 = [0, 5] := by decide
  have b4 : Serial.be2 4 = [0, 4] := by decide
  have b3 : Serial.be2 3 = [0, 3] := by decide
  simp only [b6, b5, b4, b3]
  have hn : (Int.ofNat v.natAbs : Int) = (v.natAbs : Int) := rfl
  by_cases h1 : v.natAbs > 2147483647
  · have h1' : Int.ofNat v.natAbs > 2147483647 := by omega
    simp only [h1, h1', if_true]
    by_cases h2 : -9223372036854775808 ≤ v ∧ v < 9223372036854775808
    · have h2' : -(256 ^ 8 / 2 : Int) ≤ v ∧ v < (256 ^ 8 / 2 : Int) := by omega
      simp only [h2, h2', and_self, if_true, liftS, Except.map]
    · have h2' : ¬ (-(256 ^ 8 / 2 : Int) ≤ v ∧ v < (256 ^ 8 / 2 : Int)) := by omega
      simp only [h2, h2', if_false, liftS, Except.map]
  · have h1' : ¬ Int.ofNat v.natAbs > 2147483647 := by omega
    simp only [h1, h1', if_false]
    by_cases h3 : v.natAbs > 32767
    · have h3' : Int.ofNat v.natAbs > 32767 := by omega
      have r : -(256 ^ 4 / 2 : Int) ≤ v ∧ v < (256 ^ 4 / 2 : Int) := by omega
      simp only [h3, h3', r, and_self, if_true, liftS, Except.map]
    · have h3' : ¬ Int.ofNat v.natAbs > 32767 := by omega
      simp only [h3, h3', if_false]
      by_cases h4 : v.natAbs > 127
      · have h4' : Int.ofNat v.natAbs > 127 := by omega
        have r : -(256 ^ 2 / 2 : Int) ≤ v ∧ v < (256 ^ 2 / 2 : Int) := by omega
        simp only [h4, h4', r, and_self, if_true, liftS, Except.map]
      · have h4' : ¬ Int.ofNat v.natAbs > 127 := by omega
        have r : -(256 ^ 1 / 2 : Int) ≤ v ∧ v < (256 ^ 1 / 2 : Int) := by omega
        simp only [h4, h4', r, and_self, if_true, if_false, liftS, Except.map]
/-! non-vacuity: a width boundary and the 64-bit refusal -/
example : Gen.serialize_int () 128 [] = .ok [0, 4, 0, 128] := by rfl
example : Gen.serialize_int () (-129) [] = .ok [0, 4, 255, 127] := by rfl
example : Gen.serialize_int () 9223372036854775808 [] = .error .structError := by rfl

end Mpgs.Equiv
