/-
Secondary tie (DESIGN 4.2), group Frag: the size check and the `while` loop of `FragmentSender.build`, regenerated from the source by
`harness/translate.py` with byte strings abstracted to their lengths (`len(p[:k]) = min(len p, k)`, `len(p[k:]) = max(0, len p - k)`),
cut a payload into exactly the fragment lengths of the model's `splitFrags`, for every payload and every size configuration.
-/
import MpgsModel.Generated.Frag
import MpgsModel.Model.Conn

namespace Mpgs.Equiv
open Mpgs Mpgs.Conn

theorem split_loop_zero (k : Nat) (mp mf : Int) (acc : List Int) :
    Gen.FragmentSender_split_loop (k + 1) mp mf 0 acc = .ok (0, acc) := by
  rw [Gen.FragmentSender_split_loop]; simp

theorem splitFrags_nil (mp mf k : Nat) : splitFrags mp mf k [] = [] := by
  cases k <;> simp [splitFrags]

/-- the loop of `FragmentSender.build`, regenerated from the source and run on the LENGTH of a payload, cuts it into exactly the
    lengths of the fragments of the model's `splitFrags` (for every payload, accumulator, and sizes with a fragment size ≥ 1 and
    a payload room ≥ the fragment header); it ends with nothing left and never runs out of fuel -/
theorem gen_split_loop (mp mf : Nat) (hmf : 1 ≤ mf) (hmp : 6 ≤ mp) :
    ∀ (fuel : Nat) (p : Bytes) (acc : List Int), p.length ≤ fuel →
      Gen.FragmentSender_split_loop (fuel + 1) mp mf p.length acc =
        .ok (0, acc ++ (splitFrags mp mf fuel p).map (fun f => (f.length : Int))) := by
  intro fuel
  induction fuel with
  | zero =>
    intro p acc h
    have h0 : p.length = 0 := by omega
    rw [h0]
    simp [split_loop_zero, splitFrags]
  | succ k ih =>
    intro p acc h
    by_cases h0 : p.length = 0
    · rw [h0]
      simp [split_loop_zero, splitFrags, h0]
    · rw [Gen.FragmentSender_split_loop]
      have hpos : (p.length : Int) > 0 := by omega
      by_cases hs : p.length < mp - 6
      · have hs' : (p.length : Int) < (mp : Int) - 6 := by omega
        simp only [hpos, hs', decide_true, if_true, split_loop_zero]
        simp [splitFrags, h0, hs]
      · have hs' : ¬ (p.length : Int) < (mp : Int) - 6 := by omega
        have hd := ih (Bytes.drop mf p) (acc ++ [((Bytes.take mf p).length : Int)]) (by simp only [Bytes.drop, List.length_drop]; omega)
        have e1 : (max 0 ((p.length : Int) - (mf : Int))) = ((Bytes.drop mf p).length : Int) := by simp only [Bytes.drop, List.length_drop]; omega
        have e2 : (min (p.length : Int) (mf : Int)) = ((Bytes.take mf p).length : Int) := by simp only [Bytes.take, List.length_take]; omega
        simp only [hpos, hs', decide_true, decide_false, if_true, e1, e2, Bool.false_eq_true, if_false]
        rw [hd]
        simp [splitFrags, h0, hs]

/-- `FragmentSender.build` up to the end of its `while` loop, on the length of the payload: `ValueError` exactly when the model's
    `sendFragmented` refuses, otherwise the lengths of the model's fragments -/
theorem gen_split (sz : Wire.Sizes) (p : Bytes) (hmf : 1 ≤ sz.maxFragment) (hmp : 6 ≤ sz.maxPayload) :
    Gen.FragmentSender_split (p.length + 1) p.length sz.maxPayload sz.maxFragment =
      if p.length > sz.maxFragment * Wire.maxFragments then .error .valueError
      else .ok ((splitFrags sz.maxPayload sz.maxFragment p.length p).map (fun f => (f.length : Int))) := by
  unfold Gen.FragmentSender_split
  have hl := gen_split_loop sz.maxPayload sz.maxFragment hmf hmp p.length p [] (Nat.le_refl _)
  by_cases h : p.length > sz.maxFragment * Wire.maxFragments
  · have h' : (p.length : Int) > (sz.maxFragment : Int) * 8192 := by
      unfold Wire.maxFragments at h; omega
    simp [h, h']
  · have h' : ¬ (p.length : Int) > (sz.maxFragment : Int) * 8192 := by
      unfold Wire.maxFragments at h; omega
    simp only [h, h', decide_false, Bool.false_eq_true, if_false, hl]
    simp

end Mpgs.Equiv
