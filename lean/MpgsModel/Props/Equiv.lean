/-
Secondary tie (DESIGN 4.2): every kernel that `harness/translate.py` regenerates from the source of the tree under test
(`MpgsModel/Generated/Kernels.lean`, rewritten on every run of C04/C07/C08/C09) equals the hand-written model definition
that the property theorems are about.  The proofs are written to survive behaviour-preserving rewrites of the Python
(`unfold` + `grind`: case splitting and linear integer arithmetic), so that what breaks them is a change of behaviour.
-/
import MpgsModel.Generated.Kernels
import MpgsModel.Model.SeqNum
import MpgsModel.Model.Wire
import MpgsModel.Model.Conn

namespace Mpgs.Equiv
open Mpgs

/-- translation of the error type of the generated kernels into the model's
    (`TypeError` cannot occur: the kernels are translated for `SeqNum` operands) -/
def err : Gen.Err → Seq.Err
  | .valueError => .valueError
  | .duplication => .duplication
  | .typeError => .valueError

def lift {α : Type} : Except Gen.Err α → Except Seq.Err α
  | .ok v => .ok v
  | .error e => .error (err e)

@[simp, grind =] theorem lift_ok {α : Type} (v : α) : lift (.ok v : Except Gen.Err α) = .ok v := rfl
@[simp, grind =] theorem lift_error {α : Type} (e : Gen.Err) : lift (.error e : Except Gen.Err α) = .error (err e) := rfl

/-- `SeqNum.__new__` -/
theorem gen_new (v : Int) : lift (Gen.SeqNum_new v) = Seq.mk v := by
  unfold Gen.SeqNum_new Seq.mk Seq.M
  grind [err]

/-- `SeqNum.diff` (never raises) -/
theorem gen_diff (a b : Int) : Gen.SeqNum_diff a b = .ok (Seq.diff a b) := by
  unfold Gen.SeqNum_diff Seq.diff Seq.T Seq.M
  grind

@[simp, grind =] theorem gen_diffV (a b : Int) : Gen.SeqNum_diffV a b = Seq.diff a b := by
  unfold Gen.SeqNum_diffV; rw [gen_diff]

/-- `SeqNum.__add__` -/
theorem gen_add (a k : Int) : lift (Gen.SeqNum_add a k) = Seq.add a k := by
  unfold Gen.SeqNum_add Seq.add Seq.wrap
  simp only [← gen_new]
  unfold Seq.M
  grind

/-- `SeqNum.__sub__` -/
theorem gen_sub (a k : Int) : lift (Gen.SeqNum_sub a k) = Seq.sub a k := by
  unfold Gen.SeqNum_sub Seq.sub Seq.wrap
  simp only [← gen_new]
  unfold Seq.M
  grind

/-- `SeqNum.newer_than` -/
theorem gen_newer_than (a b : Int) : Gen.SeqNum_newer_than a b = .ok (Seq.newerThan a b) := by
  unfold Gen.SeqNum_newer_than Seq.newerThan
  try simp only [gen_diffV]
  all_goals grind

/-- `SeqNum.__lt__` -/
theorem gen_lt (a b : Int) : Gen.SeqNum_lt a b = .ok (Seq.lt a b) := by
  unfold Gen.SeqNum_lt Seq.lt
  try simp only [gen_diffV]
  all_goals grind

/-- `SeqNum.__gt__` -/
theorem gen_gt (a b : Int) : Gen.SeqNum_gt a b = .ok (Seq.gt a b) := by
  unfold Gen.SeqNum_gt Seq.gt
  try simp only [gen_diffV]
  all_goals grind

/-- `BitField.insert`: the regenerated kernel on the fields of a model bit field is the model's `insert` -/
theorem gen_insert (b : Seq.BitField) (s : Int) :
    lift (Gen.BitField_insert s b.nbits b.onehot b.bits b.cur) =
      (Seq.BitField.insert b s).map (fun b' => (b'.bits, b'.cur)) := by
  unfold Gen.BitField_insert Seq.BitField.insert
  have h2 : (-Seq.diff b.cur s - 1).toNat = (-Seq.diff b.cur s).toNat - 1 := by omega
  have h3 : (0 - Seq.diff b.cur s - 1).toNat = (-Seq.diff b.cur s).toNat - 1 := by omega
  have h4 : (0 - Seq.diff b.cur s).toNat = (-Seq.diff b.cur s).toNat := by omega
  have h5 : (Seq.diff b.cur s - 1).toNat = (Seq.diff b.cur s).toNat - 1 := by omega
  try simp only [gen_diffV, h2, h3, h4, h5, Except.map]
  all_goals grind [err]

/-- `BitField.contains` -/
theorem gen_contains (b : Seq.BitField) (s : Int) :
    Gen.BitField_contains s b.nbits b.onehot b.bits b.cur = .ok (Seq.BitField.contains b s) := by
  unfold Gen.BitField_contains Seq.BitField.contains
  have h5 : (Seq.diff b.cur s - 1).toNat = (Seq.diff b.cur s).toNat - 1 := by omega
  try simp only [gen_diffV, h5]
  all_goals grind

/-- the acknowledgement test of `_handle_ack_bits` -/
theorem gen_ack_names (ack : Int) (bits : Nat) (s : Int) :
    Gen.ack_names s ack bits = .ok (Seq.ackNames ack bits s) := by
  unfold Gen.ack_names Seq.ackNames
  have h2 : (Seq.diff ack s - 1).toNat = (Seq.diff ack s).toNat - 1 := by omega
  try simp only [gen_diffV, h2]
  all_goals grind

/-- `Packet.overhead` -/
theorem gen_overhead (n : Nat) : Gen.Packet_overhead n = .ok (Wire.overhead n : Int) := by
  unfold Gen.Packet_overhead Wire.overhead
  grind

/-- `Packet.setMTU`: for every MTU at which the payload room is at least a fragment header (72 bytes and up; the model's `Nat`
    subtractions are exact there) the regenerated kernel assigns the constants of the model's `Sizes` -/
theorem gen_setMTU (mtu : Nat) (h : 72 ≤ mtu) :
    Gen.Packet_setMTU mtu =
      .ok ((mtu : Int), ((Wire.Sizes.maxSize ⟨mtu⟩ : Nat) : Int), ((Wire.Sizes.maxPayload ⟨mtu⟩ : Nat) : Int), (mtu : Int) - 28 - 16 + 4,
           ((Wire.Sizes.maxFragment ⟨mtu⟩ : Nat) : Int), (mtu : Int) + 512) := by
  unfold Gen.Packet_setMTU Wire.Sizes.maxFragment Wire.Sizes.maxPayload Wire.Sizes.maxSize
  grind

/-- the stale-datagram guard of `_recv_datagram` -/
theorem gen_stale (c : Conn.Conn) (seq : Nat) :
    Gen.stale_datagram c.bfPkt.cur c.bfPkt.nbits seq = .ok (Conn.stale c seq) := by
  unfold Gen.stale_datagram Conn.stale
  try simp only [gen_diffV]
  all_goals grind

/-! non-vacuity: the kernels compute (a wrap, a duplicate, the window edge) -/
example : Gen.SeqNum_add 65535 1 = .ok 1 := by rfl
example : Gen.SeqNum_diff 1 65535 = .ok 1 := by rfl
example : Gen.BitField_insert 7 32 (1 <<< 31) 0 7 = .error .duplication := by rfl
example : Gen.BitField_insert 8 32 (1 <<< 31) 0 7 = .ok (1 <<< 31, 8) := by rfl
example : Gen.stale_datagram 40 32 7 = .ok true := by rfl
example : Gen.stale_datagram 39 32 7 = .ok false := by rfl

end Mpgs.Equiv
