import MpgsModel.Props.C11Unverified
import MpgsModel.Props.C02Loop
/-!
# C11 - the block-list clause over whole runs

The entry point queues nothing from a block-listed IP (`C11_blocklist_first`).  What is never queued
is never answered: over any run of the loop model, an address none of whose datagrams was queued is
sent no datagram at all - it can neither be promoted (`C02_loop_connect_only_on_proof`: a `connect`
needs a queued datagram from that very address) nor be owed a reply (`C11_unverified_budget`).
-/
namespace Mpgs.Server
open Mpgs.Bytes Mpgs.Wire Mpgs.Conn

theorem bytesFrom_zero (a : Addr) (items : List Item) (h : ∀ it ∈ items, it.addr ≠ a) : bytesFrom a items = 0 := by
  induction items with
  | nil => rfl
  | cons it rest ih =>
    have h1 := h it (List.mem_cons_self ..)
    simp only [bytesFrom, h1, if_false, Nat.zero_add]
    exact ih (fun x hx => h x (List.mem_cons_of_mem _ hx))

theorem nHelloFrom_zero (a : Addr) (items : List Item) (h : ∀ it ∈ items, it.addr ≠ a) : nHelloFrom a items = 0 := by
  induction items with
  | nil => rfl
  | cons it rest ih =>
    have h1 := h it (List.mem_cons_self ..)
    simp only [nHelloFrom, h1, false_and, if_false, Nat.zero_add]
    exact ih (fun x hx => h x (List.mem_cons_of_mem _ hx))

/-- a `connect` event of a run comes from a queued datagram of that address -/
theorem runLoop_connect_from_datagram (sz : Sizes) (C : Crypto) (s : Srv) (ins : List IterIn) (id : Nat) (a : Addr) (tok : Nat)
    (h : SEvent.connect id a tok ∈ (runLoop sz C s ins).2) : ∃ i ∈ ins, ∃ it ∈ i.batch, it.addr = a := by
  induction ins generalizing s with
  | nil => simp [runLoop] at h
  | cons i rest ih =>
    simp only [runLoop] at h
    rcases List.mem_append.mp h with h1 | h1
    · obtain ⟨s', acts', it, hm, hc⟩ := C02_loop_connect_from_datagram sz C s i.tq i.ts i.batch i.acts id a tok h1
      exact ⟨i, List.mem_cons_self .., it, hm, (C02_loop_connect_only_on_proof sz C s' i.tq it acts' id a tok hc).1⟩
    · obtain ⟨j, hj, it, hm, ha⟩ := ih _ h1
      exact ⟨j, List.mem_cons_of_mem _ hj, it, hm, ha⟩

/-- **An address from which nothing is queued is sent nothing**, over whole runs: no reply, no
keep-alive, not a byte - in particular every address whose IP is on the block list, since the
entry point queues nothing from it (`C11_blocklist_first`). -/
theorem C11_unqueued_address_gets_nothing (sz : Sizes) (C : Crypto) (cfg : SCfg) (ins : List IterIn) (a : Addr)
    (hq : ∀ i ∈ ins, ∀ it ∈ i.batch, it.addr ≠ a) :
    nSendTo a (runLoop sz C { cfg := cfg } ins).2 = 0 ∧ bytesTo a (runLoop sz C { cfg := cfg } ins).2 = 0 := by
  have hnc : ∀ id tok, SEvent.connect id a tok ∉ (runLoop sz C { cfg := cfg } ins).2 := by
    intro id tok h
    obtain ⟨i, hi, it, hm, ha⟩ := runLoop_connect_from_datagram sz C _ ins id a tok h
    exact hq i hi it hm ha
  have h := C11_unverified_budget sz C cfg ins a hnc
  have hz : (ins.map (fun i => nHelloFrom a i.batch)).sum = 0 := by
    clear h hnc
    induction ins with
    | nil => rfl
    | cons i rest ih =>
      simp only [List.map_cons, List.sum_cons]
      rw [nHelloFrom_zero a i.batch (hq i (List.mem_cons_self ..)), ih (fun j hj => hq j (List.mem_cons_of_mem _ hj))]
  have hn : nSendTo a (runLoop sz C { cfg := cfg } ins).2 = 0 := by omega
  exact ⟨hn, bytesTo_zero a _ hn⟩

end Mpgs.Server
