import MpgsModel.Props.C04
import MpgsModel.Lemmas.Assoc
import MpgsModel.Lemmas.Once7
import MpgsModel.Model.ToyAead
/-!
# C07 — Send callbacks are truthful and fire exactly once

One-step statements about `_handle_ack` / `_handle_timeout` (`resolve`), `_check_timeout`,
`_handle_ack_bits`, `RetrySender` and `FragmentSender.callback`, for every state.  The two-party
composition ("True ⇒ the peer accepted the datagram") is `C07_ack_names_accepted`.
-/
namespace Mpgs.Conn
open Mpgs.Bytes Mpgs.Wire Mpgs.Seq

/-- callbacks never touch the resolution bookkeeping: pending acks and the two counters -/
structure Book where
  pendingAcks : List (Nat × Int)
  acked : Nat
  timeouts : Nat
  outgoingTimeout : Int
  lastRecv : Int

def book (c : Conn) : Book := ⟨c.pendingAcks, c.acked, c.timeouts, c.outgoingTimeout, c.lastRecv⟩

theorem book_sendType (c : Conn) (ty : PType) (p : Bytes) (r : Int) (cb : Option Cb) :
    book (sendType c ty p r cb) = book c := by
  unfold sendType book; split <;> rfl

theorem book_runLeaf (c : Conn) (cb : Cb) (v : Bool) : book (runLeaf c cb v).1 = book c := by
  unfold runLeaf
  split
  · rfl
  · split
    · rfl
    · split
      · rfl
      · rfl
      · split
        · exact book_sendType _ _ _ _ _
        · simp only
          split
          · split <;> rfl
          · rfl
  · rfl
  · rfl
  · rfl
  · rfl

theorem book_runCb (c : Conn) (cb : Cb) (v : Bool) : book (runCb c cb v).1 = book c := by
  unfold runCb
  split
  · split
    · rfl
    · split
      · rfl
      · split
        · rfl
        · simp only
          split
          · rw [book_runLeaf]; rfl
          · rfl
  · exact book_runLeaf _ _ _

theorem book_runCbs (c : Conn) (cbs : List Cb) (v : Bool) : book (runCbs c cbs v).1 = book c := by
  induction cbs generalizing c with
  | nil => rfl
  | cons cb cbs ih => simp only [runCbs]; rw [ih, book_runCb]

/-- callbacks produce user-level events only: never a `resolved` event -/
theorem runLeaf_no_resolved (c : Conn) (cb : Cb) (v : Bool) :
    ∀ e ∈ (runLeaf c cb v).2, ∀ s ok, e ≠ Event.resolved s ok := by
  unfold runLeaf
  split
  · intro e he; simp only [List.mem_singleton] at he; subst he; intro s ok h; cases h
  · split
    · intro e he; simp at he
    · split
      · intro e he; simp at he
      · intro e he; simp at he
      · split
        · intro e he; simp at he
        · simp only
          split
          · split
            · intro e he; simp only [List.mem_singleton] at he; subst he; intro s ok h; cases h
            · intro e he; simp at he
          · intro e he; simp at he
  · intro e he; simp only [List.mem_singleton] at he; subst he; intro s ok h; cases h
  · intro e he; simp at he
  · intro e he; simp at he
  · intro e he; simp at he

theorem runCb_no_resolved (c : Conn) (cb : Cb) (v : Bool) :
    ∀ e ∈ (runCb c cb v).2, ∀ s ok, e ≠ Event.resolved s ok := by
  unfold runCb
  split
  · split
    · intro e he; simp at he
    · split
      · intro e he; simp at he
      · split
        · intro e he; simp at he
        · simp only
          split
          · exact runLeaf_no_resolved _ _ _
          · intro e he; simp at he
  · exact runLeaf_no_resolved _ _ _

theorem runCbs_no_resolved (c : Conn) (cbs : List Cb) (v : Bool) :
    ∀ e ∈ (runCbs c cbs v).2, ∀ s ok, e ≠ Event.resolved s ok := by
  induction cbs generalizing c with
  | nil => intro e he; simp [runCbs] at he
  | cons cb cbs ih =>
    intro e he
    simp only [runCbs, List.mem_append] at he
    rcases he with he | he
    · exact runCb_no_resolved c cb v e he
    · exact ih _ e he

theorem adel_length {α : Type} (l : List (Nat × α)) (k : Nat) (v : α) (h : aget l k = some v) :
    (adel l k).length + 1 = l.length := by
  induction l with
  | nil => simp [aget] at h
  | cons x l ih =>
    obtain ⟨a, w⟩ := x
    simp only [aget] at h
    simp only [adel]
    by_cases e : a = k
    · simp [e]
    · simp only [e, if_false] at h ⊢
      simp only [List.length_cons]
      have := ih h; omega

/-- **Every resolution is exactly one resolution.** `_handle_ack` / `_handle_timeout` of a pending
datagram removes exactly that entry from `pending_acks`, increments exactly one of the counters
`acked` / `timeouts` by one, and announces it by exactly one `resolved` event (the first event;
callbacks add only user-level events). -/
theorem C07_resolve_accounting (c : Conn) (s : Nat) (ok : Bool) (st : Int) (hp : aget c.pendingAcks s = some st) :
    (resolve c s ok).1.pendingAcks = adel c.pendingAcks s ∧
    (resolve c s ok).1.pendingAcks.length + 1 = c.pendingAcks.length ∧
    (resolve c s ok).1.acked = c.acked + (if ok then 1 else 0) ∧
    (resolve c s ok).1.timeouts = c.timeouts + (if ok then 0 else 1) ∧
    (∃ rest, (resolve c s ok).2 = .resolved s ok :: rest ∧ ∀ e ∈ rest, ∀ s' ok', e ≠ Event.resolved s' ok') ∧
    (resolve c s ok).1.outgoingTimeout = c.outgoingTimeout := by
  unfold resolve
  simp only
  -- name the state after the counter update
  generalize hc0 : (if ok = true then { c with acked := c.acked + 1 } else { c with timeouts := c.timeouts + 1 }) = c0
  have hb0 : c0.pendingAcks = c.pendingAcks ∧ c0.acked = c.acked + (if ok then 1 else 0) ∧
      c0.timeouts = c.timeouts + (if ok then 0 else 1) ∧ c0.outgoingTimeout = c.outgoingTimeout := by
    rw [← hc0]; cases ok <;> simp
  cases hcb : aget c0.pendingCbs s with
  | none =>
    simp only
    cases hr : aget c0.pendingRetry s <;> simp only <;>
      exact ⟨by rw [hb0.1], by rw [hb0.1]; exact adel_length _ _ _ hp, hb0.2.1, hb0.2.2.1,
        ⟨[], rfl, by intro e he; simp at he⟩, hb0.2.2.2⟩
  | some cbs =>
    simp only
    have hbk := book_runCbs c0 cbs ok
    have hnr := runCbs_no_resolved c0 cbs ok
    generalize runCbs c0 cbs ok = r at *
    obtain ⟨c1, ev⟩ := r
    simp only at hbk hnr ⊢
    have e1 : c1.pendingAcks = c0.pendingAcks := congrArg Book.pendingAcks hbk
    have e2 : c1.acked = c0.acked := congrArg Book.acked hbk
    have e3 : c1.timeouts = c0.timeouts := congrArg Book.timeouts hbk
    have e4 : c1.outgoingTimeout = c0.outgoingTimeout := congrArg Book.outgoingTimeout hbk
    cases hr : aget c1.pendingRetry s <;> simp only <;>
      exact ⟨by rw [e1, hb0.1], by rw [e1, hb0.1]; exact adel_length _ _ _ hp, by rw [e2]; exact hb0.2.1,
        by rw [e3]; exact hb0.2.2.1, ⟨ev, rfl, hnr⟩, by rw [e4]; exact hb0.2.2.2⟩

/-- **A failure is reported only after the message timeout.** Every `resolved s False` produced by
`_check_timeout(t)` is for a datagram that was pending with send time `st` and `t - st ≥
outgoing_timeout`; nothing else is resolved by it. -/
theorem C07_false_only_after_timeout (t : Int) (ks : List Nat) (c : Conn) :
    ∀ e ∈ (checkTimeoutKeys c t ks).2, ∀ s ok, e = Event.resolved s ok →
      ok = false ∧ s ∈ ks := by
  induction ks generalizing c with
  | nil => intro e he; simp [checkTimeoutKeys] at he
  | cons k ks ih =>
    intro e he s ok heq
    simp only [checkTimeoutKeys] at he
    split at he
    · have := ih c e he s ok heq; exact ⟨this.1, by simp [this.2]⟩
    · rename_i st hst
      split at he
      · simp only [List.mem_append] at he
        rcases he with he | he
        · obtain ⟨_, _, _, _, ⟨rest, hev, hno⟩, _⟩ := C07_resolve_accounting c k false st hst
          rw [hev] at he
          simp only [List.mem_cons] at he
          rcases he with he | he
          · rw [heq] at he; injection he with h1 h2; exact ⟨h2, by simp [h1]⟩
          · exact absurd heq (hno e he s ok)
        · have := ih _ e he s ok heq; exact ⟨this.1, by simp [this.2]⟩
      · have := ih c e he s ok heq; exact ⟨this.1, by simp [this.2]⟩

/-- **Success is reported only for datagrams the peer's header names.** Every `resolved s True`
produced while processing a received header is for a pending datagram `s` that the header's
`(ack, ack_bits)` names; a `resolved s False` produced there is for a pending datagram. -/
theorem C07_true_only_if_named (ack ackBits : Nat) (ks : List Nat) (c : Conn) :
    ∀ e ∈ (handleAckKeys c ack ackBits ks).2, ∀ s ok, e = Event.resolved s ok →
      s ∈ ks ∧ (ok = true → ackNames (ack : Int) ackBits (s : Int) = true) := by
  induction ks generalizing c with
  | nil => intro e he; simp [handleAckKeys] at he
  | cons k ks ih =>
    intro e he s ok heq
    simp only [handleAckKeys] at he
    split at he
    · have := ih c e he s ok heq; exact ⟨by simp [this.1], this.2⟩
    · rename_i st hst
      split at he
      · rename_i hnamed
        simp only [List.mem_append] at he
        rcases he with he | he
        · obtain ⟨_, _, _, _, ⟨rest, hev, hno⟩, _⟩ := C07_resolve_accounting c k true st hst
          rw [hev] at he
          simp only [List.mem_cons] at he
          rcases he with he | he
          · rw [heq] at he; injection he with h1 h2; subst h1; exact ⟨by simp, fun _ => hnamed⟩
          · exact absurd heq (hno e he s ok)
        · have := ih _ e he s ok heq; exact ⟨by simp [this.1], this.2⟩
      · split at he
        · simp only [List.mem_append] at he
          rcases he with he | he
          · obtain ⟨_, _, _, _, ⟨rest, hev, hno⟩, _⟩ := C07_resolve_accounting c k false st hst
            rw [hev] at he
            simp only [List.mem_cons] at he
            rcases he with he | he
            · rw [heq] at he; injection he with h1 h2; subst h1; subst h2; exact ⟨by simp, fun h => by simp at h⟩
            · exact absurd heq (hno e he s ok)
          · have := ih _ e he s ok heq; exact ⟨by simp [this.1], this.2⟩
        · have := ih c e he s ok heq; exact ⟨by simp [this.1], this.2⟩

/-- **Named ⇒ accepted by the peer.** The header a peer builds carries `(ack, ack_bits) =
(bitfield_pkt.current_seqnum, bitfield_pkt.bits)`.  If the peer's window represents the set `a`
of datagram positions it accepted (C04/C08) and the header names the datagram of position `p`
(within half a ring of the peer's newest), then the peer accepted `p`.  Together with
`C07_true_only_if_named` and C01 (only the peer can produce an authentic header): a `True`
callback is reported only after the peer endpoint accepted the datagram that carried the message. -/
theorem C07_ack_names_accepted (peer : Conn) (a : Abs) (cur p : Int) (hrel : PktRel peer a)
    (hc : a.cur = some cur) (h1 : cur - p ≤ T) (h2 : -T ≤ cur - p)
    (hnamed : ackNames peer.bfPkt.cur peer.bfPkt.bits (ring p) = true) : p ∈ a.acc := by
  obtain ⟨hn, hR, _⟩ := hrel
  rw [C08_ack_fields_exact] at hnamed
  have hb : (⟨32, peer.bfPkt.bits, peer.bfPkt.cur⟩ : BitField) = peer.bfPkt := by
    cases hpb : peer.bfPkt with
    | mk n b c => rw [hpb] at hn; simp only at hn; subst hn; rfl
  rw [hb, rel_contains peer.bfPkt a cur p (by omega) hR hc h1 h2] at hnamed
  simp only [decide_eq_true_eq] at hnamed
  exact hnamed.2.2

/-- **After `_check_timeout(t)` nothing overdue is pending.** (keys of `pending_acks` distinct) -/
theorem C07_timeout_resolves_all_due (t : Int) (c : Conn) (hnd : KeysNodup c.pendingAcks) :
    ∀ x ∈ (checkTimeout c t).1.pendingAcks, t - x.2 < c.outgoingTimeout := by
  have key : ∀ (ks : List Nat) (c' : Conn), KeysNodup c'.pendingAcks → c'.outgoingTimeout = c.outgoingTimeout →
      (∀ x ∈ c'.pendingAcks, x.1 ∈ ks ∨ t - x.2 < c.outgoingTimeout) →
      ∀ x ∈ (checkTimeoutKeys c' t ks).1.pendingAcks, t - x.2 < c.outgoingTimeout := by
    intro ks
    induction ks with
    | nil =>
      intro c' _ _ hinv x hx
      rcases hinv x hx with h | h
      · simp at h
      · exact h
    | cons k ks ih =>
      intro c' hn' hot hinv x hx
      simp only [checkTimeoutKeys] at hx
      split at hx
      · rename_i hnone
        apply ih c' hn' hot ?_ x hx
        intro y hy
        rcases hinv y hy with h | h
        · simp only [List.mem_cons] at h
          rcases h with h | h
          · have := aget_of_mem _ y hn' hy
            rw [h, hnone] at this; simp at this
          · exact Or.inl h
        · exact Or.inr h
      · rename_i st hst
        split at hx
        · obtain ⟨hpa, _, _, _, _, hot'⟩ := C07_resolve_accounting c' k false st hst
          apply ih _ (by rw [hpa]; exact keysNodup_adel _ _ hn') (by rw [hot', hot]) ?_ x hx
          intro y hy
          rw [hpa] at hy
          obtain ⟨hy', hne⟩ := (mem_adel_iff _ k y hn').mp hy
          rcases hinv y hy' with h | h
          · simp only [List.mem_cons] at h
            rcases h with h | h
            · exact absurd h hne
            · exact Or.inl h
          · exact Or.inr h
        · rename_i hnot
          apply ih c' hn' hot ?_ x hx
          intro y hy
          rcases hinv y hy with h | h
          · simp only [List.mem_cons] at h
            rcases h with h | h
            · right
              have := aget_of_mem _ y hn' hy
              rw [h, hst] at this; injection this with this
              rw [← this, ← hot]; omega
            · exact Or.inl h
          · exact Or.inr h
  unfold checkTimeout
  apply key _ c hnd rfl
  intro x hx
  left
  exact List.mem_map_of_mem hx

/-- `RetrySender` reports at most once: once `done`, it neither fires nor re-queues -/
theorem C07_retry_done_silent (c : Conn) (rid : Nat) (obj : RetrySender) (v : Bool)
    (ho : c.retryObjs[rid]? = some obj) (hd : obj.done = true) : runCb c (.retry rid) v = (c, []) := by
  simp [runCb, ho, hd]

/-- the first success marks the sender `done` and reports `True` through the wrapped callback
(a user callback fires exactly one `userCb id True` event); a failure before that only re-queues
the message under its original sequence number and reports nothing -/
theorem C07_retry_first_result (c : Conn) (rid : Nat) (obj : RetrySender) (id : Nat)
    (ho : c.retryObjs[rid]? = some obj) (hd : obj.done = false) (hin : obj.inner = some (.user id)) :
    (runCb c (.retry rid) true).2 = [.userCb id true] ∧
    (∃ o', (runCb c (.retry rid) true).1.retryObjs[rid]? = some o' ∧ o'.done = true) ∧
    (runCb c (.retry rid) false).2 = [] ∧
    (runCb c (.retry rid) false).1.outgoing =
      c.outgoing ++ [⟨obj.mseq, obj.ty, obj.payload, some (.retry rid), -1, 0⟩] := by
  have hlt : rid < c.retryObjs.length := by
    rw [List.getElem?_eq_some_iff] at ho; exact ho.1
  refine ⟨by simp [runCb, ho, hd, hin, runLeaf], ?_, by simp [runCb, ho, hd], by simp [runCb, ho, hd]⟩
  simp only [runCb, ho, hd, hin, runLeaf, Bool.false_eq_true, if_false, Bool.not_true]
  refine ⟨{ obj with done := true }, ?_, rfl⟩
  -- setObj writes position rid
  have hset : ∀ (l : List RetrySender) (n : Nat) (x : RetrySender), n < l.length → (setObj l n x)[n]? = some x := by
    intro l
    induction l with
    | nil => intro n x h; simp at h
    | cons a l ih =>
      intro n x h
      cases n with
      | zero => simp [setObj]
      | succ n => simp only [setObj, List.getElem?_cons_succ]; exact ih n x (by simpa using h)
  rw [hin]; exact hset _ _ _ hlt

/-- a fragmented send reports exactly when its last fragment is resolved: `FragmentSender.callback`
stays silent while a slot is unresolved, ignores a fragment that was already resolved, and on the
resolution that completes the table fires the user callback once with `all(acks)` -/
theorem C07_fragment_callback (c : Conn) (fid idx : Nat) (obj : FragSender) (v : Bool) (id : Nat)
    (ho : c.fragObjs[fid]? = some obj) (hu : obj.userCb = some id) :
    (∀ b, obj.acks[idx]? = some (some b) → runLeaf c (.frag fid idx) v = (c, [])) ∧
    (obj.acks[idx]? = some none → (v = true ∨ obj.retry = 0) →
      (runLeaf c (.frag fid idx) v).2 =
        if (setAck obj.acks idx v).all (fun a => a.isSome) then
          [.userCb id ((setAck obj.acks idx v).all (fun a => a == some true))] else []) := by
  constructor
  · intro b hb; simp [runLeaf, ho, hb]
  · intro hn hv
    have hcond : ¬ ((!v) = true ∧ obj.retry ≠ 0) := by
      rcases hv with h | h
      · simp [h]
      · simp [h]
    simp only [runLeaf, ho, hn, hcond, if_false, hu]
    split <;> rfl

/-! ### non-vacuity -/

example : KeysNodup ([(3, 10), (4, 11)] : List (Nat × Int)) := by unfold KeysNodup; decide
example : (resolve { isServer := true, pendingAcks := [(3, 10)], pendingCbs := [(3, [.user 9])] } 3 true).2
    = [.resolved 3 true, .userCb 9 true] := by decide

/-! ### history level: at most once

`pot u c` (Lemmas/Once7.lean) counts where the connection holds the user callback `u`: as the
callback of a queued message, in a parked callback list, inside a `RetrySender` that has not
reported, as the user callback of a `FragmentSender` that has not reported.  Every operation
satisfies `pot' + (invocations of u in this step) ≤ pot + (holders this operation introduces)`,
so along any history the number of invocations is bounded by the number of sends given `u`. -/

/-- **At most once per send, over whole histories.**  For every history of sends, builds,
received datagrams (any bytes), time-out sweeps, disconnects and inbox drains in which `u` is never
given to a BEST_EFFORT send, from any state in which `u` is not the direct callback of a message
that is re-sent on the keep-alive interval: the number of times the user callback `u` is invoked
is at most the number of holders the state had plus the number of operations that were given `u`. -/
theorem C07_at_most_once (E : Env) (hR : E.R.KeepsPot) (u : Nat) (c : Conn) (ops : List Op)
    (hd : Direct0 u c) (hbe : NoBestEffort u ops) :
    firedO u (run E c ops).2 ≤ pot u c + intros7 u ops := by
  have := pot_run u E hR c ops hd hbe
  omega

/-- a callback id that the connection does not hold yet and that is given to exactly one
unretried or guaranteed send (single datagram or fragmented) is invoked at most once, whatever
the network and the peer do -/
theorem C07_fresh_callback_at_most_once (E : Env) (hR : E.R.KeepsPot) (u : Nat) (c : Conn) (ops : List Op)
    (hd : Direct0 u c) (h0 : pot u c = 0) (hbe : NoBestEffort u ops) (h1 : intros7 u ops = 1) :
    firedO u (run E c ops).2 ≤ 1 := by
  have := C07_at_most_once E hR u c ops hd hbe
  omega

/-! ### history level: conservation, hence exactly once

With a typed queue (an invariant of every reachable state), fresh datagram numbers at each build
(as in C05) and no `disconnect`, the inequality of `C07_at_most_once` is an equality: holders plus
invocations are conserved.  So a callback given to one accepted send is invoked exactly once as
soon as the connection no longer holds it - and it stops holding it only by invoking it. -/

/-- **Conservation.** `holders after + invocations = holders before + accepted sends given u`. -/
theorem C07_conservation (E : Env) (hR : E.R.KeepsPot) (hT : E.R.KeepsTyped) (u : Nat) (c : Conn) (ops : List Op)
    (hd : Direct0 u c) (ht : Typed c) (hf : FreshRun E c ops) (hbe : NoBestEffort u ops) (hnd : NoDisc ops) :
    pot u (run E c ops).1 + firedO u (run E c ops).2 = pot u c + introsA u E c ops :=
  pot_run_eq u E hR hT c ops hd ht hf hbe hnd

/-- **Exactly once.** A callback the connection did not hold, given to exactly one accepted
unretried or guaranteed send (single datagram or fragmented): once the connection holds it no
longer (every datagram that carried it was acknowledged or timed out; for a guaranteed send: was
acknowledged), it has been invoked exactly once - never zero times, never twice. -/
theorem C07_exactly_once (E : Env) (hR : E.R.KeepsPot) (hT : E.R.KeepsTyped) (u : Nat) (c : Conn) (ops : List Op)
    (hd : Direct0 u c) (ht : Typed c) (hf : FreshRun E c ops) (hbe : NoBestEffort u ops) (hnd : NoDisc ops)
    (h0 : pot u c = 0) (h1 : introsA u E c ops = 1) (hend : pot u (run E c ops).1 = 0) :
    firedO u (run E c ops).2 = 1 := by
  have := C07_conservation E hR hT u c ops hd ht hf hbe hnd
  omega

/-- ... and as long as it has not been invoked, the connection still holds it -/
theorem C07_held_until_invoked (E : Env) (hR : E.R.KeepsPot) (hT : E.R.KeepsTyped) (u : Nat) (c : Conn) (ops : List Op)
    (hd : Direct0 u c) (ht : Typed c) (hf : FreshRun E c ops) (hbe : NoBestEffort u ops) (hnd : NoDisc ops)
    (h0 : pot u c = 0) (h1 : introsA u E c ops = 1) (hnot : firedO u (run E c ops).2 = 0) :
    pot u (run E c ops).1 = 1 := by
  have := C07_conservation E hR hT u c ops hd ht hf hbe hnd
  omega

/-- the hypothesis on the handshake handlers holds for the base class and both subclasses -/
theorem C07_roles_hold_no_user_callbacks (H : Hs) (tok : Nat) (tt : Option Nat) :
    baseRole.KeepsPot ∧ (clientRole H).KeepsPot ∧ (serverRole H tok tt).KeepsPot :=
  ⟨baseRole_keepsPot, clientRole_keepsPot H, serverRole_keepsPot H tok tt⟩

/-- non-vacuity: a fresh connected endpoint, one unretried send with callback 7, the datagram
times out: the hypotheses hold and the callback is invoked exactly once (with False) -/
example :
    let E : Env := ⟨⟨1500⟩, Mpgs.Toy.crypto, baseRole⟩
    let c : Conn := { isServer := false, status := .connected, key := some [1] }
    let ops : List Op := [.send [1, 2] 0 (some 7), .build 100, .tmo 5000, .tmo 9000]
    Direct0 7 c ∧ pot 7 c = 0 ∧ NoBestEffort 7 ops ∧ intros7 7 ops = 1 ∧ firedO 7 (run E c ops).2 = 1 := by
  intro E c ops
  have hd : Direct0 7 c := by
    constructor
    · intro x h; simp [c] at h
    · intro m h; simp [c] at h
  refine ⟨hd, rfl, ?_, rfl, by decide +kernel⟩
  simp [ops, NoBestEffort]

/-- non-vacuity of the conservation theorems: the same history satisfies the additional hypotheses
(typed queue, fresh datagram numbers, no disconnect, one accepted send), ends holding nothing,
and the callback was invoked exactly once -/
example :
    let E : Env := ⟨⟨1500⟩, Mpgs.Toy.crypto, baseRole⟩
    let c : Conn := { isServer := false, status := .connected, key := some [1] }
    let ops : List Op := [.send [1, 2] 0 (some 7), .build 100, .tmo 5000, .tmo 9000]
    Typed c ∧ FreshRun E c ops ∧ NoDisc ops ∧ introsA 7 E c ops = 1 ∧ pot 7 (run E c ops).1 = 0 := by
  intro E c ops
  refine ⟨typed_fresh c rfl rfl rfl, ?_, by simp [ops, NoDisc], by decide +kernel, by decide +kernel⟩
  simp only [ops, FreshRun]
  refine ⟨fun t h => Op.noConfusion h, fun t _ => ?_, fun t h => Op.noConfusion h, fun t h => Op.noConfusion h, trivial⟩
  unfold FreshSeq; decide +kernel

end Mpgs.Conn
