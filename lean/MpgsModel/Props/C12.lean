import MpgsModel.Lemmas.C12Step
import MpgsModel.Lemmas.C12Typed
import MpgsModel.Props.C09
/-!
# C12 — keep-alives and time-outs: idle links stay up, dead peers are detected, settings take effect

Time is integer ticks of 1/1024 s; 5 s = 5120 ticks.  Histories are lists of `XOp`
(`Model/Client.lean`): the endpoint operations of `ConnStep` (queue a message, bare
`_build_packet`, `_recv_datagram`, `_check_timeout`, `disconnect`, drain), the client's
`ClientServerConnection.update()`, the server's `ServerClientConnection.update()` and the send half
of `UdpClient.update()`, each at an arbitrary clock value.  Every statement is for all interval /
time-out / tick-spacing values and all states.
-/
namespace Mpgs.Conn
open Mpgs.Bytes Mpgs.Wire

/-! ## 1. keep-alive emission and cadence -/

/-- **A due keep-alive is emitted.**  CONNECTED, the send interval elapsed and more than the
keep-alive interval since the last emission: `_build_packet` never answers "nothing to send"; the
packet it builds sets both send times to now, and when nothing was queued or resend-able it is a
KEEP_ALIVE without messages.  (`hq`: every queued message carries a real packet type —
`_send_type` is only ever called with one.) -/
theorem C12_keepalive_emits (sz : Sizes) (c : Conn) (t : Int) (hs : c.status = .connected)
    (h1 : t - c.lastSend ≥ c.sendInterval) (h2 : t - c.lastKeepAlive > c.keepAlive)
    (hq : ∀ m ∈ (packAll sz c t c.keepAlive).1.msgs, m.ty ≠ .unknown) :
    (buildPacket sz c t).2 ≠ .ok none ∧
    ∀ pkt, (buildPacket sz c t).2 = .ok (some pkt) →
      (buildPacket sz c t).1.lastSend = t ∧ (buildPacket sz c t).1.lastKeepAlive = t ∧
      ((packAll sz c t c.keepAlive).1.msgs = [] → pkt.hdr.ptype = .keepAlive ∧ pkt.hdr.count = 0) := by
  refine ⟨buildPacket_must_emit sz c t hs h1 h2 hq, ?_⟩
  intro pkt hp
  rcases buildPacket_tm sz c t with ⟨_, _, htm, _⟩ | ⟨hno, _⟩
  · simp only [tm, Tm.mk.injEq] at htm
    refine ⟨htm.1, htm.2.1, ?_⟩
    intro hnil
    rw [buildPacket_snd sz c t h1] at hp
    have := buildImpl_ptype sz c t c.keepAlive _ pkt hp
    rw [hnil] at this
    have hd : decide (t - c.lastKeepAlive > c.keepAlive) = true := by simpa using h2
    simp only [pktType, hd, hs, and_self, if_true, List.length_nil] at this
    exact this
  · exact absurd hp (hno pkt)

/-- … and with the counters in range (MTU below 64 KiB, message sequence numbers 16 bit) packing
cannot raise (`C09_build_total`), so a packet *is* emitted. -/
theorem C12_keepalive_emits_total (sz : Sizes) (c : Conn) (t : Int) (hs : c.status = .connected)
    (h1 : t - c.lastSend ≥ c.sendInterval) (h2 : t - c.lastKeepAlive > c.keepAlive)
    (hq : ∀ m ∈ (packAll sz c t c.keepAlive).1.msgs, m.ty ≠ .unknown) (hmtu : sz.mtu ≤ 65535)
    (hseq : ∀ m ∈ (packAll sz c t c.keepAlive).1.msgs, m.seq < 65536) :
    ∃ pkt, (buildPacket sz c t).2 = .ok (some pkt) := by
  have hne := (C12_keepalive_emits sz c t hs h1 h2 hq).1
  obtain ⟨c', r, hr⟩ := C09_build_total sz c t c.keepAlive (decide (t - c.lastKeepAlive > c.keepAlive)) hmtu hseq
  rw [buildPacket_snd sz c t h1, hr] at hne ⊢
  cases r with
  | none => exact absurd rfl hne
  | some pkt => exact ⟨pkt, rfl⟩

/-- consecutive elements of a list of times are at most `g` apart -/
def GapLe (g : Int) : List Int → Prop
  | a :: b :: rest => b - a ≤ g ∧ GapLe g (b :: rest)
  | _ => True

/-- the build calls of a history come at non-decreasing clock values at most `τ` apart (`p` = the
previous one), each in order (`BuildOk`: CONNECTED, typed queue, packing does not raise) -/
def Paced (E : Env) (τ : Int) : Conn → Int → List XOp → Prop
  | _, _, [] => True
  | c, p, op :: ops =>
    (∀ t, buildTime op = some t → p ≤ t ∧ t ≤ p + τ ∧ BuildOk E c t) ∧
    Paced E τ (xstep E c op).1 ((buildTime op).getD p) ops

/-- clock value of the last build call of a history (`p` if there is none) -/
def lastBuild (p : Int) : List XOp → Int
  | [] => p
  | op :: ops => lastBuild ((buildTime op).getD p) ops

/-- **Keep-alive cadence.**  Along any history — whatever is queued, received, timed out in
between — in which the build step (bare `_build_packet`, the server's `update()`, the client's send
half, in any mix) is invoked while CONNECTED at clock values no more than `τ` apart, consecutive
emissions are at most `g + τ` apart for every `g ≥ max(keepAlive, sendInterval, 0)`, starting from
the last emission before the history; and at the last build call the last emission is at most `g`
old.  (`hka`: both send times agree, as on a fresh connection and after every emission.) -/
theorem C12_keepalive_cadence (E : Env) (hR : E.R.KeepsClock) (τ g : Int) (ops : List XOp) (c : Conn) (p : Int)
    (hg1 : c.keepAlive ≤ g) (hg2 : c.sendInterval ≤ g) (hg0 : 0 ≤ g)
    (hka : c.lastKeepAlive = c.lastSend) (hp : p - c.lastSend ≤ g) (hpaced : Paced E τ c p ops) :
    GapLe (g + τ) (c.lastSend :: xemitTimes E c ops) ∧
    lastBuild p ops - (xrun E c ops).1.lastSend ≤ g := by
  induction ops generalizing c p with
  | nil => exact ⟨trivial, hp⟩
  | cons op ops ih =>
    obtain ⟨hop, hrest⟩ := hpaced
    simp only [xemitTimes, lastBuild, xrun]
    rcases xstep_tm E hR c op with ⟨t, he, hbt, htm, hsi⟩ | ⟨he, htm⟩
    · obtain ⟨hpt, htp, _⟩ := hop t hbt
      simp only [tm, Tm.mk.injEq] at htm
      obtain ⟨e1, e2, e3, e4⟩ := htm
      rw [hbt] at hrest
      simp only [Option.getD_some] at hrest
      have := ih (xstep E c op).1 t (by rw [e4]; exact hg1) (by rw [e3]; exact hg2) (by rw [e1, e2])
        (by rw [e1]; omega) hrest
      rw [e1] at this
      rw [he, hbt]
      simp only [Option.toList, List.singleton_append, Option.getD_some]
      exact ⟨⟨by omega, this.1⟩, this.2⟩
    · simp only [tm, Tm.mk.injEq] at htm
      obtain ⟨e1, e2, e3, e4⟩ := htm
      rw [he]
      simp only [Option.toList, List.nil_append]
      have hp' : (buildTime op).getD p - (xstep E c op).1.lastSend ≤ g := by
        rw [e1]
        cases hbt : buildTime op with
        | none => simpa using hp
        | some t =>
          simp only [Option.getD_some]
          obtain ⟨_, _, hok⟩ := hop t hbt
          apply Classical.byContradiction
          intro hover
          have := xstep_must_emit E c op t g hbt hok hka hg1 hg2 (by omega)
          rw [he] at this
          simp at this
      have := ih (xstep E c op).1 _ (by rw [e4]; exact hg1) (by rw [e3]; exact hg2) (by rw [e1, e2]; exact hka)
        hp' hrest
      rw [e1] at this
      exact this

/-- the bound in the form of the property: `max(keepAlive, sendInterval) + τ` -/
theorem C12_keepalive_cadence_max (E : Env) (hR : E.R.KeepsClock) (τ : Int) (ops : List XOp) (c : Conn) (p : Int)
    (h0 : 0 ≤ max c.keepAlive c.sendInterval) (hka : c.lastKeepAlive = c.lastSend)
    (hp : p - c.lastSend ≤ max c.keepAlive c.sendInterval) (hpaced : Paced E τ c p ops) :
    GapLe (max c.keepAlive c.sendInterval + τ) (c.lastSend :: xemitTimes E c ops) :=
  (C12_keepalive_cadence E hR τ _ ops c p (Int.le_max_left _ _) (Int.le_max_right _ _) h0 hka hp hpaced).1

/-- the typing side condition is an invariant (`Typed`: every message held for sending carries a
real packet type; true of a fresh connection, kept by every operation): with it, a due keep-alive
is emitted without further assumptions about the queue -/
theorem C12_keepalive_emits_typed (sz : Sizes) (c : Conn) (t : Int) (hty : Typed c) (hs : c.status = .connected)
    (h1 : t - c.lastSend ≥ c.sendInterval) (h2 : t - c.lastKeepAlive > c.keepAlive) :
    (buildPacket sz c t).2 ≠ .ok none :=
  (C12_keepalive_emits sz c t hs h1 h2 (packAll_typed sz c t c.keepAlive hty).1).1

/-- `Paced` without the typing side condition: build calls at most `τ` apart, CONNECTED, packing does not raise -/
def PacedT (E : Env) (τ : Int) : Conn → Int → List XOp → Prop
  | _, _, [] => True
  | c, p, op :: ops =>
    (∀ t, buildTime op = some t → p ≤ t ∧ t ≤ p + τ ∧ c.status = .connected ∧ ∀ e, (buildPacket E.sz c t).2 ≠ .error e) ∧
    PacedT E τ (xstep E c op).1 ((buildTime op).getD p) ops

theorem paced_of_typed (E : Env) (hT : E.R.KeepsTyped) (τ : Int) (ops : List XOp) (c : Conn) (p : Int)
    (hty : Typed c) (h : PacedT E τ c p ops) : Paced E τ c p ops := by
  induction ops generalizing c p with
  | nil => trivial
  | cons op ops ih =>
    obtain ⟨hop, hrest⟩ := h
    refine ⟨?_, ih _ _ (xstep_typed E hT c op hty) hrest⟩
    intro t hbt
    obtain ⟨a, b, hs, hne⟩ := hop t hbt
    exact ⟨a, b, hs, (packAll_typed E.sz c t c.keepAlive hty).1, hne⟩

/-- **Keep-alive cadence from a typed state** (e.g. a fresh connection): the same bound, the only
conditions on the history being that the build calls come at most `τ` apart while CONNECTED and that
packing does not raise. -/
theorem C12_keepalive_cadence_typed (E : Env) (hR : E.R.KeepsClock) (hT : E.R.KeepsTyped) (τ g : Int) (ops : List XOp)
    (c : Conn) (p : Int) (hty : Typed c) (hg1 : c.keepAlive ≤ g) (hg2 : c.sendInterval ≤ g) (hg0 : 0 ≤ g)
    (hka : c.lastKeepAlive = c.lastSend) (hp : p - c.lastSend ≤ g) (hpaced : PacedT E τ c p ops) :
    GapLe (g + τ) (c.lastSend :: xemitTimes E c ops) ∧
    lastBuild p ops - (xrun E c ops).1.lastSend ≤ g :=
  C12_keepalive_cadence E hR τ g ops c p hg1 hg2 hg0 hka hp (paced_of_typed E hT τ ops c p hty hpaced)

/-! ## 2. no false time-out -/

/-- **No time-out while the peer is heard.** -/
theorem C12_no_false_timeout (c : Conn) (t T : Int) (h : t - c.lastRecv < T) : timedOut c t T = false := by
  unfold timedOut; simp; omega

/-- within 5 s of the last accepted datagram the client's `update()` does not set DROPPED -/
theorem C12_no_false_drop (c : Conn) (t : Int) (h : t ≤ c.lastRecv + 5120) (hnd : c.status ≠ .dropped) :
    (clientUpdate c t).1.status ≠ .dropped := clientUpdate_no_drop c t h hnd

/-- the clock never runs backwards (`now` = clock value so far), every accepted datagram arrives
less than `T` after the previous one, and the observation ends at `te`, less than `T` after the
last one -/
def FedWithin (E : Env) (T : Int) : Conn → Int → List XOp → Int → Prop
  | c, now, [], te => now ≤ te ∧ te - c.lastRecv < T
  | c, now, op :: ops, te =>
    (∀ t, xtime op = some t → now ≤ t ∧ (accepts E c op → t - c.lastRecv < T)) ∧
    FedWithin E T (xstep E c op).1 ((xtime op).getD now) ops te

/-- a predicate holds in every state a history passes through -/
def Always (E : Env) (P : Conn → Prop) : Conn → List XOp → Prop
  | c, [] => P c
  | c, op :: ops => P c ∧ Always E P (xstep E c op).1 ops

/-- before each operation, `P` holds of the state and of every instant up to the operation's clock value -/
def AtEveryInstant (E : Env) (P : Conn → Int → Prop) : Conn → List XOp → Prop
  | _, [] => True
  | c, op :: ops => (∀ t, xtime op = some t → ∀ s, s ≤ t → P c s) ∧ AtEveryInstant E P (xstep E c op).1 ops

theorem fed_now (E : Env) (hR : E.R.KeepsLr) (T : Int) (ops : List XOp) (c : Conn) (now te : Int)
    (h : FedWithin E T c now ops te) : now - c.lastRecv < T := by
  induction ops generalizing c now with
  | nil => obtain ⟨h1, h2⟩ := h; omega
  | cons op ops ih =>
    obtain ⟨hop, hrest⟩ := h
    have := ih _ _ hrest
    cases hx : xtime op with
    | none =>
      rw [hx] at this
      simp only [Option.getD_none] at this
      rcases xstep_lr E hR c op with ⟨_, e⟩ | ⟨_, t, ht, _⟩
      · rw [e] at this; exact this
      · rw [hx] at ht; simp at ht
    | some t =>
      rw [hx] at this
      simp only [Option.getD_some] at this
      obtain ⟨h1, h2⟩ := hop t hx
      rcases xstep_lr E hR c op with ⟨_, e⟩ | ⟨ha, _⟩
      · rw [e] at this; omega
      · have := h2 ha; omega

/-- **Composed: a connection that keeps hearing its peer never times out.**  Along any history in
which accepted datagrams arrive less than `T` apart, `timedout(T)` is false at every instant up to
every operation (every possible sweep instant) and up to the end of the observation — for every
`T`, in particular the server's `connection_timeout`. -/
theorem C12_never_timed_out (E : Env) (hR : E.R.KeepsLr) (T : Int) (ops : List XOp) (c : Conn) (now te : Int)
    (h : FedWithin E T c now ops te) :
    AtEveryInstant E (fun c s => timedOut c s T = false) c ops ∧
    ∀ s, s ≤ te → timedOut (xrun E c ops).1 s T = false := by
  induction ops generalizing c now with
  | nil =>
    refine ⟨trivial, ?_⟩
    intro s hs
    obtain ⟨_, h2⟩ := h
    exact C12_no_false_timeout c s T (by omega)
  | cons op ops ih =>
    have hnow := fed_now E hR T (op :: ops) c now te h
    obtain ⟨hop, hrest⟩ := h
    have hnext := fed_now E hR T ops _ _ te hrest
    have := ih _ _ hrest
    refine ⟨⟨?_, this.1⟩, this.2⟩
    intro t hx s hs
    apply C12_no_false_timeout
    obtain ⟨h1, h2⟩ := hop t hx
    rw [hx] at hnext
    simp only [Option.getD_some] at hnext
    rcases xstep_lr E hR c op with ⟨_, e⟩ | ⟨ha, _⟩
    · rw [e] at hnext; omega
    · have := h2 ha; omega

/-- **… and the client never reports DROPPED** while accepted datagrams arrive at most 5 s apart
(`T = 5121` ticks: `t - last < 5121` is `t ≤ last + 5 s`), whatever else happens. -/
theorem C12_never_dropped (E : Env) (hR : E.R.KeepsLr) (hN : E.R.NoDrop) (ops : List XOp) (c : Conn) (now te : Int)
    (h : FedWithin E 5121 c now ops te) (hnd : c.status ≠ .dropped) :
    Always E (fun c => c.status ≠ .dropped) c ops := by
  induction ops generalizing c now with
  | nil => exact hnd
  | cons op ops ih =>
    have hnow := fed_now E hR 5121 (op :: ops) c now te h
    obtain ⟨hop, hrest⟩ := h
    have hnext := fed_now E hR 5121 ops _ _ te hrest
    refine ⟨hnd, ih _ _ hrest ?_⟩
    cases op with
    | cupd t =>
      simp only [xstep]
      apply clientUpdate_no_drop c t _ hnd
      simp only [xtime, Option.getD_some, xstep] at hnext
      rw [(clientUpdate_frame c t).2.1] at hnext
      omega
    | base o => exact xstep_nd E hN c _ (by intro t h; cases h) hnd
    | supd t => exact xstep_nd E hN c _ (by intro t h; cases h) hnd
    | csend t => exact xstep_nd E hN c _ (by intro t h; cases h) hnd

/-! ### composed over a link: an idle pair stays up -/

/-- the clock values of the accepted receptions of a history -/
def acceptTimes (E : Env) (c : Conn) : List XOp → List Int
  | [] => []
  | op :: ops =>
    (if accepts E c op then (xtime op).toList else []) ++ acceptTimes E (xstep E c op).1 ops

/-- the clock of a history never runs backwards and the observation ends at `te` -/
def MonoUpTo (te : Int) : Int → List XOp → Prop
  | now, [] => now ≤ te
  | now, op :: ops => (∀ t, xtime op = some t → now ≤ t) ∧ MonoUpTo te ((xtime op).getD now) ops

/-- a receiver whose acceptance times are at most `T - 1` apart (starting from its last
acceptance before the history) is `FedWithin T` -/
theorem fed_of_gaps (E : Env) (hR : E.R.KeepsLr) (T : Int) (ops : List XOp) (c : Conn) (now te : Int)
    (hg : GapLe (T - 1) (c.lastRecv :: acceptTimes E c ops)) (hm : MonoUpTo te now ops)
    (hend : te - (xrun E c ops).1.lastRecv < T) : FedWithin E T c now ops te := by
  induction ops generalizing c now with
  | nil => exact ⟨hm, hend⟩
  | cons op ops ih =>
    obtain ⟨hm1, hm2⟩ := hm
    simp only [acceptTimes] at hg
    simp only [xrun] at hend
    rcases xstep_lr E hR c op with ⟨hna, e⟩ | ⟨ha, t, ht, e⟩
    · simp only [hna, if_false, List.nil_append] at hg
      refine ⟨fun t ht => ⟨hm1 t ht, fun h => absurd h hna⟩, ih _ _ (by rw [e]; exact hg) hm2 hend⟩
    · simp only [ha, if_true, ht, Option.toList, List.singleton_append] at hg
      obtain ⟨hg1, hg2⟩ := hg
      refine ⟨fun t' ht' => ⟨hm1 t' ht', fun _ => ?_⟩, ih _ _ (by rw [e]; exact hg2) hm2 hend⟩
      rw [ht] at ht'; injection ht' with ht'; omega

/-- the link: emission times at most `g` apart, each delivered (in order) after a delay between 0 and
`δ` (transit plus the wait for the receiver's next tick), arrive at most `g + δ` apart -/
theorem gaps_delay (g δ : Int) (es ds : List Int) (a da : Int) (hg : GapLe g (a :: es))
    (hd : ∀ d ∈ da :: ds, 0 ≤ d ∧ d ≤ δ) (hlen : ds.length = es.length) :
    GapLe (g + δ) ((a + da) :: List.zipWith (· + ·) es ds) := by
  induction es generalizing a da ds with
  | nil => simp [GapLe]
  | cons e es ih =>
    cases ds with
    | nil => simp at hlen
    | cons d ds =>
      obtain ⟨hg1, hg2⟩ := hg
      simp only [List.zipWith]
      have h1 := hd da (List.mem_cons_self ..)
      have h2 := hd d (List.mem_cons_of_mem _ (List.mem_cons_self ..))
      refine ⟨by omega, ih ds e d hg2 (fun x hx => hd x (List.mem_cons_of_mem _ hx)) (by simpa using hlen)⟩

/-- **An idle pair stays up.**  Endpoint `a` is driven as in `C12_keepalive_cadence_typed` (build
calls at most `τ` apart while CONNECTED), so its emissions are at most `g + τ` apart for
`g ≥ max(keepAlive, sendInterval, 0)`; the link delivers every emission, in order, after a delay of
at most `δ` (transit plus the wait for the receiver's next tick) and the receiver `b` accepts exactly
these datagrams (`hlink`; that a genuine, fresh, correctly sealed datagram is accepted is C01/C04's
subject).  If `g + τ + δ < T` then `b.timedout(T)` is false at every instant of every such history,
however long — and with `T = 5 s + 1 tick` a client `b` never becomes DROPPED. -/
theorem C12_idle_pair_stays_up (EA EB : Env) (hRA : EA.R.KeepsClock) (hTA : EA.R.KeepsTyped) (hRB : EB.R.KeepsLr)
    (τ g δ T : Int) (opsA : List XOp) (a : Conn) (p : Int) (hty : Typed a)
    (hg1 : a.keepAlive ≤ g) (hg2 : a.sendInterval ≤ g) (hg0 : 0 ≤ g) (hka : a.lastKeepAlive = a.lastSend)
    (hp : p - a.lastSend ≤ g) (hpaced : PacedT EA τ a p opsA)
    (opsB : List XOp) (b : Conn) (now te d0 : Int) (ds : List Int)
    (hb0 : b.lastRecv = a.lastSend + d0)
    (hlink : acceptTimes EB b opsB = List.zipWith (· + ·) (xemitTimes EA a opsA) ds)
    (hlen : ds.length = (xemitTimes EA a opsA).length) (hd : ∀ d ∈ d0 :: ds, 0 ≤ d ∧ d ≤ δ)
    (hm : MonoUpTo te now opsB) (hend : te - (xrun EB b opsB).1.lastRecv < T) (hT : g + τ + δ < T) :
    AtEveryInstant EB (fun c s => timedOut c s T = false) b opsB ∧
    (∀ s, s ≤ te → timedOut (xrun EB b opsB).1 s T = false) ∧
    (T = 5121 → EB.R.NoDrop → b.status ≠ .dropped → Always EB (fun c => c.status ≠ .dropped) b opsB) := by
  have hcad := (C12_keepalive_cadence_typed EA hRA hTA τ g opsA a p hty hg1 hg2 hg0 hka hp hpaced).1
  have harr := gaps_delay (g + τ) δ _ ds a.lastSend d0 hcad hd hlen
  rw [← hlink, ← hb0] at harr
  have hmono : ∀ (l : List Int) (g1 g2 : Int), g1 ≤ g2 → GapLe g1 l → GapLe g2 l := by
    intro l
    induction l with
    | nil => intro _ _ _ _; trivial
    | cons x l ih =>
      intro g1 g2 h12 h
      cases l with
      | nil => trivial
      | cons y l => exact ⟨by have := h.1; omega, ih g1 g2 h12 h.2⟩
  have hfed := fed_of_gaps EB hRB T opsB b now te (hmono _ _ _ (by omega) harr) hm hend
  have h1 := C12_never_timed_out EB hRB T opsB b now te hfed
  refine ⟨h1.1, h1.2, ?_⟩
  intro hT5 hN hnd
  subst hT5
  exact C12_never_dropped EB hRB hN opsB b now te hfed hnd

/-! ## 3. a dead peer is detected -/

/-- the peer has gone silent: no datagram of the history is accepted (garbage may still arrive and is rejected) -/
def Quiet (E : Env) : Conn → List XOp → Prop
  | _, [] => True
  | c, op :: ops => ¬ accepts E c op ∧ Quiet E (xstep E c op).1 ops

theorem quiet_lastRecv (E : Env) (hR : E.R.KeepsLr) (ops : List XOp) (c : Conn) (hq : Quiet E c ops) :
    (xrun E c ops).1.lastRecv = c.lastRecv := by
  induction ops generalizing c with
  | nil => rfl
  | cons op ops ih =>
    obtain ⟨h1, h2⟩ := hq
    simp only [xrun]
    rw [ih _ h2]
    rcases xstep_lr E hR c op with ⟨_, e⟩ | ⟨ha, _⟩
    · exact e
    · exact absurd ha h1

/-- **The server detects a dead peer at `connection_timeout`, not earlier.**  After the last
accepted datagram (at `c.lastRecv`), whatever the server does meanwhile, at every sweep instant `t`:
`timedout(connection_timeout)` is true exactly when `t ≥ last + connection_timeout`; then the sweep
removes the connection (after `onDisconnect`), and before that a CONNECTED connection is kept.  The
same for a half-open connection with `temp_connection_timeout`. -/
theorem C12_dead_peer_detected_server (E : Env) (hR : E.R.KeepsLr) (ops : List XOp) (c : Conn)
    (hq : Quiet E c ops) (x : ServerCtx) (t : Int) :
    timedOut (xrun E c ops).1 t x.connectionTimeout = decide (t ≥ c.lastRecv + x.connectionTimeout) ∧
    (t ≥ c.lastRecv + x.connectionTimeout → (sweepClient E.sz x (xrun E c ops).1 t).2.1 = true) ∧
    (t < c.lastRecv + x.connectionTimeout → (xrun E c ops).1.status = .connected →
      (sweepClient E.sz x (xrun E c ops).1 t).2.1 = false) ∧
    (t ≥ c.lastRecv + x.tempTimeout → sweepTempDrops x (xrun E c ops).1 t = true) ∧
    (t < c.lastRecv + x.tempTimeout → (xrun E c ops).1.status ≠ .disconnected →
      sweepTempDrops x (xrun E c ops).1 t = false) := by
  have hl := quiet_lastRecv E hR ops c hq
  generalize (xrun E c ops).1 = c' at *
  refine ⟨?_, ?_, ?_, ?_, ?_⟩
  · unfold timedOut; rw [hl]; congr 1; apply propext; constructor <;> intro h <;> omega
  · intro h
    simp only [sweepClient]
    split
    · have : (disconnect c' none).lastRecv = c'.lastRecv := lr_disconnect c' none
      simp only [timedOut, this, hl, Bool.or_eq_true, decide_eq_true_eq]; right; omega
    · simp only [timedOut, hl, Bool.or_eq_true, decide_eq_true_eq]; right; omega
  · intro h hs
    have hnd : ¬ (c'.status = .disconnecting) := by rw [hs]; decide
    show (decide ((if c'.status = .disconnecting then disconnect c' none else c').status = .disconnected) ||
      timedOut (if c'.status = .disconnecting then disconnect c' none else c') t x.connectionTimeout) = false
    rw [if_neg hnd, hs]
    simp only [timedOut, hl]
    simp
    omega
  · intro h
    simp only [sweepTempDrops, timedOut, hl, Bool.or_eq_true, decide_eq_true_eq]; right; omega
  · intro h hs
    simp only [sweepTempDrops, timedOut, hl]
    simp [hs]; omega

theorem quiet_hello_idle (E : Env) (hH : E.R.KeepsHc) (ops : List XOp) (c : Conn) (hh : c.helloSentAt = 0) :
    (xrun E c ops).1.helloSentAt = 0 := by
  induction ops generalizing c with
  | nil => exact hh
  | cons op ops ih =>
    simp only [xrun]
    apply ih
    cases op with
    | cupd t =>
      simp only [xstep]
      rw [clientUpdate_idle c t hh]
      split <;> exact hh
    | base o =>
      have := xstep_hc E hH c (.base o) (by intro t h; cases h)
      simp only [hc, Prod.mk.injEq] at this; rw [this.1]; exact hh
    | supd t =>
      have := xstep_hc E hH c (.supd t) (by intro t h; cases h)
      simp only [hc, Prod.mk.injEq] at this; rw [this.1]; exact hh
    | csend t =>
      have := xstep_hc E hH c (.csend t) (by intro t h; cases h)
      simp only [hc, Prod.mk.injEq] at this; rw [this.1]; exact hh

/-- every `update()` of the history runs at a clock value satisfying `P` -/
def UpdatesAt (P : Int → Prop) : List XOp → Prop
  | [] => True
  | .cupd t :: ops => P t ∧ UpdatesAt P ops
  | _ :: ops => UpdatesAt P ops

/-- **The client reports DROPPED at the first `update()` later than 5 s after the last accepted
datagram, not earlier.**  For an established connection (`helloSentAt = 0`, `lastRecv > 0`) whose
peer has gone silent: as long as every `update()` runs at `t ≤ last + 5 s` the status never becomes
DROPPED, whatever else happens; and an `update()` at any `t > last + 5 s` sets DROPPED. -/
theorem C12_dead_peer_detected_client (E : Env) (hR : E.R.KeepsLr) (hH : E.R.KeepsHc) (hN : E.R.NoDrop)
    (ops : List XOp) (c : Conn) (hq : Quiet E c ops) (hpos : c.lastRecv > 0) (hh : c.helloSentAt = 0) :
    (c.status ≠ .dropped → UpdatesAt (fun t => t ≤ c.lastRecv + 5120) ops →
      Always E (fun c => c.status ≠ .dropped) c ops) ∧
    ∀ t, t > c.lastRecv + 5120 → (clientUpdate (xrun E c ops).1 t).1.status = .dropped := by
  constructor
  · intro hnd hup
    induction ops generalizing c with
    | nil => exact hnd
    | cons op ops ih =>
      obtain ⟨h1, h2⟩ := hq
      have hlr : (xstep E c op).1.lastRecv = c.lastRecv := by
        rcases xstep_lr E hR c op with ⟨_, e⟩ | ⟨ha, _⟩
        · exact e
        · exact absurd ha h1
      have hh' : (xstep E c op).1.helloSentAt = 0 := quiet_hello_idle E hH [op] c hh
      refine ⟨hnd, ?_⟩
      cases op with
      | cupd t =>
        obtain ⟨hu1, hu2⟩ := hup
        exact ih _ h2 (by rw [hlr]; exact hpos) hh' (clientUpdate_no_drop c t hu1 hnd) (by rw [hlr]; exact hu2)
      | base o =>
        exact ih _ h2 (by rw [hlr]; exact hpos) hh' (xstep_nd E hN c _ (by intro t h; cases h) hnd)
          (by rw [hlr]; exact hup)
      | supd t =>
        exact ih _ h2 (by rw [hlr]; exact hpos) hh' (xstep_nd E hN c _ (by intro t h; cases h) hnd)
          (by rw [hlr]; exact hup)
      | csend t =>
        exact ih _ h2 (by rw [hlr]; exact hpos) hh' (xstep_nd E hN c _ (by intro t h; cases h) hnd)
          (by rw [hlr]; exact hup)
  · intro t ht
    have hl := quiet_lastRecv E hR ops c hq
    exact clientUpdate_drops _ t (by rw [hl]; exact hpos) (by rw [hl]; exact ht) (quiet_hello_idle E hH ops c hh)

/-! ## 4. an unanswered connect attempt times out -/

/-- **One `update()` of a connecting client.**  Up to `temp_connection_timeout` after the hello
nothing happens (no event, still waiting; the status is untouched unless the 5 s rule applies);
the first `update()` later than that makes the connection DISCONNECTED, emits the connect callback
with False iff a callback was given, and resets the hello time — so (next theorem) it cannot fire again. -/
theorem C12_connect_timeout_step (c : Conn) (t : Int) (hh : c.helloSentAt ≠ 0) :
    (t - c.helloSentAt ≤ c.tempTimeout →
      (clientUpdate c t).2 = [] ∧ (clientUpdate c t).1.helloSentAt = c.helloSentAt ∧
      (c.lastRecv ≤ 0 → (clientUpdate c t).1 = c)) ∧
    (t - c.helloSentAt > c.tempTimeout →
      (clientUpdate c t).1.status = .disconnected ∧ (clientUpdate c t).1.helloSentAt = 0 ∧
      (clientUpdate c t).2 = (if c.hasConnectCb then [.connectCb false] else [])) := by
  constructor
  · intro hw
    rw [clientUpdate_waits c t hw]
    refine ⟨rfl, by split <;> rfl, ?_⟩
    intro hl
    rw [if_neg (by omega)]
  · intro hw
    have := clientUpdate_fires c t hh hw
    exact ⟨this.1, this.2.1, this.2.2.1⟩

/-- the events the `update()` calls of a history produce -/
def updEvents (E : Env) (c : Conn) : List XOp → List Event
  | [] => []
  | op :: ops =>
    (match op with | .cupd t => (clientUpdate c t).2 | _ => []) ++ updEvents E (xstep E c op).1 ops

/-- some `update()` of the history runs later than `T` after `h` -/
def expires (h T : Int) : List XOp → Bool
  | [] => false
  | .cupd t :: ops => decide (t - h > T) || expires h T ops
  | _ :: ops => expires h T ops

theorem updEvents_idle (E : Env) (hH : E.R.KeepsHc) (ops : List XOp) (c : Conn) (hh : c.helloSentAt = 0) :
    updEvents E c ops = [] := by
  induction ops generalizing c with
  | nil => rfl
  | cons op ops ih =>
    simp only [updEvents]
    have hh' : (xstep E c op).1.helloSentAt = 0 := quiet_hello_idle E hH [op] c hh
    rw [ih _ hh']
    cases op with
    | cupd t => simp only [clientUpdate_idle c t hh, List.append_nil]
    | base o => rfl
    | supd t => rfl
    | csend t => rfl

/-- **Connect time-out, exactly once.**  For a connect attempt that stays unanswered (no valid
server hello is processed: `KeepsHc`), along any history with `update()` calls at arbitrary clock
values interleaved with anything else: the `update()` calls together produce exactly one connect
callback event, with False, if a callback was given and some `update()` ran later than
`temp_connection_timeout` after the hello — and no event at all otherwise; after that `update()`
the hello time is 0 (nothing can fire again), before it the attempt is still pending. -/
theorem C12_connect_timeout (E : Env) (hH : E.R.KeepsHc) (ops : List XOp) (c : Conn) (hh : c.helloSentAt ≠ 0) :
    updEvents E c ops =
      (if expires c.helloSentAt c.tempTimeout ops = true ∧ c.hasConnectCb = true then [.connectCb false] else []) ∧
    (xrun E c ops).1.helloSentAt = (if expires c.helloSentAt c.tempTimeout ops then 0 else c.helloSentAt) := by
  induction ops generalizing c with
  | nil => simp [updEvents, expires, xrun]
  | cons op ops ih =>
    simp only [updEvents, xrun]
    cases op with
    | cupd t =>
      simp only [expires, xstep]
      by_cases hw : t - c.helloSentAt > c.tempTimeout
      · have hf := clientUpdate_fires c t hh hw
        rw [updEvents_idle E hH ops _ hf.2.1, quiet_hello_idle E hH ops _ hf.2.1, hf.2.2.1]
        simp [hw]
      · have hwait := clientUpdate_waits c t (by omega)
        have hsame : hc (clientUpdate c t).1 = hc c := by rw [hwait]; simp only; split <;> rfl
        simp only [hc, Prod.mk.injEq] at hsame
        have := ih (clientUpdate c t).1 (by rw [hsame.1]; exact hh)
        rw [hsame.1, hsame.2.1, hsame.2.2] at this
        rw [this.1, this.2]
        simp [hwait, hw]
    | base o =>
      have hsame := xstep_hc E hH c (.base o) (by intro t h; cases h)
      simp only [hc, Prod.mk.injEq] at hsame
      have := ih (xstep E c (.base o)).1 (by rw [hsame.1]; exact hh)
      rw [hsame.1, hsame.2.1, hsame.2.2] at this
      simp only [expires, List.nil_append]
      exact this
    | supd t =>
      have hsame := xstep_hc E hH c (.supd t) (by intro t h; cases h)
      simp only [hc, Prod.mk.injEq] at hsame
      have := ih (xstep E c (.supd t)).1 (by rw [hsame.1]; exact hh)
      rw [hsame.1, hsame.2.1, hsame.2.2] at this
      simp only [expires, List.nil_append]
      exact this
    | csend t =>
      have hsame := xstep_hc E hH c (.csend t) (by intro t h; cases h)
      simp only [hc, Prod.mk.injEq] at hsame
      have := ih (xstep E c (.csend t)).1 (by rw [hsame.1]; exact hh)
      rw [hsame.1, hsame.2.1, hsame.2.2] at this
      simp only [expires, List.nil_append]
      exact this

/-- the history consists of the two halves of `UdpClient.update()` only: no datagram arrives at all -/
def OnlyTicks : List XOp → Prop
  | [] => True
  | .cupd _ :: ops => OnlyTicks ops
  | .csend _ :: ops => OnlyTicks ops
  | _ :: _ => False

/-- **… and the attempt ends DISCONNECTED.**  A client that never accepted a datagram
(`lastRecv ≤ 0`) and whose `update()` / send half are called at arbitrary clock values: once some
`update()` ran later than `temp_connection_timeout` after the hello the status is DISCONNECTED and
stays so; until then the status is the one `connect` left (CONNECTING). -/
theorem C12_connect_timeout_status (E : Env) (ops : List XOp) (c : Conn) (hh : c.helloSentAt ≠ 0)
    (hl : c.lastRecv ≤ 0) (ho : OnlyTicks ops) :
    (xrun E c ops).1.status = (if expires c.helloSentAt c.tempTimeout ops then .disconnected else c.status) := by
  -- after the time-out fired: nothing changes the status any more
  have hdone : ∀ (ops : List XOp) (c : Conn), c.helloSentAt = 0 → c.lastRecv ≤ 0 → OnlyTicks ops →
      (xrun E c ops).1.status = c.status := by
    intro ops
    induction ops with
    | nil => intro c _ _ _; rfl
    | cons op ops ih =>
      intro c h0 hl ho
      simp only [xrun]
      cases op with
      | cupd t =>
        have : (clientUpdate c t).1 = c := by rw [clientUpdate_idle c t h0, if_neg (by omega)]
        simp only [xstep, this]
        exact ih c h0 hl ho
      | csend t =>
        have hs := clientSend_live E.sz c t
        simp only [hc, Prod.mk.injEq] at hs
        simp only [xstep, emitOuts_fst]
        rw [ih _ (by rw [hs.2.1.1]; exact h0) (by rw [hs.1]; exact hl) ho, hs.2.2]
      | base o => exact absurd ho (by simp [OnlyTicks])
      | supd t => exact absurd ho (by simp [OnlyTicks])
  induction ops generalizing c with
  | nil => simp [xrun, expires]
  | cons op ops ih =>
    simp only [xrun]
    cases op with
    | cupd t =>
      simp only [expires, xstep]
      by_cases hw : t - c.helloSentAt > c.tempTimeout
      · have hf := clientUpdate_fires c t hh hw
        rw [hdone ops _ hf.2.1 (by rw [(clientUpdate_frame c t).2.1]; exact hl) ho, hf.1]
        simp [hw]
      · have hsame : (clientUpdate c t).1 = c :=
          ((C12_connect_timeout_step c t hh).1 (by omega)).2.2 hl
        rw [hsame, ih c hh hl ho]
        simp [hw]
    | csend t =>
      have hs := clientSend_live E.sz c t
      simp only [hc, Prod.mk.injEq] at hs
      simp only [xstep, emitOuts_fst, expires]
      have e := ih (clientSend E.sz c t).1 (by rw [hs.2.1.1]; exact hh) (by rw [hs.1]; exact hl) ho
      rw [hs.2.1.1, hs.2.1.2.1, hs.2.2] at e
      exact e
    | base o => exact absurd ho (by simp [OnlyTicks])
    | supd t => exact absurd ho (by simp [OnlyTicks])

/-! ## 5. settings take effect -/

/-- the wrapper's settings after a sequence of calls: each setter overwrites its own value -/
def Settings.after (s : Settings) : List Call → Settings
  | [] => s
  | .setKeepAlive v :: ks => Settings.after { s with keepAlive := v } ks
  | .setConnTimeout v :: ks => Settings.after { s with tempTimeout := v } ks
  | .setMsgTimeout v :: ks => Settings.after { s with outgoingTimeout := v } ks
  | .connect _ _ _ :: ks => Settings.after s ks

/-- the wrapper and its live connection (if any) agree on the three settings -/
def Client.InSync (cl : Client) : Prop := ∀ c, cl.conn = some c → connSettings c = cl.s

/-- one call: it does not raise, keeps wrapper and connection in agreement, and changes what it should -/
theorem apply_step (cl : Client) (k : Call) (hsync : cl.InSync) :
    ∃ cl1, cl.apply k = .ok cl1 ∧ cl1.InSync ∧ cl1.s = cl.s.after [k] ∧
      cl1.conn.isSome = (cl.conn.isSome || (match k with | .connect _ _ _ => true | _ => false)) := by
  cases k with
  | setKeepAlive v =>
    refine ⟨_, rfl, ?_, rfl, by simp⟩
    intro c hc'
    simp only [Option.map_eq_some_iff] at hc'
    obtain ⟨c0, hc0, rfl⟩ := hc'
    rw [← hsync c0 hc0]
    rfl
  | setConnTimeout v =>
    refine ⟨_, rfl, ?_, rfl, by simp⟩
    intro c hc'
    simp only [Option.map_eq_some_iff] at hc'
    obtain ⟨c0, hc0, rfl⟩ := hc'
    rw [← hsync c0 hc0]
    rfl
  | setMsgTimeout v =>
    refine ⟨_, rfl, ?_, rfl, by simp⟩
    intro c hc'
    simp only [Option.map_eq_some_iff] at hc'
    obtain ⟨c0, hc0, rfl⟩ := hc'
    rw [← hsync c0 hc0]
    rfl
  | connect t cb hello =>
    refine ⟨_, rfl, ?_, rfl, by simp⟩
    intro c hc'
    simp only [Option.some.injEq] at hc'
    subst hc'
    simp only [connSettings, sendClientHello, sendType, Client.freshConn] <;> (try split) <;> rfl

/-- **Client settings are effective in every order.**  For every sequence of
`setKeepAliveInterval` / `setConnectionTimeout` / `setMessageTimeout` / `connect` calls (any number
of each, in any order, before or after `connect`): no call raises; afterwards the wrapper holds the
last value given to each setter and the live connection — it exists iff it existed or `connect`
was called — works with exactly these values. -/
theorem C12_settings_effective (cl : Client) (ks : List Call) (hsync : cl.InSync) :
    ∃ cl', cl.applyAll ks = .ok cl' ∧ cl'.s = cl.s.after ks ∧ cl'.InSync ∧
      (cl'.conn.isSome = (cl.conn.isSome || ks.any (fun k => match k with | .connect _ _ _ => true | _ => false))) := by
  induction ks generalizing cl with
  | nil => exact ⟨cl, rfl, rfl, hsync, by simp⟩
  | cons k ks ih =>
    obtain ⟨cl1, ha, hs1, hs2, hs3⟩ := apply_step cl k hsync
    obtain ⟨cl', h1, h2, h3, h4⟩ := ih cl1 hs1
    refine ⟨cl', ?_, ?_, h3, ?_⟩
    · simp only [Client.applyAll, ha]; exact h1
    · rw [h2, hs2]; cases k <;> rfl
    · rw [h4, hs3]; cases k <;> simp

/-- the value a setter leaves is the one of its last call -/
theorem C12_last_value_wins (s : Settings) (pre post : List Call) (v : Int) :
    ((∀ k ∈ post, ∀ w, k ≠ .setKeepAlive w) → (s.after (pre ++ .setKeepAlive v :: post)).keepAlive = v) ∧
    ((∀ k ∈ post, ∀ w, k ≠ .setConnTimeout w) → (s.after (pre ++ .setConnTimeout v :: post)).tempTimeout = v) ∧
    ((∀ k ∈ post, ∀ w, k ≠ .setMsgTimeout w) → (s.after (pre ++ .setMsgTimeout v :: post)).outgoingTimeout = v) := by
  have happ : ∀ (a b : List Call) (s : Settings), s.after (a ++ b) = (s.after a).after b := by
    intro a
    induction a with
    | nil => intro b s; rfl
    | cons k a ih => intro b s; cases k <;> simp only [List.cons_append, Settings.after, ih]
  have hk : ∀ (post : List Call) (s : Settings), (∀ k ∈ post, ∀ w, k ≠ .setKeepAlive w) →
      (s.after post).keepAlive = s.keepAlive := by
    intro post
    induction post with
    | nil => intro s _; rfl
    | cons k post ih =>
      intro s h
      have hr : ∀ k ∈ post, ∀ w, k ≠ .setKeepAlive w := fun k hk => h k (List.mem_cons_of_mem _ hk)
      cases k with
      | setKeepAlive w => exact absurd rfl (h _ (List.mem_cons_self ..) w)
      | setConnTimeout w => simp only [Settings.after]; rw [ih _ hr]
      | setMsgTimeout w => simp only [Settings.after]; rw [ih _ hr]
      | connect _ _ _ => simp only [Settings.after]; rw [ih _ hr]
  have ht : ∀ (post : List Call) (s : Settings), (∀ k ∈ post, ∀ w, k ≠ .setConnTimeout w) →
      (s.after post).tempTimeout = s.tempTimeout := by
    intro post
    induction post with
    | nil => intro s _; rfl
    | cons k post ih =>
      intro s h
      have hr : ∀ k ∈ post, ∀ w, k ≠ .setConnTimeout w := fun k hk => h k (List.mem_cons_of_mem _ hk)
      cases k with
      | setKeepAlive w => simp only [Settings.after]; rw [ih _ hr]
      | setConnTimeout w => exact absurd rfl (h _ (List.mem_cons_self ..) w)
      | setMsgTimeout w => simp only [Settings.after]; rw [ih _ hr]
      | connect _ _ _ => simp only [Settings.after]; rw [ih _ hr]
  have ho : ∀ (post : List Call) (s : Settings), (∀ k ∈ post, ∀ w, k ≠ .setMsgTimeout w) →
      (s.after post).outgoingTimeout = s.outgoingTimeout := by
    intro post
    induction post with
    | nil => intro s _; rfl
    | cons k post ih =>
      intro s h
      have hr : ∀ k ∈ post, ∀ w, k ≠ .setMsgTimeout w := fun k hk => h k (List.mem_cons_of_mem _ hk)
      cases k with
      | setKeepAlive w => simp only [Settings.after]; rw [ih _ hr]
      | setConnTimeout w => simp only [Settings.after]; rw [ih _ hr]
      | setMsgTimeout w => exact absurd rfl (h _ (List.mem_cons_self ..) w)
      | connect _ _ _ => simp only [Settings.after]; rw [ih _ hr]
  refine ⟨?_, ?_, ?_⟩
  · intro h; rw [happ]; simp only [Settings.after]; rw [hk post _ h]
  · intro h; rw [happ]; simp only [Settings.after]; rw [ht post _ h]
  · intro h; rw [happ]; simp only [Settings.after]; rw [ho post _ h]

/-- what `connect` leaves: a CONNECTING client connection that remembers the hello time and whether a
callback was given, with the wrapper's three settings -/
theorem C12_connect_state (cl : Client) (t : Int) (cb : Bool) (hello : Bytes) :
    ∃ cl' c, cl.apply (.connect t cb hello) = .ok cl' ∧ cl'.conn = some c ∧ c.status = .connecting ∧
      c.helloSentAt = t ∧ c.hasConnectCb = cb ∧ connSettings c = cl.s ∧ c.isServer = false ∧ c.lastRecv ≤ 0 := by
  refine ⟨_, _, rfl, rfl, rfl, rfl, ?_, ?_, ?_, ?_⟩
  · simp only [sendClientHello, sendType, Client.freshConn] <;> (try split) <;> rfl
  · simp only [connSettings, sendClientHello, sendType, Client.freshConn] <;> (try split) <;> rfl
  · simp only [sendClientHello, sendType, Client.freshConn] <;> (try split) <;> rfl
  · simp only [sendClientHello, sendType, Client.freshConn] <;> (try split) <;> decide

/-- **Server settings are effective.**  No `ServerContext` setter raises; a connection the loop
creates afterwards carries the configured keep-alive interval and message time-out, and the sweeps
decide with the configured `connection_timeout` / `temp_connection_timeout`. -/
theorem C12_server_settings_effective (x : ServerCtx) (ks : List CtxCall) :
    ∃ x', x.applyAll ks = .ok x' ∧
      x'.newConn.keepAlive = x'.keepAlive ∧ x'.newConn.outgoingTimeout = x'.outgoingTimeout ∧
      x'.newConn.isServer = true ∧
      (∀ sz c t, (sweepClient sz x' c t).2.1 =
        (decide ((if c.status = .disconnecting then disconnect c none else c).status = .disconnected) ||
         decide (t - c.lastRecv ≥ x'.connectionTimeout))) ∧
      (∀ c t, sweepTempDrops x' c t = (decide (c.status = .disconnected) || decide (t - c.lastRecv ≥ x'.tempTimeout))) := by
  induction ks generalizing x with
  | nil =>
    refine ⟨x, rfl, rfl, rfl, rfl, ?_, fun _ _ => rfl⟩
    intro sz c t
    simp only [sweepClient, timedOut]
    split
    · rw [show (disconnect c none).lastRecv = c.lastRecv from lr_disconnect c none]
    · rfl
  | cons k ks ih => cases k <;> exact ih _

/-- the last value given to a `ServerContext` setter is the one in force -/
theorem C12_server_last_value (x : ServerCtx) (v : Int) :
    (∃ x', x.apply (.setKeepAlive v) = .ok x' ∧ x'.keepAlive = v) ∧
    (∃ x', x.apply (.setConnTimeout v) = .ok x' ∧ x'.connectionTimeout = v) ∧
    (∃ x', x.apply (.setTempTimeout v) = .ok x' ∧ x'.tempTimeout = v) ∧
    (∃ x', x.apply (.setMsgTimeout v) = .ok x' ∧ x'.outgoingTimeout = v) ∧
    (∃ x', x.apply (.setInterval v) = .ok x' ∧ x'.interval = v) :=
  ⟨⟨_, rfl, rfl⟩, ⟨_, rfl, rfl⟩, ⟨_, rfl, rfl⟩, ⟨_, rfl, rfl⟩, ⟨_, rfl, rfl⟩⟩

/-! ## 6. `UdpClient.update()` reads everything that has arrived -/

/-- the reception operations `update()` performs for the datagrams waiting on the socket, all at
its own clock value `t`; `none` if some header does not decode -/
def recvOps (t : Int) : List Bytes → Option (List XOp)
  | [] => some []
  | d :: rest =>
    match decodeHdr false d, recvOps t rest with
    | .ok h, some l => some (.base (.recv t h d) :: l)
    | _, _ => none

theorem xrun_append (E : Env) (c : Conn) (a b : List XOp) :
    xrun E c (a ++ b) = ((xrun E (xrun E c a).1 b).1, (xrun E c a).2 ++ (xrun E (xrun E c a).1 b).2) := by
  induction a generalizing c with
  | nil => simp [xrun]
  | cons op a ih => simp only [List.cons_append, xrun, ih, List.append_assoc]

/-- **The socket is drained.**  Unless an exception escapes, the receive half of `update()` (as
repaired) leaves no datagram unread, however many were waiting, and is exactly the history of
their receptions at this call's clock value — so the liveness clock always reflects the newest
datagram that has arrived (before the repair only the first waiting datagram was read per call and
a backlog could keep a dead peer "alive"). -/
theorem C12_update_drains (E : Env) (t : Int) (inbox : List Bytes) (c : Conn) (ops : List XOp)
    (hops : recvOps t inbox = some ops) (hne : (clientDrain E c t inbox).2.2.2 = none) :
    (clientDrain E c t inbox).2.2.1 = [] ∧ (clientDrain E c t inbox).1 = (xrun E c ops).1 ∧
    (clientDrain E c t inbox).2.1 = (xrun E c ops).2 := by
  induction inbox generalizing c ops with
  | nil =>
    simp only [recvOps, Option.some.injEq] at hops
    subst hops
    exact ⟨rfl, rfl, rfl⟩
  | cons d rest ih =>
    simp only [recvOps] at hops
    cases hd : decodeHdr false d with
    | error e => simp [hd] at hops
    | ok h =>
      cases hr : recvOps t rest with
      | none => simp [hd, hr] at hops
      | some l =>
        simp only [hd, hr, Option.some.injEq] at hops
        subst hops
        simp only [clientDrain, hd] at hne ⊢
        cases hret : (recvDatagram E.C E.R c t h d).2.2 with
        | raised e => simp [hret] at hne
        | accepted =>
          simp only [hret] at hne ⊢
          have := ih (recvDatagram E.C E.R c t h d).1 l hr hne
          simp only [xrun, xstep, step, hret]
          exact ⟨this.1, this.2.1, by rw [this.2.2]⟩
        | rejected =>
          simp only [hret] at hne ⊢
          have := ih (recvDatagram E.C E.R c t h d).1 l hr hne
          simp only [xrun, xstep, step, hret]
          exact ⟨this.1, this.2.1, by rw [this.2.2]⟩

/-- **`UdpClient.update()` is a history at one clock value**: `conn.update()`, then — unless the
connection is DROPPED — the reception of every waiting datagram, then the send half.  All history
theorems above therefore apply to a client driven by `update()` alone. -/
theorem C12_update_is_history (E : Env) (t : Int) (inbox : List Bytes) (c : Conn) (ops : List XOp)
    (hops : recvOps t inbox = some ops) (hne : (clientDrain E (clientUpdate c t).1 t inbox).2.2.2 = none) :
    ((clientUpdate c t).1.status = .dropped →
      clientUpdateFull E c t inbox = ((xrun E c [.cupd t]).1, (xrun E c [.cupd t]).2, inbox)) ∧
    ((clientUpdate c t).1.status ≠ .dropped →
      clientUpdateFull E c t inbox =
        ((xrun E c (.cupd t :: ops ++ [.csend t])).1, (xrun E c (.cupd t :: ops ++ [.csend t])).2, [])) := by
  constructor
  · intro hd
    simp [clientUpdateFull, hd, xrun, xstep]
  · intro hd
    have hdr := C12_update_drains E t inbox (clientUpdate c t).1 ops hops hne
    simp only [clientUpdateFull, hd, if_false, hne]
    simp only [xrun, xstep, xrun_append, List.append_nil]
    rw [hdr.1, hdr.2.1, hdr.2.2]

/-! ## non-vacuity -/

def exEnv : Env := ⟨⟨1500⟩, ⟨fun _ _ _ p => p, fun _ _ _ c => some c⟩, baseRole⟩
def exConn : Conn := { isServer := false, status := .connected, lastRecv := 1000, lastSend := 1000, lastKeepAlive := 1000 }

-- an idle CONNECTED endpoint emits a KEEP_ALIVE once the keep-alive interval (96) is exceeded, not before
example : ((buildPacket ⟨1500⟩ exConn 1097).2.toOption.map (fun o => o.map (·.hdr.ptype))) = some (some .keepAlive) := by decide
example : ((buildPacket ⟨1500⟩ exConn 1096).2.toOption.map (fun o => o.map (·.hdr.ptype))) = some none := by decide
example : exConn.status = .connected ∧ (1097 : Int) - exConn.lastSend ≥ exConn.sendInterval ∧
    (1097 : Int) - exConn.lastKeepAlive > exConn.keepAlive := by decide
-- a paced history: build calls every 40 ticks; emissions are at most max(96,16)+40 apart
theorem noErr_of_isOk {ε α : Type} (r : Except ε α) (h : r.isOk = true) : ∀ e, r ≠ .error e := by
  intro e he; rw [he] at h; simp [Except.isOk, Except.toBool] at h
example : Paced exEnv 40 exConn 1000 [.base (.build 1040), .csend 1080, .base (.build 1120)] := by
  refine ⟨fun t h => ?_, fun t h => ?_, fun t h => ?_, trivial⟩ <;>
    (simp only [buildTime, Option.some.injEq] at h; subst h
     exact ⟨by decide, by decide, by decide, by decide, noErr_of_isOk _ (by decide)⟩)
example : xemitTimes exEnv exConn [.base (.build 1040), .csend 1080, .base (.build 1120)] = [1120] := by decide
example : baseRole.KeepsClock ∧ baseRole.KeepsLr ∧ baseRole.KeepsHc ∧ baseRole.NoDrop ∧ baseRole.KeepsTyped :=
  ⟨baseRole_keepsClock, baseRole_keepsLr, baseRole_keepsHc, baseRole_noDrop, baseRole_keepsTyped⟩
example (H : Hs) : (clientRole H).KeepsClock ∧ (clientRole H).KeepsLr ∧ (clientRole H).NoDrop ∧ (clientRole H).KeepsTyped :=
  ⟨clientRole_keepsClock H, clientRole_keepsLr H, clientRole_noDrop H, clientRole_keepsTyped H⟩
example (H : Hs) (a : Nat) (b : Option Nat) :
    (serverRole H a b).KeepsClock ∧ (serverRole H a b).KeepsLr ∧ (serverRole H a b).NoDrop ∧ (serverRole H a b).KeepsTyped :=
  ⟨serverRole_keepsClock H a b, serverRole_keepsLr H a b, serverRole_noDrop H a b, serverRole_keepsTyped H a b⟩
example : Typed exConn := typed_fresh _ rfl rfl rfl
example (x : ServerCtx) : Typed x.newConn := typed_fresh _ rfl rfl rfl
-- a silent history and the two detection instants
example : Quiet exEnv exConn [.cupd 3000, .csend 3000, .cupd 6120] := by simp only [Quiet, accepts]; decide
example : (clientUpdate exConn 6120).1.status = .connected ∧ (clientUpdate exConn 6121).1.status = .dropped := by decide
example : timedOut exConn 6119 5120 = false ∧ timedOut exConn 6120 5120 = true := by decide
-- an unanswered connect with a callback: fires once, at the first update later than 2048 ticks after the hello
def exClient : Conn := (sendClientHello { isServer := false, hasConnectCb := true } 5000 [1, 2, 3])
example : exClient.helloSentAt ≠ 0 ∧ exClient.lastRecv ≤ 0 := by decide
example : updEvents exEnv exClient [.cupd 7048, .csend 7048, .cupd 7049, .cupd 9000] = [.connectCb false] := by decide
example : OnlyTicks [.cupd 7048, .csend 7048, .cupd 7049, .cupd 9000] := by simp [OnlyTicks]
example : (Client.new ⟨102, 2048, 1024⟩).InSync := by intro c h; simp [Client.new] at h
example : FedWithin exEnv 5120 exConn 1000 [.cupd 3000, .csend 3000, .cupd 6000] 6100 := by
  simp only [FedWithin, xtime, accepts]; decide

example : Typed exClient := by unfold Typed; decide

-- the link hypothesis of `C12_idle_pair_stays_up` is satisfiable: a keyed pair, an AEAD with a 16-byte tag;
-- a's keep-alive emitted at 1120 is accepted by b at 1125
def exTagEnv : Env :=
  ⟨⟨1500⟩, ⟨fun _ _ _ p => p ++ List.replicate 16 0, fun _ _ _ c => some (c.take (c.length - 16))⟩, baseRole⟩
def exA : Conn := { exConn with key := some [1] }
def exB : Conn := { isServer := true, key := some [1], status := .connected, lastRecv := 1003, lastSend := 1000, lastKeepAlive := 1000 }
def exOpsA : List XOp := [.base (.build 1040), .csend 1080, .base (.build 1120)]
def exDatagram : Bytes := match (xrun exTagEnv exA exOpsA).2 with | [.emit _ d] => d | _ => []
def exHdr : Header := match decodeHdr true exDatagram with | .ok h => h | .error _ => ⟨false, 0, .unknown, 0, 0, 0, 0, 0⟩
example : exDatagram.length = 36 := by decide
example : acceptTimes exTagEnv exB [.supd 1110, .base (.recv 1125 exHdr exDatagram), .supd 1130] =
    List.zipWith (· + ·) (xemitTimes exTagEnv exA exOpsA) [5] := by decide
example : exB.lastRecv = exA.lastSend + 3 := by decide
example : MonoUpTo 1200 1100 [.supd 1110, .base (.recv 1125 exHdr exDatagram), .supd 1130] := by
  simp only [MonoUpTo, xtime]; decide

end Mpgs.Conn
