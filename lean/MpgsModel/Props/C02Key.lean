import MpgsModel.Lemmas.FrameKd
import MpgsModel.Model.Handshake
import MpgsModel.Model.Server
/-!
# One session key per server-side connection

Once a server-side connection has a session key, nothing changes it: no datagram (whatever it
carries - further client hellos sealed under the key included), no send, no packet construction,
no time-out, no disconnect.  For every history of operations and every instantiation of the
externals.  This is the formal counterpart of the `session-key-changed` monitor of C02/C03.
-/
namespace Mpgs.Conn
open Mpgs.Bytes Mpgs.Wire

theorem key_of_kd (c c' : Conn) (h : kd c' = kd c) : c'.key = c.key := congrArg Prod.fst h

theorem hello_ignored_when_keyed (H : Hs) (tok : Nat) (c : Conn) (t : Int) (data : Bytes) (hk : c.key.isSome = true) :
    serverClientHello H tok c t data = (c, [], none) := by
  simp [serverClientHello, hk]

theorem key_recvMessage (H : Hs) (tok : Nat) (tt : Option Nat) (f : Conn → Conn) (hf : ∀ x, (f x).key = x.key)
    (c : Conn) (t : Int) (m : WMsg) (hk : c.key.isSome = true) :
    (recvMessage (serverRoleOn H tok tt f) c t m).1.key = c.key := by
  cases hins : c.bfMsg.insert (m.seq : Int) with
  | error e => simp only [recvMessage, hins]
  | ok bf =>
    have hk1 : ({ c with bfMsg := bf } : Conn).key.isSome = true := hk
    cases hty : m.ty with
    | clientHello =>
      simp only [recvMessage, hins, hty, serverRoleOn]
      rw [hello_ignored_when_keyed H tok { c with bfMsg := bf } t m.payload hk1]
    | serverHello => simp only [recvMessage, hins, hty, serverRoleOn]
    | challengeResp =>
      simp only [recvMessage, hins, hty, serverRoleOn]
      have hch : (serverChallenge H tt { c with bfMsg := bf } t m.payload).1.key = c.key := by
        unfold serverChallenge
        split
        · rfl
        · split <;> rfl
      split
      · simp only; rw [hf]; exact hch
      · exact hch
    | keepAlive => simp only [recvMessage, hins, hty]
    | disconnect => simp only [recvMessage, hins, hty]
    | appFragment =>
      simp only [recvMessage, hins, hty]
      exact key_of_kd _ _ (kd_recvAppFragment { c with bfMsg := bf } t m.seq m.payload)
    | app => simp only [recvMessage, hins, hty]
    | unknown => simp only [recvMessage, hins, hty]


theorem key_recvMessages (H : Hs) (tok : Nat) (tt : Option Nat) (f : Conn → Conn) (hf : ∀ x, (f x).key = x.key)
    (c : Conn) (t : Int) (ms : List WMsg) (hk : c.key.isSome = true) :
    (recvMessages (serverRoleOn H tok tt f) c t ms).1.key = c.key := by
  induction ms generalizing c with
  | nil => rfl
  | cons m ms ih =>
    simp only [recvMessages]
    have h1 := key_recvMessage H tok tt f hf c t m hk
    generalize recvMessage (serverRoleOn H tok tt f) c t m = r at *
    obtain ⟨c1, e1, err⟩ := r
    cases err with
    | some e => exact h1
    | none =>
      simp only at h1 ⊢
      have hk1 : c1.key.isSome = true := by rw [h1]; exact hk
      rw [ih c1 hk1]; exact h1

/-- **No datagram changes the session key of a server-side connection that has one.** -/
theorem key_recvDatagram (C : Crypto) (H : Hs) (tok : Nat) (tt : Option Nat) (f : Conn → Conn) (hf : ∀ x, (f x).key = x.key)
    (c : Conn) (t : Int) (h : Header) (d : Bytes) (hk : c.key.isSome = true) :
    (recvDatagram C (serverRoleOn H tok tt f) c t h d).1.key = c.key := by
  unfold recvDatagram
  cases hfb : fromBytes C h c.key d with
  | error e => rfl
  | ok pkt =>
    simp only
    by_cases hg : gateUnkeyed c pkt = true
    · rw [if_pos hg]; rfl
    · rw [if_neg hg]
      by_cases hs : stale c pkt.hdr.seq = true
      · rw [if_pos hs]; rfl
      · rw [if_neg hs]
        cases hi : c.bfPkt.insert (pkt.hdr.seq : Int) with
        | error e => rfl
        | ok bf =>
          simp only
          unfold accept
          simp only
          have hka : (handleAckBits { c with bfPkt := bf, received := c.received + 1, lastRecv := t } h).1.key = c.key := by
            unfold handleAckBits
            exact key_of_kd _ _ ((kd_handleAckKeys _ _ _ _).trans rfl)
          rw [key_recvMessages H tok tt f hf _ t pkt.msgs (by rw [hka]; exact hk)]
          exact hka

theorem key_buildPacket (sz : Sizes) (c : Conn) (t : Int) : (buildPacket sz c t).1.key = c.key := by
  unfold buildPacket
  split
  · rfl
  · have hi : ∀ ska delay, (buildPacketImpl sz c t ska delay).1.key = c.key := by
      intro ska delay
      unfold buildPacketImpl
      simp only
      split
      · rfl
      · split <;> rfl
    split
    · simp only [finishBuild]; exact hi _ _
    · exact hi _ _


/-- one operation of a keyed server-side connection -/
theorem key_step (E : Env) (H : Hs) (tok : Nat) (tt : Option Nat) (f : Conn → Conn) (hf : ∀ x, (f x).key = x.key)
    (hR : E.R = serverRoleOn H tok tt f) (c : Conn) (op : Op) (hk : c.key.isSome = true) :
    (step E c op).1.key = c.key := by
  cases op with
  | send p r cb =>
    simp only [step]
    have := key_of_kd _ _ (kd_send E.sz c p r cb)
    generalize send E.sz c p r cb = x at *
    obtain ⟨c', o⟩ := x
    cases o <;> exact this
  | build t =>
    simp only [step]
    have := key_buildPacket E.sz c t
    generalize buildPacket E.sz c t = x at *
    obtain ⟨c', res⟩ := x
    cases res with
    | error e => exact this
    | ok o =>
      cases o with
      | none => exact this
      | some pkt => simp only; split <;> exact this
  | recv t h d =>
    simp only [step, hR]
    exact key_recvDatagram E.C H tok tt f hf c t h d hk
  | tmo t =>
    simp only [step]
    exact key_of_kd _ _ (kd_checkTimeout c t)
  | disconnect cb => exact key_of_kd _ _ (kd_disconnect c cb)
  | take => rfl

/-- **One session key per connection, over whole histories**: whatever a server-side connection that
holds a session key is handed and whatever is done with it - datagrams of any content (client
hellos sealed under the key included), sends, packet constructions, time-outs, disconnects, in
any order and number - it holds that key afterwards. -/
theorem C02_server_key_never_changes (E : Env) (H : Hs) (tok : Nat) (tt : Option Nat) (f : Conn → Conn)
    (hf : ∀ x, (f x).key = x.key) (hR : E.R = serverRoleOn H tok tt f) (c : Conn) (ops : List Op)
    (hk : c.key.isSome = true) : (run E c ops).1.key = c.key := by
  induction ops generalizing c with
  | nil => rfl
  | cons op ops ih =>
    simp only [run]
    have h1 := key_step E H tok tt f hf hR c op hk
    generalize step E c op = x at *
    obtain ⟨c1, o1⟩ := x
    simp only at h1 ⊢
    rw [ih c1 (by rw [h1]; exact hk)]
    exact h1

end Mpgs.Conn

namespace Mpgs.Server
open Mpgs.Bytes Mpgs.Wire Mpgs.Conn

/-- what the user's handler may do to the connection from inside `connect` (send, disconnect) does
not touch the key either: the theorem applies to the role the server loop uses -/
theorem actOn_key (sz : Sizes) (c : Conn) (a : HAct) : (actOn sz c a).key = c.key := by
  cases a <;> simp only [actOn] <;>
    first
      | rfl
      | exact key_of_kd _ _ (kd_send sz c _ 0 none)
      | exact key_of_kd _ _ (kd_disconnect c none)

/-- non-vacuity: a keyed server-side connection, the loop's role with an echoing connect handler, a history -/
example : ({ isServer := true, key := some [1, 2] } : Conn).key.isSome = true := rfl

end Mpgs.Server
