import MpgsModel.Lemmas.JsonExtra
/-!
# C15 — typed-JSON round trip: `fromJson(toJson(x))` and `loads(dumps(x))` reproduce `x`

Property theorems only (helper lemmas live in `Lemmas/Json.lean`, `Lemmas/JsonExtra.lean`,
`Lemmas/JsonDec.lean`).
The model is `Mpgs.Json` (`Model/Json.lean`, `Model/JsonDec.lean`).  `WellTyped tbl c x` says the
class table has the documented shape (`tableOK`: upper-case distinct enum member names, distinct
field names, Dict keys int / str / enum) and `x` is an instance of class `c` whose fields hold
values of their annotated types (`hasTy`), to any nesting depth.  All statements are for every
table, class and value.
-/
namespace Mpgs.Json

/-- fromJson(toJson(x)) reproduces x -/
theorem C15_from_to (tbl : Table) (c : Str) (x : Val) (h : WellTyped tbl c x) :
    ∃ j, toJson tbl x = .ok j ∧ fromJson tbl c j = .ok x := by
  obtain ⟨j, _, h1, _, h3, _, _⟩ := wellTyped_good tbl c x h
  exact ⟨j, h1, h3⟩

/-- loads(dumps(x)) reproduces x: the same through json's key stringification -/
theorem C15_loads_dumps (tbl : Table) (c : Str) (x : Val) (h : WellTyped tbl c x) :
    ∃ j j', toJson tbl x = .ok j ∧ stringifyKeys j = .ok j' ∧ fromJson tbl c j' = .ok x := by
  obtain ⟨j, j', h1, h2, _, h4, _⟩ := wellTyped_good tbl c x h
  exact ⟨j, j', h1, h2, h4⟩

/-- toJson output is plain data (object keys int or str) and json.dumps/loads accepts it -/
theorem C15_json_plain (tbl : Table) (c : Str) (x : Val) (h : WellTyped tbl c x) :
    ∃ j, toJson tbl x = .ok j ∧ j.plain = true ∧ ∃ j', stringifyKeys j = .ok j' := by
  obtain ⟨j, j', h1, h2, _, _, h5⟩ := wellTyped_good tbl c x h
  exact ⟨j, h1, h5, j', h2⟩

/-- the executable composition `cls.fromJson(x.toJson())` returns `x` -/
theorem C15_fromTo_eq (tbl : Table) (c : Str) (x : Val) (h : WellTyped tbl c x) :
    fromTo tbl c x = .ok x := by
  obtain ⟨j, h1, h2⟩ := C15_from_to tbl c x h
  simp [fromTo, h1, h2]

/-- the executable composition `cls.loads(x.dumps())` returns `x` -/
theorem C15_loadsDumps_eq (tbl : Table) (c : Str) (x : Val) (h : WellTyped tbl c x) :
    loadsDumps tbl c x = .ok x := by
  obtain ⟨j, j', h1, h2, h3⟩ := C15_loads_dumps tbl c x h
  simp [loadsDumps, dumpsLoads, h1, h2, h3]

/-- `int(str(n)) = n`: what brings `Dict[int, _]` keys back from their JSON text -/
theorem C15_parseInt_toDecimal (n : Int) : pyParseInt (toDecimal n) = some n :=
  pyParseInt_toDecimal n

/-- consequence: on well-typed instances of a class the JSON form determines the instance -/
theorem C15_toJson_injective (tbl : Table) (c : Str) (x y : Val) (hx : WellTyped tbl c x)
    (hy : WellTyped tbl c y) (h : toJson tbl x = toJson tbl y) : x = y := by
  obtain ⟨j, h1, h2⟩ := C15_from_to tbl c x hx
  obtain ⟨j', h1', h2'⟩ := C15_from_to tbl c y hy
  rw [h1, h1'] at h
  cases h
  rw [h2] at h2'
  cases h2'
  rfl

/-! ### the conditions in `WellTyped` are the documented ones, and they are needed -/

/-- the set condition of `WellTyped` (`nodupAcc`) is "pairwise not `==`", i.e. the list is the
element list of a Python set; likewise the dict condition is "keys pairwise not `==`" -/
theorem C15_set_dict_conditions (xs : List Val) (kvs : List (Val × Val)) :
    (nodupAcc xs [] = true ↔ xs.Pairwise (fun a b => pyEq a b = false)) ∧
    (keysNodupAcc kvs [] = true ↔ kvs.Pairwise (fun a b => pyEq a.1 b.1 = false)) :=
  ⟨nodupAcc_nil_iff xs, keysNodupAcc_nil_iff kvs⟩

/-- tuple arity is necessary, for every table and annotation: whatever plain data a
`Tuple[...]` field is read from, `fromJson` builds a tuple of exactly the annotated arity
(missing positions are padded with None), so a tuple of any other length never comes back -/
theorem C15_tuple_arity_necessary (tbl : Table) (ts : List BTy) (xs : List Val)
    (h : xs.length ≠ ts.length) (j : JsonVal) :
    fromJsonField tbl j (.tuple ts) ≠ .ok (.tuple xs) :=
  fun hj => h (fromJsonField_tuple_arity tbl ts j xs hj)

/-- "nested object fields are not None" is necessary: `toJson` raises on such a field
(`None.toJson()`, `AttributeError`), although `fromJson` would accept `null` there -/
theorem C15_none_object_rejected (tbl : Table) (c : Str) :
    toJsonField tbl (.atom .none) (.basic (.obj c)) = .error .attributeError ∧
    (∀ fs, assoc tbl.classes c = some fs →
      fromJsonField tbl (.atom .none) (.basic (.obj c)) = .ok (.atom .none)) := by
  refine ⟨toJsonField_none_obj tbl c, ?_⟩
  intro fs hfs
  simp [fromJsonField, atomConv, hfs]

/-! ### non-vacuity: a concrete table and values -/

namespace C15Ex

def s (x : String) : Str := x.toList

/-- classes `Inner {n: int}` and `P {pos: Tuple[int,str], facing: Dir, m: Dict[int,Inner],
st: Set[Dir]}`, enum `Dir {LEFT = 1, RIGHT = 2}` -/
def tbl : Table := {
  classes := [(s "Inner", [⟨s "n", .basic .int, .atom (.int 0)⟩]),
              (s "P", [⟨s "pos", .tuple [.int, .str], .tuple []⟩,
                       ⟨s "facing", .basic (.enum (s "Dir")), .enum (s "Dir") 1⟩,
                       ⟨s "m", .dict .int (.obj (s "Inner")), .dict []⟩,
                       ⟨s "st", .set (.enum (s "Dir")), .set []⟩])],
  enums := [(s "Dir", [(s "LEFT", 1), (s "RIGHT", 2)])] }

/-- `P(pos=(16,"é"), facing=Dir.RIGHT, m={-5: Inner(n=7)}, st={Dir.RIGHT, Dir.LEFT})` -/
def x : Val :=
  .obj (s "P") [.tuple [.atom (.int 16), .atom (.str (s "é"))], .enum (s "Dir") 2,
    .dict [(.atom (.int (-5)), .obj (s "Inner") [.atom (.int 7)])],
    .set [.enum (s "Dir") 2, .enum (s "Dir") 1]]

/-- the same with `pos = (16,)`: a tuple shorter than its annotation -/
def xShort : Val :=
  .obj (s "P") [.tuple [.atom (.int 16)], .enum (s "Dir") 2,
    .dict [(.atom (.int (-5)), .obj (s "Inner") [.atom (.int 7)])],
    .set [.enum (s "Dir") 2, .enum (s "Dir") 1]]

/-- the same with `facing = 3`, not a member of `Dir` -/
def xBadEnum : Val :=
  .obj (s "P") [.tuple [.atom (.int 16), .atom (.str (s "é"))], .enum (s "Dir") 3,
    .dict [], .set []]

/-- the hypothesis of the theorems is met by a value using tuple, enum, int-keyed dict of nested
objects and a set -/
example : WellTyped tbl (s "P") x := by decide

/-- ... and the conclusions are what evaluation gives on it -/
example : fromTo tbl (s "P") x = .ok x := by rfl
example : loadsDumps tbl (s "P") x = .ok x := by rfl
example : fromTo tbl (s "P") x = .ok x := C15_fromTo_eq _ _ _ (by decide)
example : loadsDumps tbl (s "P") x = .ok x := C15_loadsDumps_eq _ _ _ (by decide)

/-- the int key `-5` really is text after dumps/loads (so `C15_loads_dumps` is not `C15_from_to`) -/
example : (match dumpsLoads tbl x with
    | .ok (.obj [_, _, (_, .obj [(k, _)]), _]) => decide (k = .str (s "-5"))
    | _ => false) = true := by decide

/-- `WellTyped` is needed: a short tuple is not well typed, the round trip "succeeds" but pads
the tuple with `None`, which `str()` turns into the text `None` -/
example : wellTyped tbl (s "P") xShort = false := by decide
example : (match fromTo tbl (s "P") xShort with
    | .ok (.obj _ (.tuple [.atom (.int 16), .atom (.str t)] :: _)) => decide (t = s "None")
    | _ => false) = true := by decide

/-- a non-member enum value is not well typed and `toJson` raises `KeyError` -/
example : wellTyped tbl (s "P") xBadEnum = false := by decide
example : (match fromTo tbl (s "P") xBadEnum with
    | .error e => decide (e = .keyError)
    | .ok _ => false) = true := by decide

/-- hypotheses of `C15_tuple_arity_necessary` / `C15_toJson_injective` are met -/
example : [Val.atom (.int 16)].length ≠ [BTy.int, BTy.str].length := by decide
example : WellTyped tbl (s "P") x ∧ WellTyped tbl (s "P")
    (.obj (s "P") [.tuple [.atom (.int 0), .atom (.str [])], .enum (s "Dir") 1, .atom .none, .atom .none]) := by
  decide

/-- `tableOK` is needed as well: with a lower-case member name the name does not come back -/
example : wellTyped { tbl with enums := [(s "Dir", [(s "left", 1), (s "RIGHT", 2)])] } (s "P")
    (.obj (s "P") [.tuple [.atom (.int 1), .atom (.str [])], .enum (s "Dir") 1, .dict [], .set []])
    = false := by decide
example : (match fromTo { tbl with enums := [(s "Dir", [(s "left", 1), (s "RIGHT", 2)])] } (s "P")
      (.obj (s "P") [.tuple [.atom (.int 1), .atom (.str [])], .enum (s "Dir") 1, .dict [], .set []]) with
    | .error e => decide (e = .keyError)
    | .ok _ => false) = true := by decide

end C15Ex

end Mpgs.Json
