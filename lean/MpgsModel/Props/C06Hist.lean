import MpgsModel.Props.C06
/-!
# C06 over histories — any sequence of authentic fragments

`C06_fragment_step` is a one-step invariant; here it is folded over an arbitrary sequence of
arrivals (any order, any repetition, any interleaving of fragment ids, any arrival times, so any
pattern of context expiry): every message ever delivered by reassembly is the concatenation of the
fragments the peer produced for one of its sends, no exception is ever raised, and the reassembly
contexts stay consistent.
-/
namespace Mpgs.Conn
open Mpgs.Bytes Mpgs.Wire

/-- feed a sequence of (arrival time, message number, APP_FRAGMENT payload) to `_recvAppFragment` -/
def feedFrags : Conn → List (Int × Nat × Bytes) → Conn × List Event × List (Option Err)
  | c, [] => (c, [], [])
  | c, (t, m, f) :: rest =>
    let r := recvAppFragment c t m f
    let r2 := feedFrags r.1 rest
    (r2.1, r.2.1 ++ r2.2.1, r.2.2 :: r2.2.2)

theorem C06_fragments_history (sent : SentFrags) (c : Conn) (arrivals : List (Int × Nat × Bytes))
    (hinv : FragInv sent c) (hauth : ∀ a ∈ arrivals, AuthFrag sent a.2.2) :
    FragInv sent (feedFrags c arrivals).1 ∧
    (∀ e ∈ (feedFrags c arrivals).2.2, e = none) ∧
    ∀ s b, Event.deliver s b ∈ (feedFrags c arrivals).2.1 →
      ∃ fragId frags, sent fragId = some frags ∧ b = flatten frags := by
  induction arrivals generalizing c with
  | nil =>
    refine ⟨hinv, ?_, ?_⟩
    · intro e h; simp [feedFrags] at h
    · intro s b h; simp [feedFrags] at h
  | cons a rest ih =>
    obtain ⟨t, m, f⟩ := a
    have h1 := C06_fragment_step sent c t m f hinv (hauth (t, m, f) (List.mem_cons_self ..))
    have h2 := ih (recvAppFragment c t m f).1 h1.1 (fun x hx => hauth x (List.mem_cons_of_mem _ hx))
    simp only [feedFrags]
    refine ⟨h2.1, ?_, ?_⟩
    · intro e he
      rcases List.mem_cons.mp he with h | h
      · rw [h]; exact h1.2.1
      · exact h2.2.1 e h
    · intro s b hb
      rcases List.mem_append.mp hb with h | h
      · exact h1.2.2 s b h
      · exact h2.2.2 s b h

/-- a fresh connection has no reassembly context: the invariant holds at the start -/
theorem C06_fresh_inv (sent : SentFrags) (c : Conn) (h : c.recvFrags = []) : FragInv sent c := by
  intro x hx; rw [h] at hx; cases hx

end Mpgs.Conn
