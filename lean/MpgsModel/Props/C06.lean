import MpgsModel.Lemmas.Frag
import MpgsModel.Lemmas.Wire
/-!
# C06 — Fragmentation and reassembly preserve bytes; nothing is fabricated
-/
namespace Mpgs.Conn
open Mpgs.Bytes Mpgs.Wire

/-- **Split exactly.** For every payload and every size configuration with a non-empty fragment
size that fits (in particular every MTU ≥ 73), `FragmentSender.build` yields non-empty slices,
each of which fits one datagram together with its 6-byte prefix, whose concatenation is the
payload; a payload up to the limit gives at most `MAX_FRAGMENTS + 1` of them. -/
theorem C06_build_join (sz : Sizes) (hok : SizesOk sz) (p : Bytes) :
    let frags := splitFrags sz.maxPayload sz.maxFragment p.length p
    flatten frags = p ∧
    (∀ f ∈ frags, 1 ≤ f.length ∧ (fragPrefix 0 0 0 ++ f).length + 2 ≤ sz.maxPayload + 2) ∧
    (1 ≤ p.length → 1 ≤ frags.length) ∧
    (p.length ≤ sz.maxFragment * maxFragments → frags.length ≤ maxFragments + 1) := by
  obtain ⟨h1, h2⟩ := hok
  have := splitFrags_spec sz.maxPayload sz.maxFragment h1 h2 p.length p (Nat.le_refl _)
  obtain ⟨s1, s2, s3, s4⟩ := this
  refine ⟨s1, ?_, s4, ?_⟩
  · intro f hf
    have := s2 f hf
    simp only [fragPrefix, List.length_append, be16_length]
    omega
  · intro hlim
    -- n * mf ≤ |p| + mf ≤ mf * (maxFragments + 1)
    have h3 : (splitFrags sz.maxPayload sz.maxFragment p.length p).length * sz.maxFragment
        ≤ (maxFragments + 1) * sz.maxFragment := by
      rw [Nat.add_mul, Nat.one_mul, Nat.mul_comm maxFragments]; omega
    exact Nat.le_of_mul_le_mul_right h3 (by omega)

/-- a payload up to `MAX_PAYLOAD_SIZE` is not fragmented: exactly one APP message with the
payload itself is queued -/
theorem C06_no_fragment_below_limit (sz : Sizes) (c : Conn) (p : Bytes) (retry : Int) (cb : Option Nat)
    (hr : retry = 0 ∨ retry = 1 ∨ retry = -1) (hst : c.status = .connected) (hlen : p.length ≤ sz.maxPayload) :
    ∃ m, (send sz c p retry cb).1.outgoing = c.outgoing ++ [m] ∧ m.ty = .app ∧ m.payload = p ∧
      (send sz c p retry cb).2 = none := by
  have h1 : ¬ (retry ≠ 0 ∧ retry ≠ 1 ∧ retry ≠ -1) := by omega
  have h2 : ¬ (p.length > sz.maxPayload) := by omega
  simp only [send, h1, if_false, hst, ne_eq, not_true_eq_false, h2]
  unfold sendType
  split <;> exact ⟨_, rfl, rfl, rfl, trivial⟩

/-- a payload above the fragmentation limit is refused with ValueError and nothing is queued -/
theorem C06_refuse_above_limit (sz : Sizes) (c : Conn) (p : Bytes) (retry : Int) (cb : Option Nat)
    (hr : retry = 0 ∨ retry = 1 ∨ retry = -1) (hst : c.status = .connected)
    (hbig : p.length > sz.maxPayload) (hlim : p.length > sz.maxFragment * maxFragments) :
    (send sz c p retry cb).2 = some .valueError ∧ (send sz c p retry cb).1.outgoing = c.outgoing := by
  have h1 : ¬ (retry ≠ 0 ∧ retry ≠ 1 ∧ retry ≠ -1) := by omega
  simp only [send, h1, if_false, hst, ne_eq, not_true_eq_false, hbig, if_true, sendFragmented, hlim]
  exact ⟨trivial, trivial⟩

/-! ### the receiving side -/

theorem parse_prefix (a b c : Nat) (ha : a < 65536) (hb : b < 65536) (hc : c < 65536) (f : Bytes) :
    (take 6 (fragPrefix a b c ++ f)).length = 6 ∧ beVal (slice 0 2 (fragPrefix a b c ++ f)) = a ∧
    beVal (slice 2 4 (fragPrefix a b c ++ f)) = b ∧ beVal (slice 4 6 (fragPrefix a b c ++ f)) = c ∧
    drop 6 (fragPrefix a b c ++ f) = f := by
  have e1 := beVal_be16 a ha
  have e2 := beVal_be16 b hb
  have e3 := beVal_be16 c hc
  simp [fragPrefix, be16, take, slice, drop] at *
  exact ⟨e1, e2, e3⟩

/-- what the peer's fragment senders produced, by fragment id -/
abbrev SentFrags := Nat → Option (List Bytes)

/-- an APP_FRAGMENT payload produced by `FragmentSender` for a message of `sent` -/
def AuthFrag (sent : SentFrags) (frag : Bytes) : Prop :=
  ∃ fragId idx frags f, sent fragId = some frags ∧ frags[idx]? = some f ∧ frags.length < 65536 ∧
    fragId < 65536 ∧ frag = fragPrefix fragId (1 + idx) frags.length ++ f

/-- every reassembly context holds, in each filled slot, the fragment of that index of the message
sent under that id -/
def FragInv (sent : SentFrags) (c : Conn) : Prop :=
  ∀ x ∈ c.recvFrags, ∃ frags, sent x.1 = some frags ∧ SlotsOf frags x.2.slots

theorem mem_of_aget {α : Type} (l : List (Nat × α)) (k : Nat) (v : α) (h : aget l k = some v) : (k, v) ∈ l := by
  induction l with
  | nil => simp [aget] at h
  | cons x l ih =>
    obtain ⟨a, w⟩ := x
    simp only [aget] at h
    by_cases e : a = k
    · simp only [e, if_true, Option.some.injEq] at h; subst h; subst e; simp
    · simp only [e, if_false] at h; simp [ih h]

theorem mem_aset {α : Type} (l : List (Nat × α)) (k : Nat) (v : α) (x : Nat × α) (h : x ∈ aset l k v) :
    x = (k, v) ∨ x ∈ l := by
  induction l with
  | nil => simp [aset] at h; exact Or.inl h
  | cons y l ih =>
    obtain ⟨a, w⟩ := y
    simp only [aset] at h
    split at h
    · rename_i e
      simp only [List.mem_cons] at h
      rcases h with h | h
      · left; rw [h, e]
      · right; simp [h]
    · simp only [List.mem_cons] at h
      rcases h with h | h
      · right; simp [h]
      · rcases ih h with h | h
        · exact Or.inl h
        · right; simp [h]

theorem mem_adel {α : Type} (l : List (Nat × α)) (k : Nat) (x : Nat × α) (h : x ∈ adel l k) : x ∈ l := by
  induction l with
  | nil => simp [adel] at h
  | cons y l ih =>
    obtain ⟨a, w⟩ := y
    simp only [adel] at h
    split at h
    · simp [h]
    · simp only [List.mem_cons] at h
      rcases h with h | h
      · simp [h]
      · simp [ih h]

theorem mem_expire (t : Int) (l : List (Nat × FragRecv)) (x : Nat × FragRecv) (h : x ∈ expireFrags t l) : x ∈ l := by
  induction l with
  | nil => simp [expireFrags] at h
  | cons y l ih =>
    obtain ⟨a, w⟩ := y
    simp only [expireFrags] at h
    split at h
    · simp [ih h]
    · simp only [List.mem_cons] at h
      rcases h with h | h
      · simp [h]
      · simp [ih h]

/-- **Nothing is fabricated.** If every reassembly context is consistent with what the peer sent
and an authentic fragment arrives, then the contexts stay consistent, no exception is raised, and
any message delivered is the concatenation of the fragments the peer produced for that id — which
by `C06_build_join` is exactly the payload the peer application passed to `send`.  Arrival order,
repetition, interleaving with other ids and expiry of contexts are arbitrary (expiry can only
suppress a delivery, never alter one). -/
theorem C06_fragment_step (sent : SentFrags) (c : Conn) (t : Int) (mseq : Nat) (frag : Bytes)
    (hinv : FragInv sent c) (hauth : AuthFrag sent frag) :
    FragInv sent (recvAppFragment c t mseq frag).1 ∧ (recvAppFragment c t mseq frag).2.2 = none ∧
    ∀ s b, Event.deliver s b ∈ (recvAppFragment c t mseq frag).2.1 →
      ∃ fragId frags, sent fragId = some frags ∧ b = flatten frags := by
  obtain ⟨fragId, idx, frags, f, hsent, hidx, hn, hid, rfl⟩ := hauth
  have hidx' : idx < frags.length := by
    rw [List.getElem?_eq_some_iff] at hidx; exact hidx.1
  obtain ⟨p1, p2, p3, p4, p5⟩ := parse_prefix fragId (1 + idx) frags.length hid (by omega) hn f
  -- the updated context is consistent with `frags`
  have hupd : SlotsOf frags (fragUpdate c t mseq (fragPrefix fragId (1 + idx) frags.length ++ f)).slots := by
    unfold fragUpdate
    simp only [p2, p3, p4, p5]
    cases hg : aget c.recvFrags fragId with
    | none =>
      simp only
      have h0 := slotsOf_replicate frags
      have : 1 ≤ 1 + idx ∧ 1 + idx ≤ (List.replicate frags.length (none : Option Bytes)).length := by
        simp; omega
      simp only [this, and_self, if_true]
      have e : 1 + idx - 1 = idx := by omega
      rw [e]
      exact slotsOf_setSlot frags _ idx f h0 hidx
    | some r =>
      simp only
      obtain ⟨frags', hs', hslots⟩ := hinv (fragId, r) (mem_of_aget _ _ _ hg)
      simp only at hs' hslots
      rw [hsent] at hs'; injection hs' with hs'; subst hs'
      have : 1 ≤ 1 + idx ∧ 1 + idx ≤ r.slots.length := by rw [hslots.1]; omega
      simp only [this, and_self, if_true]
      have e : 1 + idx - 1 = idx := by omega
      rw [e]
      exact slotsOf_setSlot frags _ idx f hslots hidx
  unfold recvAppFragment
  have hnot : ¬ ((take 6 (fragPrefix fragId (1 + idx) frags.length ++ f)).length < 6) := by omega
  simp only [hnot, if_false, p2]
  split
  · rename_i hcomp
    refine ⟨?_, rfl, ?_⟩
    · intro x hx
      simp only [fragDeliver] at hx
      have h1 := mem_adel _ _ _ (mem_expire _ _ _ hx)
      rcases mem_aset _ _ _ _ h1 with h2 | h2
      · rw [h2]; exact ⟨frags, hsent, hupd⟩
      · exact hinv x h2
    · intro s b hmem
      simp only [List.mem_singleton, Event.deliver.injEq] at hmem
      refine ⟨fragId, frags, hsent, ?_⟩
      rw [hmem.2]
      exact join_complete _ frags hupd.1 hupd.2 hcomp
  · refine ⟨?_, rfl, by intro s b h; simp at h⟩
    intro x hx
    simp only [fragStore] at hx
    rcases mem_aset _ _ _ _ (mem_expire _ _ _ hx) with h2 | h2
    · rw [h2]; exact ⟨frags, hsent, hupd⟩
    · exact hinv x h2

/-- all fragments of a message, in any order with any repetition, complete it: once every index
has been stored in a context consistent with `frags`, the context is complete and joins to the
whole payload (fragments are never empty, so `all(self.fragments)` sees them) -/
theorem C06_complete_when_all_present (frags : List Bytes) (s : List (Option Bytes))
    (hs : SlotsOf frags s) (hne : ∀ f ∈ frags, 1 ≤ f.length)
    (hall : ∀ i, i < frags.length → ∃ b, s[i]? = some (some b)) :
    slotsComplete s = true ∧ joinSlots s = flatten frags := by
  have hc : slotsComplete s = true := by
    unfold slotsComplete
    rw [List.all_eq_true]
    intro o ho
    obtain ⟨i, hi, hio⟩ := List.getElem_of_mem ho
    have hi' : i < frags.length := by rw [← hs.1]; exact hi
    obtain ⟨b, hb⟩ := hall i hi'
    have : s[i]? = some o := by rw [List.getElem?_eq_some_iff]; exact ⟨hi, hio⟩
    rw [this] at hb; injection hb with hb; subst hb
    have hf := hs.2 i b this
    have := hne b (List.mem_of_getElem? hf)
    cases b with
    | nil => simp at this
    | cons x xs => rfl
  exact ⟨hc, join_complete s frags hs.1 hs.2 hc⟩

/-! ### non-vacuity -/

example : SizesOk ⟨1500⟩ := sizes_ok_of_mtu ⟨1500⟩ (by decide)
example : SizesOk ⟨512⟩ := sizes_ok_of_mtu ⟨512⟩ (by decide)
example : (splitFrags 20 10 35 (List.replicate 35 7)).map List.length = [10, 10, 10, 5] := by decide
example : AuthFrag (fun i => if i = 3 then some [[1, 2], [3]] else none) (fragPrefix 3 2 2 ++ [3]) :=
  ⟨3, 1, [[1, 2], [3]], [3], rfl, rfl, by decide, by decide, rfl⟩

end Mpgs.Conn
