import MpgsModel.Lemmas.SeqNum
/-!
# C08 — Sequence-number ring and receive-window bookkeeping are exact

`ring p = (p-1) mod 65535 + 1` maps an absolute (unwrapped) position to the 16-bit sequence
number that travels on the wire.  All statements hold for every value — no sampling.
-/
namespace Mpgs.Seq

/-- `__add__`/`__sub__` are the ring image of integer addition: for every position and every
offset up to a whole ring in either direction the result is defined, lies in 1..65535 (never 0)
and is the number of the shifted position. -/
theorem C08_add_ring (p k : Int) (hk1 : -M ≤ k) (hk2 : k ≤ M) :
    add (ring p) k = .ok (ring (p + k)) ∧ sub (ring p) k = .ok (ring (p - k)) := by
  obtain ⟨q1, e1, a1, b1⟩ := ring_spec p
  obtain ⟨q2, e2, a2, b2⟩ := ring_spec (p + k)
  obtain ⟨q3, e3, a3, b3⟩ := ring_spec (p - k)
  simp only [M] at hk1 hk2
  generalize ring p = x at *
  generalize ring (p + k) = y at *
  generalize ring (p - k) = z at *
  simp only [add, sub, mk, wrap, M]
  constructor
  · split <;> split <;> (try split) <;> (try split) <;> first | omega | (congr 1; omega)
  · split <;> split <;> (try split) <;> (try split) <;> first | omega | (congr 1; omega)

/-- Range form: from any valid number (1..65535) any offset up to a ring length gives a valid
non-zero number; from the initial 0 any positive offset does. -/
theorem C08_add_range (a k : Int) (ha : 0 ≤ a) (ha2 : a ≤ M) (hk1 : -M ≤ k) (hk2 : k ≤ M)
    (h0 : a = 0 → 1 ≤ k) : ∃ r, add a k = .ok r ∧ 1 ≤ r ∧ r ≤ M := by
  simp only [M] at *
  simp only [add, mk, wrap, M]
  split <;> split <;> (try split) <;> (try split) <;>
    first | omega | exact ⟨_, rfl, by omega, by omega⟩

/-- the sequence number after `n` increments of a fresh counter (`seq += 1`, n times from 0) -/
def seqAfter : Nat → Except Err Int
  | 0 => .ok 0
  | n + 1 => match seqAfter n with
    | .ok s => add s 1
    | .error e => .error e

/-- Sequence numbers advance 1..65535 and back to 1, never 0: the n-th number is
`((n-1) mod 65535) + 1`, for every n ≥ 1. -/
theorem C08_succ_cycle (n : Nat) : seqAfter (n + 1) = .ok (((n : Int) % 65535) + 1) := by
  induction n with
  | zero => rfl
  | succ n ih =>
    rw [seqAfter, ih]
    simp only [add, mk, wrap, M]
    split <;> split <;> (try split) <;> (try split) <;> first | omega | (congr 1; omega)

/-- `diff` recovers the true distance of any two positions less than half a ring apart,
including across the wrap. -/
theorem C08_diff_exact (p q : Int) (h1 : p - q ≤ T) (h2 : -T ≤ p - q) :
    diff (ring p) (ring q) = p - q := diff_ring p q h1 h2

/-- value form: `diff (b ⊕ k) b = k` for every valid `b` and `|k| ≤ 32767` -/
theorem C08_diff_add (b k c : Int) (hb1 : 1 ≤ b) (hb2 : b ≤ M) (hk1 : -T ≤ k) (hk2 : k ≤ T)
    (h : add b k = .ok c) : diff c b = k := by
  have hb := ring_of_range b hb1 hb2
  have := (C08_add_ring b k (by simp only [M, T] at *; omega) (by simp only [M, T] at *; omega)).1
  rw [hb] at this
  rw [this] at h
  injection h with h
  rw [← h, ← hb]
  have := diff_ring (b + k) b (by omega) (by omega)
  rw [hb] at this ⊢
  rw [this]; omega

theorem C08_diff_antisymm (a b : Int) : diff a b = - diff b a := by
  rw [diff_def, diff_def]
  split <;> split <;> (try split) <;> (try split) <;> omega

/-- the three comparisons agree with the order of the absolute positions whenever the two
numbers are less than half the ring apart (hence are right across the wrap) -/
theorem C08_newer_iff (p q : Int) (h1 : p - q ≤ T) (h2 : -T ≤ p - q) :
    newerThan (ring p) (ring q) = decide (q < p) ∧
    lt (ring p) (ring q) = decide (p < q) ∧
    gt (ring p) (ring q) = decide (q < p) := by
  have e1 := diff_ring p q h1 h2
  have e2 := diff_ring q p (by omega) (by omega)
  simp only [newerThan, lt, gt, e1, e2]
  refine ⟨?_, ?_, ?_⟩ <;> (apply decide_eq_decide.mpr; omega)

/-- **Window = set.** For every width (positive multiple of 8) and every insertion history of
absolute positions, each within half a ring of the newest at its time: the real `BitField`
accepts / flags duplicate exactly as the set-of-accepted-positions specification does, and its
final `(current_seqnum, bits)` represents exactly the accepted positions among the `nbits` behind
the newest. -/
theorem C08_window_refines_set (nbits : Nat) (hpos : 0 < nbits) (ps : List Int)
    (hw : InWindow nbits ⟨none, []⟩ ps) :
    Rel (runBits ⟨nbits, 0, 0⟩ (ps.map ring)).1 (runAbs nbits ⟨none, []⟩ ps).1 ∧
    (runBits ⟨nbits, 0, 0⟩ (ps.map ring)).2 = (runAbs nbits ⟨none, []⟩ ps).2 := by
  have := rel_run ⟨nbits, 0, 0⟩ ⟨none, []⟩ ps hpos (by simp [Rel]) hw
  exact ⟨this.1, this.2.1⟩

/-- `contains s` is true exactly when `s` was accepted and lies at most `nbits` behind the
newest (for any state related to its specification, i.e. any reachable state). -/
theorem C08_contains_exact (b : BitField) (a : Abs) (c q : Int) (hb : 0 < b.nbits) (hR : Rel b a)
    (hc : a.cur = some c) (h1 : c - q ≤ T) (h2 : -T ≤ c - q) :
    b.contains (ring q) = decide (0 ≤ c - q ∧ c - q ≤ b.nbits ∧ q ∈ a.acc) :=
  rel_contains b a c q hb hR hc h1 h2

/-- a number is flagged duplicate exactly when it was already received inside the window:
`insert` raises DuplicationError iff `contains` held before, and otherwise accepts. -/
theorem C08_dup_iff_contains (b : BitField) (s : Int) (hne : b.cur ≠ 0) :
    (b.insert s = .error .duplication ↔ b.contains s = true) ∧
    (b.contains s = false → ∃ b', b.insert s = .ok b') := by
  simp only [BitField.insert, BitField.contains, hne, if_false]
  by_cases h0 : diff b.cur s = 0
  · simp [h0]
  · by_cases hneg : diff b.cur s < 0
    · have : ¬ (diff b.cur s > 0) := by omega
      simp only [hneg, if_true, h0, if_false, this]
      constructor
      · constructor
        · intro h; split at h <;> simp at h
        · intro h; simp at h
      · intro _; split <;> exact ⟨_, rfl⟩
    · have : diff b.cur s > 0 := by omega
      simp only [hneg, h0, if_false, this, if_true]
      constructor
      · constructor
        · intro h; split at h
          · assumption
          · simp at h
        · intro h; simp [h]
      · intro h; simp [h]

/-- **Ack fields are exact.** The test the peer applies to the header fields
`(ack, ack_bits) = (bitfield_pkt.current_seqnum, bitfield_pkt.bits)` names a datagram `s` iff
`bitfield_pkt.contains s` held when the header was built (32-bit window). -/
theorem C08_ack_fields_exact (ack : Int) (bits : Nat) (s : Int) :
    ackNames ack bits s = (⟨32, bits, ack⟩ : BitField).contains s := by
  simp only [ackNames, BitField.contains, BitField.onehot]
  by_cases h0 : diff ack s = 0
  · simp [h0]
  · by_cases hpos : diff ack s > 0
    · have h1 : 1 ≤ diff ack s := by omega
      simp only [h0, hpos, if_true, if_false, decide_false, Bool.false_or, h1, decide_true,
        Bool.true_and]
      have hk : (((diff ack s).toNat : Nat) : Int) = diff ack s := by omega
      generalize (diff ack s).toNat = k at hk
      by_cases hk32 : k ≤ 32
      · have : diff ack s ≤ 32 := by omega
        have e : (0x80000000 : Nat) = 1 <<< (32 - 1) := by decide
        simp only [this, decide_true, Bool.true_and, e, Nat.and_comm]
      · have : ¬ diff ack s ≤ 32 := by omega
        rw [onehot_shift_big 32 k (by omega) (by omega)]
        simp [this]
    · have h1 : ¬ (1 ≤ diff ack s) := by omega
      simp [h0, hpos, h1]

/-! ### non-vacuity -/

example : InWindow 32 ⟨none, []⟩ [65530, 65534, 65531, 65540, 65534, 65500] := by
  simp [InWindow, Abs.insert, T]
example : (runBits ⟨32, 0, 0⟩ ([65530, 65534, 65531, 65540, 65534, 65500].map ring)).2
    = [true, true, true, true, false, true] := by decide
example : add 65535 1 = .ok 1 ∧ sub 1 1 = .ok 65535 ∧ diff 3 65533 = 5 := ⟨rfl, rfl, rfl⟩

end Mpgs.Seq
