/-
C04 at the server loop: `handle_message` is reached only through the dispatch of the connected branch, which hands over
every queued message exactly once and leaves the queue empty; a datagram for a half-open or unknown address produces no
message event at all (whatever it carries besides the challenge response stays queued for the next dispatch).
-/
import MpgsModel.Model.Server
import MpgsModel.Lemmas.Lifecycle

namespace Mpgs.Server
open Mpgs Mpgs.Conn Mpgs.Wire

/-- the message events of an event list -/
def msgEvents : List SEvent → List (Nat × Nat × Bytes)
  | [] => []
  | .message id sq p :: r => (id, sq, p) :: msgEvents r
  | _ :: r => msgEvents r

@[simp] theorem msgEvents_append (a b : List SEvent) : msgEvents (a ++ b) = msgEvents a ++ msgEvents b := by
  induction a with
  | nil => rfl
  | cons e r ih => cases e <;> simp [msgEvents, ih]

/-- dispatch empties the queue -/
theorem C04_loop_dispatch_clears (sz : Sizes) (id : Nat) (c : Conn) (msgs : List (Nat × Bytes)) (acts : List HAct) :
    (dispatchMsgs sz id c msgs acts).1.incoming = [] := by
  induction msgs generalizing c acts with
  | nil => simp [dispatchMsgs]
  | cons m rest ih =>
    obtain ⟨sq, p⟩ := m
    simp only [dispatchMsgs]
    exact ih _ _

/-- dispatch hands over every queued message exactly once, in order, under the connection's identity -/
theorem C04_loop_dispatch_once (sz : Sizes) (id : Nat) (c : Conn) (msgs : List (Nat × Bytes)) (acts : List HAct) :
    msgEvents (dispatchMsgs sz id c msgs acts).2.2 = msgs.map (fun m => (id, m.1, m.2)) := by
  induction msgs generalizing c acts with
  | nil => simp [dispatchMsgs, msgEvents]
  | cons m rest ih =>
    obtain ⟨sq, p⟩ := m
    simp only [dispatchMsgs, List.map_cons]
    have := ih (actOn sz c (nextAct acts).1) (nextAct acts).2
    split <;> simp_all [msgEvents]

/-- a datagram for an address that is not in the connected pool - half-open or unknown - reaches `handle_message` with nothing,
    whatever it carries: for every datagram, pool content, handler behaviour and clock -/
theorem C04_loop_halfopen_no_dispatch (sz : Sizes) (C : Crypto) (s : Srv) (t : Int) (it : Item) (acts : List HAct)
    (h : pget s.conns it.addr = none) :
    msgEvents (handleItem sz C s t it acts).2.2 = [] := by
  unfold handleItem
  simp only [h]
  split
  · split
    · rfl
    · split
      · split <;> (try split) <;> simp [msgEvents]
      · split <;> simp [msgEvents]
  · split
    · rfl
    · split <;> simp [msgEvents]

/-- a datagram for a connected address: the message events of the step are exactly the connection's queue after the receive step,
    each entry once, and the connection is stored with an empty queue (so the next step cannot hand any of them over again);
    when the receive step raised, nothing is handed over -/
theorem C04_loop_connected_dispatch (sz : Sizes) (C : Crypto) (s : Srv) (t : Int) (it : Item) (acts : List HAct) (e : Ent)
    (h : pget s.conns it.addr = some e) :
    let r := recvDatagram C (serverRole it.H (tokFor s it) ((pget s.temps it.addr).map (·.conn.token))) e.conn t it.hdr it.d
    (msgEvents (handleItem sz C s t it acts).2.2 = [] ∨
      (msgEvents (handleItem sz C s t it acts).2.2 = r.1.incoming.map (fun m => (e.id, m.1, m.2)) ∧
       ((pget (handleItem sz C s t it acts).1.conns it.addr).map (·.conn.incoming)) = some [])) := by
  intro r
  unfold handleItem
  simp only [h]
  split
  · left; simp [msgEvents]
  · right
    refine ⟨C04_loop_dispatch_once sz e.id _ _ acts, ?_⟩
    simp only [lc_pget_pset_self, Option.map_some, C04_loop_dispatch_clears]

/-! non-vacuity: two queued messages give exactly two message events, under the connection's identity, in order -/
example (sz : Sizes) (c : Conn) :
    msgEvents (dispatchMsgs sz 7 c [(3, [1, 2]), (4, [])] []).2.2 = [(7, 3, [1, 2]), (7, 4, [])] := by
  simpa using C04_loop_dispatch_once sz 7 c [(3, [1, 2]), (4, [])] []

end Mpgs.Server
