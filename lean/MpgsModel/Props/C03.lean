import MpgsModel.Lemmas.Nonce
/-!
# C03 — AES-GCM nonces never repeat; nothing but the hellos travels in clear

The nonce of a sealed datagram is bytes 0..11 of its header: direction magic (4), whole seconds
of the send time (4), datagram sequence number (2), ack (2).
-/
namespace Mpgs.Conn
open Mpgs.Bytes Mpgs.Wire Mpgs.Seq

/-- **Sealed after key agreement.** Whenever a key is set, every packet except SERVER_HELLO is
emitted as `header ++ seal(key, nonce = header[0:12], aad = header[0:20], plaintext)`: the whole
20-byte header is authenticated and the payload never appears in clear. -/
theorem C03_sealed_after_key (C : Crypto) (key : Option Bytes) (k : Bytes) (p : Packet) (d : Bytes)
    (hk : keyed key = some k) (hty : p.hdr.ptype ≠ .serverHello) (hd : toBytes C key p = .ok d) :
    ∃ hb, encodeHdr p.hdr = .ok hb ∧ hb.length = 20 ∧ d = hb ++ C.aseal k (take 12 hb) hb p.msg := by
  unfold toBytes at hd
  cases he : encodeHdr p.hdr with
  | error e => simp [he] at hd
  | ok hb =>
    simp only [he, hk] at hd
    have : (p.hdr.ptype != PType.serverHello) = true := by simpa using hty
    simp only [this, if_true] at hd
    injection hd with hd
    exact ⟨hb, rfl, encodeHdr_length p.hdr hb he, hd.symm⟩

/-- **Clear form only for the hellos.** A datagram that is not sealed was emitted either without
a key (the client hello, before key agreement) or is the signed SERVER_HELLO. -/
theorem C03_clear_is_prekey_or_server_hello (C : Crypto) (key : Option Bytes) (p : Packet) (d hb : Bytes)
    (he : encodeHdr p.hdr = .ok hb) (hd : toBytes C key p = .ok d)
    (hclear : d = hb ++ p.msg ++ be32 (crc32 (hb ++ p.msg))) (hdiff : ∀ k, d ≠ hb ++ C.aseal k (take 12 hb) hb p.msg) :
    keyed key = none ∨ p.hdr.ptype = .serverHello := by
  cases hk : keyed key with
  | none => exact Or.inl rfl
  | some k =>
    right
    apply Classical.byContradiction
    intro hty
    obtain ⟨hb', he', _, hd'⟩ := C03_sealed_after_key C key k p d hk hty hd
    rw [he] at he'; injection he' with he'; subst he'
    exact hdiff k hd'

/-- the nonce determines direction, second, sequence number and ack: two headers with the same
first 12 bytes agree on all four -/
theorem C03_nonce_fields (h1 h2 : Header) (b1 b2 : Bytes) (w1 : WfHdr h1) (w2 : WfHdr h2)
    (e1 : encodeHdr h1 = .ok b1) (e2 : encodeHdr h2 = .ok b2) (hn : take 12 b1 = take 12 b2) :
    h1.isServer = h2.isServer ∧ h1.ctime = h2.ctime ∧ h1.seq = h2.seq ∧ h1.ack = h2.ack := by
  have d1 := hdr_roundtrip h1 w1 [] b1 e1
  have d2 := hdr_roundtrip h2 w2 [] b2 e2
  rw [encodeHdr_ok h1 w1] at e1
  rw [encodeHdr_ok h2 w2] at e2
  injection e1 with e1
  injection e2 with e2
  obtain ⟨a1, a2, a3, _, _, _⟩ := w1
  obtain ⟨c1, c2, c3, _, _, _⟩ := w2
  subst e1 e2
  have x1 := beVal_be32 h1.ctime a1
  have x2 := beVal_be16 h1.seq a2
  have x3 := beVal_be16 h1.ack a3
  have y1 := beVal_be32 h2.ctime c1
  have y2 := beVal_be16 h2.seq c2
  have y3 := beVal_be16 h2.ack c3
  cases hs1 : h1.isServer <;> cases hs2 : h2.isServer <;>
    simp [magicToClient, magicToServer, be32, be16, be8, take, hs1, hs2] at hn x1 x2 x3 y1 y2 y3 ⊢ <;>
    (obtain ⟨n1, n2, n3, n4, n5, n6, n7, n8⟩ := hn
     rw [n1, n2, n3, n4] at x1; rw [n5, n6] at x2; rw [n7, n8] at x3
     exact ⟨by omega, by omega, by omega⟩)

/-! ### histories -/

/-- the emission (sequence number, clock value) of a step, if it emits -/
def emitOf (E : Env) (c : Conn) : Op → Option (Nat × Int)
  | .build t => match buildPacket E.sz c t with
    | (_, .ok (some pkt)) => some (pkt.hdr.seq, t)
    | _ => none
  | _ => none

def emitLog (E : Env) (c : Conn) : List Op → List (Nat × Int)
  | [] => []
  | op :: ops => (emitOf E c op).toList ++ emitLog E (step E c op).1 ops

/-- no `_build_packet` call of the history raised (guaranteed by `C09_build_total`) -/
def NoBuildErr (E : Env) (c : Conn) : List Op → Prop
  | [] => True
  | op :: ops =>
    (match op with
     | .build t => ∀ e, (buildPacket E.sz c t).2 ≠ .error e
     | _ => True) ∧ NoBuildErr E (step E c op).1 ops

theorem create_hdr (h : Header) (ms : List WMsg) (p : Packet) (hc : create h ms = .ok p) :
    p.hdr.seq = h.seq ∧ p.hdr.ctime = h.ctime ∧ p.hdr.isServer = h.isServer ∧ p.hdr.ptype = h.ptype ∧
    p.hdr.ack = h.ack ∧ p.hdr.ackBits = h.ackBits := by
  unfold create at hc
  split at hc
  · injection hc with hc; subst hc; exact ⟨rfl, rfl, rfl, rfl, rfl, rfl⟩
  · split at hc
    · injection hc with hc; subst hc; exact ⟨rfl, rfl, rfl, rfl, rfl, rfl⟩
    · simp at hc
  · split at hc
    · injection hc with hc; subst hc; exact ⟨rfl, rfl, rfl, rfl, rfl, rfl⟩
    · simp at hc

theorem buildImpl_some (sz : Sizes) (c : Conn) (t delay : Int) (ska : Bool) (pkt : Packet)
    (hi : (buildPacketImpl sz c t ska delay).2 = .ok (some pkt)) :
    (buildPacketImpl sz c t ska delay).1.seqSending = seqInc c.seqSending ∧
    (buildPacketImpl sz c t ska delay).1.sendInterval = c.sendInterval ∧
    pkt.hdr.seq = seqInc c.seqSending ∧ pkt.hdr.ctime = (t / 1024).toNat ∧ pkt.hdr.isServer = c.isServer := by
  unfold buildPacketImpl at hi ⊢
  simp only at hi ⊢
  split at hi
  · simp at hi
  · rename_i hty
    simp only [hty, if_false]
    split at hi
    · rename_i pk hcr
      simp only [hcr]
      injection hi with hi; injection hi with hi; subst hi
      have := create_hdr _ _ _ hcr
      exact ⟨rfl, rfl, this.1, this.2.1, this.2.2.1⟩
    · simp at hi

theorem buildImpl_none (sz : Sizes) (c : Conn) (t delay : Int) (ska : Bool)
    (hi : (buildPacketImpl sz c t ska delay).2 = .ok none) :
    sc (buildPacketImpl sz c t ska delay).1 = sc c := by
  unfold buildPacketImpl at hi ⊢
  simp only at hi ⊢
  split at hi
  · rename_i hty; simp only [hty, if_true]; rfl
  · split at hi <;> simp at hi

theorem buildPacket_facts (sz : Sizes) (c c' : Conn) (t : Int) (pkt : Packet)
    (hb : buildPacket sz c t = (c', .ok (some pkt))) :
    t - c.lastSend ≥ c.sendInterval ∧ c'.seqSending = seqInc c.seqSending ∧ c'.lastSend = t ∧
    pkt.hdr.seq = seqInc c.seqSending ∧ pkt.hdr.ctime = (t / 1024).toNat ∧ pkt.hdr.isServer = c.isServer ∧
    c'.sendInterval = c.sendInterval := by
  unfold buildPacket at hb
  split at hb
  · simp at hb
  · rename_i hguard
    split at hb
    · rename_i pk hr
      injection hb with hb1 hb2
      injection hb2 with hb2; injection hb2 with hb2; subst hb2
      have := buildImpl_some sz c t c.keepAlive _ pk hr
      rw [← hb1]
      exact ⟨by omega, this.1, rfl, this.2.2.1, this.2.2.2.1, this.2.2.2.2, this.2.1⟩
    · rename_i other hno
      injection hb with _ hb2
      exact absurd hb2 (hno pkt)

theorem buildPacket_none (sz : Sizes) (c c' : Conn) (t : Int)
    (hb : buildPacket sz c t = (c', .ok none)) : sc c' = sc c := by
  unfold buildPacket at hb
  split at hb
  · injection hb with hb1 _; rw [← hb1]
  · split at hb
    · simp at hb
    · injection hb with hb1 hb2
      rw [← hb1]
      exact buildImpl_none sz c t c.keepAlive _ hb2

/-- what a single step does to the sender clock: either it is an emitting build (next ring
sequence number, clock value recorded, at least `send_interval` after the previous emission), or
the sender clock is untouched -/
theorem step_cases (E : Env) (hR : E.R.KeepsClock) (c : Conn) (op : Op)
    (hop : match op with
      | .build t => ∀ e, (buildPacket E.sz c t).2 ≠ .error e
      | _ => True) :
    (∃ t, emitOf E c op = some (seqInc c.seqSending, t) ∧ (step E c op).1.seqSending = seqInc c.seqSending ∧
          (step E c op).1.lastSend = t ∧ t - c.lastSend ≥ c.sendInterval ∧
          (step E c op).1.sendInterval = c.sendInterval) ∨
    (emitOf E c op = none ∧ sc (step E c op).1 = sc c) := by
  cases op with
  | send p r cb =>
    right; refine ⟨rfl, ?_⟩
    simp only [step]
    have := sc_send E.sz c p r cb
    split <;> simp_all
  | build t =>
    cases hbp : buildPacket E.sz c t with
    | mk c' r =>
      cases r with
      | error x => exact absurd (by rw [hbp]) (hop x)
      | ok o =>
        cases o with
        | none =>
          right
          refine ⟨by simp [emitOf, hbp], ?_⟩
          simp only [step, hbp]
          exact buildPacket_none E.sz c c' t hbp
        | some pkt =>
          left
          have hf := buildPacket_facts E.sz c c' t pkt hbp
          have hc' : (step E c (.build t)).1 = c' := by
            simp only [step, hbp]; split <;> rfl
          refine ⟨t, ?_, ?_, ?_, hf.1, ?_⟩
          · simp [emitOf, hbp, hf.2.2.2.1]
          · rw [hc']; exact hf.2.1
          · rw [hc']; exact hf.2.2.1
          · rw [hc']; exact hf.2.2.2.2.2.2
  | recv t h d => right; exact ⟨rfl, sc_recvDatagram E.C E.R hR c t h d⟩
  | tmo t => right; exact ⟨rfl, sc_checkTimeout c t⟩
  | disconnect cb => right; exact ⟨rfl, sc_disconnect c cb⟩
  | take => right; exact ⟨rfl, rfl⟩

/-- **The emission log is a chain.** From any state, along any operation history in which no build
raised, consecutive emissions carry consecutive ring sequence numbers and are at least
`send_interval` apart in time — whatever else happens in between (sends, receptions, time-outs,
disconnects, handshake messages). -/
theorem emitLog_chain (E : Env) (hR : E.R.KeepsClock) (ops : List Op) (c : Conn)
    (last : Option (Nat × Int)) (hlast : ∀ e, last = some e → e = (c.seqSending, c.lastSend))
    (hne : NoBuildErr E c ops) :
    Chain c.sendInterval (last.toList ++ emitLog E c ops) := by
  induction ops generalizing c last with
  | nil => cases last <;> simp [emitLog, Chain]
  | cons op ops ih =>
    obtain ⟨hop, hrest⟩ := hne
    simp only [emitLog]
    rcases step_cases E hR c op hop with ⟨t, he, h1, h2, h3, h4⟩ | ⟨he, hsc⟩
    · have ih' := ih (step E c op).1 (some (seqInc c.seqSending, t)) (by
        intro e' he'; injection he' with he'; subst he'; rw [h1, h2]) hrest
      rw [h4] at ih'
      rw [he]
      cases last with
      | none => simpa using ih'
      | some l =>
        have hl := hlast l rfl
        simp only [Option.toList, List.cons_append, List.nil_append] at ih' ⊢
        refine ⟨?_, ?_, ih'⟩
        · rw [hl]
        · rw [hl]; simp only; omega
    · simp only [he, Option.toList, List.nil_append]
      have hsi : (step E c op).1.sendInterval = c.sendInterval := congrArg SClock.sendInterval hsc
      have := ih (step E c op).1 last (by
        intro e he'
        rw [hlast e he']
        have h1 : (step E c op).1.seqSending = c.seqSending := congrArg SClock.seqSending hsc
        have h2 : (step E c op).1.lastSend = c.lastSend := congrArg SClock.lastSend hsc
        rw [h1, h2]) hrest
      rw [hsi] at this
      exact this

/-- every logged sequence number is a valid one: 1..65535, never 0 -/
theorem emitLog_valid (E : Env) (hR : E.R.KeepsClock) (ops : List Op) (c : Conn)
    (hs : c.seqSending ≤ 65535) (hne : NoBuildErr E c ops) :
    ∀ e ∈ emitLog E c ops, 1 ≤ e.1 ∧ e.1 ≤ 65535 := by
  induction ops generalizing c with
  | nil => intro e he; simp [emitLog] at he
  | cons op ops ih =>
    obtain ⟨hop, hrest⟩ := hne
    simp only [emitLog]
    have hinc := seqInc_eq c.seqSending hs
    rcases step_cases E hR c op hop with ⟨t, he, h1, _, _, _⟩ | ⟨he, hsc⟩
    · intro e hmem
      rw [he] at hmem
      simp only [Option.toList, List.cons_append, List.nil_append, List.mem_cons] at hmem
      rcases hmem with rfl | hmem
      · exact ⟨hinc.2.1, hinc.2.2⟩
      · exact ih _ (by rw [h1]; exact hinc.2.2) hrest e hmem
    · intro e hmem
      simp only [he, Option.toList, List.nil_append] at hmem
      have h1 : (step E c op).1.seqSending = c.seqSending := congrArg SClock.seqSending hsc
      exact ih _ (by rw [h1]; exact hs) hrest e hmem

/-- **Nonces never repeat within a direction.** For every history from a connection whose
datagram counter is in range (a fresh one has 0) in which no build raised, with a send interval
under which 65535 datagrams take at least one second: no two emissions share (sequence number,
whole second) — hence no two sealed datagrams of this endpoint share a nonce, across keep-alives,
retransmissions and any number of sequence wrap-arounds. -/
theorem C03_nonce_never_repeats (E : Env) (hR : E.R.KeepsClock) (ops : List Op) (c : Conn)
    (hs : c.seqSending ≤ 65535) (hsi : 65535 * c.sendInterval ≥ 1024) (hne : NoBuildErr E c ops)
    (i j : Nat) (a b : Nat × Int) (hij : i < j)
    (ha : (emitLog E c ops)[i]? = some a) (hb : (emitLog E c ops)[j]? = some b) :
    ¬ (a.1 = b.1 ∧ a.2 / 1024 = b.2 / 1024) := by
  have hch := emitLog_chain E hR ops c none (by intro e h; simp at h) hne
  have hval := emitLog_valid E hR ops c hs hne
  simp only [Option.toList, List.nil_append] at hch
  generalize emitLog E c ops = log at *
  have hai := ha
  rw [List.getElem?_eq_some_iff] at hai
  obtain ⟨hi, hai⟩ := hai
  have hlog : log = log.take i ++ a :: log.drop (i + 1) := by
    rw [← hai]
    exact (List.take_append_drop i log).symm.trans (by rw [List.drop_eq_getElem_cons hi])
  have hpost : (log.drop (i + 1))[j - i - 1]? = some b := by
    rw [List.getElem?_drop]
    have : i + 1 + (j - i - 1) = j := by omega
    rw [this]; exact hb
  have hsub : ∀ (pre : List (Nat × Int)) (l : List (Nat × Int)), Chain c.sendInterval (pre ++ l) →
      Chain c.sendInterval l := by
    intro pre
    induction pre with
    | nil => intro l h; exact h
    | cons x pre ihp => intro l h; exact ihp l (chain_tail _ x _ h)
  have hchain_a : Chain c.sendInterval (a :: log.drop (i + 1)) := hsub (log.take i) _ (by rw [← hlog]; exact hch)
  have hvalid := hval a (by rw [← hai]; exact List.getElem_mem hi)
  intro ⟨e1, e2⟩
  exact chain_no_repeat c.sendInterval hsi a _ hvalid.2 hchain_a (j - i - 1) b hpost ⟨e1.symm, e2.symm⟩

/-- client and server nonces can never coincide: the first four bytes differ -/
theorem C03_directions_disjoint (h1 h2 : Header) (b1 b2 : Bytes) (hd : h1.isServer ≠ h2.isServer)
    (e1 : encodeHdr h1 = .ok b1) (e2 : encodeHdr h2 = .ok b2) : take 4 b1 ≠ take 4 b2 := by
  unfold encodeHdr at e1 e2
  split at e1 <;> split at e2
  · injection e1 with e1; injection e2 with e2; subst e1 e2
    cases hs1 : h1.isServer <;> cases hs2 : h2.isServer <;>
      simp [magicToClient, magicToServer, take, hs1, hs2] at hd ⊢
  all_goals simp at e1 e2

/-! ### non-vacuity -/

example : baseRole.KeepsClock := baseRole_keepsClock
example : (65535 : Int) * 16 ≥ 1024 := by decide      -- the protocol's 1/64 s send interval

end Mpgs.Conn
