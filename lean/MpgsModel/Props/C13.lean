import MpgsModel.Lemmas.SerialRound
import MpgsModel.Lemmas.SerialAccept
/-!
# C13 — Serializer: decode(encode(v)) == v and encodings are self-delimiting

Property theorems only (helper lemmas live in `Lemmas/Serial.lean`, `Lemmas/SerialRound.lean`).
The model is `Mpgs.Serial` (`Model/Serial.lean`): `encode` is `serialize_value` / `dumpb`,
`decode` is `deserialize_value` / `loadb` on a byte string, returning the value and the unread
rest of the stream.  `env` carries the registry (any), the handshake constants and the crypto
oracles (not consulted for values of the default codec).
-/
namespace Mpgs.Serial

/-- Round trip with exact consumption.  For every value of the grammar whose classes are
registered (`InDomain`: well-typed against the registry, and Python can rebuild it at float32
precision), if the encoder accepts it, then decoding the encoding followed by ANY further bytes
yields the promised value `canon v` (floats at float32 precision, sets/dicts rebuilt from the
rounded elements, tuples are lists by construction) and leaves exactly those further bytes. -/
theorem C13_decode_encode (env : Env) (v : Value) (bs : Bytes)
    (hd : InDomain env v) (he : encode env v = .ok bs) :
    ∃ v', canon v = .ok v' ∧ ∀ rest, decode env (bs ++ rest) = .ok (v', rest) := by
  obtain ⟨hw, hc⟩ := hd
  cases hcv : canon v with
  | error e => simp [hcv, Except.isOk, Except.toBool] at hc
  | ok v' =>
    refine ⟨v', rfl, fun rest => ?_⟩
    exact dec_enc env v bs v' hw he hcv _ rest (by simp; omega)

/-- ... and for values that are their own canonical form (no double-precision-only floats,
set elements / dict keys pairwise distinct) the decoded value is the value itself. -/
theorem C13_decode_encode_canonical (env : Env) (v : Value) (bs : Bytes)
    (hw : wt false env.reg v = true) (hc : canon v = .ok v) (he : encode env v = .ok bs) :
    ∀ rest, decode env (bs ++ rest) = .ok (v, rest) :=
  fun rest => dec_enc env v bs v hw he hc _ rest (by simp; omega)

/-- Encodings are prefix-free (self-delimiting): if the encoding of one in-domain value is a
prefix of the encoding of another, the two encodings are the same bytes and the two values have
the same canonical form - no encoding can be mistaken for the beginning of another. -/
theorem C13_prefix_free (env : Env) (v1 v2 : Value) (b1 t : Bytes)
    (h1 : InDomain env v1) (h2 : InDomain env v2)
    (e1 : encode env v1 = .ok b1) (e2 : encode env v2 = .ok (b1 ++ t)) :
    t = [] ∧ canon v1 = canon v2 := by
  obtain ⟨c1, hc1, d1⟩ := C13_decode_encode env v1 b1 h1 e1
  obtain ⟨c2, hc2, d2⟩ := C13_decode_encode env v2 (b1 ++ t) h2 e2
  have a := d1 t
  have b := d2 []
  rw [List.append_nil] at b
  rw [a] at b
  injection b with b
  injection b with b1' b2'
  exact ⟨b2', by rw [hc1, hc2, b1']⟩

/-- encoder / canonical form lifted to a list of independent values -/
def encodeAll (env : Env) : List Value → Except Err (List Bytes)
  | [] => .ok []
  | v :: t => do
      let b ← encode env v
      let bs ← encodeAll env t
      .ok (b :: bs)

/-- Concatenated encodings decode one after another: `n` successive `deserialize_value` calls
on the concatenation of the encodings of `n` in-domain values return the `n` promised values in
order and stop exactly at the end (whatever follows is left unread). -/
theorem C13_concat (env : Env) : ∀ (vs : List Value) (bss : List Bytes) (vs' : List Value),
    (∀ v ∈ vs, wt false env.reg v = true) → encodeAll env vs = .ok bss → canonList vs = .ok vs' →
    ∀ rest, decodeMany env vs.length (bss.flatten ++ rest) = .ok (vs', rest)
  | [], bss, vs', _, he, hc, rest => by
    simp [encodeAll] at he; simp [canonList] at hc; subst he; subst hc
    simp [decodeMany]
  | v :: t, bss, vs', hw, he, hc, rest => by
    simp only [encodeAll, bind_eq_ok] at he; simp only [canonList, bind_eq_ok] at hc
    obtain ⟨b, hb, bs', hbs', he⟩ := he
    obtain ⟨y, hy, ys, hys, hc⟩ := hc
    injection he with he; injection hc with hc; subst he; subst hc
    have h1 : decode env (b ++ (bs'.flatten ++ rest)) = .ok (y, bs'.flatten ++ rest) :=
      dec_enc env v b y (hw v (by simp)) hb hy _ _ (by simp; omega)
    have h2 := C13_concat env t bs' ys (fun x hx => hw x (by simp [hx])) hbs' hys rest
    simp [decodeMany, List.flatten, h1, h2]

/-- byte width the encoder chooses for an integer, by `abs(value)` -/
def intWidth (i : Int) : Nat :=
  if i.natAbs > 0x7FFFFFFF then 8 else if i.natAbs > 0x7FFF then 4 else if i.natAbs > 0x7F then 2 else 1

/-- type id written for that width (int8_t=3, int16_t=4, int32_t=5, int64_t=6) -/
def intTag (i : Int) : UInt8 :=
  if i.natAbs > 0x7FFFFFFF then 6 else if i.natAbs > 0x7FFF then 5 else if i.natAbs > 0x7F then 4 else 3

/-- Width selection agrees with what the decoder reads, for EVERY 64-bit integer: the encoding
is the tag of the chosen width followed by exactly that many bytes, and the decoder returns the
integer and consumes exactly the encoding. -/
theorem C13_int_widths (env : Env) (i : Int)
    (h1 : -9223372036854775808 ≤ i) (h2 : i < 9223372036854775808) :
    ∃ payload, encode env (.int i) = .ok ([0, intTag i] ++ payload) ∧ payload.length = intWidth i ∧
      ∀ rest, decode env ([0, intTag i] ++ payload ++ rest) = .ok (.int i, rest) := by
  have key : ∀ bs, encode env (.int i) = .ok bs → ∀ rest, decode env (bs ++ rest) = .ok (.int i, rest) :=
    fun bs he rest => dec_enc env (.int i) bs (.int i) (by simp [wt]) he (by simp [canon]) _ rest (by simp; omega)
  by_cases c1 : i.natAbs > 0x7FFFFFFF
  · have he : encode env (.int i) = .ok ([0, 6] ++ be8 (twos i 8)) := by
      simp only [encode]; unfold encodeInt; simp only; rw [if_pos c1, if_pos ⟨h1, h2⟩]
    exact ⟨be8 (twos i 8), by simp [intTag, c1, he], by simp [intWidth, c1, be8],
      by simpa [intTag, c1] using key _ he⟩
  · by_cases c2 : i.natAbs > 0x7FFF
    · have he : encode env (.int i) = .ok ([0, 5] ++ be4 (twos i 4)) := by
        simp only [encode]; unfold encodeInt; simp only; rw [if_neg c1, if_pos c2]
      exact ⟨be4 (twos i 4), by simp [intTag, c1, c2, he], by simp [intWidth, c1, c2, be4],
        by simpa [intTag, c1, c2] using key _ he⟩
    · by_cases c3 : i.natAbs > 0x7F
      · have he : encode env (.int i) = .ok ([0, 4] ++ be2 (twos i 2)) := by
          simp only [encode]; unfold encodeInt; simp only; rw [if_neg c1, if_neg c2, if_pos c3]
        exact ⟨be2 (twos i 2), by simp [intTag, c1, c2, c3, he], by simp [intWidth, c1, c2, c3, be2],
          by simpa [intTag, c1, c2, c3] using key _ he⟩
      · have he : encode env (.int i) = .ok ([0, 3] ++ be1 (twos i 1)) := by
          simp only [encode]; unfold encodeInt; simp only; rw [if_neg c1, if_neg c2, if_neg c3]
        exact ⟨be1 (twos i 1), by simp [intTag, c1, c2, c3, he], by simp [intWidth, c1, c2, c3, be1],
          by simpa [intTag, c1, c2, c3] using key _ he⟩

/-- 8/16-bit boundary: 127 and -127 take one byte, 128, -128 and -129 take two; all come back. -/
theorem C13_int_boundary_8_16 (env : Env) :
    encode env (.int 127) = .ok [0, 3, 0x7F] ∧ encode env (.int (-127)) = .ok [0, 3, 0x81] ∧
    encode env (.int 128) = .ok [0, 4, 0x00, 0x80] ∧ encode env (.int (-128)) = .ok [0, 4, 0xFF, 0x80] ∧
    encode env (.int (-129)) = .ok [0, 4, 0xFF, 0x7F] ∧
    ∀ i ∈ [127, -127, 128, -128, -129], ∀ bs, encode env (.int i) = .ok bs →
      ∀ rest, decode env (bs ++ rest) = .ok (.int i, rest) :=
  ⟨rfl, rfl, rfl, rfl, rfl, fun i _ bs he rest =>
    dec_enc env (.int i) bs (.int i) (by simp [wt]) he (by simp [canon]) _ rest (by simp; omega)⟩

/-- 16/32-bit boundary. -/
theorem C13_int_boundary_16_32 (env : Env) :
    encode env (.int 32767) = .ok [0, 4, 0x7F, 0xFF] ∧ encode env (.int (-32767)) = .ok [0, 4, 0x80, 0x01] ∧
    encode env (.int 32768) = .ok [0, 5, 0, 0, 0x80, 0] ∧
    encode env (.int (-32768)) = .ok [0, 5, 0xFF, 0xFF, 0x80, 0] ∧
    ∀ i ∈ [32767, -32767, 32768, -32768, -32769], ∀ bs, encode env (.int i) = .ok bs →
      ∀ rest, decode env (bs ++ rest) = .ok (.int i, rest) :=
  ⟨rfl, rfl, rfl, rfl, fun i _ bs he rest =>
    dec_enc env (.int i) bs (.int i) (by simp [wt]) he (by simp [canon]) _ rest (by simp; omega)⟩

/-- 32/64-bit boundary (2**31 - 1 fits four bytes; 2**31 and -2**31 take eight). -/
theorem C13_int_boundary_32_64 (env : Env) :
    encode env (.int 2147483647) = .ok [0, 5, 0x7F, 0xFF, 0xFF, 0xFF] ∧
    encode env (.int (-2147483647)) = .ok [0, 5, 0x80, 0, 0, 1] ∧
    encode env (.int 2147483648) = .ok [0, 6, 0, 0, 0, 0, 0x80, 0, 0, 0] ∧
    encode env (.int (-2147483648)) = .ok [0, 6, 0xFF, 0xFF, 0xFF, 0xFF, 0x80, 0, 0, 0] ∧
    ∀ i ∈ [2147483647, -2147483647, 2147483648, -2147483648, -2147483649], ∀ bs,
      encode env (.int i) = .ok bs → ∀ rest, decode env (bs ++ rest) = .ok (.int i, rest) :=
  ⟨rfl, rfl, rfl, rfl, fun i _ bs he rest =>
    dec_enc env (.int i) bs (.int i) (by simp [wt]) he (by simp [canon]) _ rest (by simp; omega)⟩

/-- 64-bit boundary: 2**63 - 1 and -2**63 are the last values encoded, 2**63 and -2**63 - 1 the
first refused (`ValueError`). -/
theorem C13_int_boundary_64 (env : Env) :
    encode env (.int 9223372036854775807) = .ok [0, 6, 0x7F, 0xFF, 0xFF, 0xFF, 0xFF, 0xFF, 0xFF, 0xFF] ∧
    encode env (.int (-9223372036854775808)) = .ok [0, 6, 0x80, 0, 0, 0, 0, 0, 0, 0] ∧
    encode env (.int 9223372036854775808) = .error .valueError ∧
    encode env (.int (-9223372036854775809)) = .error .valueError ∧
    ∀ i ∈ [9223372036854775807, -9223372036854775808], ∀ bs, encode env (.int i) = .ok bs →
      ∀ rest, decode env (bs ++ rest) = .ok (.int i, rest) :=
  ⟨rfl, rfl, rfl, rfl, fun i _ bs he rest =>
    dec_enc env (.int i) bs (.int i) (by simp [wt]) he (by simp [canon]) _ rest (by simp; omega)⟩

/-- Values outside the domain are refused with an error, never encoded: integers beyond 64
bits (`ValueError`), `str` over 2**20 UTF-8 bytes (the accidental `NameError` of
serializable.py:213), `bytes` over 2**20 (`ValueError`), list/tuple, dict, set over 2**14
elements (`ValueError`), values of no supported type (`TypeError`). -/
theorem C13_refuse (env : Env) :
    (∀ i : Int, ¬ (-9223372036854775808 ≤ i ∧ i < 9223372036854775808) →
        encode env (.int i) = .error .valueError) ∧
    (∀ s, MAX_BYTES_LENGTH < s.length → validUtf8 s = true → encode env (.str s) = .error .nameError) ∧
    (∀ s, validUtf8 s = false → encode env (.str s) = .error .unicodeEncodeError) ∧
    (∀ s, MAX_BYTES_LENGTH < s.length → encode env (.bytes s) = .error .valueError) ∧
    (∀ xs, MAX_ARRAY_LENGTH < xs.length → encode env (.seq xs) = .error .valueError) ∧
    (∀ kvs, MAX_ARRAY_LENGTH < kvs.length → encode env (.map kvs) = .error .valueError) ∧
    (∀ xs, MAX_ARRAY_LENGTH < xs.length → encode env (.set xs) = .error .valueError) ∧
    encode env .unsupported = .error .typeError := by
  refine ⟨?_, ?_, ?_, ?_, ?_, ?_, ?_, rfl⟩
  · intro i hi
    simp only [encode]
    unfold encodeInt
    simp only
    have : i.natAbs > 2147483647 := by omega
    rw [if_pos this, if_neg hi]
  · intro s hs hv
    simp [encode, hv, hs]
  · intro s hv
    simp [encode, hv]
  · intro s hs
    simp [encode, encodeBytes, hs]
  · intro xs hx
    simp [encode, hx]
  · intro xs hx
    simp [encode, hx]
  · intro xs hx
    simp [encode, hx]

/-- Refusal at every depth ("never silently mis-encoded"): whenever the encoder returns bytes
for a value of the default-codec grammar, EVERY node of the value is inside the domain
(`encodable`: 64-bit ints, float32-range floats, encodable strings of at most 2**20 bytes, bytes
of at most 2**20, collections of at most 2**14 elements, 16-bit type ids, enum values that are
members).  Contrapositive: a value with one offending node anywhere inside is refused with an
error. -/
theorem C13_refuse_deep (env : Env) (v : Value) (bs : Bytes) (hw : wt false env.reg v = true)
    (he : encode env v = .ok bs) : encodable env v = true :=
  refuses env v bs hw he

/-- ... and conversely the encoder accepts every value inside the domain: the round-trip
theorem is not vacuous on any `encodable` value. -/
theorem C13_accepts (env : Env) (v : Value) (h : encodable env v = true) :
    ∃ bs, encode env v = .ok bs :=
  accepts env v h

/-- `HandshakeClientHelloMessage` (custom codec, connection.py:644-665): a hello built from a
key in canonical DER form and any in-domain version value, once encoded (the encoder pads with
`os.urandom` up to the fixed size; it refuses when key + version do not fit), decodes to the
same message and the decoder stops exactly after the padding. -/
theorem C13_clientHello_roundtrip (env : Env) (tid : Nat) (key : Bytes) (ver ver' : Value) (bs : Bytes)
    (hreg : lookup env.reg tid = some .clientHello) (hb0 : isBase tid = false)
    (hkey : env.parseKey key = .ok key) (hur : ∀ n, (env.urandom n).length = n)
    (hw : wt false env.reg ver = true) (hc : canon ver = .ok ver')
    (he : encode env (.clientHello tid key ver) = .ok bs) (rest : Bytes) :
    decode env (bs ++ rest) = .ok (.clientHello tid key ver', rest) :=
  clientHello_round env tid key ver ver' bs hreg hb0 hkey hur hw hc he rest

/-- `HandshakeServerHelloMessage` (custom codec, connection.py:685-725): the server encodes
`(key, salt, token)` as a payload, signs it with the root key and sends root key, payload and
signature; a client that verifies with the key `vk` it trusts (the pre-shared one, or - keyword
`None` - the root key sent along) gets back the same key, salt and token and the decoder stops
exactly at the end.  Signing and verification are parameters; the only law used is that a
signature made by `sign` verifies under `vk` (`hver`). -/
theorem C13_serverHello_roundtrip (env : Env) (tid : Nat) (root0 root key vk : Bytes)
    (salt token salt' token' : Value) (bs : Bytes)
    (hreg : lookup env.reg tid = some .serverHello) (hb0 : isBase tid = false)
    (hroot : env.rootKey = some root)
    (hpr : env.parseKey root = .ok root) (hpk : env.parseKey key = .ok key)
    (hvk : (env.serverKey = some none ∧ vk = root) ∨ env.serverKey = some (some vk))
    (hver : ∀ p s, env.sign p = .ok s → env.verify vk s p = .ok ())
    (hws : wt false env.reg salt = true) (hcs : canon salt = .ok salt')
    (hwt : wt false env.reg token = true) (hct : canon token = .ok token')
    (he : encode env (.serverHello tid root0 key salt token) = .ok bs) (rest : Bytes) :
    decode env (bs ++ rest) = .ok (.serverHello tid root key salt' token', rest) :=
  serverHello_round env tid root0 root key vk salt token salt' token' bs hreg hb0 hroot hpr hpk hvk hver
    hws hcs hwt hct he rest

/-! ### non-vacuity: concrete values that meet the hypotheses -/

/-- a registry with a two-field class 200 and an enum 201 with members 1, "a" -/
def exEnv : Env :=
  { reg := [(200, .object [.int 0, .str []]), (201, .enum [.int 1, .str [97]])],
    padTarget := 1410, serverKey := none, rootKey := none,
    parseKey := fun d => .ok d, verify := fun _ _ _ => .ok (), sign := fun _ => .ok [],
    urandom := fun n => List.replicate n 0 }

/-- `[{1: (True, "é", 2.5)}, Obj200(-129, "a"), Enum201(1), {"a", None}, b"\x00"]` -/
def exValue : Value :=
  .seq [.map [(.int 1, .seq [.bool true, .str [0xC3, 0xA9], .f32 0x40 0x20 0 0])],
        .object 200 [.int (-129), .str [97]], .enum 201 (.int 1),
        .set [.str [97], .null], .bytes [0]]

set_option maxRecDepth 8192 in
example : InDomain exEnv exValue := ⟨by decide +kernel, by decide +kernel⟩
set_option maxRecDepth 8192 in
example : canon exValue = .ok exValue := by rfl
example : (encode exEnv exValue).isOk = true := by decide +kernel
example : encodable exEnv exValue = true := by decide +kernel
/-- an offending node deep inside: 2**63 inside a dict inside a list is not encodable -/
example : encodable exEnv (.seq [.map [(.str [97], .int 9223372036854775808)]]) = false := by decide +kernel
/-- a client hello: registry with the class under id 130, version 1, a 91-byte key -/
example : (match encode { exEnv with reg := [(130, .clientHello)] }
      (.clientHello 130 (List.replicate 91 7) (.int 1)) with
    | .ok bs => bs.length == 1412
    | .error _ => false) = true := by decide +kernel
/-- the instance of the round trip for this value, any trailing bytes -/
example (bs : Bytes) (h : encode exEnv exValue = .ok bs) (rest : Bytes) :
    decode exEnv (bs ++ rest) = .ok (exValue, rest) :=
  C13_decode_encode_canonical exEnv exValue bs (by decide +kernel) (by set_option maxRecDepth 8192 in rfl) h rest
/-- a double that is not a float32 comes back rounded: 0.1 -> float32(0.1) -/
example : canon (.f64 0x3FB999999999999A) = .ok (.f32 0x3D 0xCC 0xCC 0xCD) := by
  set_option maxRecDepth 8192 in rfl
example : InDomain exEnv (.seq [.f64 0x3FB999999999999A, .int 9223372036854775807]) :=
  ⟨by decide +kernel, by decide +kernel⟩
/-- two doubles that collide at float32 precision are still in the domain: the set shrinks -/
example : InDomain exEnv (.set [.f64 0x3FB999999999999A, .f64 0x3FB999999999999B]) :=
  ⟨by decide +kernel, by decide +kernel⟩

end Mpgs.Serial
