import MpgsModel.Lemmas.Dispatch
/-!
# C20 — Dispatcher routes by message class; register/unregister are inverses

Property theorems only (helper lemmas live in `Lemmas/Dispatch.lean`).
The model is `Mpgs.Dispatch` (`Model/Dispatch.lean`); `run [] ops` is the table reached from a
fresh dispatcher by an arbitrary operation history `ops`.
-/
namespace Mpgs.Dispatch

/-- Every reachable table has at most one binding per class name, so "the one handler
registered for the class" is well defined — for every operation history. -/
theorem C20_one_binding_per_class (ops : List Op) : KeysNodup (run [] ops).1 :=
  keysNodup_run [] ops (by simp [KeysNodup])

/-- `dispatch` invokes exactly the handler bound to the class name, with the arguments
unchanged; when nothing is bound it raises `DispatchError` and calls nothing.  (`Outcome` has
exactly one call or one error: "calls nothing else" is the type.)  Any table, any arguments. -/
theorem C20_dispatch_exact {α : Type} (t : Table) (cls : String) (args : α) :
    (∀ h, lookup t cls = some h → dispatch t cls args = .called h args) ∧
    (lookup t cls = none → dispatch t cls args = .raised .dispatchError) := by
  constructor
  · intro h hl; simp [dispatch, hl]
  · intro hl; simp [dispatch, hl]

/-- **What the handler does is what the caller of `dispatch` sees.**  For a bound class the one
handler runs with the arguments unchanged and its own outcome - a return, or *whatever* exception
it raises, a `KeyError` or a `DispatchError` of its own included - is the outcome of `dispatch`;
`DispatchError` from the dispatcher itself means that no handler ran.  Any table, arguments and
handler behaviour. -/
theorem C20_handler_outcome_unchanged {α : Type} (t : Table) (cls : String) (args : α) (beh : Handler → Beh) :
    (∀ h, lookup t cls = some h → beh h = .returns → dispatchWith t cls args beh = .returned h args) ∧
    (∀ h e, lookup t cls = some h → beh h = .raises e → dispatchWith t cls args beh = .handlerRaised h args e) ∧
    (lookup t cls = none → dispatchWith t cls args beh = .dispatchError) := by
  refine ⟨?_, ?_, ?_⟩
  · intro h hl hb; simp [dispatchWith, dispatch, hl, hb]
  · intro h e hl hb; simp [dispatchWith, dispatch, hl, hb]
  · intro hl; simp [dispatchWith, dispatch, hl]

/-- Registering a handler for a class name that is already bound is refused with an error and
leaves the table (hence the existing binding) unchanged. -/
theorem C20_duplicate_refused (t : Table) (ev : String) (h : Handler) (hb : bound t ev = true) :
    step t (.regFn ev h) = (t, .err .exception) := by
  simp [step, registerFunction, hb]

/-- The same through `register(resource)`: if any handler of the resource is annotated with a
bound class name the call raises, and no binding that existed before the call is altered. -/
theorem C20_duplicate_refused_resource (t : Table) (r : Resource) (ev : String)
    (hin : ev ∈ events r.methods) (hb : bound t ev = true) :
    (register t r).2 = some .exception ∧
    ∀ ev' h, lookup t ev' = some h → lookup (register t r).1 ev' = some h :=
  ⟨registerMethods_dup r.id r.methods t ev hin hb,
   fun ev' h hl => registerMethods_preserves r.id r.methods t ev' h hl⟩

/-- After `unregister(resource)` none of the resource's classes is bound, dispatching them
raises `DispatchError` without a call, and every other binding is exactly as before. -/
theorem C20_unregister_unbinds (t : Table) (r : Resource) :
    (∀ ev ∈ events r.methods, lookup (unregister t r) ev = none ∧
        ∀ args : List Nat, (step (unregister t r) (.dispatch ev args)).2 = .err .dispatchError) ∧
    (∀ ev, ev ∉ events r.methods → lookup (unregister t r) ev = lookup t ev) := by
  constructor
  · intro ev hin
    have hl : lookup (unregister t r) ev = none := by
      simp [unregister, lookup_unregisterMethods, hin]
    exact ⟨hl, fun args => by simp [step, dispatch, hl]⟩
  · intro ev hin
    simp [unregister, lookup_unregisterMethods, hin]

/-- ... and the resource can be registered again: `register` after `unregister` succeeds and
binds each of its classes to its own handler (resources whose handlers are annotated with
pairwise distinct classes — otherwise the resource collides with itself on a fresh dispatcher
too, see `C20_self_collision`). -/
theorem C20_unregister_then_register (t : Table) (r : Resource)
    (hnd : (events r.methods).Nodup) :
    (register (unregister t r) r).2 = none ∧
    ∀ ev, lookup (register (unregister t r) r).1 ev =
      match firstMethod r.methods ev with
      | some mn => some ⟨r.id, mn⟩
      | none => lookup t ev := by
  have hfree : ∀ ev ∈ events r.methods, bound (unregister t r) ev = false := by
    intro ev hin
    simp [bound, unregister, lookup_unregisterMethods, hin]
  have := registerMethods_fresh r.id r.methods (unregister t r) hfree hnd
  refine ⟨this.1, ?_⟩
  intro ev
  rw [register, this.2 ev]
  cases hf : firstMethod r.methods ev with
  | some mn => rfl
  | none =>
    have : ev ∉ events r.methods := by
      intro hin
      clear this hfree hnd
      revert hf
      generalize r.methods = ms at hin
      induction ms with
      | nil => simp [events] at hin
      | cons m ms ih =>
        obtain ⟨mn, ev0⟩ := m
        simp only [firstMethod]
        by_cases e : ev0 = ev
        · simp [e]
        · simp only [e, if_false]
          apply ih
          simp only [events, List.map_cons, List.mem_cons] at hin
          rcases hin with x | x
          · exact absurd x.symm e
          · exact x
    simp [unregister, lookup_unregisterMethods, this]

/-- `unregister ∘ register` is the identity on the bindings when the resource's classes are
distinct and were all free: register/unregister are inverses. -/
theorem C20_register_then_unregister (t : Table) (r : Resource)
    (hfree : ∀ ev ∈ events r.methods, bound t ev = false) (hnd : (events r.methods).Nodup) :
    ∀ ev, lookup (unregister (register t r).1 r) ev = lookup t ev := by
  intro ev
  have h := registerMethods_fresh r.id r.methods t hfree hnd
  simp only [unregister, register, lookup_unregisterMethods]
  by_cases hin : ev ∈ events r.methods
  · have := hfree ev hin
    simp only [bound, Option.isSome_eq_false_iff, Option.isNone_iff_eq_none] at this
    simp [hin, this]
  · simp only [hin, if_false]
    rw [h.2 ev, firstMethod_none _ _ hin]

/-- Unregistering a class that is not bound is refused (repaired guard); a bound one is removed
and only that one. -/
theorem C20_unregister_function (t : Table) (ev : String) :
    (bound t ev = false → step t (.unregFn ev) = (t, .err .exception)) ∧
    (bound t ev = true → (step t (.unregFn ev)).2 = .ok ∧
        ∀ ev', lookup (step t (.unregFn ev)).1 ev' = if ev' = ev then none else lookup t ev') := by
  constructor
  · intro hb; simp [step, unregisterFunction, hb]
  · intro hb
    simp [step, unregisterFunction, hb, lookup_erase]

/-- A resource with two handlers for one class collides with itself even on a fresh table. -/
theorem C20_self_collision :
    (register [] ⟨0, [("a", "E"), ("b", "E")]⟩).2 = some .exception := by decide

/-! ### non-vacuity: concrete states meeting the hypotheses -/

example : bound [("E", ⟨1, "on_e"⟩)] "E" = true := by decide
example : (events [("on_a", "A"), ("on_b", "B")]).Nodup := by decide
example : (run [] [.register ⟨1, [("on_a", "A"), ("on_b", "B")]⟩, .dispatch "A" [7],
                   .unregister ⟨1, [("on_a", "A"), ("on_b", "B")]⟩, .dispatch "A" [7],
                   .register ⟨1, [("on_a", "A"), ("on_b", "B")]⟩, .dispatch "B" [8]]).2
    = [.ok, .called ⟨1, "on_a"⟩ [7], .ok, .err .dispatchError, .ok, .called ⟨1, "on_b"⟩ [8]] := by
  decide

end Mpgs.Dispatch
