import MpgsModel.Model.Server
import MpgsModel.Props.C01
/-!
# C11 — Hostile datagrams cannot stop the server, hurt other clients or be amplified

The loop iteration `iter` is a total function: every exception path of the code (decode errors,
hello handler errors, handler exceptions, encode errors) is an explicit branch that produces a
`contained` event and lets the iteration continue with the next item / client.  The statements
below are for every datagram, pool content and handler behaviour.
-/
namespace Mpgs.Server
open Mpgs.Bytes Mpgs.Wire Mpgs.Conn

/-- **Block list first.** A datagram from a block-listed ip is refused at the entry point for
every content: nothing is queued (so no processing, no state change, no reply). -/
theorem C11_blocklist_first (s : Srv) (addr : Addr) (d : Bytes) (hb : s.cfg.blocklist.contains addr.1 = true) :
    entry s addr d = none := by
  unfold entry
  rw [if_pos hb]

/-- the entry point queues a datagram only if its first 20 bytes parse as a header addressed to
the server (magic, packet type, direction) — anything else (empty, short, random bytes) is dropped
there and never reaches the loop -/
theorem C11_entry_needs_header (s : Srv) (addr : Addr) (d : Bytes) (h : Header) (he : entry s addr d = some h) :
    decodeHdr true d = .ok h ∧ s.cfg.blocklist.contains addr.1 = false := by
  unfold entry at he
  split at he
  · simp at he
  · rename_i hb
    split at he
    · rename_i h' hd
      injection he with he; subst he
      exact ⟨hd, by simpa using hb⟩
    · simp at he

theorem pget_pset (p : Pool) (a b : Addr) (v : Ent) : pget (pset p a v) b = if a = b then some v else pget p b := by
  induction p with
  | nil => simp only [pset, pget]
  | cons x p ih =>
    obtain ⟨k, w⟩ := x
    simp only [pset]
    by_cases e : k = a
    · subst e
      simp only [if_true, pget]
      by_cases e' : k = b <;> simp [e']
    · simp only [e, if_false, pget, ih]
      by_cases e' : k = b
      · subst e'
        have : ¬ a = k := fun x => e x.symm
        simp [this]
      · simp [e']

theorem pget_pdel_ne (p : Pool) (a b : Addr) (hne : a ≠ b) : pget (pdel p a) b = pget p b := by
  induction p with
  | nil => rfl
  | cons x p ih =>
    obtain ⟨k, w⟩ := x
    simp only [pdel]
    by_cases e : k = a
    · subst e
      simp only [if_true, pget, hne, if_false]
    · simp only [e, if_false, pget, ih]

/-- **Isolation.** Handling a datagram from address `A` leaves the pool entry (connection state
included) of every other address untouched, in both pools — whatever the datagram is and
whatever the handler does. -/
theorem C11_isolation (sz : Sizes) (C : Crypto) (s : Srv) (t : Int) (it : Item) (acts : List HAct) (b : Addr)
    (hne : it.addr ≠ b) :
    pget (handleItem sz C s t it acts).1.conns b = pget s.conns b ∧
    pget (handleItem sz C s t it acts).1.temps b = pget s.temps b := by
  unfold handleItem
  cases hc : pget s.conns it.addr with
  | some ent =>
    simp only
    split
    · simp [pget_pset, hne]
    · simp [pget_pset, hne]
  | none =>
    simp only
    cases ht : pget s.temps it.addr with
    | some ent =>
      simp only
      split
      · exact ⟨rfl, rfl⟩
      · split
        · split <;> simp [pget_pset, pget_pdel_ne, hne]
        · split <;> simp [pget_pset, hne]
    | none =>
      simp only
      split
      · exact ⟨rfl, rfl⟩
      · split <;> simp [pget_pset, hne]

/-- **Strangers get nothing unless they send a hello.** A datagram from an address in neither
pool whose header is not typed CLIENT_HELLO changes nothing and produces no event;
a datagram from an address in the temp pool whose header is not typed CHALLENGE_RESP likewise. -/
theorem C11_pool_gating (sz : Sizes) (C : Crypto) (s : Srv) (t : Int) (it : Item) (acts : List HAct)
    (hc : pget s.conns it.addr = none) :
    (pget s.temps it.addr = none → it.hdr.ptype ≠ .clientHello →
      handleItem sz C s t it acts = (s, acts, [])) ∧
    (∀ e, pget s.temps it.addr = some e → it.hdr.ptype ≠ .challengeResp →
      handleItem sz C s t it acts = (s, acts, [])) := by
  constructor
  · intro ht hty; simp [handleItem, hc, ht, hty]
  · intro e ht hty; simp [handleItem, hc, ht, hty]

/-- **A connection that has not completed the handshake never emits keep-alives.** Its status is
not CONNECTED, so `_build_packet_impl` with an empty queue and an empty resend set sends nothing:
the only datagram an unpromoted address can receive is the one SERVER_HELLO queued when its hello
was accepted. -/
theorem C11_no_keepalive_before_connected (sz : Sizes) (c : Conn) (t delay : Int) (ska : Bool)
    (hst : c.status ≠ .connected) (hq : c.outgoing = []) (hr : c.pendingRetryMsg = []) :
    (buildPacketImpl sz c t ska delay).2 = .ok none := by
  unfold buildPacketImpl packAll
  simp only [hq, hr, sortBySeq, List.foldr, packResend, packNew, pktType]
  simp [hst]

/-- the hello handler queues at most the one SERVER_HELLO, only when the hello decoded with the
right version, and - **no amplification** (as repaired) - only when that reply is not longer than
the hello it answers: both travel in the same CRC form with the same 26 bytes of framing, so the
datagram sent is never larger than the datagram received, for every MTU and every padding -/
theorem C11_hello_reply_once (H : Hs) (tok : Nat) (c : Conn) (t : Int) (data : Bytes) :
    (serverClientHello H tok c t data).1.outgoing = c.outgoing ∨
    (c.key = none ∧ H.parseClientHello data = .ok 1 ∧
      ∃ m, (serverClientHello H tok c t data).1.outgoing = c.outgoing ++ [m] ∧ m.ty = .serverHello ∧
        m.payload = (H.serverReply data tok).2 ∧ m.payload.length ≤ data.length ∧
        (serverClientHello H tok c t data).1.key.isSome = true) := by
  unfold serverClientHello
  by_cases hk : c.key.isSome = true
  · left; rw [if_pos hk]
  · rw [if_neg hk]
    have hkn : c.key = none := by
      cases hkk : c.key with
      | none => rfl
      | some k => rw [hkk] at hk; exact absurd rfl hk
    cases hp : H.parseClientHello data with
    | error e => left; rfl
    | ok v =>
      simp only
      by_cases hv : v = 1
      · subst hv
        by_cases hlen : (H.serverReply data tok).2.length > data.length
        · left; simp [hlen]
        · right
          refine ⟨hkn, rfl, ?_⟩
          simp only [ne_eq, not_true_eq_false, if_false, hlen, sendType]
          split <;> exact ⟨_, rfl, rfl, rfl, by simp only; omega, rfl⟩
      · left; simp [hv]

/-- a hello that is shorter than the reply it asks for leaves the fresh connection without key,
token and reply (an MTU too small for the padding to cover the server hello cannot connect) -/
theorem C11_short_hello_not_answered (H : Hs) (tok : Nat) (c : Conn) (t : Int) (data : Bytes) (hk : c.key = none)
    (hv : H.parseClientHello data = .ok 1) (hlen : (H.serverReply data tok).2.length > data.length) :
    serverClientHello H tok c t data = ({ c with token := 0, key := none }, [], none) := by
  simp [serverClientHello, hk, hv, hlen]

/-- **One hello per connection** (as repaired): a connection that already has a session key
ignores every further client hello - whatever it contains, before anything of it is parsed.  Such
a hello can only arrive sealed under the session key, from a peer that holds the key but has not
necessarily answered the challenge; answering each of them again is what let one datagram with
several hellos draw more bytes from the server than it carried. -/
theorem C11_one_hello_per_connection (H : Hs) (tok : Nat) (c : Conn) (t : Int) (data : Bytes)
    (hk : c.key.isSome = true) : serverClientHello H tok c t data = (c, [], none) := by
  simp [serverClientHello, hk]

/-- ... and the key, once there, is never taken away by a hello: with `C11_hello_reply_once`
(a reply is queued only by a connection without key, which has one afterwards) a connection
queues at most one SERVER_HELLO in its life as far as the hello handler is concerned -/
theorem C11_hello_keeps_key (H : Hs) (tok : Nat) (c : Conn) (t : Int) (data : Bytes)
    (hk : c.key.isSome = true) : (serverClientHello H tok c t data).1.key.isSome = true := by
  rw [C11_one_hello_per_connection H tok c t data hk]; exact hk

/-! ### non-vacuity -/

example : entry { cfg := { blocklist := [66] } } (66, 1) [] = none := by decide
example : (buildPacketImpl ⟨1500⟩ { isServer := true, status := .connecting } 5 true 96).2 = .ok none :=
  C11_no_keepalive_before_connected _ _ _ _ _ (by decide) rfl rfl

end Mpgs.Server
