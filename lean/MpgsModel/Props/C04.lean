import MpgsModel.Lemmas.Once
import MpgsModel.Props.C01
import MpgsModel.Props.C08
/-!
# C04 — At-most-once delivery: duplicates, replays and retransmissions are dropped

Positions are *absolute* (unwrapped) datagram / message numbers; `ring p` is what travels in the
header.  `Rel`/`Abs` are the window refinement of C08.  A history may interleave receptions with
any other operation of the endpoint.
-/
namespace Mpgs.Conn
open Mpgs.Bytes Mpgs.Wire Mpgs.Seq

/-- the receiver's 32-datagram window represents the set of accepted positions `a` -/
def PktRel (c : Conn) (a : Abs) : Prop := c.bfPkt.nbits = 32 ∧ Rel c.bfPkt a ∧ a.Wf

theorem fromBytes_hdr (C : Crypto) (h : Header) (key : Option Bytes) (d : Bytes) (pkt : Packet)
    (hf : fromBytes C h key d = .ok pkt) : pkt.hdr = h := by
  unfold fromBytes at hf
  cases hb : openBody C h key d with
  | error e => simp [hb] at hf
  | ok msg => simp only [hb] at hf; exact (parseMsgs_hdr h msg pkt hf).1

/-- **A duplicate datagram is dropped whole.** If the datagram's position was already accepted
(however long ago, within half a ring), `_recv_datagram` returns False and the complete endpoint
state is the old one with `dropped + 1`: no delivery, no ack processing, no liveness refresh. -/
theorem C04_duplicate_dropped_whole (C : Crypto) (R : Role) (c : Conn) (t : Int) (h : Header) (d : Bytes)
    (a : Abs) (p : Int) (hrel : PktRel c a) (hseq : (h.seq : Int) = ring p) (hdup : p ∈ a.acc)
    (hwin : ∀ cur, a.cur = some cur → cur - p ≤ T ∧ -T ≤ cur - p) :
    recvDatagram C R c t h d = drop1 c := by
  obtain ⟨hn, hR, hw⟩ := hrel
  cases hf : fromBytes C h c.key d with
  | error e => exact C01_undecodable_noop C R c t h d e hf
  | ok pkt =>
    have hh := fromBytes_hdr C h c.key d pkt hf
    unfold recvDatagram
    simp only [hf]
    split
    · rfl
    · split
      · rfl
      · rename_i hstale
        -- not stale: the position is inside the window, so the window knows it
        cases hc : a.cur with
        | none => have := hw.2.2 hc; rw [this] at hdup; simp at hdup
        | some cur =>
          obtain ⟨hw1, hw2⟩ := hwin cur hc
          have hle := hw.2.1 cur hc p hdup
          have hRel := hR
          unfold Rel at hR
          simp only [hc] at hR
          obtain ⟨hcur, _, _, _, _⟩ := hR
          have hr := ring_range cur
          have hd : diff c.bfPkt.cur (pkt.hdr.seq : Int) = cur - p := by
            rw [hh, hseq, hcur]; exact diff_ring cur p hw1 hw2
          have hns : ¬ (cur - p > 32) := by
            intro hgt
            apply hstale
            simp only [stale, hd, hn, Bool.and_eq_true, bne_iff_ne, ne_eq, decide_eq_true_eq]
            refine ⟨by rw [hcur]; omega, by omega⟩
          have hcont : c.bfPkt.contains (pkt.hdr.seq : Int) = true := by
            rw [hh, hseq, rel_contains c.bfPkt a cur p (by omega) hRel hc hw1 hw2]
            simp only [hn, decide_eq_true_eq]
            exact ⟨by omega, by omega, hdup⟩
          have hne : c.bfPkt.cur ≠ 0 := by rw [hcur]; omega
          have := (C08_dup_iff_contains c.bfPkt (pkt.hdr.seq : Int) hne).1.mpr hcont
          simp [this]

theorem pw_accept (R : Role) (hR : R.KeepsPw) (c : Conn) (t : Int) (h : Header) (pkt : Packet)
    (bf : BitField) : (accept R c t h pkt bf).1.bfPkt = bf := by
  unfold accept
  simp only
  have h1 := pw_recvMessages R hR (handleAckBits { c with bfPkt := bf, received := c.received + 1, lastRecv := t } h).1 t pkt.msgs
  unfold pw at h1
  rw [h1]
  unfold handleAckBits
  have h2 := pw_handleAckKeys { c with bfPkt := bf, received := c.received + 1, lastRecv := t } h.ack h.ackBits
    ((({ c with bfPkt := bf, received := c.received + 1, lastRecv := t } : Conn).pendingAcks).map (·.1))
  unfold pw at h2
  rw [h2]

theorem accept_not_rejected (R : Role) (c : Conn) (t : Int) (h : Header) (pkt : Packet) (bf : BitField) :
    (accept R c t h pkt bf).2.2 ≠ .rejected := by
  unfold accept
  simp only
  split <;> simp

/-- the two outcomes of `_recv_datagram` -/
theorem recv_cases (C : Crypto) (R : Role) (c : Conn) (t : Int) (h : Header) (d : Bytes) :
    recvDatagram C R c t h d = drop1 c ∨
    ∃ pkt bf, fromBytes C h c.key d = .ok pkt ∧ gateUnkeyed c pkt = false ∧ stale c pkt.hdr.seq = false ∧
      c.bfPkt.insert (pkt.hdr.seq : Int) = .ok bf ∧ recvDatagram C R c t h d = accept R c t h pkt bf := by
  unfold recvDatagram
  cases hf : fromBytes C h c.key d with
  | error e => left; rfl
  | ok pkt =>
    simp only
    cases hg : gateUnkeyed c pkt with
    | true => left; simp
    | false =>
      cases hs : stale c pkt.hdr.seq with
      | true => left; simp
      | false =>
        cases hi : c.bfPkt.insert (pkt.hdr.seq : Int) with
        | error e => left; simp
        | ok bf => right; exact ⟨pkt, bf, rfl, hg, hs, hi, by simp⟩

/-- **An accepted datagram is new.** If `_recv_datagram` does not reject a datagram whose position
is within half a ring of the newest, that position had never been accepted before, and the
window afterwards represents the old set plus this position. -/
theorem C04_accepted_is_new (C : Crypto) (R : Role) (hRk : R.KeepsPw) (c : Conn) (t : Int) (h : Header)
    (d : Bytes) (a : Abs) (p : Int) (hrel : PktRel c a) (hseq : (h.seq : Int) = ring p)
    (hwin : ∀ cur, a.cur = some cur → cur - p ≤ T ∧ -T ≤ cur - p)
    (hacc : (recvDatagram C R c t h d).2.2 ≠ .rejected) :
    p ∉ a.acc ∧ ∃ a', a'.acc = p :: a.acc ∧ (a'.cur = some p ∨ a'.cur = a.cur) ∧ PktRel (recvDatagram C R c t h d).1 a' := by
  obtain ⟨hn, hR, hw⟩ := hrel
  rcases recv_cases C R c t h d with hd | ⟨pkt, bf, hf, hgate, hstale, hins, heq⟩
  · rw [hd] at hacc; simp [drop1] at hacc
  · have hh := fromBytes_hdr C h c.key d pkt hf
    rw [heq]
    -- the window condition of the abstract insert: not older than 32
    have hwin32 : ∀ cur, a.cur = some cur → cur - p ≤ (32 : Nat) := by
      intro cur hc
      obtain ⟨hw1, hw2⟩ := hwin cur hc
      have hRel := hR
      unfold Rel at hRel
      simp only [hc] at hRel
      obtain ⟨hcur, _, _, _, _⟩ := hRel
      have hr := ring_range cur
      have hd : diff c.bfPkt.cur (pkt.hdr.seq : Int) = cur - p := by
        rw [hh, hseq, hcur]; exact diff_ring cur p hw1 hw2
      apply Classical.byContradiction
      intro hgt
      have : stale c pkt.hdr.seq = true := by
        simp only [stale, hd, hn, Bool.and_eq_true, bne_iff_ne, ne_eq, decide_eq_true_eq]
        refine ⟨by rw [hcur]; omega, by omega⟩
      rw [hstale] at this; simp at this
    have hri := rel_insert c.bfPkt a p (by omega) hR hwin
    rw [hn] at hri
    have hseq' : (pkt.hdr.seq : Int) = ring p := by rw [hh]; exact hseq
    rw [hseq'] at hins
    cases hai : a.insert 32 p with
    | error e => rw [hai, hins] at hri; cases e <;> simp at hri
    | ok a' =>
      rw [hai, hins] at hri
      have hfresh := Abs.insert_fresh 32 a a' p hw hwin32 hai
      refine ⟨hfresh.1, a', hfresh.2.1, ?_, ?_⟩
      · unfold Abs.insert at hai
        cases hc : a.cur with
        | none => simp only [hc] at hai; injection hai with hai; subst hai; left; rfl
        | some cur =>
          simp only [hc] at hai
          split at hai
          · injection hai with hai; subst hai; left; rfl
          · split at hai
            · simp at hai
            · split at hai
              · simp at hai
              · injection hai with hai; subst hai; right; rfl
      · refine ⟨?_, ?_, hfresh.2.2⟩
        · rw [pw_accept R hRk, hri.2]
        · rw [pw_accept R hRk]; exact hri.1

/-! ### histories -/

/-- an operation annotated with the absolute position of its datagram (used by `recv` only) -/
abbrev GOp := Op × Int

/-- positions of the datagrams a history accepted, in order -/
def acceptedLog (E : Env) (c : Conn) : List GOp → List Int
  | [] => []
  | (op, p) :: rest =>
    (match op with
     | .recv t h d => if (recvDatagram E.C E.R c t h d).2.2 = .rejected then [] else [p]
     | _ => []) ++ acceptedLog E (step E c op).1 rest

theorem pw_buildPacket (sz : Sizes) (c : Conn) (t : Int) : (buildPacket sz c t).1.bfPkt = c.bfPkt := by
  unfold buildPacket
  split
  · rfl
  · split
    · unfold finishBuild buildPacketImpl
      simp only
      split
      · rfl
      · split <;> rfl
    · unfold buildPacketImpl
      simp only
      split
      · rfl
      · split <;> rfl

theorem pw_step_other (E : Env) (hR : E.R.KeepsPw) (c : Conn) (op : Op)
    (hnr : ∀ t h d, op ≠ .recv t h d) : (step E c op).1.bfPkt = c.bfPkt := by
  cases op with
  | send p r cb =>
    simp only [step]
    have := pw_send E.sz c p r cb
    unfold pw at this
    split <;> simp_all
  | build t =>
    simp only [step]
    have := pw_buildPacket E.sz c t
    split
    · simp_all
    · simp_all
    · split <;> simp_all
  | recv t h d => exact absurd rfl (hnr t h d)
  | tmo t => simp only [step]; exact pw_checkTimeout c t
  | disconnect cb => exact pw_disconnect c cb
  | take => rfl

/-- **Every datagram is accepted at most once.** For every history of one endpoint — receptions
in any order, with any duplication and replay, interleaved with any other operations — whose
datagram positions span less than half the sequence ring: no position occurs twice among the
accepted datagrams (and none that was accepted before the history began). -/
theorem C04_datagram_at_most_once (E : Env) (hR : E.R.KeepsPw) (lo : Int) (ops : List GOp) (c : Conn)
    (a : Abs) (hrel : PktRel c a) (hcur : ∀ cur, a.cur = some cur → lo ≤ cur ∧ cur ≤ lo + T)
    (hops : ∀ g ∈ ops, lo ≤ g.2 ∧ g.2 ≤ lo + T ∧ ∀ t h d, g.1 = .recv t h d → (h.seq : Int) = ring g.2) :
    ((acceptedLog E c ops).reverse ++ a.acc).Nodup := by
  induction ops generalizing c a with
  | nil => simpa [acceptedLog] using hrel.2.2.1
  | cons g ops ih =>
    obtain ⟨op, p⟩ := g
    have hg := hops (op, p) (by simp)
    have hrest : ∀ g ∈ ops, lo ≤ g.2 ∧ g.2 ≤ lo + T ∧ ∀ t h d, g.1 = .recv t h d → (h.seq : Int) = ring g.2 :=
      fun g hgm => hops g (by simp [hgm])
    simp only [acceptedLog]
    by_cases hrecv : ∃ t h d, op = .recv t h d
    · obtain ⟨t, h, d, rfl⟩ := hrecv
      have hseq := hg.2.2 t h d rfl
      have hwin : ∀ cur, a.cur = some cur → cur - p ≤ T ∧ -T ≤ cur - p := by
        intro cur hc
        have := hcur cur hc
        simp only [T] at *
        omega
      have hstep : (step E c (.recv t h d)).1 = (recvDatagram E.C E.R c t h d).1 := by
        simp only [step]
      rw [hstep]
      by_cases hrej : (recvDatagram E.C E.R c t h d).2.2 = .rejected
      · -- rejected: nothing but `dropped` changed
        have hdrop : (recvDatagram E.C E.R c t h d).1.bfPkt = c.bfPkt := by
          rcases recv_cases E.C E.R c t h d with hd | ⟨pkt, bf, _, _, _, _, heq⟩
          · rw [hd]; rfl
          · rw [heq] at hrej
            exact absurd hrej (accept_not_rejected E.R c t h pkt bf)
        simp only [hrej, if_true, List.nil_append]
        exact ih _ a ⟨by rw [hdrop]; exact hrel.1, by rw [hdrop]; exact hrel.2.1, hrel.2.2⟩ hcur hrest
      · obtain ⟨hnew, a', ha', hcur', hrel'⟩ := C04_accepted_is_new E.C E.R hR c t h d a p hrel hseq hwin hrej
        simp only [hrej, if_false, List.cons_append, List.nil_append, List.reverse_cons, List.append_assoc]
        have := ih _ a' hrel' (by
          intro cur hc
          rcases hcur' with h1 | h1
          · rw [h1] at hc; injection hc with hc; subst hc; exact ⟨hg.1, hg.2.1⟩
          · rw [h1] at hc; exact hcur cur hc) hrest
        rw [ha'] at this
        simpa using this
    · have hnr : ∀ t h d, op ≠ .recv t h d := fun t h d e => hrecv ⟨t, h, d, e⟩
      have hpw := pw_step_other E hR c op hnr
      have hnil : (match op with
          | .recv t h d => if (recvDatagram E.C E.R c t h d).2.2 = .rejected then [] else [p]
          | _ => ([] : List Int)) = [] := by
        cases op <;> first | rfl | (exact absurd rfl (hnr _ _ _))
      rw [hnil, List.nil_append]
      exact ih _ a ⟨by rw [hpw]; exact hrel.1, by rw [hpw]; exact hrel.2.1, hrel.2.2⟩ hcur hrest

/-- for a fresh connection: the accepted positions themselves are pairwise distinct -/
theorem C04_fresh_connection_at_most_once (E : Env) (hR : E.R.KeepsPw) (lo : Int) (ops : List GOp)
    (isServer : Bool)
    (hops : ∀ g ∈ ops, lo ≤ g.2 ∧ g.2 ≤ lo + T ∧ ∀ t h d, g.1 = .recv t h d → (h.seq : Int) = ring g.2) :
    (acceptedLog E { isServer := isServer } ops).Nodup := by
  have := C04_datagram_at_most_once E hR lo ops { isServer := isServer } ⟨none, []⟩
    ⟨rfl, by simp [Rel], Abs.wf_init⟩ (by intro cur h; simp at h) hops
  simp only [List.append_nil] at this
  exact (List.reverse_perm _).nodup_iff.mp this

/-! ### messages -/

/-- the receiver's 256-message window represents the set of accepted message positions `a` -/
def MsgRel (c : Conn) (a : Abs) : Prop := c.bfMsg.nbits = 256 ∧ Rel c.bfMsg a ∧ a.Wf

/-- **A duplicate message inside the window is ignored.** If the message's position was already
accepted and is at most 256 behind the newest, `_recv_message` changes nothing and delivers
nothing — whatever its type and payload (retransmissions reuse the message sequence number). -/
theorem C04_message_duplicate_ignored (R : Role) (c : Conn) (t : Int) (m : WMsg) (a : Abs) (q : Int)
    (hrel : MsgRel c a) (hseq : (m.seq : Int) = ring q) (hdup : q ∈ a.acc)
    (hwin : ∀ cur, a.cur = some cur → cur - q ≤ 256) :
    recvMessage R c t m = (c, [], none) := by
  obtain ⟨hn, hR, hw⟩ := hrel
  cases hc : a.cur with
  | none => have := hw.2.2 hc; rw [this] at hdup; simp at hdup
  | some cur =>
    have hle := hw.2.1 cur hc q hdup
    have h256 := hwin cur hc
    have hRel := hR
    unfold Rel at hR
    simp only [hc] at hR
    obtain ⟨hcur, _, _, _, _⟩ := hR
    have hr := ring_range cur
    have hcont : c.bfMsg.contains (m.seq : Int) = true := by
      rw [hseq, rel_contains c.bfMsg a cur q (by omega) hRel hc (by simp only [T]; omega) (by simp only [T]; omega)]
      simp only [hn, decide_eq_true_eq]
      exact ⟨by omega, by omega, hdup⟩
    have hne : c.bfMsg.cur ≠ 0 := by rw [hcur]; omega
    have := (C08_dup_iff_contains c.bfMsg (m.seq : Int) hne).1.mpr hcont
    simp [recvMessage, this]

/-- a message is delivered to the application only when the message window accepted its number -/
theorem C04_delivery_needs_window (R : Role) (c : Conn) (t : Int) (m : WMsg)
    (hdup : ∃ e, c.bfMsg.insert (m.seq : Int) = .error e) : recvMessage R c t m = (c, [], none) := by
  obtain ⟨e, he⟩ := hdup
  simp [recvMessage, he]

/-- arrivals never older than the window: the condition under which the (lenient) message window
is exact -/
def NotOlder (nbits : Nat) : Abs → List Int → Prop
  | _, [] => True
  | a, p :: ps =>
    (∀ c, a.cur = some c → c - p ≤ nbits) ∧
    match a.insert nbits p with
    | .ok a' => NotOlder nbits a' ps
    | .error _ => NotOlder nbits a ps

/-- positions accepted by the abstract window over a history -/
def acceptedAbs (nbits : Nat) : Abs → List Int → List Int
  | _, [] => []
  | a, p :: ps => match a.insert nbits p with
    | .ok a' => p :: acceptedAbs nbits a' ps
    | .error _ => acceptedAbs nbits a ps

/-- **Messages: at most once (partial).** Full statement (C04_message_once): every message
position is accepted — hence delivered — at most once for *every* arrival schedule.  Proved here
under the extra hypothesis `NotOlder`: every copy arrives while the receiver's newest message
number is at most 256 ahead of it.  What is missing is exactly the known finding: a
retransmission that arrives more than 256 message numbers late is accepted again
(`C04_redelivery_witness`).  Together with `C08_window_refines_set` (the real BitField accepts
exactly when this abstract window does) this is the statement about the real `bitfield_msg`. -/
theorem C04_message_once_partial (nbits : Nat) (a : Abs) (ps : List Int) (hw : a.Wf)
    (hno : NotOlder nbits a ps) : ((acceptedAbs nbits a ps).reverse ++ a.acc).Nodup := by
  induction ps generalizing a with
  | nil => simpa [acceptedAbs] using hw.1
  | cons p ps ih =>
    obtain ⟨hwin, hrest⟩ := hno
    simp only [acceptedAbs]
    cases hi : a.insert nbits p with
    | error e =>
      simp only [hi] at hrest
      exact ih a hw hrest
    | ok a' =>
      simp only [hi] at hrest
      obtain ⟨_, hacc, hw'⟩ := Abs.insert_fresh nbits a a' p hw hwin hi
      have := ih a' hw' hrest
      rw [hacc] at this
      simpa using this

/-- **Known finding, as a theorem about the model.** A fresh receiver takes message 1, then
message 300 (the window jumps: 2..299 are still in flight or lost), then a retransmitted copy of
message 1: the copy is 299 > 256 behind, the window no longer knows it, and the application
receives the payload a second time. -/
theorem C04_redelivery_witness :
    (recvMessages baseRole { isServer := true } 0
      [⟨1, .app, [7]⟩, ⟨300, .app, [8]⟩, ⟨1, .app, [7]⟩]).2.1 =
    [.deliver 1 [7], .deliver 300 [8], .deliver 1 [7]] := by decide

/-! ### non-vacuity -/

example : PktRel { isServer := true } ⟨none, []⟩ := ⟨rfl, by simp [Rel], Abs.wf_init⟩
example : NotOlder 256 ⟨none, []⟩ [1, 2, 2, 300, 44, 300, 301] := by
  simp [NotOlder, Abs.insert]
example : acceptedAbs 256 ⟨none, []⟩ [1, 2, 2, 300, 44, 300, 301] = [1, 2, 300, 44, 301] := by decide

end Mpgs.Conn
