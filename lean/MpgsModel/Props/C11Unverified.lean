import MpgsModel.Lemmas.UnverifiedBytes
import MpgsModel.Model.ToyAead
/-!
# C11 - no amplification, over whole runs of the server loop

"The server never sends more bytes to an address that has not completed the handshake than it has
received from that address", for every run of the loop model:

* `C11_no_amplification` - **in bytes**: in any run from the empty server, the bytes of all
  datagrams handed to the socket for an address that is not promoted in that run never exceed the
  bytes of the datagrams queued from that address - whatever arrives from it or from anybody,
  whatever the handlers do, for every clock, random stream, MTU and configuration, every AEAD and
  all handshake externals (key sizes, signature sizes, padding);

* `C11_unverified_budget` - in any run of the loop from the empty server, an address that is not
  promoted in that run (no `connect` event for it) is sent at most as many datagrams as it has sent
  datagrams whose header says CLIENT_HELLO - whatever else arrives from it or from anybody, whatever
  the handlers do, for every clock, MTU and configuration;
* `C11_halfopen_sends_only_replies` - every such datagram consists of SERVER_HELLO messages that
  were queued, which leave the queue (nothing is sent twice, no keep-alive, no application data);
* with `C11_hello_reply_once` / `C11_one_hello_per_connection` (`Props/C11.lean`): a connection
  queues one SERVER_HELLO in its life, no longer than the hello it answers, and both travel in the
  same 26 bytes of framing.

The byte potential (`Lemmas/UnverifiedBytes.lean`): what a half-open entry has queued, weighed as
26 bytes of framing + payload per message; a datagram adds at most its own length to it (and
nothing once the entry has a key: one hello per connection), a sweep takes out at least what it
sends (CRC form: 24 + body, body = payloads + 2 for one message / 5 each for several).  The monitor
of the C11 check measures the same sum on the real loop.
-/
namespace Mpgs.Server
open Mpgs.Bytes Mpgs.Wire Mpgs.Conn

/-- **Datagram budget of an unverified address, over whole runs.** -/
theorem C11_unverified_budget (sz : Sizes) (C : Crypto) (cfg : SCfg) (ins : List IterIn) (a : Addr)
    (hnc : ∀ id tok, SEvent.connect id a tok ∉ (runLoop sz C { cfg := cfg } ins).2) :
    nSendTo a (runLoop sz C { cfg := cfg } ins).2 ≤ (ins.map (fun i => nHelloFrom a i.batch)).sum := by
  have h := runLoop_unv sz C { cfg := cfg } ins a kn_nil (by intro b e he; simp [pget] at he) rfl hnc
  have h0 : phip ({ cfg := cfg } : Srv).temps a = 0 := rfl
  omega

/-- **No amplification, in bytes, over whole runs.** -/
theorem C11_no_amplification (sz : Sizes) (C : Crypto) (cfg : SCfg) (ins : List IterIn) (a : Addr)
    (hnc : ∀ id tok, SEvent.connect id a tok ∉ (runLoop sz C { cfg := cfg } ins).2) :
    bytesTo a (runLoop sz C { cfg := cfg } ins).2 ≤ (ins.map (fun i => bytesFrom a i.batch)).sum := by
  have h := runLoop_bytes sz C { cfg := cfg } ins a kn_nil (by intro b e he; simp [pget] at he) rfl hnc
  have h0 : psip ({ cfg := cfg } : Srv).temps a = 0 := rfl
  omega

theorem runLoop_append (sz : Sizes) (C : Crypto) (s : Srv) (pre post : List IterIn) :
    (runLoop sz C s (pre ++ post)).2 = (runLoop sz C s pre).2 ++ (runLoop sz C (runLoop sz C s pre).1 post).2 := by
  induction pre generalizing s with
  | nil => simp [runLoop]
  | cons i rest ih => simp only [List.cons_append, runLoop, ih, List.append_assoc]

/-- ... **at every iteration boundary up to the promotion**: whatever the run goes on to do (the
address may well complete the handshake later), as long as `a` has not been promoted in the first
`pre` iterations, the bytes sent to it in those iterations - a prefix of the events of the whole
run - do not exceed the bytes queued from it in them. -/
theorem C11_no_amplification_until_promoted (sz : Sizes) (C : Crypto) (cfg : SCfg) (pre post : List IterIn) (a : Addr)
    (hnc : ∀ id tok, SEvent.connect id a tok ∉ (runLoop sz C { cfg := cfg } pre).2) :
    (∃ rest, (runLoop sz C { cfg := cfg } (pre ++ post)).2 = (runLoop sz C { cfg := cfg } pre).2 ++ rest) ∧
    bytesTo a (runLoop sz C { cfg := cfg } pre).2 ≤ (pre.map (fun i => bytesFrom a i.batch)).sum :=
  ⟨⟨_, runLoop_append sz C _ pre post⟩, C11_no_amplification sz C cfg pre a hnc⟩

/-- **What a half-open connection sends**: `update()` of a connection that has not been promoted
emits a datagram only if a reply is queued; the datagram carries queued SERVER_HELLO messages only,
they leave the queue, and the connection stays quiet - no keep-alive, no resend, no callback. -/
theorem C11_halfopen_sends_only_replies (sz : Sizes) (c : Conn) (t : Int) (hq : Quiet c) :
    Quiet (serverUpdate sz c t).1 ∧
    match (serverUpdate sz c t).2.2 with
    | .ok (some pkt) => pkt.msgs.length + owe (serverUpdate sz c t).1 = owe c ∧ pkt.msgs ≠ [] ∧
        ∀ m ∈ pkt.msgs, m.ty = .serverHello
    | _ => owe (serverUpdate sz c t).1 ≤ owe c :=
  quiet_serverUpdate sz c t hq

/-- **What a half-open connection does with what it is sent**: whatever the datagram - any bytes, any
header, sealed under its key or not - a connection that is not promoted by it stays quiet and owes
no more than before; a fresh one owes exactly one reply. -/
theorem C11_halfopen_receive (C : Crypto) (H : Hs) (tok : Nat) (tt : Option Nat) (f : Conn → Conn) (c : Conn) (t : Int)
    (h : Header) (d : Bytes) (hq : Quiet c)
    (hnp : Event.promoted ∉ (recvDatagram C (serverRoleOn H tok tt f) c t h d).2.1) :
    Quiet (recvDatagram C (serverRoleOn H tok tt f) c t h d).1 ∧
    owe (recvDatagram C (serverRoleOn H tok tt f) c t h d).1 ≤ owe c :=
  quiet_recvDatagram C H tok tt f c t h d hq hnp

/-! ### non-vacuity -/

/-- a fresh server-side connection is quiet and owes one reply -/
example : Quiet { isServer := true } ∧ owe { isServer := true } = 1 :=
  ⟨⟨rfl, rfl, rfl, by simp [qp], by intro m hm; simp [qp] at hm⟩, rfl⟩

/-- the hypothesis of the budget theorem is satisfiable and its counters count -/
example : nSendTo (9, 9) [SEvent.update, SEvent.sendTo (9, 9) ⟨true, 0, .serverHello, 1, 0, 0, 0, 0⟩ [], SEvent.sendTo (8, 8) ⟨true, 0, .serverHello, 1, 0, 0, 0, 0⟩ []] = 1 := by
  decide

/-! a concrete run (toy AEAD, toy handshake externals): a stranger at (9, 9) sends one well-formed
CLIENT_HELLO datagram and then nothing; over three iterations the server sends it exactly one
datagram and never promotes it - the bound of `C11_unverified_budget` is attained -/

def exHelloD : Bytes :=
  match create ⟨false, 5, .clientHello, 1, 0, 0, 0, 0⟩ [⟨1, .clientHello, [1, 2, 3]⟩] with
  | .ok p => (match toBytes Mpgs.Toy.crypto none p with | .ok d => d | .error _ => [])
  | .error _ => []

def exHelloHdr : Header :=
  match decodeHdr true exHelloD with
  | .ok h => h
  | .error _ => ⟨false, 0, .unknown, 0, 0, 0, 0, 0⟩

def exItem : Item := ⟨(9, 9), exHelloHdr, exHelloD, toyHs, [12345]⟩

def exRun : Srv × List SEvent :=
  runLoop ⟨1500⟩ Mpgs.Toy.crypto {} [⟨5120, 5121, [exItem], []⟩, ⟨5200, 5201, [], []⟩, ⟨5300, 5301, [], []⟩]

def noConnect : List SEvent → Bool
  | [] => true
  | .connect _ _ _ :: _ => false
  | _ :: t => noConnect t

example : nSendTo (9, 9) exRun.2 = 1 ∧ nHelloFrom (9, 9) [exItem] = 1 ∧ noConnect exRun.2 = true := by
  decide +kernel

/-- the same run in bytes: 29 in (20 header + 2 + 3 payload + 4 CRC), 27 out (the toy reply is one byte) -/
example : bytesTo (9, 9) exRun.2 = 27 ∧ bytesFrom (9, 9) [exItem] = 29 := by
  decide +kernel

end Mpgs.Server
