import MpgsModel.Lemmas.Lifecycle
/-!
# C11 over whole runs — no batch of datagrams and no handler behaviour stops the loop

In the model every exception that the code contains with a try/except is a `contained` event and
the iteration goes on; there is no other exit.  Hence (the functions being total) every iteration
reaches `handler.update`, whatever was queued and whatever the user's handler does, and a run of
`n` iterations delivers exactly `n` update events.  The tie of these containment points to the
real try/except blocks is the differential run of the unmodified `UdpServerThread.run`.
-/
namespace Mpgs.Server
open Mpgs.Bytes Mpgs.Wire Mpgs.Conn

def nUpdate : List SEvent → Nat
  | [] => 0
  | .update :: t => 1 + nUpdate t
  | _ :: t => nUpdate t

theorem nUpdate_append (a b : List SEvent) : nUpdate (a ++ b) = nUpdate a + nUpdate b := by
  induction a with
  | nil => simp [nUpdate]
  | cons e t ih => cases e <;> simp [nUpdate, ih, Nat.add_assoc]

theorem nUpdate_zero (evs : List SEvent) (h : ∀ e ∈ evs, e ≠ SEvent.update) : nUpdate evs = 0 := by
  induction evs with
  | nil => rfl
  | cons e t ih =>
    have ht := ih (fun x hx => h x (List.mem_cons_of_mem _ hx))
    have he := h e (List.mem_cons_self ..)
    cases e <;> first | exact absurd rfl he | simpa [nUpdate] using ht

theorem dispatchMsgs_no_update (sz : Sizes) (id : Nat) (msgs : List (Nat × Bytes)) (c : Conn) (acts : List HAct) :
    ∀ e ∈ (dispatchMsgs sz id c msgs acts).2.2, e ≠ SEvent.update := by
  intro e he
  rcases dispatchMsgs_events sz id msgs c acts e he with ⟨sq, p, h, _⟩ | ⟨w, h⟩ <;> (rw [h]; intro x; cases x)

theorem handleItem_no_update (sz : Sizes) (C : Crypto) (s : Srv) (t : Int) (it : Item) (acts : List HAct) :
    ∀ e ∈ (handleItem sz C s t it acts).2.2, e ≠ SEvent.update := by
  intro e he
  rcases C10_item_events sz C s t it acts e he with ⟨_, _, _, _, h⟩ | ⟨_, _, _, _, _, h, _⟩ | ⟨_, h⟩ <;>
    (rw [h]; intro x; cases x)

theorem handleItems_no_update (sz : Sizes) (C : Crypto) (t : Int) (s : Srv) (items : List Item) (acts : List HAct) :
    ∀ e ∈ (handleItems sz C t s items acts).2.2, e ≠ SEvent.update := by
  induction items generalizing s acts with
  | nil => intro e he; simp [handleItems] at he
  | cons it rest ih =>
    intro e he
    simp only [handleItems] at he
    rcases List.mem_append.mp he with h | h
    · exact handleItem_no_update sz C s t it acts e h
    · exact ih _ _ e h

theorem updateOut_no_update (C : Crypto) (sz : Sizes) (addr : Addr) (c : Conn) (t : Int) :
    ∀ x ∈ (updateOut C sz addr c t).2, x ≠ SEvent.update := by
  intro x hx hu
  have := updateOut_neutral C sz addr c t x hx
  unfold updateOut at hx
  split at hx
  · split at hx <;> (simp at hx; rw [hx] at hu; cases hu)
  · simp at hx
  · simp at hx; rw [hx] at hu; cases hu

theorem sweepConns_no_update (C : Crypto) (sz : Sizes) (t : Int) (s : Srv) (snap : List (Addr × Ent)) (acts : List HAct) :
    ∀ e ∈ (sweepConns C sz t s snap acts).2.2, e ≠ SEvent.update := by
  induction snap generalizing s acts with
  | nil => intro e he; simp [sweepConns] at he
  | cons x rest ih =>
    obtain ⟨addr, e0⟩ := x
    intro e he
    simp only [sweepConns] at he
    cases hc : pget s.conns addr with
    | none => rw [hc] at he; exact ih _ _ e he
    | some ent =>
      rw [hc] at he
      simp only at he
      generalize (if ent.conn.status = Status.disconnecting then Conn.disconnect ent.conn none else ent.conn) = c1 at he
      by_cases hcond : c1.status = Status.disconnected ∨ timedOut c1 t s.cfg.connTimeout = true
      · simp only [hcond, if_true] at he
        simp only [List.append_assoc, List.cons_append, List.nil_append, List.mem_cons, List.mem_append] at he
        rcases he with h | h | h | h
        · rw [h]; intro x; cases x
        · split at h
          · simp at h; rw [h]; intro x; cases x
          · simp at h
        · exact updateOut_no_update C sz addr _ t e h
        · exact ih _ _ e h
      · simp only [hcond, if_false] at he
        rcases List.mem_append.mp he with h | h
        · exact updateOut_no_update C sz addr _ t e h
        · exact ih _ _ e h

theorem sweepTemps_no_update (C : Crypto) (sz : Sizes) (t : Int) (s : Srv) (snap : List (Addr × Ent)) :
    ∀ e ∈ (sweepTemps C sz t s snap).2, e ≠ SEvent.update := by
  induction snap generalizing s with
  | nil => intro e he; simp [sweepTemps] at he
  | cons x rest ih =>
    obtain ⟨addr, ent⟩ := x
    intro e he
    simp only [sweepTemps] at he
    split at he
    · exact ih _ e he
    · rcases List.mem_append.mp he with h | h
      · exact updateOut_no_update C sz addr _ t e h
      · exact ih _ e h

/-- **Every iteration reaches `handler.update`, exactly once**, for every batch of queued
datagrams (any bytes, any addresses, any number), every pool content, every handler behaviour
(including raising from every event) and every clock. -/
theorem C11_update_every_iteration (sz : Sizes) (C : Crypto) (s : Srv) (tq ts : Int) (batch : List Item) (acts : List HAct) :
    nUpdate (iter sz C s tq ts batch acts).2 = 1 := by
  unfold iter
  have h1 := handleItems_no_update sz C tq s batch acts
  generalize handleItems sz C tq s batch acts = r1 at h1
  obtain ⟨s1, acts1, e1⟩ := r1
  simp only at h1 ⊢
  have h2 := sweepConns_no_update C sz ts (if (nextAct acts1).1 = HAct.kick then kickAll s1 else s1)
    (if (nextAct acts1).1 = HAct.kick then kickAll s1 else s1).conns (nextAct acts1).2
  generalize sweepConns C sz ts (if (nextAct acts1).1 = HAct.kick then kickAll s1 else s1)
    (if (nextAct acts1).1 = HAct.kick then kickAll s1 else s1).conns (nextAct acts1).2 = r2 at h2
  obtain ⟨s2, acts2, e2⟩ := r2
  simp only at h2 ⊢
  have h3 := sweepTemps_no_update C sz ts s2 s2.temps
  generalize sweepTemps C sz ts s2 s2.temps = r3 at h3
  obtain ⟨s3, e3⟩ := r3
  simp only at h3 ⊢
  simp only [nUpdate_append, nUpdate_zero e1 h1, nUpdate_zero e2 h2, nUpdate_zero e3 h3]
  have : nUpdate (if (nextAct acts1).1.raises = true then [SEvent.contained "update"] else []) = 0 := by
    split <;> rfl
  simp [nUpdate, this]

/-- **A run of `n` iterations delivers `n` update events**: nothing that arrives and nothing the
handler does ends or stalls the loop. -/
theorem C11_loop_never_stalls (sz : Sizes) (C : Crypto) (s : Srv) (ins : List IterIn) :
    nUpdate (runLoop sz C s ins).2 = ins.length := by
  induction ins generalizing s with
  | nil => rfl
  | cons i rest ih =>
    simp only [runLoop, nUpdate_append, C11_update_every_iteration, ih, List.length_cons]
    omega

end Mpgs.Server
