import MpgsModel.Model.Handshake
import MpgsModel.Lemmas.FrameKd
import MpgsModel.Props.C01
import MpgsModel.Props.C04
/-!
# C02 — Handshake authenticates the server, agrees one key, promotes on proof of key

`Hs` collects the external functions (decoding of hello bytes, ECDSA verify, ECDH+HKDF, signing).
The theorems hold for *every* `Hs`; the cryptographic facts an honest run needs are explicit
hypotheses of `C02_honest_agree`.  Unforgeability of ECDSA and secrecy of ECDH are assumed outside
Lean: the theorems say exactly where the code relies on them (`verify` under the pinned key).
-/
namespace Mpgs.Conn
open Mpgs.Bytes Mpgs.Wire

theorem adopt_fields (H : Hs) (c : Conn) (spub salt : Bytes) (token : Nat) :
    (adopt H c spub salt token).key = some (H.ecdhClient spub salt) ∧ (adopt H c spub salt token).token = token ∧
    (adopt H c spub salt token).status = .connected ∧
    ∃ m, (adopt H c spub salt token).outgoing = c.outgoing ++ [m] ∧ m.ty = .challengeResp ∧
      m.payload = H.challengeBytes token := by
  unfold adopt sendType
  split <;> exact ⟨rfl, rfl, rfl, _, rfl, rfl, rfl⟩

/-- **The client adopts a key / becomes CONNECTED only from a verified hello.** If
`_recvServerHello` changes the session key or sets CONNECTED, the data decoded as a server hello
whose signed payload verifies under the pinned public key (the key inside the hello is used only
when no key is pinned), and the adopted key and token are those of that signed payload. -/
theorem C02_client_key_only_if_verified (H : Hs) (c : Conn) (t : Int) (data : Bytes)
    (hch : (clientServerHello H c t data).1.key ≠ c.key ∨
           ((clientServerHello H c t data).1.status = .connected ∧ c.status ≠ .connected)) :
    ∃ root payload sig, H.parseServerHello data = .ok (root, payload, sig) ∧
      H.verify (checkKey c root) sig payload = true ∧
      ∃ spub salt token, H.parsePayload payload = .ok (spub, salt, token) ∧
        (clientServerHello H c t data).1.key = some (H.ecdhClient spub salt) ∧
        (clientServerHello H c t data).1.token = token := by
  unfold clientServerHello at hch ⊢
  cases hp : H.parseServerHello data with
  | error e => simp [hp] at hch
  | ok r =>
    obtain ⟨root, payload, sig⟩ := r
    simp only [hp] at hch ⊢
    cases hv : H.verify (checkKey c root) sig payload with
    | false =>
      simp only [hv, if_true] at hch
      rcases hch with h | h
      · exact absurd rfl h
      · simp at h
    | true =>
      simp only [hv, Bool.true_eq_false, if_false] at hch ⊢
      cases hpp : H.parsePayload payload with
      | error e =>
        simp only [hpp] at hch
        rcases hch with h | h
        · exact absurd rfl h
        · exact absurd h.1 h.2
      | ok q =>
        obtain ⟨spub, salt, token⟩ := q
        have := adopt_fields H c spub salt token
        exact ⟨root, payload, sig, rfl, hv, spub, salt, token, hpp, this.1, this.2.1⟩

/-- **A hello that does not verify leaves the client unconnected with no new key.** Invalid
signature: DISCONNECTED, key untouched, InvalidSignature raised; any decode failure: state
untouched, the exception raised. -/
theorem C02_bad_hello_no_key (H : Hs) (c : Conn) (t : Int) (data : Bytes) :
    (∀ e, H.parseServerHello data = .error e → clientServerHello H c t data = (c, [], some e)) ∧
    (∀ root payload sig, H.parseServerHello data = .ok (root, payload, sig) →
      H.verify (checkKey c root) sig payload = false →
      clientServerHello H c t data = ({ c with status := .disconnected }, [], some .invalidSignature)) ∧
    (∀ root payload sig e, H.parseServerHello data = .ok (root, payload, sig) →
      H.verify (checkKey c root) sig payload = true → H.parsePayload payload = .error e →
      clientServerHello H c t data = (c, [], some e)) := by
  refine ⟨?_, ?_, ?_⟩
  · intro e he; simp [clientServerHello, he]
  · intro root payload sig hp hv; simp [clientServerHello, hp, hv]
  · intro root payload sig e hp hv hpp; simp [clientServerHello, hp, hv, hpp]

/-- **The server promotes only on proof of key and token.** `_recvChallengeResponse` calls
`ctxt._onConnect` (event `promoted`) only if the data decodes to a challenge whose token equals the
token of the temp-pool entry for this address; in every other case the connection state is
untouched. -/
theorem C02_promote_only_on_token (H : Hs) (tempTok : Option Nat) (c : Conn) (t : Int) (data : Bytes) :
    (Event.promoted ∈ (serverChallenge H tempTok c t data).2.1 →
      ∃ tk, H.parseChallenge data = .ok tk ∧ tempTok = some tk ∧
        (serverChallenge H tempTok c t data).1 = { c with status := .connected } ∧
        (serverChallenge H tempTok c t data).2.1 = [.promoted]) ∧
    (Event.promoted ∉ (serverChallenge H tempTok c t data).2.1 → (serverChallenge H tempTok c t data).1 = c) := by
  unfold serverChallenge
  cases hp : H.parseChallenge data with
  | error e => simp
  | ok tk =>
    simp only
    by_cases h : tempTok = some tk
    · simp [h]
    · simp [h]

/-- callbacks produce user-level events only -/
theorem runLeaf_events (c : Conn) (cb : Cb) (v : Bool) :
    ∀ e ∈ (runLeaf c cb v).2, (∃ id v', e = Event.userCb id v') ∨ e = Event.clientDisconnectCb := by
  unfold runLeaf
  split
  · intro e he; simp only [List.mem_singleton] at he; subst he; exact Or.inl ⟨_, _, rfl⟩
  · split
    · intro e he; simp at he
    · split
      · intro e he; simp at he
      · intro e he; simp at he
      · split
        · intro e he; simp at he
        · simp only
          split
          · split
            · intro e he; simp only [List.mem_singleton] at he; subst he; exact Or.inl ⟨_, _, rfl⟩
            · intro e he; simp at he
          · intro e he; simp at he
  · intro e he; simp only [List.mem_singleton] at he; subst he; exact Or.inr rfl
  · intro e he; simp at he
  · intro e he; simp at he
  · intro e he; simp at he

theorem runCb_events (c : Conn) (cb : Cb) (v : Bool) :
    ∀ e ∈ (runCb c cb v).2, (∃ id v', e = Event.userCb id v') ∨ e = Event.clientDisconnectCb := by
  unfold runCb
  split
  · split
    · intro e he; simp at he
    · split
      · intro e he; simp at he
      · split
        · intro e he; simp at he
        · simp only
          split
          · exact runLeaf_events _ _ _
          · intro e he; simp at he
  · exact runLeaf_events _ _ _

/-- callbacks never produce a `promoted` event -/
theorem runCbs_no_promoted (c : Conn) (cbs : List Cb) (v : Bool) : Event.promoted ∉ (runCbs c cbs v).2 := by
  induction cbs generalizing c with
  | nil => simp [runCbs]
  | cons cb cbs ih =>
    simp only [runCbs, List.mem_append, not_or]
    refine ⟨?_, ih _⟩
    intro hmem
    rcases runCb_events c cb v _ hmem with ⟨id, v', h⟩ | h <;> cases h

theorem resolve_no_promoted (c : Conn) (s : Nat) (ok : Bool) : Event.promoted ∉ (resolve c s ok).2 := by
  unfold resolve
  simp only
  generalize (if ok = true then { c with acked := c.acked + 1 } else { c with timeouts := c.timeouts + 1 }) = c0
  cases hcb : aget c0.pendingCbs s with
  | none => cases hr : aget c0.pendingRetry s <;> simp
  | some cbs =>
    simp only
    have := runCbs_no_promoted c0 cbs ok
    generalize runCbs c0 cbs ok = r at *
    obtain ⟨c1, ev⟩ := r
    cases hr : aget c1.pendingRetry s <;> simpa using this

theorem handleAckKeys_no_promoted (a b : Nat) (ks : List Nat) (c : Conn) :
    Event.promoted ∉ (handleAckKeys c a b ks).2 := by
  induction ks generalizing c with
  | nil => simp [handleAckKeys]
  | cons k ks ih =>
    simp only [handleAckKeys]
    split
    · exact ih c
    · split
      · simp only [List.mem_append, not_or]; exact ⟨resolve_no_promoted _ _ _, ih _⟩
      · split
        · simp only [List.mem_append, not_or]; exact ⟨resolve_no_promoted _ _ _, ih _⟩
        · exact ih c

theorem recvAppFragment_no_promoted (c : Conn) (t : Int) (m : Nat) (f : Bytes) :
    Event.promoted ∉ (recvAppFragment c t m f).2.1 := by
  unfold recvAppFragment
  split
  · simp
  · simp only; split <;> simp

/-- a `promoted` event among the events of a message list comes from a CHALLENGE_RESP message
whose token matches the temp-pool entry -/
theorem recvMessages_promoted (H : Hs) (tok : Nat) (tempTok : Option Nat) (t : Int) (ms : List WMsg) (c : Conn)
    (hp : Event.promoted ∈ (recvMessages (serverRole H tok tempTok) c t ms).2.1) :
    ∃ m ∈ ms, m.ty = .challengeResp ∧ ∃ tk, H.parseChallenge m.payload = .ok tk ∧ tempTok = some tk := by
  induction ms generalizing c with
  | nil => simp [recvMessages] at hp
  | cons m ms ih =>
    simp only [recvMessages] at hp
    -- events of the first message
    have hfirst : Event.promoted ∈ (recvMessage (serverRole H tok tempTok) c t m).2.1 →
        m.ty = .challengeResp ∧ ∃ tk, H.parseChallenge m.payload = .ok tk ∧ tempTok = some tk := by
      intro h
      unfold recvMessage at h
      split at h
      · simp at h
      · split at h
        · -- client hello handler: no events
          simp only [serverRole, serverClientHello] at h
          split at h
          · simp at h
          · split at h
            · simp at h
            · split at h
              · simp at h
              · split at h <;> simp at h
        · simp [serverRole] at h
        · rename_i hty
          have := (C02_promote_only_on_token H tempTok _ t m.payload).1 (by simpa [serverRole] using h)
          obtain ⟨tk, h1, h2, _⟩ := this
          exact ⟨hty, tk, h1, h2⟩
        · simp at h
        · simp at h
        · exact absurd h (recvAppFragment_no_promoted _ _ _ _)
        · simp at h
        · simp at h
    generalize hr : recvMessage (serverRole H tok tempTok) c t m = r at hp hfirst
    obtain ⟨c1, e1, err⟩ := r
    cases err with
    | some e =>
      simp only at hp
      exact ⟨m, by simp, hfirst hp⟩
    | none =>
      simp only [List.mem_append] at hp
      rcases hp with hp | hp
      · exact ⟨m, by simp, hfirst hp⟩
      · obtain ⟨m', hm', h'⟩ := ih c1 hp
        exact ⟨m', by simp [hm'], h'⟩

/-- **The server reports a client as connected only on proof of key and token.** If processing a
datagram on a server connection that holds key `k` calls `ctxt._onConnect` (event `promoted`),
then the datagram was exactly header + length + tag long and AES-GCM opened it under `k`
(nonce = bytes 0..11, AAD = bytes 0..19), and it carried a CHALLENGE_RESP message decoding to the
token of this address's temp-pool entry. -/
theorem C02_promote_only_on_proof (C : Crypto) (H : Hs) (tok : Nat) (tempTok : Option Nat) (c : Conn) (t : Int)
    (h : Header) (d : Bytes) (k : Bytes) (hk : keyed c.key = some k)
    (hp : Event.promoted ∈ (recvDatagram C (serverRole H tok tempTok) c t h d).2.1) :
    ∃ pkt, fromBytes C h c.key d = .ok pkt ∧ d.length = 20 + h.length + 16 ∧
      C.aopen k (take 12 d) (take 20 d) (slice 20 (20 + h.length + 16) d) = some pkt.msg ∧
      ∃ m ∈ pkt.msgs, m.ty = .challengeResp ∧ ∃ tk, H.parseChallenge m.payload = .ok tk ∧ tempTok = some tk := by
  rcases recv_cases C (serverRole H tok tempTok) c t h d with hd | ⟨pkt, bf, hf, _, _, _, heq⟩
  · rw [hd] at hp; simp [drop1] at hp
  · rw [heq] at hp
    unfold accept at hp
    simp only [List.mem_append] at hp
    have hopen := C01_keyed_decode_needs_open C h c.key k d pkt hk hf
    rcases hp with hp | hp
    · exact absurd hp (by unfold handleAckBits; exact handleAckKeys_no_promoted _ _ _ _)
    · exact ⟨pkt, hf, hopen.1, hopen.2, recvMessages_promoted H tok tempTok t pkt.msgs _ hp⟩

/-- **Honest handshake.** Assume the externals behave as the real ones do for honest parties:
the server's reply to this hello decodes to a payload signed for the key the client checks with,
the payload carries the server's token, ECDH agrees, the challenge encoding round-trips and the
hello is padded to at least the size of the reply (the anti-amplification rule).
Then after the client processes the server hello both ends hold the same session key and the same
token, the client is CONNECTED, and the server — on receiving the client's challenge while its
temp-pool entry carries that token — promotes the connection exactly once and is CONNECTED. -/
theorem C02_honest_agree (H : Hs) (tok : Nat) (srv cli : Conn) (t : Int) (hello : Bytes)
    (root payload sig spub salt : Bytes)
    (hfresh : srv.key = none)
    (hver : H.parseClientHello hello = .ok 1)
    (hpad : (H.serverReply hello tok).2.length ≤ hello.length)
    (hparse : H.parseServerHello (H.serverReply hello tok).2 = .ok (root, payload, sig))
    (hsig : H.verify (checkKey cli root) sig payload = true)
    (hpay : H.parsePayload payload = .ok (spub, salt, tok))
    (hdh : H.ecdhClient spub salt = (H.serverReply hello tok).1)
    (hch : H.parseChallenge (H.challengeBytes tok) = .ok tok) :
    let srv' := (serverClientHello H tok srv t hello).1
    let cli' := (clientServerHello H cli t (H.serverReply hello tok).2).1
    srv'.key = cli'.key ∧ srv'.token = tok ∧ cli'.token = tok ∧ cli'.status = .connected ∧
    (∃ m, cli'.outgoing = cli.outgoing ++ [m] ∧ m.ty = .challengeResp ∧ m.payload = H.challengeBytes tok) ∧
    (serverChallenge H (some srv'.token) srv' t (H.challengeBytes tok)).2.1 = [.promoted] ∧
    (serverChallenge H (some srv'.token) srv' t (H.challengeBytes tok)).1.status = .connected := by
  have hs : (serverClientHello H tok srv t hello).1.key = some (H.serverReply hello tok).1 ∧
      (serverClientHello H tok srv t hello).1.token = tok := by
    have hpad' : ¬ (H.serverReply hello tok).2.length > hello.length := by omega
    simp only [serverClientHello, hfresh, Option.isSome_none, Bool.false_eq_true, hver, ne_eq, not_true_eq_false, if_false, hpad', sendType]
    first | (split <;> exact ⟨rfl, rfl⟩) | exact ⟨trivial, trivial⟩ | simp
  have hc : (clientServerHello H cli t (H.serverReply hello tok).2).1 = adopt H cli spub salt tok := by
    simp [clientServerHello, hparse, hsig, hpay]
  have ha := adopt_fields H cli spub salt tok
  simp only
  rw [hc]
  refine ⟨by rw [hs.1, ha.1, hdh], hs.2, ha.2.1, ha.2.2.1, ha.2.2.2, ?_, ?_⟩
  · simp [serverChallenge, hch, hs.2]
  · simp [serverChallenge, hch, hs.2]

/-- server side of the hello: a hello that does not decode, or of another protocol version,
leaves the fresh connection without key, token and reply -/
theorem C02_server_hello_gate (H : Hs) (tok : Nat) (c : Conn) (t : Int) (data : Bytes) (hfresh : c.key = none) :
    (∀ e, H.parseClientHello data = .error e → serverClientHello H tok c t data = (c, [], some e)) ∧
    (∀ v, H.parseClientHello data = .ok v → v ≠ 1 → serverClientHello H tok c t data = (c, [], none)) := by
  constructor
  · intro e he; simp [serverClientHello, hfresh, he]
  · intro v hv hne; simp [serverClientHello, hfresh, hv, hne]

/-! ### non-vacuity: an `Hs` instance satisfying the honest-run hypotheses -/

def toyHs : Hs :=
  ⟨fun _ => .ok 1, fun _ => .ok ([1], [2], [3]), fun _ _ _ => true, fun _ => .ok ([4], [5], 77),
   fun _ => .ok 77, fun _ _ => [9, 9], fun _ _ => ([9, 9], [8]), fun _ => [6]⟩

example : (clientServerHello toyHs { isServer := false } 0 [8]).1.key = some [9, 9] := by decide
example : (serverChallenge toyHs (some 77) { isServer := true, token := 77 } 0 [6]).2.1 = [.promoted] := by decide

end Mpgs.Conn
