import MpgsModel.Lemmas.RouterTable
import MpgsModel.Lemmas.RouterUnique
import MpgsModel.Lemmas.RouterPlain
import MpgsModel.Lemmas.RouterWitness
/-
C16 — HTTP router matches paths exactly as the documented pattern grammar says.

Model: `Model/Regex.lean` (CPython `re` for the generated fragment), `Model/Router.lean`
(`patternToRegex`, `registerRoutes`, `getRoute`, `dispatch` after fixes/C16-1, C16-2) and, in the
same file, `Spec` — the documented rule on path segments, no regex involved:
`Spec.pathMatches pat path`, `Spec.sols pat path` (all admissible value tuples), `Spec.bindings`.

Hypotheses used below
  `PathOK path`   the path starts with `/` and contains no newline
  `e.WF`          a literal part contains no `/` — true of everything `parsePattern` produces
                  (`parsePattern_wf`), which is why the `_string` form has no such hypothesis
  `compile pat = .ok …`  the pattern is accepted, i.e. has at most one `?`/`+`/`*` parameter
                  (`C16_two_multi_params_rejected`); it may stand anywhere in the pattern
-/
namespace Mpgs.Router
open Mpgs.Regex

/-- **The compiled regex accepts exactly the paths the documented rule accepts** — every pattern
    over the grammar (any number of parts, the multi-segment parameter anywhere), every path. -/
theorem C16_regex_iff_spec (pat : List Elem) (re : Re) (toks : List (List Char))
    (hc : compile pat = .ok (re, toks)) (hwf : ∀ e ∈ pat, e.WF)
    (path : List Char) (hp : PathOK path) :
    (reMatch re path).isSome = true ↔ Spec.pathMatches pat path = true := by
  rw [(match_spec pat re toks hc hwf path hp).1]

/-- the same for every pattern *string*: whatever `patternToRegex` accepts -/
theorem C16_regex_iff_spec_string (pattern : List Char) (re : Re) (toks : List (List Char))
    (hc : patternToRegex pattern = .ok (re, toks)) (path : List Char) (hp : PathOK path) :
    (reMatch re path).isSome = true ↔ Spec.pathMatches (parsePattern pattern) path = true :=
  C16_regex_iff_spec (parsePattern pattern) re toks hc (parsePattern_wf pattern) path hp

/-- **The bound values are reported**: what `m.groups()` holds after a match is one of the value
    tuples the Spec admits for this pattern and path, up to "absent ≡ empty" (`AbsEq`; the regex's
    `|\/` alternative can leave the group of `:n?` / `:n*` unset where the Spec says empty). -/
theorem C16_bindings_are_spec (pat : List Elem) (re : Re) (toks : List (List Char))
    (hc : compile pat = .ok (re, toks)) (hwf : ∀ e ∈ pat, e.WF)
    (path : List Char) (hp : PathOK path) (caps : Caps) (hm : reMatch re path = some caps) :
    ∃ b ∈ Spec.sols pat path, AbsEq (groups toks.length caps) b :=
  (match_spec pat re toks hc hwf path hp).2 caps hm

/-- the Spec's value tuples are unique up to the stated normalisation (`ValsEq`: absent ≡ empty,
    one trailing `/` on the multi-segment value), so "the spec's bindings" is well defined.
    `e.NE`: literal parts are non-empty — true of everything `parsePattern` produces. -/
theorem C16_spec_bindings_unique (pat : List Elem) (path : List Char) (hn : nFinal pat ≤ 1)
    (hne : ∀ e ∈ pat, e.NE) (hp : PathOK path) (b b' : Spec.Vals)
    (hb : b ∈ Spec.sols pat path) (hb' : b' ∈ Spec.sols pat path) : ValsEq b b' :=
  sols_unique pat path hn hne hp.1 b b' hb hb'

/-- **captured values = the Spec's bindings up to the normalisation**, for every pattern string -/
theorem C16_bindings_eq_spec (pattern : List Char) (re : Re) (toks : List (List Char))
    (hc : patternToRegex pattern = .ok (re, toks)) (path : List Char) (hp : PathOK path)
    (caps : Caps) (hm : reMatch re path = some caps) :
    ∃ v, Spec.bindings (parsePattern pattern) path = some v ∧
      ValsEq (groups toks.length caps) v :=
  groups_eq_bindings (parsePattern pattern) re toks hc (parsePattern_wf pattern)
    (parsePattern_ne pattern) path hp caps hm

/-- **`Spec` is the plain documented rule wherever the documentation speaks**: on a path without
    empty segments (`Spec.clean`, no `//`) `Spec.pathMatches` coincides with `Spec.plainMatches` —
    drop one trailing `/`, split `/s1/…/sn`, literal = equal segment, `:n` one segment, `:n?` zero or
    one, `:n+` one or more, `:n*` zero or more.  The choices `Spec` makes for empty segments are
    invisible there. -/
theorem C16_spec_is_plain_rule (pattern : List Char) (path : List Char)
    (hn : nFinal (parsePattern pattern) ≤ 1) (hp : PathOK path) (hc : Spec.clean path = true) :
    Spec.pathMatches (parsePattern pattern) path = Spec.plainMatches (parsePattern pattern) path :=
  pathMatches_eq_plain (parsePattern pattern) path hn (parsePattern_ne pattern) hp.1 hc

/-- hence: on paths without empty segments the compiled regex accepts exactly what the plain
    documented rule accepts -/
theorem C16_regex_iff_plain_rule (pattern : List Char) (re : Re) (toks : List (List Char))
    (hc : patternToRegex pattern = .ok (re, toks)) (path : List Char) (hp : PathOK path)
    (hcl : Spec.clean path = true) :
    (reMatch re path).isSome = true ↔ Spec.plainMatches (parsePattern pattern) path = true := by
  rw [C16_regex_iff_spec_string pattern re toks hc path hp,
    C16_spec_is_plain_rule pattern path ((compile_isOk _).mp ⟨re, toks, hc⟩) hp hcl]

/-- **one optional trailing slash is tolerated**: a path without empty segments that does not end
    in `/` is accepted exactly when the same path plus one `/` is -/
theorem C16_trailing_slash_tolerated (pattern : List Char) (re : Re) (toks : List (List Char))
    (hc : patternToRegex pattern = .ok (re, toks)) (path : List Char) (hp : PathOK path)
    (hcl : Spec.clean path = true) (hl : path.getLast? ≠ some '/') :
    (reMatch re (path ++ ['/'])).isSome = (reMatch re path).isSome := by
  have hcl' : Spec.clean (path ++ ['/']) = true := by
    unfold Spec.clean at hcl ⊢
    rw [plainSegs_snoc path hl]; exact hcl
  rw [Bool.eq_iff_iff, C16_regex_iff_plain_rule pattern re toks hc path hp hcl,
    C16_regex_iff_plain_rule pattern re toks hc (path ++ ['/']) (pathOK_snoc hp) hcl']
  unfold Spec.plainMatches
  rw [plainSegs_snoc path hl]

/-- a pattern is accepted iff it has at most one `?`/`+`/`*` parameter (else `ValueError`) -/
theorem C16_two_multi_params_rejected (pat : List Elem) :
    (∃ re toks, compile pat = .ok (re, toks)) ↔ nFinal pat ≤ 1 :=
  compile_isOk pat

/-- **First registered matching route of the request's method**: after registering `rs` (all
    accepted) on a fresh router, `getRoute(method, path)` returns the first route of `rs`, in
    registration order, that has this method and whose pattern the Spec accepts; what it reports
    are that route's tokens zipped with a Spec value tuple (up to absent ≡ empty). -/
theorem C16_first_route_wins (rs : List Route) (t : Table) (method : String) (path : List Char)
    (hreg : registerRoutes emptyTable rs = (t, none)) (hp : PathOK path) :
    ((getRoute t method path).map (·.1) =
      (rs.filter (fun r => r.method = method)).find?
        (fun r => Spec.pathMatches (parsePattern r.pattern) path)) ∧
    (∀ r b, getRoute t method path = some (r, b) → ReportOK r path b) :=
  getRoute_spec rs t method path hreg hp

/-- **404**: when the rate limiter admits the request, `dispatch` answers 404 exactly when no
    registered route of the method is accepted by the Spec. -/
theorem C16_404 (rs : List Route) (t : Table) (method : String) (path : List Char)
    (hreg : registerRoutes emptyTable rs = (t, none)) (hp : PathOK path) :
    (dispatch t false method path).status? = some 404 ↔
      ∀ r ∈ rs, r.method = method → Spec.pathMatches (parsePattern r.pattern) path = false := by
  have h := (getRoute_spec rs t method path hreg hp).1
  unfold dispatch
  simp only [Bool.false_eq_true, if_false]
  cases hg : getRoute t method path with
  | none =>
    rw [hg] at h
    simp only [Option.map_none] at h
    have := List.find?_eq_none.mp h.symm
    simp only [Resp.status?, true_iff]
    intro r hr hm
    have := this r (List.mem_filter.mpr ⟨hr, by simp [hm]⟩)
    simpa using this
  | some rb =>
    obtain ⟨r, b⟩ := rb
    rw [hg] at h
    simp only [Option.map_some] at h
    have hf := List.find?_some h.symm
    have hmem := List.mem_of_find?_eq_some h.symm
    obtain ⟨hr, hm⟩ := List.mem_filter.mp hmem
    simp only [Resp.status?]
    constructor
    · intro h; cases h
    · intro hall
      have := hall r hr (by simpa using hm)
      rw [this] at hf
      cases hf

/-! ### non-vacuity -/

example : PathOK (s "/abc/x/y/") := ⟨⟨_, rfl⟩, by unfold NoNl; decide⟩
example : ∀ e ∈ parsePattern (s "/abc/:rest+"), e.WF := parsePattern_wf _
example : parsePattern (s "/a.b/:x/:y?") = [.lit (s "a.b"), .param (s "x"), .opt (s "y")] := by decide
example : (patternToRegex (s "/abc/:rest+")).toOption.map (fun p => String.ofList p.1.pretty)
    = some "^\\/abc\\/(.+)\\/?$" := by decide
example : Spec.bindings (parsePattern (s "/abc/:rest+")) (s "/abc/x/y/") = some [some (s "x/y/")] := by
  decide
example : Spec.pathMatches (parsePattern (s "/abc/:rest+")) (s "/abcdef") = false := by decide
example : Spec.pathMatches (parsePattern (s "/a.b")) (s "/aXb") = false := by decide
example : Spec.pathMatches (parsePattern (s "/a/:x*/b")) (s "/a/p/q/b/") = true := by decide
example : nFinal (parsePattern (s "/a/:x*/:y?")) = 2 := by decide
example : ∀ e ∈ parsePattern (s "/abc/:rest+"), e.NE := parsePattern_ne _
example : Spec.clean (s "/abc/x/y/") = true := by decide
example : Spec.clean (s "/") = true := by decide
example : Spec.clean (s "/abc//y") = false := by decide
-- the cleanliness hypothesis is needed: on `//b` the plain reading lets `:x+` take the empty segment
example : Spec.plainMatches (parsePattern (s "/:x+/b")) (s "//b") = true ∧
    Spec.pathMatches (parsePattern (s "/:x+/b")) (s "//b") = false := by decide
-- the normalisation is needed: with the trailing slash the Spec admits both `x/y/` and `x/y`
example : Spec.sols (parsePattern (s "/abc/:rest+")) (s "/abc/x/y/")
    = [[some (s "x/y/")], [some (s "x/y")]] := by decide
example : ValEq (some (s "x/y/")) (some (s "x/y")) := Or.inr (Or.inl rfl)
-- a concrete table for `C16_first_route_wins` / `C16_404`: both routes accept `/a/q`, the first wins;
-- only the second accepts `/a/`; nothing accepts `/b`
example : (registerRoutes emptyTable [⟨1, "GET", s "/a/:x"⟩, ⟨2, "GET", s "/a/:x?"⟩]).2 = none := by
  decide
example :
    let t := (registerRoutes emptyTable [⟨1, "GET", s "/a/:x"⟩, ⟨2, "GET", s "/a/:x?"⟩]).1
    (getRoute t "GET" (s "/a/q")).map (·.1.id) = some 1 ∧
    (getRoute t "GET" (s "/a/")).map (·.1.id) = some 2 ∧
    (dispatch t false "GET" (s "/b")).status? = some 404 ∧
    (dispatch t false "PUT" (s "/a/q")).status? = some 404 := by
  decide

/-! ### the two defects of the unrepaired code, in the model

`^\/abc\/?(.+)\/?$` (the text the unrepaired code generates for `/abc/:rest+`) and `^\/a?\/?$`
(for the literal part `a?`, metacharacter unescaped; `/a.b` vs `/aXb` is the same defect, but a
bare `.` is outside the modelled fragment) accept paths the documented rule rejects. -/

theorem C16_unpatched_plus_overmatches :
    (String.ofList unpatchedPlus.pretty = "^\\/abc\\/?(.+)\\/?$") ∧
    (reMatch unpatchedPlus (s "/abcdef")).map (groups 1) = some [some (s "def")] ∧
    Spec.pathMatches (parsePattern (s "/abc/:rest+")) (s "/abcdef") = false := by
  decide

theorem C16_unescaped_literal_overmatches :
    (String.ofList unescapedQuestion.pretty = "^\\/a?\\/?$") ∧
    (reMatch unescapedQuestion (s "/")).isSome = true ∧
    parsePattern (s "/a?") = [.lit (s "a?")] ∧
    Spec.pathMatches (parsePattern (s "/a?")) (s "/") = false := by
  decide

end Mpgs.Router
