import MpgsModel.Lemmas.Lifecycle
/-!
# C10 - a server-initiated "end of the round"

`handler.update` may disconnect clients itself.  The model's `HAct.kick` is the strongest form:
every connected client at once (`kickAll`).  The sweep of the same iteration then reports each of
them with its `disconnect` event and empties the connected pool.
-/
namespace Mpgs.Server
open Mpgs.Bytes Mpgs.Wire Mpgs.Conn

theorem disconnect_status (c : Conn) (cb : Option Cb) : (Conn.disconnect c cb).status = .disconnected := by
  unfold Conn.disconnect
  split <;> rfl

theorem sweepTemps_conns (C : Crypto) (sz : Sizes) (t : Int) (s : Srv) (snap : List (Addr × Ent)) :
    (sweepTemps C sz t s snap).1.conns = s.conns := by
  induction snap generalizing s with
  | nil => rfl
  | cons x rest ih =>
    obtain ⟨addr, e⟩ := x
    simp only [sweepTemps]
    split
    · exact ih _
    · exact ih _

theorem sweepConns_temps_conns (C : Crypto) (sz : Sizes) (t : Int) (s : Srv) (snap : List (Addr × Ent)) (acts : List HAct) :
    (sweepConns C sz t s snap acts).1.temps = s.temps := by
  induction snap generalizing s acts with
  | nil => rfl
  | cons x rest ih =>
    obtain ⟨addr, e0⟩ := x
    simp only [sweepConns]
    cases hg : pget s.conns addr with
    | none => exact ih s acts
    | some ent =>
      simp only
      generalize (if ent.conn.status = Status.disconnecting then Conn.disconnect ent.conn none else ent.conn) = c1
      by_cases hcond : c1.status = Status.disconnected ∨ timedOut c1 t s.cfg.connTimeout = true
      · simp only [hcond, if_true]
        exact ih { s with conns := pdel s.conns addr } (nextAct acts).2
      · simp only [hcond, if_false]
        exact ih { s with conns := pset s.conns addr { ent with conn := (updateOut C sz addr c1 t).1 } } acts

/-- sweeping a pool in which every connection is DISCONNECTED removes every swept entry and reports
each of them once -/
theorem sweepConns_all_disconnected (C : Crypto) (sz : Sizes) (t : Int) (s : Srv) (snap : List (Addr × Ent)) (acts : List HAct)
    (hk : KN s.conns) (hall : ∀ a e, pget s.conns a = some e → e.conn.status = .disconnected)
    (hsnap : ∀ x ∈ snap, pget s.conns x.1 = some x.2) (hnd : (snap.map (·.1)).Nodup) :
    (∀ x ∈ snap, pget (sweepConns C sz t s snap acts).1.conns x.1 = none) ∧
    (∀ a, pget s.conns a = none → pget (sweepConns C sz t s snap acts).1.conns a = none) ∧
    (∀ x ∈ snap, SEvent.disconnect x.2.id ∈ (sweepConns C sz t s snap acts).2.2) := by
  induction snap generalizing s acts with
  | nil => exact ⟨by intro x hx; simp at hx, fun a h => h, by intro x hx; simp at hx⟩
  | cons x rest ih =>
    obtain ⟨addr, e0⟩ := x
    simp only [List.map_cons, List.nodup_cons] at hnd
    have hne : ∀ y ∈ rest, y.1 ≠ addr := by
      intro y hy heq
      exact hnd.1 (List.mem_map.mpr ⟨y, hy, heq⟩)
    have hcur : pget s.conns addr = some e0 := hsnap (addr, e0) (List.mem_cons_self ..)
    have hst : e0.conn.status = .disconnected := hall addr e0 hcur
    simp only [sweepConns, hcur]
    have hnd' : ¬ (e0.conn.status = Status.disconnecting) := by rw [hst]; decide
    rw [if_neg hnd', if_pos (Or.inl hst)]
    have ih' := ih { s with conns := pdel s.conns addr } (nextAct acts).2 (kn_pdel _ _ hk)
      (by
        intro a e he
        have hm := (pdel_mem s.conns addr hk a e).mp (pget_some_mem _ _ _ he)
        exact hall a e (pget_of_mem _ _ _ hk hm.1))
      (by
        intro y hy
        simp only
        rw [lc_pget_pdel_ne _ _ _ (hne y hy)]
        exact hsnap y (List.mem_cons_of_mem _ hy)) hnd.2
    generalize sweepConns C sz t { s with conns := pdel s.conns addr } rest (nextAct acts).2 = r at ih'
    obtain ⟨s2, acts2, ev⟩ := r
    simp only at ih' ⊢
    have hgone : pget (pdel s.conns addr) addr = none := by
      cases h : pget (pdel s.conns addr) addr with
      | none => rfl
      | some e => exact absurd rfl ((pdel_mem s.conns addr hk addr e).mp (pget_some_mem _ _ _ h)).2
    refine ⟨?_, ?_, ?_⟩
    · intro y hy
      rcases List.mem_cons.mp hy with h | h
      · rw [h]; exact ih'.2.1 addr hgone
      · exact ih'.1 y h
    · intro a ha
      apply ih'.2.1 a
      by_cases hab : a = addr
      · rw [hab]; exact hgone
      · rw [lc_pget_pdel_ne _ _ _ hab]; exact ha
    · intro y hy
      rcases List.mem_cons.mp hy with h | h
      · rw [h]; simp
      · have := ih'.2.2 y h
        simp only [List.append_assoc, List.cons_append, List.nil_append, List.mem_cons, List.mem_append]
        exact Or.inr (Or.inr (Or.inr this))


/-- **"End of the round"**: when `handler.update` disconnects every connected client, the sweep of
that very iteration reports each of them with a `disconnect` event and the connected pool is empty
afterwards - whatever was queued in the iteration, for every handler behaviour in the other
events and every clock.  (That each identity is reported at most once, and only after its
`connect`, is `C10_lifecycle_whole_run`.) -/
theorem C10_kick_ends_the_round (sz : Sizes) (C : Crypto) (s : Srv) (tq ts : Int) (batch : List Item) (acts : List HAct)
    (st : LState) (hi : Inv s st)
    (hkick : (nextAct (handleItems sz C tq s batch acts).2.1).1 = HAct.kick) :
    (iter sz C s tq ts batch acts).1.conns = [] ∧
    ∀ a e, pget (handleItems sz C tq s batch acts).1.conns a = some e →
      SEvent.disconnect e.id ∈ (iter sz C s tq ts batch acts).2 := by
  have h1 := handleItems_step sz C tq s batch acts st hi
  unfold iter
  generalize handleItems sz C tq s batch acts = r1 at *
  obtain ⟨s1, acts1, e1⟩ := r1
  simp only at h1 hkick ⊢
  rw [if_pos hkick]
  have hk1 : KN (kickAll s1).conns := (inv_kickAll s1 _ h1.2).knc
  have hall : ∀ a e, pget (kickAll s1).conns a = some e → e.conn.status = .disconnected := by
    intro a e he
    obtain ⟨e0, _, rfl⟩ := (kickAll_mem s1 a e).mp (pget_some_mem _ _ _ he)
    exact disconnect_status _ _
  have hsw := sweepConns_all_disconnected C sz ts (kickAll s1) (kickAll s1).conns (nextAct acts1).2 hk1 hall
    (fun x hx => pget_of_mem _ _ _ hk1 hx) hk1
  have ht := sweepConns_temps_conns C sz ts (kickAll s1) (kickAll s1).conns (nextAct acts1).2
  generalize sweepConns C sz ts (kickAll s1) (kickAll s1).conns (nextAct acts1).2 = r2 at *
  obtain ⟨s2, acts2, e2⟩ := r2
  simp only at hsw ht ⊢
  have hc3 := sweepTemps_conns C sz ts s2 s2.temps
  generalize sweepTemps C sz ts s2 s2.temps = r3 at *
  obtain ⟨s3, e3⟩ := r3
  simp only at hc3 ⊢
  constructor
  · rw [hc3]
    -- every key of the swept pool is gone, and no key was added
    cases hs2 : s2.conns with
    | nil => rfl
    | cons x rest =>
      exfalso
      have hx : pget s2.conns x.1 = some x.2 := by rw [hs2]; simp [pget]
      by_cases hin : ∃ e, pget (kickAll s1).conns x.1 = some e
      · obtain ⟨e, he⟩ := hin
        have := hsw.1 (x.1, e) (pget_some_mem _ _ _ he)
        rw [this] at hx; cases hx
      · have hn : pget (kickAll s1).conns x.1 = none := by
          cases h : pget (kickAll s1).conns x.1 with
          | none => rfl
          | some e => exact absurd ⟨e, h⟩ hin
        have := hsw.2.1 x.1 hn
        rw [this] at hx; cases hx
  · intro a e he
    have hke : pget (kickAll s1).conns a = some (kickEnt e) := by rw [pget_kickAll, he]; rfl
    have := hsw.2.2 (a, kickEnt e) (pget_some_mem _ _ _ hke)
    simp only [List.mem_append]
    exact Or.inl (Or.inr this)

/-- non-vacuity: with nothing queued and one connected client, a kicking `update` handler is the first handler call -/
example : (nextAct (handleItems ⟨1500⟩ ⟨fun _ _ _ p => p, fun _ _ _ c => some c⟩ 0
    { conns := [((1, 1), ⟨0, { isServer := true, status := .connected }⟩)] } [] [HAct.kick]).2.1).1 = HAct.kick := rfl

end Mpgs.Server
