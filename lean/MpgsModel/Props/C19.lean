import MpgsModel.Lemmas.AuthDamage
/-!
# C19 — Password hashing: the right password verifies, every other one does not

Property theorems only (helper lemmas live in `Lemmas/Auth*.lean`).  The model is `Mpgs.Auth`
(`Model/Auth.lean`, following `auth.py` with fixes C19-1 and C19-2).  In every theorem the
key-derivation function `kdf` (scrypt), the pre-hash `sha` (SHA-256) and the salt are arbitrary:
nothing about them is assumed except the hypotheses written out.
-/
namespace Mpgs.Auth

/-- `base64.b64decode(base64.b64encode(b)) == b` for every byte string (induction over 3-byte
groups); everything below rests on it. -/
theorem C19_b64_roundtrip (b : Bytes) : b64decode (b64encode b) = .ok b :=
  b64decode_b64encode b

/-- `hash_password` succeeds for every byte-string password and every salt, and its result is
`scrypt:1:<b64 params>:<b64 salt+digest>` (ASCII). -/
theorem C19_hash_total (kdf : Kdf) (sha : Bytes → Bytes) (salt pw : Bytes) :
    ∃ h, hashPassword kdf sha salt (.bytes pw) = .ok h ∧
      encodeUtf8 h = .ok (kScrypt ++ colon :: (kOne ++ colon :: (b64encode [64, 0, 16, 1, 16, 24] ++ colon ::
        b64encode (salt ++ kdf defaultN defaultR defaultP DIGEST_LENGTH salt (sha pw))))) :=
  hashPassword_ok kdf sha salt pw

/-- **the right password verifies**: `verify_password(p, hash_password(p)) is True` for every
byte string `p` and every 16-byte salt (what `os.urandom(16)` returns), whatever functions scrypt
and SHA-256 are, provided the KDF returns as many bytes as it was asked for on this one call. -/
theorem C19_verify_own (kdf : Kdf) (sha : Bytes → Bytes) (salt pw : Bytes) (h : PyStr)
    (hs : salt.length = SALT_LENGTH)
    (hk : (kdf defaultN defaultR defaultP DIGEST_LENGTH salt (sha pw)).length = DIGEST_LENGTH)
    (hh : hashPassword kdf sha salt (.bytes pw) = .ok h) :
    verifyPassword kdf sha (.bytes pw) (.str h) = .ok true := by
  rw [verifyPassword_true_iff]
  exact ⟨_, verifyPrepare_hash kdf sha salt pw pw h hs hk hh, rfl⟩

/-- **every other password is rejected**: the comparison is of the whole derived digest with the
whole embedded digest, so `verify_password(q, hash_password(p))` is `False` as soon as the digests
of `q` and `p` under the hash's salt differ (collision-freeness of SHA-256+scrypt is the
hypothesis; no exception, no `True`). -/
theorem C19_reject_other (kdf : Kdf) (sha : Bytes → Bytes) (salt pw q : Bytes) (h : PyStr)
    (hs : salt.length = SALT_LENGTH)
    (hk : (kdf defaultN defaultR defaultP DIGEST_LENGTH salt (sha pw)).length = DIGEST_LENGTH)
    (hh : hashPassword kdf sha salt (.bytes pw) = .ok h)
    (hne : kdf defaultN defaultR defaultP DIGEST_LENGTH salt (sha q)
            ≠ kdf defaultN defaultR defaultP DIGEST_LENGTH salt (sha pw)) :
    verifyPassword kdf sha (.bytes q) (.str h) = .ok false := by
  rw [verifyPassword_false_iff]
  exact ⟨_, verifyPrepare_hash kdf sha salt pw q h hs hk hh, hne⟩

/-- the converse: with a digest collision the other password *is* accepted — the hypothesis of
`C19_reject_other` is exactly what is needed. -/
theorem C19_reject_other_iff (kdf : Kdf) (sha : Bytes → Bytes) (salt pw q : Bytes) (h : PyStr)
    (hs : salt.length = SALT_LENGTH)
    (hk : (kdf defaultN defaultR defaultP DIGEST_LENGTH salt (sha pw)).length = DIGEST_LENGTH)
    (hh : hashPassword kdf sha salt (.bytes pw) = .ok h) :
    verifyPassword kdf sha (.bytes q) (.str h) =
      .ok (decide (kdf defaultN defaultR defaultP DIGEST_LENGTH salt (sha q)
            = kdf defaultN defaultR defaultP DIGEST_LENGTH salt (sha pw))) := by
  by_cases hc : kdf defaultN defaultR defaultP DIGEST_LENGTH salt (sha q)
      = kdf defaultN defaultR defaultP DIGEST_LENGTH salt (sha pw)
  · simp only [hc, decide_true]
    rw [verifyPassword_true_iff]
    exact ⟨_, verifyPrepare_hash kdf sha salt pw q h hs hk hh, hc⟩
  · simp only [hc, decide_false]
    exact C19_reject_other kdf sha salt pw q h hs hk hh hc

/-- **fresh salt ⇒ different hash**: two hashes (of the same or of different passwords) made with
different salts of equal length are different strings — the salt can be read back from the hash. -/
theorem C19_salt_injective (kdf : Kdf) (sha : Bytes → Bytes) (salt₁ salt₂ pw₁ pw₂ : Bytes)
    (h₁ h₂ : PyStr) (hl : salt₁.length = salt₂.length) (hne : salt₁ ≠ salt₂)
    (hh₁ : hashPassword kdf sha salt₁ (.bytes pw₁) = .ok h₁)
    (hh₂ : hashPassword kdf sha salt₂ (.bytes pw₂) = .ok h₂) : h₁ ≠ h₂ := by
  intro heq
  subst heq
  obtain ⟨a, ha1, ha2⟩ := hashPassword_ok kdf sha salt₁ pw₁
  obtain ⟨b, hb1, hb2⟩ := hashPassword_ok kdf sha salt₂ pw₂
  rw [ha1] at hh₁; rw [hb1] at hh₂
  cases hh₁; cases hh₂
  rw [ha2] at hb2
  have hb := Except.ok.inj hb2
  have hsplit := congrArg (splitOn colon) hb
  rw [hashBytes_split, hashBytes_split] at hsplit
  simp only [List.cons.injEq, and_true, true_and] at hsplit
  have := b64encode_injective _ _ hsplit
  exact hne (List.append_inj this hl).1

/-- **a malformed hash never verifies**: for *every* pair of arguments (any Python `str`, lone
surrogates included; any other type) `verify_password` either raises `ValueError` (or a subclass:
`binascii.Error`, `UnicodeEncodeError`) or `TypeError`, or returns `False`, or returns `True`; and it
returns `True` **only if** the password is `bytes`, the hash is a `str` that has exactly four
`:`-separated fields, method `scrypt`, version `1`, a parameter field decoding to exactly six bytes,
a data field decoding to exactly `salt_length + length` bytes with `length ≥ 1`, parameters the
scrypt constructor accepts, and the embedded digest equals the digest derived from the password
with the embedded salt and parameters (and conversely). -/
theorem C19_malformed (kdf : Kdf) (sha : Bytes → Bytes) (pw h : PyArg) :
    ((∃ e, verifyPassword kdf sha pw h = .error e ∧ e.isValueOrType = true) ∨
      verifyPassword kdf sha pw h = .ok false ∨ verifyPassword kdf sha pw h = .ok true) ∧
    (verifyPassword kdf sha pw h = .ok true ↔
      ∃ pwb hs enc f2 f3 params data P,
        pw = .bytes pwb ∧ h = .str hs ∧ encodeUtf8 hs = .ok enc ∧
        enc = kScrypt ++ colon :: (kOne ++ colon :: (f2 ++ colon :: f3)) ∧
        (∀ c ∈ f2, c ≠ colon) ∧ (∀ c ∈ f3, c ≠ colon) ∧
        b64decode f2 = .ok params ∧ params.length = 6 ∧ unpackParams params = .ok P ∧
        b64decode f3 = .ok data ∧ data.length = P.saltLen + P.len ∧ 1 ≤ P.len ∧
        scryptInit P.N P.r P.p = .ok () ∧
        kdf P.N P.r P.p P.len (data.take P.saltLen) (sha pwb) = data.drop P.saltLen) := by
  constructor
  · cases hv : verifyPassword kdf sha pw h with
    | error e => exact Or.inl ⟨e, rfl, verifyPassword_err kdf sha pw h e hv⟩
    | ok b => cases b <;> simp
  · rw [verifyPassword_true_iff]
    constructor
    · rintro ⟨q, hq, hk⟩
      rw [verifyPrepare_ok_iff] at hq
      obtain ⟨pwb, hs, enc, f2, f3, params, data, P, rfl, rfl, henc, hsp, hp, hd, hP, h1, h2, hinit, rfl⟩ := hq
      rw [splitOn_four] at hsp
      obtain ⟨henc', -, -, hf2, hf3⟩ := hsp
      refine ⟨pwb, hs, enc, f2, f3, params, data, P, rfl, rfl, henc, henc', hf2, hf3, hp,
        unpack_length _ _ hP, hP, hd, ?_, h1, hinit, hk⟩
      rw [List.length_drop] at h2
      omega
    · rintro ⟨pwb, hs, enc, f2, f3, params, data, P, rfl, rfl, henc, henc', hf2, hf3, hp, -, hP, hd, hlen, h1,
        hinit, hk⟩
      refine ⟨_, (verifyPrepare_ok_iff _ _ _ _).2 ⟨pwb, hs, enc, f2, f3, params, data, P, rfl, rfl, henc, ?_, hp,
        hd, hP, h1, ?_, hinit, rfl⟩, hk⟩
      · rw [splitOn_four]
        exact ⟨henc', by decide, by decide, hf2, hf3⟩
      · rw [List.length_drop]; omega

/-- the two `isinstance` guards: a password that is not `bytes`, or a hash that is not `str`,
raises `TypeError` (before anything else is looked at). -/
theorem C19_type_errors (kdf : Kdf) (sha : Bytes → Bytes) (pw h : PyArg) :
    ((∀ b, pw ≠ .bytes b) → verifyPassword kdf sha pw h = .error .typeError) ∧
    ((∀ s, h ≠ .str s) → verifyPassword kdf sha pw h = .error .typeError) ∧
    ((∀ b, pw ≠ .bytes b) → ∀ salt, hashPassword kdf sha salt pw = .error .typeError) := by
  refine ⟨?_, ?_, ?_⟩
  · intro hp
    cases pw with
    | bytes b => exact absurd rfl (hp b)
    | str s => rfl
    | other => rfl
  · intro hh
    cases pw <;> cases h <;> first | rfl | (rename_i s; exact absurd rfl (hh s))
  · intro hp salt
    cases pw with
    | bytes b => exact absurd rfl (hp b)
    | str s => rfl
    | other => rfl

/-- the zero-length-digest hash of defect C19-2 (`length = 0`, data = the salt alone) is refused
with `ValueError` for every password, every salt, every KDF. -/
theorem C19_zero_length_digest_refused (kdf : Kdf) (sha : Bytes → Bytes) (pw salt : Bytes) (hs : PyStr)
    (N r p : Nat) (params : Bytes) (hp : packParams ⟨N, r, p, salt.length, 0⟩ = .ok params)
    (henc : encodeUtf8 hs = .ok (kScrypt ++ colon :: (kOne ++ colon :: (b64encode params ++ colon ::
      b64encode salt)))) :
    verifyPassword kdf sha (.bytes pw) (.str hs) = .error .valueError := by
  have hsp : splitOn colon (kScrypt ++ colon :: (kOne ++ colon :: (b64encode params ++ colon ::
      b64encode salt))) = [kScrypt, kOne, b64encode params, b64encode salt] := by
    rw [splitOn_four]
    exact ⟨rfl, by decide, by decide, fun x hx => (b64encode_plain _ x hx).1,
      fun x hx => (b64encode_plain _ x hx).1⟩
  simp [verifyPassword, verifyPrepare, henc, hsp, b64decode_b64encode, unpack_pack _ _ hp]

/-- a hash string with fewer (or more) than four fields — in particular every prefix of a valid
hash that ends before its third colon (defect C19-1) — is refused with `ValueError`. -/
theorem C19_field_count (kdf : Kdf) (sha : Bytes → Bytes) (pw : Bytes) (hs : PyStr) (enc : Bytes)
    (henc : encodeUtf8 hs = .ok enc) (hn : (splitOn colon enc).length ≠ 4) :
    verifyPassword kdf sha (.bytes pw) (.str hs) = .error .valueError :=
  verify_field_count kdf sha pw hs enc henc hn

/-- **field removal**: a hash string assembled from any number of colon-free fields other than
four (one, two, three, five, … fields — e.g. a valid hash with one of its fields removed or an
extra one added) is refused with `ValueError`, whatever the fields contain. -/
theorem C19_field_removal (kdf : Kdf) (sha : Bytes → Bytes) (pw : Bytes) (hs : PyStr) (fs : List Bytes)
    (hne : fs ≠ []) (hf : ∀ f ∈ fs, ∀ c ∈ f, c ≠ colon) (h4 : fs.length ≠ 4)
    (henc : encodeUtf8 hs = .ok (joinSep colon fs)) :
    verifyPassword kdf sha (.bytes pw) (.str hs) = .error .valueError :=
  verify_field_count kdf sha pw hs _ henc (by rw [splitOn_joinSep colon fs hne hf]; exact h4)

/-- **truncation at every position**: every proper prefix `h[:n]`, `n < len(h)`, of a hash made by
`hash_password` makes `verify_password` raise `ValueError` or its subclass `binascii.Error` — for
every password (the right one included), every 16-byte salt, every KDF that returns the 24 bytes it
is asked for.  It never returns, neither `True` nor `False`. -/
theorem C19_truncated (kdf : Kdf) (sha : Bytes → Bytes) (salt pw q : Bytes) (h : PyStr) (n : Nat)
    (hs : salt.length = SALT_LENGTH)
    (hk : (kdf defaultN defaultR defaultP DIGEST_LENGTH salt (sha pw)).length = DIGEST_LENGTH)
    (hh : hashPassword kdf sha salt (.bytes pw) = .ok h) (hn : n < h.length) :
    verifyPassword kdf sha (.bytes q) (.str (h.take n)) = .error .valueError ∨
    verifyPassword kdf sha (.bytes q) (.str (h.take n)) = .error .binasciiError :=
  verify_truncated kdf sha salt pw q h n hs hk hh hn

/-- **every well-formed record, any parameters** (the documented upgrade path: hashes made with
other scrypt parameters remain verifiable): for a canonical string
`scrypt:1:<b64 params>:<b64 salt+digest>` whose parameter block packs, whose parameters the scrypt
constructor accepts, with `length ≥ 1`, `|salt| = salt_length`, `|digest| = length`,
`verify_password` returns exactly whether the digest derived from the password under the embedded
salt and parameters equals the embedded digest — it never raises. -/
theorem C19_verify_record (kdf : Kdf) (sha : Bytes → Bytes) (pw salt digest params : Bytes) (P : Params)
    (hs : PyStr) (hp : packParams P = .ok params) (hinit : scryptInit P.N P.r P.p = .ok ())
    (hl1 : 1 ≤ P.len) (hsl : salt.length = P.saltLen) (hdl : digest.length = P.len)
    (henc : encodeUtf8 hs = .ok (kScrypt ++ colon :: (kOne ++ colon :: (b64encode params ++ colon ::
      b64encode (salt ++ digest))))) :
    verifyPassword kdf sha (.bytes pw) (.str hs) =
      .ok (decide (kdf P.N P.r P.p P.len salt (sha pw) = digest)) := by
  have hq := verify_record sha pw salt digest params P hs hp hinit hl1 hsl hdl henc
  by_cases hc : kdf P.N P.r P.p P.len salt (sha pw) = digest
  · simp only [hc, decide_true]
    exact (verifyPassword_true_iff _ _ _ _).2 ⟨_, hq, hc⟩
  · simp only [hc, decide_false]
    exact (verifyPassword_false_iff _ _ _ _).2 ⟨_, hq, hc⟩

/-- **base64 damage by an invalid character**: take any four-field `scrypt:1:…` string whose
parameter field or data field is a base64 encoding (of anything — in particular every output of
`hash_password`), and replace **any one** of its base64 characters (not the `=` padding) by a byte
that is not a base64 character (and not `=` / `:`).  `verify_password` raises `binascii.Error`
(a `ValueError`), for every password: the damaged field no longer decodes, at whichever position
the damage is. -/
theorem C19_b64_invalid_char (kdf : Kdf) (sha : Bytes → Bytes) (pw : Bytes) (hs : PyStr) (f2 f3 x : Bytes)
    (i : Nat) (c : UInt8) (hc : sextet c = none) (hp : c ≠ padChar) (hcc : c ≠ colon)
    (henc : encodeUtf8 hs = .ok (kScrypt ++ colon :: (kOne ++ colon :: (f2 ++ colon :: f3))))
    (hi : i < (b64encode x).length) (hx : (b64encode x)[i] ≠ padChar)
    (hd : (f2 = (b64encode x).set i c ∧ ∀ y ∈ f3, y ≠ colon) ∨
          (f3 = (b64encode x).set i c ∧ ∃ params, f2 = b64encode params)) :
    verifyPassword kdf sha (.bytes pw) (.str hs) = .error .binasciiError :=
  verify_damaged kdf sha pw hs f2 f3 x i c hc hp hcc henc hi hx hd

/-- the decoder's leniency, which is why some *spellings* of a well-formed record other than the
canonical one are accepted too (`C19_malformed` says exactly which strings are): a byte that is
neither `=` nor a base64 character is ignored wherever it stands in a base64 field. -/
theorem C19_b64_ignores_non_alphabet (pre post : Bytes) (c : UInt8) (hp : c ≠ padChar)
    (hc : sextet c = none) : b64decode (pre ++ c :: post) = b64decode (pre ++ post) :=
  a2b_skip 0 0 0 pre post c hp hc

/-! ## witnesses: the two defects, proved of the model of the code *before* the repairs -/

/-- the string `scrypt:1` (a hash cut before its second colon) -/
def truncatedWitness : PyStr := [115, 99, 114, 121, 112, 116, 58, 49]

/-- the string `scrypt:1:QAAQARAA:MDEyMzQ1Njc4OWFiY2RlZg==`: default N, r, p, salt_length 16,
**length 0**, data = the 16-byte salt `0123456789abcdef` alone -/
def zeroLengthWitness : PyStr :=
  [115, 99, 114, 121, 112, 116, 58, 49, 58, 81, 65, 65, 81, 65, 82, 65, 65, 58, 77, 68, 69, 121, 77, 122, 81,
   49, 78, 106, 99, 52, 79, 87, 70, 105, 89, 50, 82, 108, 90, 103, 61, 61]

/-- defect C19-1 (witness): before the repair a truncated hash raised `IndexError`, which is
neither `ValueError` nor `TypeError` — for every password, KDF and pre-hash.  After the repair the
same string gives `ValueError`. -/
theorem C19_unrepaired_truncated_witness (kdf : Kdf) (sha : Bytes → Bytes) (pw : Bytes) :
    verifyPasswordUnrepaired kdf sha (.bytes pw) (.str truncatedWitness) = .error .indexError ∧
    Err.indexError.isValueOrType = false ∧
    verifyPassword kdf sha (.bytes pw) (.str truncatedWitness) = .error .valueError :=
  ⟨rfl, rfl, rfl⟩

/-- defect C19-2 (witness): before the repair the zero-length-digest string verified `True` for
**every** password, as soon as the KDF answers a request for 0 bytes with the empty string (scrypt
does).  After the repair the same string gives `ValueError`. -/
theorem C19_unrepaired_zero_length_witness (kdf : Kdf) (sha : Bytes → Bytes) (pw : Bytes)
    (h0 : kdf 16384 16 1 0 [48, 49, 50, 51, 52, 53, 54, 55, 56, 57, 97, 98, 99, 100, 101, 102] (sha pw) = []) :
    verifyPasswordUnrepaired kdf sha (.bytes pw) (.str zeroLengthWitness) = .ok true ∧
    verifyPassword kdf sha (.bytes pw) (.str zeroLengthWitness) = .error .valueError := by
  have hq : verifyPrepareUnrepaired sha (.bytes pw) (.str zeroLengthWitness) =
      .ok ⟨16384, 16, 1, 0, [48, 49, 50, 51, 52, 53, 54, 55, 56, 57, 97, 98, 99, 100, 101, 102], sha pw, []⟩ := rfl
  refine ⟨?_, rfl⟩
  simp [verifyPasswordUnrepaired, hq, scryptVerify, h0]

/-! ## non-vacuity: a toy KDF under which all hypotheses are met and the outcomes differ -/

deriving instance DecidableEq for Except

/-- toy stand-ins (not scrypt / SHA-256): the digest is the first `len` bytes of `km ++ salt ++ 0…` -/
def toyKdf : Kdf := fun _ _ _ len salt km => (km ++ salt ++ List.replicate len 0).take len
def toySalt : Bytes := [0, 1, 2, 3, 4, 5, 6, 7, 8, 9, 10, 11, 12, 13, 14, 15]
def toySalt' : Bytes := [255, 1, 2, 3, 4, 5, 6, 7, 8, 9, 10, 11, 12, 13, 14, 15]

example : toySalt.length = SALT_LENGTH := by decide
example : (toyKdf defaultN defaultR defaultP DIGEST_LENGTH toySalt (id [112, 119])).length = DIGEST_LENGTH := by
  decide
example : toyKdf defaultN defaultR defaultP DIGEST_LENGTH toySalt (id [112, 120])
    ≠ toyKdf defaultN defaultR defaultP DIGEST_LENGTH toySalt (id [112, 119]) := by decide
example : toySalt.length = toySalt'.length ∧ toySalt ≠ toySalt' := by decide
/-- hypothesis `hk` of `C19_verify_own` cannot be dropped: with a KDF that returns fewer bytes than
asked for, the repaired length check refuses the hash the code itself produced -/
example : ∃ h, hashPassword (fun _ _ _ _ _ _ => [1, 2, 3]) id toySalt (.bytes [112, 119]) = .ok h ∧
    verifyPassword (fun _ _ _ _ _ _ => [1, 2, 3]) id (.bytes [112, 119]) (.str h) = .error .valueError :=
  ⟨_, rfl, by decide +kernel⟩
/-- hypotheses of `C19_verify_record` with non-default parameters (N=4, r=2, p=3, 2-byte salt,
3-byte digest) -/
example : packParams ⟨4, 2, 3, 2, 3⟩ = .ok [0, 4, 2, 3, 2, 3] ∧ scryptInit 4 2 3 = .ok () := by
  decide +kernel
example : sextet 10 = none ∧ (10 : UInt8) ≠ padChar := by decide
/-- hypotheses of `C19_b64_invalid_char`: `!` (33) at position 2 of the encoding of three bytes -/
example : sextet 33 = none ∧ (33 : UInt8) ≠ padChar ∧ (33 : UInt8) ≠ colon ∧
    (2 < (b64encode [1, 2, 3]).length) ∧ (b64encode [1, 2, 3])[2]! ≠ padChar := by decide +kernel
/-- hypotheses of `C19_zero_length_digest_refused`: the witness string is such a hash -/
example : packParams ⟨16384, 16, 1, ([48, 49, 50, 51, 52, 53, 54, 55, 56, 57, 97, 98, 99, 100, 101, 102] : Bytes).length, 0⟩
      = .ok [64, 0, 16, 1, 16, 0] ∧
    encodeUtf8 zeroLengthWitness = .ok (kScrypt ++ colon :: (kOne ++ colon :: (b64encode [64, 0, 16, 1, 16, 0] ++ colon ::
      b64encode [48, 49, 50, 51, 52, 53, 54, 55, 56, 57, 97, 98, 99, 100, 101, 102]))) := by decide +kernel
/-- hypotheses of `C19_field_count` / `C19_field_removal`: `scrypt:1` has two colon-free fields -/
example : encodeUtf8 truncatedWitness = .ok (joinSep colon [kScrypt, kOne]) ∧
    (splitOn colon (joinSep colon [kScrypt, kOne])).length ≠ 4 ∧
    (∀ f ∈ [kScrypt, kOne], ∀ c ∈ f, c ≠ colon) := by decide +kernel
/-- hypothesis `h0` of `C19_unrepaired_zero_length_witness`: a KDF asked for 0 bytes returns none -/
example : toyKdf 16384 16 1 0 [48, 49, 50, 51, 52, 53, 54, 55, 56, 57, 97, 98, 99, 100, 101, 102] (id [1]) = [] := by
  decide
/-- the two sides of `C19_malformed`'s first part are all inhabited -/
example : ∃ h, hashPassword toyKdf id toySalt (.bytes [112, 119]) = .ok h ∧
    verifyPassword toyKdf id (.bytes [112, 119]) (.str h) = .ok true ∧
    verifyPassword toyKdf id (.bytes [112, 120]) (.str h) = .ok false ∧
    verifyPassword toyKdf id (.bytes [112, 119]) (.str (h.take 15)) = .error .valueError ∧
    verifyPassword toyKdf id (.bytes [112, 119]) (.str (h.take 38)) = .error .valueError ∧
    verifyPassword toyKdf id (.bytes [112, 119]) (.str (h.take 41)) = .error .binasciiError ∧
    verifyPassword toyKdf id (.bytes [112, 119]) (.str (⟨0xD800, by decide⟩ :: h)) = .error .unicodeEncodeError ∧
    verifyPassword toyKdf id (.bytes [112, 119]) .other = .error .typeError :=
  ⟨_, rfl, by decide +kernel⟩

end Mpgs.Auth
