/-
Secondary tie (DESIGN 4.2), group Window: the kernels that `harness/translate.py` regenerates from the source of the tree under test
(`MpgsModel/Generated/Window.lean`, rewritten on every run of the checks that list this group) equal the hand-written model
definitions that the property theorems are about.  Proofs are `unfold` + `grind` (case splitting, linear integer arithmetic) so
that they survive behaviour-preserving rewrites of the Python; what breaks them is a change of behaviour.
-/
import MpgsModel.Generated.Window
import MpgsModel.Props.EquivSeq
import MpgsModel.Model.Conn

namespace Mpgs.Equiv
open Mpgs

/-- `BitField.insert`: the regenerated kernel on the fields of a model bit field is the model's `insert` -/
theorem gen_insert (b : Seq.BitField) (s : Int) :
    lift (Gen.BitField_insert s b.nbits b.onehot b.bits b.cur) =
      (Seq.BitField.insert b s).map (fun b' => (b'.bits, b'.cur)) := by
  unfold Gen.BitField_insert Seq.BitField.insert
  have h2 : (-Seq.diff b.cur s - 1).toNat = (-Seq.diff b.cur s).toNat - 1 := by omega
  have h3 : (0 - Seq.diff b.cur s - 1).toNat = (-Seq.diff b.cur s).toNat - 1 := by omega
  have h4 : (0 - Seq.diff b.cur s).toNat = (-Seq.diff b.cur s).toNat := by omega
  have h5 : (Seq.diff b.cur s - 1).toNat = (Seq.diff b.cur s).toNat - 1 := by omega
  try simp only [gen_diffV, h2, h3, h4, h5, Except.map]
  all_goals grind [err]

/-- `BitField.contains` -/
theorem gen_contains (b : Seq.BitField) (s : Int) :
    Gen.BitField_contains s b.nbits b.onehot b.bits b.cur = .ok (Seq.BitField.contains b s) := by
  unfold Gen.BitField_contains Seq.BitField.contains
  have h5 : (Seq.diff b.cur s - 1).toNat = (Seq.diff b.cur s).toNat - 1 := by omega
  try simp only [gen_diffV, h5]
  all_goals grind

/-- the stale-datagram guard of `_recv_datagram` -/
theorem gen_stale (c : Conn.Conn) (seq : Nat) :
    Gen.stale_datagram c.bfPkt.cur c.bfPkt.nbits seq = .ok (Conn.stale c seq) := by
  unfold Gen.stale_datagram Conn.stale
  try simp only [gen_diffV]
  all_goals grind

/-! non-vacuity: a duplicate, a shift, the window edge -/
example : Gen.BitField_insert 7 32 (1 <<< 31) 0 7 = .error .duplication := by rfl
example : Gen.BitField_insert 8 32 (1 <<< 31) 0 7 = .ok (1 <<< 31, 8) := by rfl
example : Gen.stale_datagram 40 32 7 = .ok true := by rfl
example : Gen.stale_datagram 39 32 7 = .ok false := by rfl

end Mpgs.Equiv
