import MpgsModel.Lemmas.SerialTotal
import MpgsModel.Lemmas.SerialCost
/-!
# C14 — Deserializing hostile bytes is safe and bounded

Property theorems only (helper lemmas: `Lemmas/SerialSafe.lean`, `SerialTotal.lean`,
`SerialCost.lean`).  The model is `Mpgs.Serial` (`Model/Serial.lean`): `decode env bs` is
`Serializable.loadb(bs)` / `deserialize_value(BytesIO(bs))`; `decodeCost env bs` counts what the
algorithm requests while doing so: one per `deserialize_value` call, every byte handed out by
`stream.read` (short reads count what they return) and `len(_fields)` per instance constructed.

**Termination** is by construction: `decodeC` is defined by recursion on a budget, `decode` runs
it with budget `len(bs) + 1`; `C14_total` shows the budget is never exhausted, so the definition
is the function the Python code computes on every input (no artificial cut-off).
-/
namespace Mpgs.Serial

/-- `decode` on ANY byte string and ANY registry either returns a value or raises one of the
ordinary exception classes listed in `ordinary` (`SerializableHeaderError`, `SerializableError`,
`struct.error`, `TypeError`, `ValueError`, `UnicodeDecodeError`, `IndexError`, `AttributeError`,
`KeyError`, and what the crypto library raises) — never the model's `fuel` marker: the recursion
budget `len(bs) + 1` always suffices. -/
theorem C14_total (env : Env) (ho : OracleOrdinary env) (bs : Bytes) :
    (∃ v rest, decode env bs = .ok (v, rest)) ∨ (∃ e, decode env bs = .error e ∧ ordinary e = true) := by
  unfold decode decodeF
  cases h : (decodeC env (bs.length + 1) bs).res with
  | ok p => exact .inl ⟨p.1, p.2, rfl⟩
  | error e => exact .inr ⟨e, rfl, (totInv env ho _).c bs e (by omega) h⟩

/-- A successful decode returns a value composed only of the built-in types and of instances of
classes registered in `env.reg` under a non-builtin id (objects with exactly one value per
declared field), consumes at least the two header bytes, and leaves a suffix of the input. -/
theorem C14_ok_well_typed (env : Env) (hreg : RegWT env.reg) (bs : Bytes) (v : Value) (rest : Bytes)
    (h : decode env bs = .ok (v, rest)) :
    wt true env.reg v = true ∧ rest <:+ bs ∧ rest.length + 2 ≤ bs.length := by
  obtain ⟨h1, h2, h3⟩ := (okInv env _).c bs v rest h
  exact ⟨h3 hreg, h1, by omega⟩

/-- Cost accounting for EVERY byte string, EVERY registry and EVERY keyword / oracle behaviour:
with `A = 8 + (largest field count of a registered class)`, decoding `bs` requests at most
`A * (len(bs) + reparsed) + 1` units, whatever the outcome (value or exception), where `reparsed`
is the number of bytes the decoder parses a second time: the signed payloads of
`HandshakeServerHelloMessage`s whose signature verified (connection.py:716-723).  In particular
a declared length of 2**14 elements, a negative length or an announced field count of 2**63
costs no more than the bytes actually present. -/
theorem C14_cost_accounting (env : Env) (A : Nat) (hA : 8 ≤ A)
    (hF : ∀ tid d, lookup env.reg tid = some (.object d) → d.length + 8 ≤ A) (bs : Bytes) :
    decodeCost env bs ≤ A * (bs.length + decodeReparsed env bs) + 1 :=
  cost_le env A ⟨hA, hF⟩ _ bs

/-- Nothing is parsed twice unless the caller passed the `server_public_key` keyword AND a
signature verified: for every decode without that keyword (all server-side decodes, HTTP bodies)
and every decode in which no signature verifies, `reparsed = 0`. -/
theorem C14_reparse_zero (env : Env) (hU : env.serverKey = none ∨ ∀ k s p, env.verify k s p ≠ .ok ())
    (bs : Bytes) : decodeReparsed env bs = 0 :=
  re_zero env hU _ bs

/- FULL STATEMENT of linearity in the input alone (not proved, and false of the model and of the
   code as it stands):
     ∀ env A, 8 ≤ A → (∀ tid d, lookup env.reg tid = some (.object d) → d.length + 8 ≤ A) →
       ∀ bs, decodeCost env bs ≤ A * bs.length + 1
   What is missing is exactly the `reparsed` term of `C14_cost_accounting`: with
   `server_public_key=None` the verifying key is the one sent in the message, so an
   unauthenticated "server" can nest signed hellos inside the payload; each level re-reads what
   it encloses and the cost is (bytes) x (nesting depth), depth <= bytes/170 (a level needs a
   91-byte key and a ~70-byte signature) and <= CPython's recursion limit.  Measured on the real
   code on every run (evidence notes `client_side_nested_serverhello`): cost/byte 1.4, 2.9, 4.8,
   8.8 at depth 1, 4, 8, 16; within one UDP datagram (<= 1472 bytes) the depth is <= 8. -/

/-- Cost is linear in the input alone whenever nothing is re-parsed (`C14_reparse_zero`):
at most `A * len(bs) + 1` units, whatever the outcome. -/
theorem C14_cost_linear_partial (env : Env) (A : Nat) (hA : 8 ≤ A)
    (hF : ∀ tid d, lookup env.reg tid = some (.object d) → d.length + 8 ≤ A)
    (hU : env.serverKey = none ∨ ∀ k s p, env.verify k s p ≠ .ok ())
    (bs : Bytes) :
    decodeCost env bs ≤ A * bs.length + 1 := by
  have h1 := C14_cost_accounting env A hA hF bs
  rw [C14_reparse_zero env hU bs] at h1
  simpa using h1

/-- The successful part of the same accounting: a decode that returns has cost at most `A` per
byte it CONSUMED or re-parsed (the unread rest is not paid for). -/
theorem C14_cost_consumed (env : Env) (A : Nat) (hA : 8 ≤ A)
    (hF : ∀ tid d, lookup env.reg tid = some (.object d) → d.length + 8 ≤ A)
    (bs : Bytes) (v : Value) (rest : Bytes) (h : decode env bs = .ok (v, rest)) :
    decodeCost env bs + A * rest.length ≤ A * (bs.length + decodeReparsed env bs) := by
  have := (costInv env A ⟨hA, hF⟩ (bs.length + 1)).c bs
  unfold CostOK at this
  unfold decode decodeF at h
  rw [h] at this
  rw [Nat.mul_add]
  simpa [decodeCost, decodeReparsed] using this

/-! ### the handshake messages a server decodes from unauthenticated peers

`ServerClientConnection._recvClientHello/_recvChallengeResponse` call `Serializable.loadb(data)`
with no keyword: `env.serverKey = none`.  The registry is arbitrary; in particular it may (and in
the live library does) contain the three handshake classes. -/

/-- Linear cost for every server-side decode: no hypothesis on signatures. -/
theorem C14_cost_server (env : Env) (hs : env.serverKey = none) (A : Nat) (hA : 8 ≤ A)
    (hF : ∀ tid d, lookup env.reg tid = some (.object d) → d.length + 8 ≤ A) (bs : Bytes) :
    decodeCost env bs ≤ A * bs.length + 1 :=
  C14_cost_linear_partial env A hA hF (.inl hs) bs

/-- Without the `server_public_key` keyword a `HandshakeServerHelloMessage` id anywhere in the
stream never decodes: the decoder raises before it verifies a signature or looks into the
payload (whatever the budget, the position and the bytes). -/
theorem C14_server_never_verifies (env : Env) (hs : env.serverKey = none) (f tid : Nat) (r : Bytes) :
    ∃ e, (decodeReg env f tid .serverHello r).res = .error e := by
  cases h : (decodeReg env f tid .serverHello r).res with
  | error e => exact ⟨e, rfl⟩
  | ok p =>
    exfalso
    cases f with
    | zero => simp [decodeReg] at h
    | succ f =>
      rw [decodeReg] at h
      simp only [R.res_bind, bind_eq_ok, R.res_lift, R.res_tick] at h
      obtain ⟨_, _, _, _, _, _, _, _, _, _, key, hkey, _⟩ := h
      rw [hs] at hkey
      simp at hkey

/-- The padding rule: a `HandshakeClientHelloMessage` that decodes has consumed exactly
`padTarget = MAX_PAYLOAD_SIZE - 2 - PacketHeader.SIZE - 2` bytes after its type id, whatever the
key and version fields contain - a short hello (cheap to send, expensive to answer) is refused
with `ValueError`. -/
theorem C14_clientHello_fixed_size (env : Env) (f tid : Nat) (r : Bytes) (v : Value) (rest : Bytes)
    (h : (decodeReg env f tid .clientHello r).res = .ok (v, rest)) :
    (r.length : Int) - (rest.length : Int) = env.padTarget ∧ rest <:+ r := by
  cases f with
  | zero => simp [decodeReg] at h
  | succ f =>
    have ok := okInv env f
    rw [decodeReg] at h
    simp only [R.res_bind, bind_eq_ok, R.res_lift, R.res_tick] at h
    obtain ⟨_, _, ⟨der, r1⟩, h1, key, hkey, ⟨ver, r2⟩, h2, h⟩ := h
    dsimp only at hkey h2 h
    obtain ⟨s1, _, _⟩ := ok.c _ _ _ h1
    obtain ⟨s2, _, _⟩ := ok.c _ _ _ h2
    have l1 := s1.length_le
    have l2 := s2.length_le
    have hr := readN_spec (env.padTarget - ((r.length - r2.length : Nat) : Int)) r2
    revert h
    generalize readN (env.padTarget - ((r.length - r2.length : Nat) : Int)) r2 = p at hr
    obtain ⟨pad, r3⟩ := p
    intro h
    simp only at h
    split at h
    · simp at h
    · rename_i hpad
      simp only [R.res_ok, Except.ok.injEq, Prod.mk.injEq, true_and] at h
      obtain ⟨_, _, rfl⟩ := h
      simp only at hr
      refine ⟨?_, (hr.1.trans s2).trans s1⟩
      have hpad' : (pad.length : Int) = env.padTarget - ((r.length - r2.length : Nat) : Int) := by
        simpa using hpad
      omega

/-- The three guarantees together for the server side: every byte string an unauthenticated
peer can send, decoded by `loadb(data)` against ANY registry (hence also when the type id names
`HandshakeClientHelloMessage`, `HandshakeClientChallengeResponseMessage` or any other class):
value-or-ordinary-exception, linear cost, and on success a well-typed value and a suffix. -/
theorem C14_handshake_server (env : Env) (hs : env.serverKey = none) (ho : OracleOrdinary env)
    (hreg : RegWT env.reg) (A : Nat) (hA : 8 ≤ A)
    (hF : ∀ tid d, lookup env.reg tid = some (.object d) → d.length + 8 ≤ A) (bs : Bytes) :
    ((∃ v rest, decode env bs = .ok (v, rest) ∧ wt true env.reg v = true ∧ rest <:+ bs) ∨
      (∃ e, decode env bs = .error e ∧ ordinary e = true)) ∧
    decodeCost env bs ≤ A * bs.length + 1 := by
  refine ⟨?_, C14_cost_server env hs A hA hF bs⟩
  rcases C14_total env ho bs with ⟨v, rest, h⟩ | h
  · obtain ⟨h1, h2, _⟩ := C14_ok_well_typed env hreg bs v rest h
    exact .inl ⟨v, rest, h, h1, h2⟩
  · exact .inr h

/-! ### non-vacuity -/

def exEnv14 : Env :=
  { reg := [(130, .clientHello), (131, .serverHello), (132, .object [.int 0]), (133, .enum [.int 1])],
    padTarget := 1410, serverKey := none, rootKey := none,
    parseKey := fun d => if d.length = 91 then .ok d else .error .valueError,
    verify := fun _ _ _ => .error .invalidSignature, sign := fun _ => .ok [],
    urandom := fun n => List.replicate n 0 }
/-- `None` decodes -/
example : (decode exEnv14 [0,15]).isOk = true := by decide +kernel
/-- a list announcing 2**14 elements with nothing behind it: refused after 9 units of work -/
example : (decode exEnv14 [0, 16, 0, 4, 0x40, 0]).isOk = false := by decide +kernel
example : decodeCost exEnv14 [0, 16, 0, 4, 0x40, 0] = 9 := by decide +kernel
example : OracleOrdinary exEnv14 := by
  constructor
  · intro d e h
    simp only [exEnv14] at h
    split at h <;> simp at h
    subst h; rfl
  · intro k s p e h
    simp only [exEnv14] at h
    injection h with h; subst h; rfl
example : RegWT exEnv14.reg := by
  intro tid d h
  simp only [exEnv14, lookup] at h
  repeat' split at h
  all_goals simp at h
  subst h; rfl
/-- the hypotheses of `C14_handshake_server` are met by this environment with `A = 9` -/
example (bs : Bytes) : decodeCost exEnv14 bs ≤ 9 * bs.length + 1 :=
  C14_cost_server exEnv14 rfl 9 (by omega) (by
    intro tid d h
    simp only [exEnv14, lookup] at h
    repeat' split at h
    all_goals simp at h
    subst h; simp) bs

end Mpgs.Serial
