import MpgsModel.Props.C10
import MpgsModel.Props.C11Run
/-!
# C02 at the level of the server loop

`handler.connect` is called for an address only on proof of key and token: the datagram being
handled came from that very address, is typed CHALLENGE_RESP, is exactly header + length + tag
long, AES-GCM opened it under the session key of that address's half-open entry (nonce = bytes
0..11, AAD = the whole header), and it carries a CHALLENGE_RESP message that decodes to the token
issued to that entry.  For every server state, batch item, handler behaviour and instantiation of
the externals; and nothing else in an iteration of the loop produces a `connect` event.
-/
namespace Mpgs.Server
open Mpgs.Bytes Mpgs.Wire Mpgs.Conn

theorem C02_loop_connect_only_on_proof (sz : Sizes) (C : Crypto) (s : Srv) (t : Int) (it : Item) (acts : List HAct)
    (id : Nat) (a : Addr) (tok : Nat) (h : SEvent.connect id a tok ∈ (handleItem sz C s t it acts).2.2) :
    it.addr = a ∧ it.hdr.ptype = .challengeResp ∧ pget s.conns a = none ∧
    ∃ ent k pkt, pget s.temps a = some ent ∧ ent.id = id ∧ keyed ent.conn.key = some k ∧
      it.d.length = 20 + it.hdr.length + 16 ∧ fromBytes C it.hdr ent.conn.key it.d = .ok pkt ∧
      C.aopen k (take 12 it.d) (take 20 it.d) (slice 20 (20 + it.hdr.length + 16) it.d) = some pkt.msg ∧
      ∃ m ∈ pkt.msgs, m.ty = .challengeResp ∧ it.H.parseChallenge m.payload = .ok ent.conn.token := by
  rcases C10_item_events sz C s t it acts _ h with ⟨_, _, _, _, he⟩ | ⟨ent, tk, hc, ht, hty, he, hp⟩ | ⟨_, he⟩
  · cases he
  · injection he with h1 h2 h3
    subst h2
    refine ⟨rfl, hty, hc, ?_⟩
    cases hk : keyed ent.conn.key with
    | none =>
      exfalso
      have hnd : recvDatagram C (serverRole it.H (tokFor s it) (some ent.conn.token)) ent.conn t it.hdr it.d ≠ drop1 ent.conn := by
        intro hd; rw [hd] at hp; simp [drop1] at hp
      have := (C01_prekey_single_hello C _ ent.conn t it.hdr it.d hk hnd).2.1
      rw [hty] at this
      split at this <;> cases this
    | some k =>
      obtain ⟨pkt, hf, hl, ho, m, hm, hmt, tk', hpc, htk⟩ := C02_promote_only_on_proof C it.H _ _ ent.conn t it.hdr it.d k hk hp
      injection htk with htk
      exact ⟨ent, k, pkt, ht, h1.symm, hk, hl, hf, ho, m, hm, hmt, by rw [htk]; exact hpc⟩
  · cases he


theorem updateOut_no_connect (C : Crypto) (sz : Sizes) (addr : Addr) (c : Conn) (t : Int) (id : Nat) (a : Addr) (tok : Nat) :
    SEvent.connect id a tok ∉ (updateOut C sz addr c t).2 := by
  intro hx
  unfold updateOut at hx
  split at hx
  · split at hx <;> simp at hx
  · simp at hx
  · simp at hx

theorem sweepConns_no_connect (C : Crypto) (sz : Sizes) (t : Int) (s : Srv) (snap : List (Addr × Ent)) (acts : List HAct)
    (id : Nat) (a : Addr) (tok : Nat) : SEvent.connect id a tok ∉ (sweepConns C sz t s snap acts).2.2 := by
  induction snap generalizing s acts with
  | nil => simp [sweepConns]
  | cons x rest ih =>
    obtain ⟨addr, e0⟩ := x
    intro he
    simp only [sweepConns] at he
    cases hc : pget s.conns addr with
    | none => rw [hc] at he; exact ih _ _ he
    | some ent =>
      rw [hc] at he
      simp only at he
      generalize (if ent.conn.status = Status.disconnecting then Conn.disconnect ent.conn none else ent.conn) = c1 at he
      by_cases hcond : c1.status = Status.disconnected ∨ timedOut c1 t s.cfg.connTimeout = true
      · simp only [hcond, if_true] at he
        simp only [List.append_assoc, List.cons_append, List.nil_append, List.mem_cons, List.mem_append] at he
        rcases he with h | h | h | h
        · cases h
        · split at h <;> simp at h
        · exact updateOut_no_connect C sz addr _ t id a tok h
        · exact ih _ _ h
      · simp only [hcond, if_false] at he
        rcases List.mem_append.mp he with h | h
        · exact updateOut_no_connect C sz addr _ t id a tok h
        · exact ih _ _ h

theorem sweepTemps_no_connect (C : Crypto) (sz : Sizes) (t : Int) (s : Srv) (snap : List (Addr × Ent))
    (id : Nat) (a : Addr) (tok : Nat) : SEvent.connect id a tok ∉ (sweepTemps C sz t s snap).2 := by
  induction snap generalizing s with
  | nil => simp [sweepTemps]
  | cons x rest ih =>
    obtain ⟨addr, ent⟩ := x
    intro he
    simp only [sweepTemps] at he
    split at he
    · exact ih _ he
    · rcases List.mem_append.mp he with h | h
      · exact updateOut_no_connect C sz addr _ t id a tok h
      · exact ih _ h

theorem handleItems_connect (sz : Sizes) (C : Crypto) (t : Int) (s : Srv) (items : List Item) (acts : List HAct)
    (id : Nat) (a : Addr) (tok : Nat) (h : SEvent.connect id a tok ∈ (handleItems sz C t s items acts).2.2) :
    ∃ s' acts' it, it ∈ items ∧ SEvent.connect id a tok ∈ (handleItem sz C s' t it acts').2.2 := by
  induction items generalizing s acts with
  | nil => simp [handleItems] at h
  | cons it rest ih =>
    simp only [handleItems] at h
    rcases List.mem_append.mp h with h1 | h1
    · exact ⟨s, acts, it, List.mem_cons_self .., h1⟩
    · obtain ⟨s', acts', it', hm, hh⟩ := ih _ _ h1
      exact ⟨s', acts', it', List.mem_cons_of_mem _ hm, hh⟩

/-- **Every `connect` event of an iteration comes from a queued datagram** that proves key and token
(`C02_loop_connect_only_on_proof` for the state the loop is in when it handles that datagram):
neither `handler.update`, nor the sweeps, nor the sends produce one. -/
theorem C02_loop_connect_from_datagram (sz : Sizes) (C : Crypto) (s : Srv) (tq ts : Int) (batch : List Item) (acts : List HAct)
    (id : Nat) (a : Addr) (tok : Nat) (h : SEvent.connect id a tok ∈ (iter sz C s tq ts batch acts).2) :
    ∃ s' acts' it, it ∈ batch ∧ SEvent.connect id a tok ∈ (handleItem sz C s' tq it acts').2.2 := by
  unfold iter at h
  generalize hr1 : handleItems sz C tq s batch acts = r1 at h
  obtain ⟨s1, acts1, e1⟩ := r1
  simp only at h
  have h2 := sweepConns_no_connect C sz ts (if (nextAct acts1).1 = HAct.kick then kickAll s1 else s1)
    (if (nextAct acts1).1 = HAct.kick then kickAll s1 else s1).conns (nextAct acts1).2 id a tok
  generalize sweepConns C sz ts (if (nextAct acts1).1 = HAct.kick then kickAll s1 else s1)
    (if (nextAct acts1).1 = HAct.kick then kickAll s1 else s1).conns (nextAct acts1).2 = r2 at h h2
  obtain ⟨s2, acts2, e2⟩ := r2
  simp only at h h2
  have h3 := sweepTemps_no_connect C sz ts s2 s2.temps id a tok
  generalize sweepTemps C sz ts s2 s2.temps = r3 at h h3
  obtain ⟨s3, e3⟩ := r3
  simp only [List.mem_append] at h h3
  rcases h with ((h | h) | h) | h
  · have : SEvent.connect id a tok ∈ (handleItems sz C tq s batch acts).2.2 := by rw [hr1]; exact h
    exact handleItems_connect sz C tq s batch acts id a tok this
  · rcases h with h | h
    · simp at h
    · split at h <;> simp at h
  · exact absurd h h2
  · exact absurd h h3

end Mpgs.Server
