import MpgsModel.Props.C06
import MpgsModel.Props.C07
import MpgsModel.Props.C09
import MpgsModel.Lemmas.LiveBuild
import MpgsModel.Model.ToyAead
/-!
# C05 — Guaranteed sends are eventually delivered, for every size, from both APIs

Full statement (`C05_eventual_delivery`): under a schedule that is healed from some point on
(every emission delivered within δ, both sides ticking at most τ apart, keepAlive + τ + 2δ <
outgoingTimeout) a message sent with RETRY_ON_TIMEOUT is delivered within a bound computed from
queue length and time-outs.  What is proved here are the safety half and the per-step progress
facts the liveness argument consists of, for every state and size; their composition over a
healed schedule is checked on every differential run (loss patterns followed by a healed network,
all sizes around the boundaries, every MTU) and is *not* a single Lean theorem — partial.
The fragment-expiry defect (known finding) is `C05_fragment_expiry_witness`.
-/
namespace Mpgs.Conn
open Mpgs.Bytes Mpgs.Wire

/-- **No size is unsendable.** For every usable size configuration (every MTU ≥ 73) a message of
any length up to `MAX_PAYLOAD_SIZE`, and every fragment message `FragmentSender` produces for any
payload (6-byte prefix + slice), passes the packing test on an empty packet. -/
theorem C05_fits_alone (sz : Sizes) (hok : SizesOk sz) (m : PMsg) :
    (m.payload.length ≤ sz.maxPayload → fits sz {} m = true) ∧
    (∀ p f, f ∈ splitFrags sz.maxPayload sz.maxFragment p.length p → ∀ a b c,
        m.payload = fragPrefix a b c ++ f → fits sz {} m = true) := by
  constructor
  · intro h
    simp only [fits, Bool.and_eq_true, decide_eq_true_eq, overhead]
    simp; omega
  · intro p f hf a b c hm
    have := (C06_build_join sz hok p).2.1 f hf
    simp only [fits, Bool.and_eq_true, decide_eq_true_eq, overhead, hm]
    simp only [fragPrefix, List.length_append, be16_length] at this ⊢
    simp; omega

/-- **The head of the queue is always sent.** If nothing awaits resend (or nothing of it is due),
the first queued message that fits alone is in the next packet: a guaranteed message cannot sit
behind others for ever, and (with `C05_fits_alone`) no payload size is silently left unsent. -/
theorem C05_head_is_sent (sz : Sizes) (m : PMsg) (rest : List PMsg) (hf : fits sz {} m = true) :
    ∃ taken, (packNew sz (m :: rest) {}).1.msgs = m :: taken := by
  simp only [packNew, hf, if_true]
  obtain ⟨tk, h⟩ := packNew_msgs_prefix sz rest (Pack.add {} m)
  exact ⟨tk, by rw [h]; simp [Pack.add]⟩

/-- **A time-out re-queues, an ack completes.** For a guaranteed message (its callback is a
`RetrySender` that has not reported yet): a failed datagram puts the message back at the end of
the queue under its original message number; a successful one marks it done and fires the user's
callback with True exactly once (C07_retry_first_result); once done it is never re-queued. -/
theorem C05_timeout_requeues (c : Conn) (rid : Nat) (obj : RetrySender)
    (ho : c.retryObjs[rid]? = some obj) (hd : obj.done = false) :
    (runCb c (.retry rid) false).1.outgoing =
      c.outgoing ++ [⟨obj.mseq, obj.ty, obj.payload, some (.retry rid), -1, 0⟩] ∧
    (runCb c (.retry rid) false).1.retryObjs = c.retryObjs := by
  simp [runCb, ho, hd]

/-- **Known finding as a theorem about the model.** A receiver gets fragment 1 of a two-fragment
message at time 0; the retransmission of fragment 2 is slow, and at 3.1 s a fragment of another
message passes by (any APP_FRAGMENT triggers the purge of contexts older than 1 + 0.5·count s);
when fragment 2 finally arrives it starts a fresh context that can never complete: both fragments
were accepted, nothing is ever delivered — also for a guaranteed send, whose sender now believes
every fragment acknowledged. -/
theorem C05_fragment_expiry_witness :
    let c0 : Conn := { isServer := true }
    let f1 := fragPrefix 9 1 2 ++ [1, 1, 1]
    let f2 := fragPrefix 9 2 2 ++ [2, 2, 2]
    let other := fragPrefix 10 1 3 ++ [7]
    let r1 := recvAppFragment c0 0 1 f1
    let r2 := recvAppFragment r1.1 3200 5 other
    let r3 := recvAppFragment r2.1 3300 2 f2
    r1.2.1 = [] ∧ r2.2.1 = [] ∧ r3.2.1 = [] ∧ r3.1.incoming = [] ∧
    (aget r3.1.recvFrags 9).map (fun r => r.slots) = some [none, some [2, 2, 2]] := by
  decide +kernel

/-- without expiry in between the same two fragments, in either order, are delivered -/
theorem C05_fragments_delivered_without_expiry :
    let c0 : Conn := { isServer := true }
    let f1 := fragPrefix 9 1 2 ++ [1, 1, 1]
    let f2 := fragPrefix 9 2 2 ++ [2, 2, 2]
    (recvAppFragment (recvAppFragment c0 0 2 f2).1 900 1 f1).2.1 = [.deliver 1 [1, 1, 1, 2, 2, 2]] := by
  decide +kernel


/-! ### safety half: the sender never loses a guaranteed message

`Alive rid c` (Lemmas/Live.lean): the `RetrySender` object `rid` exists and the message it carries
is queued in `outgoing`, or parked in `pending_callbacks` under a datagram that is still in
`pending_acks` (so its acknowledgement or its time-out will run the callback), or reported
delivered (`done`).  Nothing but `disconnect` can end that. -/

/-- the datagram number a build is about to use does not collide with a parked callback list, at
every build of the history (false only with 65535 datagrams unresolved at once) -/
def FreshAlong (E : Env) : Conn → List Op → Prop
  | _, [] => True
  | c, op :: ops => (∀ t, op = .build t → FreshSeq c) ∧ FreshAlong E (step E c op).1 ops

def NoDisconnect : List Op → Prop
  | [] => True
  | .disconnect _ :: _ => False
  | _ :: ops => NoDisconnect ops

theorem step_typed (E : Env) (hR : E.R.KeepsTyped) (c : Conn) (op : Op) (h : Typed c) :
    Typed (step E c op).1 := xstep_typed E hR c (.base op) h

/-- **A guaranteed single-datagram send is alive at once**: it is queued under a fresh sender object. -/
theorem C05_send_is_alive (sz : Sizes) (c : Conn) (p : Bytes) (cb : Option Nat)
    (hs : c.status = .connected) (hp : p.length ≤ sz.maxPayload) :
    Alive c.retryObjs.length (send sz c p (-1) cb).1 := alive_send_new sz c p cb hs hp

/-- **One operation never loses it.** For every state, every operation other than `disconnect`
(send of anything, building and emitting a datagram, receiving ANY datagram - genuine, duplicate,
forged, acknowledging or not -, the time-out sweep, the application draining its inbox). -/
theorem C05_never_dropped_step (E : Env) (hR : E.R.KeepsAlive) (rid : Nat) (c : Conn) (op : Op)
    (hop : ∀ cb, op ≠ .disconnect cb) (ht : Typed c) (hf : ∀ t, op = .build t → FreshSeq c)
    (hl : Alive rid c) : Alive rid (step E c op).1 := by
  cases op with
  | send p r cb =>
    have := alive_ext (ext_send E.sz c p r cb) hl
    simp only [step]
    split <;> simp_all
  | build t =>
    simp only [step_build_fst]
    exact alive_buildPacket rid E.sz c t ht (hf t rfl) hl
  | recv t hd d => exact alive_recvDatagram rid E.C E.R hR c t hd d hl
  | tmo t => exact alive_checkTimeout rid c t hl
  | disconnect cb => exact absurd rfl (hop cb)
  | take => exact alive_congr rfl rfl rfl rfl hl

/-- **No history loses it** (histories of any length, any interleaving of sends, builds, received
datagrams, time-outs; the connection stays open = no `disconnect`). -/
theorem C05_never_dropped (E : Env) (hR : E.R.KeepsAlive) (hT : E.R.KeepsTyped) (rid : Nat)
    (c : Conn) (ops : List Op) (hnd : NoDisconnect ops) (ht : Typed c) (hf : FreshAlong E c ops)
    (hl : Alive rid c) : Alive rid (run E c ops).1 := by
  induction ops generalizing c with
  | nil => exact hl
  | cons op ops ih =>
    simp only [run]
    have hop : ∀ cb, op ≠ .disconnect cb := by
      intro cb e; subst e; exact hnd
    have hnd' : NoDisconnect ops := by
      cases op <;> first | exact hnd | exact absurd rfl (hop _)
    exact ih (step E c op).1 hnd' (step_typed E hT c op ht) hf.2
      (C05_never_dropped_step E hR rid c op hop ht hf.1 hl)

/-- non-vacuity: a connected fresh endpoint, one guaranteed send, a build, a time-out far in the
future, another build - the hypotheses hold and the message is alive throughout (here: re-queued
and sent again) -/
example :
    let E : Env := ⟨⟨1500⟩, Mpgs.Toy.crypto, baseRole⟩
    let c0 : Conn := { isServer := false, status := .connected, key := some [1] }
    let ops : List Op := [.send [7, 7] (-1) none, .build 100, .tmo 5000, .build 6000]
    NoDisconnect ops ∧ FreshAlong E c0 ops ∧
    (run E c0 ops).1.pendingCbs.any (fun x => x.2.contains (.retry 0)) = true := by
  intro E c0 ops
  refine ⟨by simp [ops, NoDisconnect], ?_, by decide +kernel⟩
  simp only [ops, FreshAlong]
  refine ⟨fun t h => Op.noConfusion h, fun t _ => ?_, fun t h => Op.noConfusion h, fun t _ => ?_, trivial⟩
  · unfold FreshSeq; decide +kernel
  · unfold FreshSeq; decide +kernel

end Mpgs.Conn
