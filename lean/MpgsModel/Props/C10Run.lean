import MpgsModel.Lemmas.Lifecycle
import MpgsModel.Model.ToyAead
/-!
# C10 over whole runs — connect once, then messages, then disconnect once

`Legal (live, used) events` (Lemmas/Lifecycle.lean) reads the handler events in order: a `connect`
is only seen for an identity never seen before; `message` and `disconnect` only for an identity
that is live (connected, not yet disconnected); `disconnect` ends liveness.  The theorems below hold
for every configuration, every number of iterations, every batch of datagrams (any bytes, any
addresses), every behaviour of the user's handler (return / raise / send / disconnect, per event),
every clock and every stream of random draws.
-/
namespace Mpgs.Server
open Mpgs.Bytes Mpgs.Wire Mpgs.Conn

/-- **Lifecycle over a whole run.**  Starting from an empty server, the events of any number of
loop iterations are legal, and the server's pools stay tied to them (`Inv`): the connected pool
holds exactly the identities between their `connect` and their `disconnect`. -/
theorem C10_lifecycle_whole_run (sz : Sizes) (C : Crypto) (cfg : SCfg) (ins : List IterIn) :
    Legal ([], []) (runLoop sz C { cfg := cfg } ins).2 ∧
    Inv (runLoop sz C { cfg := cfg } ins).1 (after ([], []) (runLoop sz C { cfg := cfg } ins).2) :=
  runLoop_step sz C { cfg := cfg } ins ([], []) (inv_init cfg)

/-- **... including shutdown.**  When the loop ends, the shutdown sweep gives every identity that
is still live its `disconnect`; afterwards no identity is live. -/
theorem C10_lifecycle_with_shutdown (sz : Sizes) (C : Crypto) (cfg : SCfg) (ins : List IterIn) (acts : List HAct) :
    Legal ([], []) ((runLoop sz C { cfg := cfg } ins).2 ++ shutdownSweep (runLoop sz C { cfg := cfg } ins).1.conns acts) ∧
    (after ([], []) ((runLoop sz C { cfg := cfg } ins).2 ++
        shutdownSweep (runLoop sz C { cfg := cfg } ins).1.conns acts)).1 = [] := by
  have h := C10_lifecycle_whole_run sz C cfg ins
  generalize runLoop sz C { cfg := cfg } ins = r at h
  obtain ⟨s, evs⟩ := r
  simp only at h ⊢
  have hl : ∀ x ∈ s.conns, x.2.id ∈ (after ([], []) evs).1 := by
    intro x hx
    exact (h.2.lv x.2.id).mpr ⟨x.1, x.2, hx, rfl⟩
  have hs := shutdown_step s.conns acts (after ([], []) evs) hl (inv_ids_nodup s _ h.2)
  refine ⟨(legal_append _ _ _).mpr ⟨h.1, hs.1⟩, ?_⟩
  rw [after_append, hs.2]
  apply List.filter_eq_nil_iff.mpr
  intro id hid
  obtain ⟨a, e, he, heq⟩ := (h.2.lv id).mp hid
  have hm : id ∈ s.conns.map (·.2.id) := List.mem_map.mpr ⟨(a, e), he, heq⟩
  simp [hm]

/-! ### what a legal reading implies, per identity -/

def nConnect (id : Nat) : List SEvent → Nat
  | [] => 0
  | .connect i _ _ :: t => (if i = id then 1 else 0) + nConnect id t
  | _ :: t => nConnect id t

def nDisconnect (id : Nat) : List SEvent → Nat
  | [] => 0
  | .disconnect i :: t => (if i = id then 1 else 0) + nDisconnect id t
  | _ :: t => nDisconnect id t

theorem legal_connect_once (st : LState) (evs : List SEvent) (id : Nat) (h : Legal st evs) :
    nConnect id evs ≤ (if id ∈ st.2 then 0 else 1) := by
  induction evs generalizing st with
  | nil => simp [nConnect]
  | cons e t ih =>
    cases e with
    | connect i a tk =>
      simp only [Legal] at h
      have := ih _ h.2
      simp only [nConnect]
      by_cases hi : i = id
      · subst hi
        simp only [List.mem_cons, true_or, if_true] at this
        simp [h.1]; omega
      · have hm : (id ∈ i :: st.2) ↔ id ∈ st.2 := by
          simp only [List.mem_cons]
          constructor
          · rintro (h1 | h1)
            · exact absurd h1.symm hi
            · exact h1
          · exact Or.inr
        simp only [hm] at this
        simp [hi]; exact this
    | message i sq p => exact ih _ h.2
    | disconnect i => exact ih (st.1.filter (· ≠ i), st.2) h.2
    | update => exact ih _ h
    | shutdown => exact ih _ h
    | sendTo a b c => exact ih _ h
    | dropEntry a => exact ih _ h
    | contained w => exact ih _ h

theorem legal_disconnect_once (st : LState) (evs : List SEvent) (id : Nat) (h : Legal st evs)
    (hsub : ∀ x ∈ st.1, x ∈ st.2) :
    nDisconnect id evs ≤ (if id ∈ st.1 then 1 else if id ∈ st.2 then 0 else 1) := by
  induction evs generalizing st with
  | nil => simp only [nDisconnect]; split <;> (try split) <;> omega
  | cons e t ih =>
    cases e with
    | connect i a tk =>
      simp only [Legal] at h
      have hsub' : ∀ x ∈ (i :: st.1, i :: st.2).1, x ∈ (i :: st.1, i :: st.2).2 := by
        intro x hx
        simp only [List.mem_cons] at hx ⊢
        rcases hx with h1 | h1
        · exact Or.inl h1
        · exact Or.inr (hsub x h1)
      have := ih _ h.2 hsub'
      simp only [nDisconnect]
      by_cases hi : id = i
      · subst hi
        have hn1 : id ∉ st.1 := fun x => h.1 (hsub id x)
        simp only [List.mem_cons, true_or, if_true] at this
        simp [hn1, h.1]; exact this
      · have hm1 : (id ∈ i :: st.1) ↔ id ∈ st.1 := by simp [hi]
        have hm2 : (id ∈ i :: st.2) ↔ id ∈ st.2 := by simp [hi]
        simp only [hm1, hm2] at this
        exact this
    | message i sq p => exact ih _ h.2 hsub
    | disconnect i =>
      simp only [Legal] at h
      have hsub' : ∀ x ∈ (st.1.filter (· ≠ i), st.2).1, x ∈ (st.1.filter (· ≠ i), st.2).2 := by
        intro x hx
        simp only [List.mem_filter] at hx
        exact hsub x hx.1
      have := ih _ h.2 hsub'
      simp only [nDisconnect]
      by_cases hi : i = id
      · subst hi
        have hin2 : i ∈ st.2 := hsub i h.1
        simp only [List.mem_filter, decide_eq_true_eq, ne_eq, not_true_eq_false, and_false, if_false, hin2, if_true] at this
        simp [h.1]; omega
      · have hm : (id ∈ st.1.filter (· ≠ i)) ↔ id ∈ st.1 := by
          simp only [List.mem_filter, decide_eq_true_eq]
          exact ⟨fun x => x.1, fun x => ⟨x, fun e => hi e.symm⟩⟩
        simp only [hm] at this
        simp [hi]; exact this
    | update => exact ih _ h hsub
    | shutdown => exact ih _ h hsub
    | sendTo a b c => exact ih _ h hsub
    | dropEntry a => exact ih _ h hsub
    | contained w => exact ih _ h hsub

/-- **Per identity: at most one `connect` and at most one `disconnect` in any run** (and, by the
definition of `Legal`, `message` events only in between). -/
theorem C10_connect_and_disconnect_once (sz : Sizes) (C : Crypto) (cfg : SCfg) (ins : List IterIn) (acts : List HAct)
    (id : Nat) :
    nConnect id ((runLoop sz C { cfg := cfg } ins).2 ++ shutdownSweep (runLoop sz C { cfg := cfg } ins).1.conns acts) ≤ 1 ∧
    nDisconnect id ((runLoop sz C { cfg := cfg } ins).2 ++ shutdownSweep (runLoop sz C { cfg := cfg } ins).1.conns acts) ≤ 1 := by
  have h := (C10_lifecycle_with_shutdown sz C cfg ins acts).1
  have h1 := legal_connect_once ([], []) _ id h
  have h2 := legal_disconnect_once ([], []) _ id h (by intro x hx; cases hx)
  simp at h1 h2
  exact ⟨h1, h2⟩

/-- non-vacuity: `Legal` rejects a second connect, a message before connect and a message after
disconnect, and accepts the regular lifecycle -/
example : Legal ([], []) [.connect 0 (1, 1) 5, .message 0 1 [], .update, .disconnect 0] ∧
    ¬ Legal ([], []) [.connect 0 (1, 1) 5, .connect 0 (1, 1) 5] ∧
    ¬ Legal ([], []) [.message 0 1 []] ∧
    ¬ Legal ([], []) [.connect 0 (1, 1) 5, .disconnect 0, .message 0 1 []] := by
  simp [Legal]

end Mpgs.Server
