import MpgsModel.Model.Conn
import MpgsModel.Lemmas.Bump
import MpgsModel.Lemmas.BumpRoles
/-!
# C01 — Only datagrams authenticated under the session key can affect a connection

`recvDatagram C R c t h d` is `_recv_datagram(hdr, datagram)` at clock value `t`; `C` is an
arbitrary AEAD (`Crypto`), `R` arbitrary handshake handlers.  `drop1 c` is the state `c` with
`stats.dropped` incremented — nothing else — together with the single event `dropped` and the
return value `False`.  AES-GCM's unforgeability (a datagram not produced with the key makes
`aopen` fail) is assumed outside Lean; the theorems say that *nothing else* is relied on.
-/
namespace Mpgs.Conn
open Mpgs.Bytes Mpgs.Wire

theorem parseMsgs_hdr (h : Header) (msg : Bytes) (pkt : Packet) (hp : parseMsgs h msg = .ok pkt) :
    pkt.hdr = h ∧ pkt.msg = msg := by
  unfold parseMsgs at hp
  split at hp
  · split at hp
    · simp at hp
    · injection hp with hp; rw [← hp]; exact ⟨rfl, rfl⟩
  · split at hp
    · split at hp
      · simp at hp
      · injection hp with hp; rw [← hp]; exact ⟨rfl, rfl⟩
    · injection hp with hp; rw [← hp]; exact ⟨rfl, rfl⟩

/-- Any datagram that does not decode is discarded whole: the complete endpoint state is the
old one with `dropped + 1` — no delivery, no ack/timeout resolution, no change of key, status,
liveness clock or windows. -/
theorem C01_undecodable_noop (C : Crypto) (R : Role) (c : Conn) (t : Int) (h : Header) (d : Bytes)
    (e : Wire.Err) (hf : fromBytes C h c.key d = .error e) :
    recvDatagram C R c t h d = drop1 c := by
  simp [recvDatagram, hf]

/-- **Keyed endpoint.** With a session key `k`, a datagram decodes only if it is exactly
`20 + hdr.length + 16` bytes long and AES-GCM opens bytes `20..` under `k` with nonce = bytes
`0..11` and AAD = bytes `0..19`.  No packet type, count or inner type bypasses this (the CRC
branch is unreachable with a key). -/
theorem C01_keyed_decode_needs_open (C : Crypto) (h : Header) (key : Option Bytes) (k : Bytes)
    (d : Bytes) (pkt : Packet) (hk : keyed key = some k) (hf : fromBytes C h key d = .ok pkt) :
    d.length = 20 + h.length + 16 ∧
    C.aopen k (take 12 d) (take 20 d) (slice 20 (20 + h.length + 16) d) = some pkt.msg := by
  unfold fromBytes at hf
  cases hb : openBody C h key d with
  | error e => simp [hb] at hf
  | ok msg =>
    simp only [hb] at hf
    have hm := (parseMsgs_hdr h msg pkt hf).2
    unfold openBody at hb
    simp only [hk] at hb
    split at hb
    · simp at hb
    · split at hb
      · simp at hb
      · rename_i hlen
        have hl : 20 + h.length + 16 = d.length := by
          apply Classical.byContradiction; intro x; exact hlen x
        refine ⟨hl.symm, ?_⟩
        split at hb
        · rename_i pt hpt
          injection hb with hb
          rw [hm, ← hb]; exact hpt
        · simp at hb

/-- Hence: with a key, a datagram that AES-GCM does not open (forged plaintext of any type, a
bit-flipped / truncated / extended / re-typed copy, other-key ciphertext, random bytes) is a
no-op apart from the `dropped` counter. -/
theorem C01_keyed_unauthentic_noop (C : Crypto) (R : Role) (c : Conn) (t : Int) (h : Header)
    (d : Bytes) (k : Bytes) (hk : keyed c.key = some k)
    (hbad : d.length ≠ 20 + h.length + 16 ∨
            C.aopen k (take 12 d) (take 20 d) (slice 20 (20 + h.length + 16) d) = none) :
    recvDatagram C R c t h d = drop1 c := by
  cases hf : fromBytes C h c.key d with
  | error e => exact C01_undecodable_noop C R c t h d e hf
  | ok pkt =>
    have := C01_keyed_decode_needs_open C h c.key k d pkt hk hf
    rcases hbad with hb | hb
    · exact absurd this.1 hb
    · rw [hb] at this; simp at this

/-- **Unkeyed endpoint.** Without a key the only datagram that is not dropped carries exactly
one message, typed as the one hello this role expects, with the exact length and a valid CRC. -/
theorem C01_prekey_single_hello (C : Crypto) (R : Role) (c : Conn) (t : Int) (h : Header) (d : Bytes)
    (hk : keyed c.key = none) (hnd : recvDatagram C R c t h d ≠ drop1 c) :
    h.count = 1 ∧ h.ptype = (if c.isServer then PType.clientHello else PType.serverHello) ∧
    d.length = 20 + h.length + 4 ∧
    crc32 (take (20 + h.length) d) = beVal (slice (20 + h.length) (20 + h.length + 4) d) := by
  cases hf : fromBytes C h c.key d with
  | error e => exact absurd (C01_undecodable_noop C R c t h d e hf) hnd
  | ok pkt =>
    have hf' := hf
    unfold fromBytes at hf
    cases hb : openBody C h c.key d with
    | error e => simp [hb] at hf
    | ok msg =>
      simp only [hb] at hf
      have hh := (parseMsgs_hdr h msg pkt hf).1
      unfold openBody at hb
      simp only [hk] at hb
      split at hb
      · simp at hb
      · split at hb
        · simp at hb
        · rename_i hlen
          split at hb
          · simp at hb
          · rename_i hcrc
            have hl : 20 + h.length + 4 = d.length := by
              apply Classical.byContradiction; intro x; exact hlen x
            have hc : crc32 (take (20 + h.length) d) = beVal (slice (20 + h.length) (20 + h.length + 4) d) := by
              apply Classical.byContradiction; intro x; exact hcrc x
            have hgate : gateUnkeyed c pkt = false := by
              cases hg : gateUnkeyed c pkt with
              | false => rfl
              | true =>
                exfalso; apply hnd
                unfold recvDatagram
                simp [hf', hg]
            unfold gateUnkeyed at hgate
            simp only [hk, Option.isNone_none, Bool.true_and, Bool.or_eq_false_iff, bne_eq_false_iff_eq] at hgate
            rw [hh] at hgate
            refine ⟨hgate.1, ?_, hl.symm, hc⟩
            rw [hgate.2]; rfl


/-! ### from one step to whole histories

`stats.dropped` is write-only (`Lemmas/Bump.lean`: every operation commutes with adding to it), so
the per-step theorems lift to histories: mark any set of positions of a history whose operation
is the arrival of a datagram that the endpoint - in the state it has *without* the marked
operations - does not authenticate (by the theorems above: everything not sealed under the
session key; before a key, everything but the one expected hello).  Erasing the marked operations
changes nothing but the counter: same final state up to `dropped`, same outputs for every other
operation, and each marked operation itself only reports `dropped` / `False`. -/

/-- the history without the marked operations -/
def eraseOps : List Bool → List Op → List Op
  | true :: ms, _ :: ops => eraseOps ms ops
  | false :: ms, op :: ops => op :: eraseOps ms ops
  | _, ops => ops

/-- per-operation outputs of a run -/
def runPer (E : Env) : Conn → List Op → List (List Out)
  | _, [] => []
  | c, op :: ops => (step E c op).2 :: runPer E (step E c op).1 ops

def eraseOuts : List Bool → List (List Out) → List (List Out)
  | true :: ms, _ :: os => eraseOuts ms os
  | false :: ms, o :: os => o :: eraseOuts ms os
  | _, os => os

def markedOuts : List Bool → List (List Out) → List (List Out)
  | true :: ms, o :: os => o :: markedOuts ms os
  | false :: ms, _ :: os => markedOuts ms os
  | _, _ => []

/-- every marked operation is a datagram arrival that the state of the *erased* run at that
point discards as unauthentic -/
def Unauthentic (E : Env) : Conn → List Bool → List Op → Prop
  | c, true :: ms, op :: ops =>
    (∃ t h d, op = .recv t h d ∧ recvDatagram E.C E.R c t h d = drop1 c) ∧ Unauthentic E c ms ops
  | c, false :: ms, op :: ops => Unauthentic E (step E c op).1 ms ops
  | _, _, _ => True

def marks : List Bool → List Op → Nat
  | true :: ms, _ :: ops => marks ms ops + 1
  | false :: ms, _ :: ops => marks ms ops
  | _, _ => 0

theorem noninterference_aux (E : Env) (hR : E.R.Bumps) (ms : List Bool) (ops : List Op) (c : Conn) (k : Nat)
    (hu : Unauthentic E c ms ops) :
    (run E (bump k c) ops).1 = bump (k + marks ms ops) (run E c (eraseOps ms ops)).1 ∧
    eraseOuts ms (runPer E (bump k c) ops) = runPer E c (eraseOps ms ops) ∧
    (∀ o ∈ markedOuts ms (runPer E (bump k c) ops), o = [.ev .dropped, .ret .rejected]) := by
  induction ops generalizing ms c k with
  | nil =>
    cases ms with
    | nil => exact ⟨rfl, rfl, fun o h => by cases h⟩
    | cons b ms => cases b <;> exact ⟨rfl, rfl, fun o h => by cases h⟩
  | cons op ops ih =>
    cases ms with
    | nil =>
      refine ⟨?_, ?_, fun o h => by cases h⟩
      · have := bump_run k E hR c (op :: ops)
        simp only [eraseOps, marks, Nat.add_zero]
        rw [this]
      · simp only [eraseOuts, eraseOps]
        clear ih hu
        induction (op :: ops) generalizing c with
        | nil => rfl
        | cons a l ih2 => simp only [runPer, bump_step k E hR]; rw [ih2]
    | cons b ms =>
      cases b with
      | false =>
        simp only [Unauthentic] at hu
        have h := ih ms (step E c op).1 k hu
        simp only [run, runPer, eraseOps, eraseOuts, markedOuts, marks, bump_step k E hR]
        exact ⟨h.1, by rw [h.2.1], h.2.2⟩
      | true =>
        simp only [Unauthentic] at hu
        obtain ⟨⟨t, h, d, hop, hdrop⟩, hu'⟩ := hu
        subst hop
        have hstep : step E (bump k c) (.recv t h d) = (bump (k + 1) c, [.ev .dropped, .ret .rejected]) := by
          rw [bump_step k E hR]
          simp only [step, hdrop, drop1]
          simp [bump, Nat.add_assoc, Nat.add_comm 1 k]
        have hi := ih ms c (k + 1) hu'
        simp only [run, runPer, eraseOps, eraseOuts, markedOuts, marks, hstep]
        refine ⟨?_, hi.2.1, ?_⟩
        · rw [hi.1]; congr 1; omega
        · intro o ho
          rcases List.mem_cons.mp ho with e | e
          · exact e
          · exact hi.2.2 o e

/-- **History-level non-interference.** For every history and every marking of unauthentic
datagram arrivals in it (any number, anywhere): the final state is the state of the history
without them, with `dropped` raised by their number; every other operation produces exactly the
outputs it produces without them (deliveries, callbacks, emitted datagrams, return values); and
each marked arrival itself only reports `dropped` and returns `False`. -/
theorem C01_history_noninterference (E : Env) (hR : E.R.Bumps) (c : Conn) (ms : List Bool) (ops : List Op)
    (hu : Unauthentic E c ms ops) :
    (run E c ops).1 = bump (marks ms ops) (run E c (eraseOps ms ops)).1 ∧
    eraseOuts ms (runPer E c ops) = runPer E c (eraseOps ms ops) ∧
    (∀ o ∈ markedOuts ms (runPer E c ops), o = [.ev .dropped, .ret .rejected]) := by
  have := noninterference_aux E hR ms ops c 0 hu
  simpa [bump_zero] using this

/-! ### non-vacuity: the hypotheses are met by concrete datagrams -/

/-- a 36-byte datagram with `length = 0` and an AEAD that rejects everything -/
example : recvDatagram ⟨fun _ _ _ p => p, fun _ _ _ _ => none⟩ baseRole
      { isServer := true, key := some [1] } 5 ⟨true, 0, .app, 1, 0, 0, 0, 0⟩ (List.replicate 36 0)
    = drop1 { isServer := true, key := some [1] } :=
  C01_keyed_unauthentic_noop _ _ _ _ _ _ [1] rfl (Or.inr rfl)

/-- the hypothesis on the handshake handlers holds for the base class and for both subclasses,
whatever the external functions (`Hs`) do -/
theorem C01_roles_do_not_read_dropped (H : Hs) (tok : Nat) (tt : Option Nat) :
    baseRole.Bumps ∧ (clientRole H).Bumps ∧ (serverRole H tok tt).Bumps :=
  ⟨baseRole_bumps, clientRole_bumps H, serverRole_bumps H tok tt⟩

/-- non-vacuity of the history theorem: a keyed endpoint sends, receives a forged 36-byte datagram
(marked), builds a packet: the marking is `Unauthentic`, one operation is erased -/
example :
    let E : Env := ⟨⟨1500⟩, ⟨fun _ _ _ p => p, fun _ _ _ _ => none⟩, baseRole⟩
    let c : Conn := { isServer := true, key := some [1], status := .connected }
    let ops : List Op := [.send [7] 0 none, .recv 5 ⟨true, 0, .app, 1, 0, 0, 0, 0⟩ (List.replicate 36 0), .build 100]
    Unauthentic E c [false, true, false] ops ∧ marks [false, true, false] ops = 1 ∧
      (eraseOps [false, true, false] ops).length = 2 := by
  intro E c ops
  refine ⟨?_, rfl, rfl⟩
  simp only [ops, Unauthentic]
  exact ⟨⟨_, _, _, rfl, C01_keyed_unauthentic_noop _ _ _ _ _ _ [1] rfl (Or.inr rfl)⟩, trivial⟩

end Mpgs.Conn
