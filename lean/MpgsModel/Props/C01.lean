import MpgsModel.Model.Conn
/-!
# C01 — Only datagrams authenticated under the session key can affect a connection

`recvDatagram C R c t h d` is `_recv_datagram(hdr, datagram)` at clock value `t`; `C` is an
arbitrary AEAD (`Crypto`), `R` arbitrary handshake handlers.  `drop1 c` is the state `c` with
`stats.dropped` incremented — nothing else — together with the single event `dropped` and the
return value `False`.  AES-GCM's unforgeability (a datagram not produced with the key makes
`aopen` fail) is assumed outside Lean; the theorems say that *nothing else* is relied on.
-/
namespace Mpgs.Conn
open Mpgs.Bytes Mpgs.Wire

theorem parseMsgs_hdr (h : Header) (msg : Bytes) (pkt : Packet) (hp : parseMsgs h msg = .ok pkt) :
    pkt.hdr = h ∧ pkt.msg = msg := by
  unfold parseMsgs at hp
  split at hp
  · split at hp
    · simp at hp
    · injection hp with hp; rw [← hp]; exact ⟨rfl, rfl⟩
  · split at hp
    · split at hp
      · simp at hp
      · injection hp with hp; rw [← hp]; exact ⟨rfl, rfl⟩
    · injection hp with hp; rw [← hp]; exact ⟨rfl, rfl⟩

/-- Any datagram that does not decode is discarded whole: the complete endpoint state is the
old one with `dropped + 1` — no delivery, no ack/timeout resolution, no change of key, status,
liveness clock or windows. -/
theorem C01_undecodable_noop (C : Crypto) (R : Role) (c : Conn) (t : Int) (h : Header) (d : Bytes)
    (e : Wire.Err) (hf : fromBytes C h c.key d = .error e) :
    recvDatagram C R c t h d = drop1 c := by
  simp [recvDatagram, hf]

/-- **Keyed endpoint.** With a session key `k`, a datagram decodes only if it is exactly
`20 + hdr.length + 16` bytes long and AES-GCM opens bytes `20..` under `k` with nonce = bytes
`0..11` and AAD = bytes `0..19`.  No packet type, count or inner type bypasses this (the CRC
branch is unreachable with a key). -/
theorem C01_keyed_decode_needs_open (C : Crypto) (h : Header) (key : Option Bytes) (k : Bytes)
    (d : Bytes) (pkt : Packet) (hk : keyed key = some k) (hf : fromBytes C h key d = .ok pkt) :
    d.length = 20 + h.length + 16 ∧
    C.aopen k (take 12 d) (take 20 d) (slice 20 (20 + h.length + 16) d) = some pkt.msg := by
  unfold fromBytes at hf
  cases hb : openBody C h key d with
  | error e => simp [hb] at hf
  | ok msg =>
    simp only [hb] at hf
    have hm := (parseMsgs_hdr h msg pkt hf).2
    unfold openBody at hb
    simp only [hk] at hb
    split at hb
    · simp at hb
    · split at hb
      · simp at hb
      · rename_i hlen
        have hl : 20 + h.length + 16 = d.length := by
          apply Classical.byContradiction; intro x; exact hlen x
        refine ⟨hl.symm, ?_⟩
        split at hb
        · rename_i pt hpt
          injection hb with hb
          rw [hm, ← hb]; exact hpt
        · simp at hb

/-- Hence: with a key, a datagram that AES-GCM does not open (forged plaintext of any type, a
bit-flipped / truncated / extended / re-typed copy, other-key ciphertext, random bytes) is a
no-op apart from the `dropped` counter. -/
theorem C01_keyed_unauthentic_noop (C : Crypto) (R : Role) (c : Conn) (t : Int) (h : Header)
    (d : Bytes) (k : Bytes) (hk : keyed c.key = some k)
    (hbad : d.length ≠ 20 + h.length + 16 ∨
            C.aopen k (take 12 d) (take 20 d) (slice 20 (20 + h.length + 16) d) = none) :
    recvDatagram C R c t h d = drop1 c := by
  cases hf : fromBytes C h c.key d with
  | error e => exact C01_undecodable_noop C R c t h d e hf
  | ok pkt =>
    have := C01_keyed_decode_needs_open C h c.key k d pkt hk hf
    rcases hbad with hb | hb
    · exact absurd this.1 hb
    · rw [hb] at this; simp at this

/-- **Unkeyed endpoint.** Without a key the only datagram that is not dropped carries exactly
one message, typed as the one hello this role expects, with the exact length and a valid CRC. -/
theorem C01_prekey_single_hello (C : Crypto) (R : Role) (c : Conn) (t : Int) (h : Header) (d : Bytes)
    (hk : keyed c.key = none) (hnd : recvDatagram C R c t h d ≠ drop1 c) :
    h.count = 1 ∧ h.ptype = (if c.isServer then PType.clientHello else PType.serverHello) ∧
    d.length = 20 + h.length + 4 ∧
    crc32 (take (20 + h.length) d) = beVal (slice (20 + h.length) (20 + h.length + 4) d) := by
  cases hf : fromBytes C h c.key d with
  | error e => exact absurd (C01_undecodable_noop C R c t h d e hf) hnd
  | ok pkt =>
    have hf' := hf
    unfold fromBytes at hf
    cases hb : openBody C h c.key d with
    | error e => simp [hb] at hf
    | ok msg =>
      simp only [hb] at hf
      have hh := (parseMsgs_hdr h msg pkt hf).1
      unfold openBody at hb
      simp only [hk] at hb
      split at hb
      · simp at hb
      · split at hb
        · simp at hb
        · rename_i hlen
          split at hb
          · simp at hb
          · rename_i hcrc
            have hl : 20 + h.length + 4 = d.length := by
              apply Classical.byContradiction; intro x; exact hlen x
            have hc : crc32 (take (20 + h.length) d) = beVal (slice (20 + h.length) (20 + h.length + 4) d) := by
              apply Classical.byContradiction; intro x; exact hcrc x
            have hgate : gateUnkeyed c pkt = false := by
              cases hg : gateUnkeyed c pkt with
              | false => rfl
              | true =>
                exfalso; apply hnd
                unfold recvDatagram
                simp [hf', hg]
            unfold gateUnkeyed at hgate
            simp only [hk, Option.isNone_none, Bool.true_and, Bool.or_eq_false_iff, bne_eq_false_iff_eq] at hgate
            rw [hh] at hgate
            refine ⟨hgate.1, ?_, hl.symm, hc⟩
            rw [hgate.2]; rfl

/-! ### non-vacuity: the hypotheses are met by concrete datagrams -/

/-- a 36-byte datagram with `length = 0` and an AEAD that rejects everything -/
example : recvDatagram ⟨fun _ _ _ p => p, fun _ _ _ _ => none⟩ baseRole
      { isServer := true, key := some [1] } 5 ⟨true, 0, .app, 1, 0, 0, 0, 0⟩ (List.replicate 36 0)
    = drop1 { isServer := true, key := some [1] } :=
  C01_keyed_unauthentic_noop _ _ _ _ _ _ [1] rfl (Or.inr rfl)

end Mpgs.Conn
