/-
Secondary tie (DESIGN 4.2), group Seq: the kernels that `harness/translate.py` regenerates from the source of the tree under test
(`MpgsModel/Generated/Seq.lean`, rewritten on every run of the checks that list this group) equal the hand-written model
definitions that the property theorems are about.  Proofs are `unfold` + `grind` (case splitting, linear integer arithmetic) so
that they survive behaviour-preserving rewrites of the Python; what breaks them is a change of behaviour.
-/
import MpgsModel.Generated.Seq
import MpgsModel.Model.SeqNum

namespace Mpgs.Equiv
open Mpgs

/-- translation of the error type of the generated kernels into the model's
    (`TypeError` cannot occur: the kernels are translated for `SeqNum` operands) -/
def err : Gen.Err → Seq.Err
  | .valueError => .valueError
  | .duplication => .duplication
  | .typeError => .valueError
  | .structError => .valueError
  | .fuel => .valueError

def lift {α : Type} : Except Gen.Err α → Except Seq.Err α
  | .ok v => .ok v
  | .error e => .error (err e)

@[simp, grind =] theorem lift_ok {α : Type} (v : α) : lift (.ok v : Except Gen.Err α) = .ok v := rfl
@[simp, grind =] theorem lift_error {α : Type} (e : Gen.Err) : lift (.error e : Except Gen.Err α) = .error (err e) := rfl

/-- `SeqNum.__new__` -/
theorem gen_new (v : Int) : lift (Gen.SeqNum_new v) = Seq.mk v := by
  unfold Gen.SeqNum_new Seq.mk Seq.M
  grind [err]

/-- `SeqNum.diff` (never raises) -/
theorem gen_diff (a b : Int) : Gen.SeqNum_diff a b = .ok (Seq.diff a b) := by
  unfold Gen.SeqNum_diff Seq.diff Seq.T Seq.M
  grind

@[simp, grind =] theorem gen_diffV (a b : Int) : Gen.SeqNum_diffV a b = Seq.diff a b := by
  unfold Gen.SeqNum_diffV; rw [gen_diff]

/-- `SeqNum.__add__` -/
theorem gen_add (a k : Int) : lift (Gen.SeqNum_add a k) = Seq.add a k := by
  unfold Gen.SeqNum_add Seq.add Seq.wrap
  simp only [← gen_new]
  unfold Seq.M
  grind

/-- `SeqNum.__sub__` -/
theorem gen_sub (a k : Int) : lift (Gen.SeqNum_sub a k) = Seq.sub a k := by
  unfold Gen.SeqNum_sub Seq.sub Seq.wrap
  simp only [← gen_new]
  unfold Seq.M
  grind

/-- `SeqNum.newer_than` -/
theorem gen_newer_than (a b : Int) : Gen.SeqNum_newer_than a b = .ok (Seq.newerThan a b) := by
  unfold Gen.SeqNum_newer_than Seq.newerThan
  try simp only [gen_diffV]
  all_goals grind

/-- `SeqNum.__lt__` -/
theorem gen_lt (a b : Int) : Gen.SeqNum_lt a b = .ok (Seq.lt a b) := by
  unfold Gen.SeqNum_lt Seq.lt
  try simp only [gen_diffV]
  all_goals grind

/-- `SeqNum.__gt__` -/
theorem gen_gt (a b : Int) : Gen.SeqNum_gt a b = .ok (Seq.gt a b) := by
  unfold Gen.SeqNum_gt Seq.gt
  try simp only [gen_diffV]
  all_goals grind

/-! non-vacuity: the kernels compute (a wrap) -/
example : Gen.SeqNum_add 65535 1 = .ok 1 := by rfl
example : Gen.SeqNum_diff 1 65535 = .ok 1 := by rfl

end Mpgs.Equiv
