/-
Secondary tie (DESIGN 4.2), group Size: the kernels that `harness/translate.py` regenerates from the source of the tree under test
(`MpgsModel/Generated/Size.lean`, rewritten on every run of the checks that list this group) equal the hand-written model
definitions that the property theorems are about.  Proofs are `unfold` + `grind` (case splitting, linear integer arithmetic) so
that they survive behaviour-preserving rewrites of the Python; what breaks them is a change of behaviour.
-/
import MpgsModel.Generated.Size
import MpgsModel.Model.Wire

namespace Mpgs.Equiv
open Mpgs

/-- `Packet.overhead` -/
theorem gen_overhead (n : Nat) : Gen.Packet_overhead n = .ok (Wire.overhead n : Int) := by
  unfold Gen.Packet_overhead Wire.overhead
  grind

/-- `Packet.setMTU`: for every MTU at which the payload room is at least a fragment header (72 bytes and up; the model's `Nat`
    subtractions are exact there) the regenerated kernel assigns the constants of the model's `Sizes` -/
theorem gen_setMTU (mtu : Nat) (h : 72 ≤ mtu) :
    Gen.Packet_setMTU mtu =
      .ok ((mtu : Int), ((Wire.Sizes.maxSize ⟨mtu⟩ : Nat) : Int), ((Wire.Sizes.maxPayload ⟨mtu⟩ : Nat) : Int), (mtu : Int) - 28 - 16 + 4,
           ((Wire.Sizes.maxFragment ⟨mtu⟩ : Nat) : Int), (mtu : Int) + 512) := by
  unfold Gen.Packet_setMTU Wire.Sizes.maxFragment Wire.Sizes.maxPayload Wire.Sizes.maxSize
  grind

end Mpgs.Equiv
