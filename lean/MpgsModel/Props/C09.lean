import MpgsModel.Lemmas.Pack
/-!
# C09 — Wire codec round-trips; datagrams respect the MTU; packing never fails

Codec statements are for an arbitrary AEAD `C` (the AES-GCM laws needed are explicit hypotheses).
Note on the direction flag: `hdr.isServer` of a *built* header means "built by the server"
(magic `FSOC`), of a *decoded* header "addressed to the server" (magic `FSOS`), exactly as in
`PacketHeader.to_bytes/from_bytes`; every other field round-trips unchanged.
-/
namespace Mpgs.Conn
open Mpgs.Bytes Mpgs.Wire

/-- every header whose fields fit their format codes encodes to 20 bytes that decode (on the
receiving side) to the same fields; on the wrong side it is refused with PacketError -/
theorem C09_header_roundtrip (h : Header) (hw : WfHdr h) (rest : Bytes) :
    ∃ hb, encodeHdr h = .ok hb ∧ hb.length = 20 ∧
      decodeHdr (!h.isServer) (hb ++ rest) = .ok { h with isServer := !h.isServer } ∧
      decodeHdr h.isServer (hb ++ rest) = .error .packetError := by
  have he := encodeHdr_ok h hw
  exact ⟨_, he, encodeHdr_length h _ he, hdr_roundtrip h hw rest _ he, hdr_wrong_direction h hw rest _ he⟩

/-- a field outside its format code makes `to_bytes` raise struct.error (never wrong bytes) -/
theorem C09_header_refuse (h : Header) (hw : ¬ WfHdr h) : encodeHdr h = .error .structError := by
  unfold encodeHdr WfHdr at *
  rw [if_neg hw]

/-- **CRC form.** Any packet created from in-range messages encodes (without a key) to a datagram
of exactly `20 + len + 4` bytes that decodes to the same header fields and the same messages;
`length` and `count` describe the payload exactly. -/
theorem C09_packet_roundtrip_crc (C : Crypto) (h : Header) (ms : List WMsg) (p : Packet)
    (hms : ∀ m ∈ ms, WfMsg m) (hc : create h ms = .ok p) (hw : WfHdr p.hdr) :
    p.hdr.count = ms.length ∧ p.hdr.length = p.msg.length ∧
    ∃ d, toBytes C none p = .ok d ∧ d.length = 20 + p.msg.length + 4 ∧
      decodeHdr (!p.hdr.isServer) d = .ok { p.hdr with isServer := !p.hdr.isServer } ∧
      fromBytes C { p.hdr with isServer := !p.hdr.isServer } none d =
        .ok ⟨{ p.hdr with isServer := !p.hdr.isServer }, p.msg, decodedMsgs h ms⟩ := by
  obtain ⟨h1, h2, _, h4⟩ := parse_create h ms p hms hc
  refine ⟨h1, h2, ?_⟩
  have he := encodeHdr_ok p.hdr hw
  generalize hhb : (if p.hdr.isServer = true then magicToClient else magicToServer) ++ be32 p.hdr.ctime ++
    be16 p.hdr.seq ++ be16 p.hdr.ack ++ be8 p.hdr.ptype.toNat ++ be16 p.hdr.length ++ be8 p.hdr.count ++
    be32 p.hdr.ackBits = hb at he
  have hl := encodeHdr_length p.hdr hb he
  refine ⟨hb ++ p.msg ++ be32 (crc32 (hb ++ p.msg)), ?_, ?_, ?_, ?_⟩
  · simp [toBytes, he, keyed]
  · simp [hl]; omega
  · have := hdr_roundtrip p.hdr hw (p.msg ++ be32 (crc32 (hb ++ p.msg))) hb he
    simpa [List.append_assoc] using this
  · unfold fromBytes
    rw [openBody_crc C { p.hdr with isServer := !p.hdr.isServer } hb p.msg _ hl h2 rfl]
    exact h4 _

/-- **Encrypted form**, for any key and any AEAD that appends a 16-byte tag and opens what it
sealed (the two AES-GCM facts used; SERVER_HELLO travels in CRC form even with a key). -/
theorem C09_packet_roundtrip_aead (C : Crypto) (h : Header) (ms : List WMsg) (p : Packet)
    (key : Option Bytes) (k : Bytes) (hk : keyed key = some k) (hty : p.hdr.ptype ≠ .serverHello)
    (hms : ∀ m ∈ ms, WfMsg m) (hc : create h ms = .ok p) (hw : WfHdr p.hdr)
    (htag : ∀ iv aad pt, (C.aseal k iv aad pt).length = pt.length + 16)
    (hopen : ∀ iv aad pt, C.aopen k iv aad (C.aseal k iv aad pt) = some pt) :
    ∃ d, toBytes C key p = .ok d ∧ d.length = 20 + p.msg.length + 16 ∧
      decodeHdr (!p.hdr.isServer) d = .ok { p.hdr with isServer := !p.hdr.isServer } ∧
      fromBytes C { p.hdr with isServer := !p.hdr.isServer } key d =
        .ok ⟨{ p.hdr with isServer := !p.hdr.isServer }, p.msg, decodedMsgs h ms⟩ := by
  obtain ⟨_, h2, _, h4⟩ := parse_create h ms p hms hc
  have he := encodeHdr_ok p.hdr hw
  generalize hhb : (if p.hdr.isServer = true then magicToClient else magicToServer) ++ be32 p.hdr.ctime ++
    be16 p.hdr.seq ++ be16 p.hdr.ack ++ be8 p.hdr.ptype.toNat ++ be16 p.hdr.length ++ be8 p.hdr.count ++
    be32 p.hdr.ackBits = hb at he
  have hl := encodeHdr_length p.hdr hb he
  refine ⟨hb ++ C.aseal k (take 12 hb) hb p.msg, ?_, ?_, ?_, ?_⟩
  · simp [toBytes, he, hk, hty]
  · simp [hl, htag]; omega
  · exact hdr_roundtrip p.hdr hw _ hb he
  · unfold fromBytes
    rw [openBody_aead C { p.hdr with isServer := !p.hdr.isServer } hb p.msg _ k key hk hl h2 rfl
      (htag _ _ _) (hopen _ _ _)]
    exact h4 _

/-! ### packing -/

theorem buildImpl_spec (sz : Sizes) (c c' : Conn) (t delay : Int) (ska : Bool) (pkt : Packet)
    (hb : buildPacketImpl sz c t ska delay = (c', .ok (some pkt))) :
    pkt.msg.length = sumLen (packAll sz c t delay).1.msgs + overhead (packAll sz c t delay).1.msgs.length ∧
    pkt.hdr.count = (packAll sz c t delay).1.msgs.length ∧ pkt.hdr.length = pkt.msg.length ∧
    c'.outgoing = (packAll sz c t delay).2.2 ∧
    create (mkHdr c t (pktType c ska (packAll sz c t delay).1.msgs) c'.seqSending)
      ((packAll sz c t delay).1.msgs.map toWMsg) = .ok pkt := by
  unfold buildPacketImpl at hb
  simp only at hb
  split at hb
  · simp at hb
  · split at hb
    · rename_i pk hcr
      injection hb with hb1 hb2
      injection hb2 with hb2
      injection hb2 with hb2
      subst hb2
      have hcl := create_len _ _ pk hcr
      refine ⟨hcl.1, hcl.2.1, hcl.2.2, by rw [← hb1]; rfl, ?_⟩
      rw [← hb1]; exact hcr
    · simp at hb

theorem packAll_inv (sz : Sizes) (c : Conn) (t delay : Int) : (packAll sz c t delay).1.Inv sz :=
  packNew_inv sz _ _ (packResend_inv sz t delay _ _ _ (Pack.inv_empty sz))

/-- **MTU.** Whatever is queued and whatever awaits resend, the payload of a built packet is at
most `MAX_PAYLOAD_SIZE + 2` bytes and it carries at most 255 messages; hence (next theorem) the
datagram is at most `MTU - 28` bytes. -/
theorem C09_payload_bound (sz : Sizes) (c c' : Conn) (t delay : Int) (ska : Bool) (pkt : Packet)
    (hb : buildPacketImpl sz c t ska delay = (c', .ok (some pkt))) :
    pkt.msg.length ≤ sz.maxPayload + 2 ∧ pkt.hdr.count ≤ 255 := by
  have hs := buildImpl_spec sz c c' t delay ska pkt hb
  obtain ⟨h1, h2, h3⟩ := packAll_inv sz c t delay
  rw [hs.1, hs.2.1]
  refine ⟨?_, h2⟩
  by_cases hne : (packAll sz c t delay).1.msgs = []
  · simp [hne, sumLen, overhead]
  · have := h3 hne; omega

/-- every datagram handed to the socket is at most `MTU - 28` bytes, for every MTU ≥ 66 (in
particular 512..1500), every state, every queue content -/
theorem C09_mtu_bound (C : Crypto) (sz : Sizes) (c c' : Conn) (t delay : Int) (ska : Bool) (pkt : Packet)
    (d : Bytes) (hmtu : 66 ≤ sz.mtu)
    (htag : ∀ k iv aad pt, (C.aseal k iv aad pt).length = pt.length + 16)
    (hb : buildPacketImpl sz c t ska delay = (c', .ok (some pkt)))
    (hd : toBytes C c'.key pkt = .ok d) : d.length ≤ sz.mtu - 28 := by
  have hp := (C09_payload_bound sz c c' t delay ska pkt hb).1
  unfold toBytes at hd
  cases he : encodeHdr pkt.hdr with
  | error e => simp [he] at hd
  | ok hbts =>
    have hl := encodeHdr_length pkt.hdr hbts he
    simp only [he] at hd
    simp only [Sizes.maxPayload, Sizes.maxSize] at hp
    split at hd
    · split at hd
      · injection hd with hd; subst hd; simp [hl, htag]; omega
      · injection hd with hd; subst hd; simp [hl]; omega
    · injection hd with hd; subst hd; simp [hl]; omega

/-- **Conservation.** One build removes from the queue exactly the messages it puts into the
packet: queue before = newly taken messages + queue after (as multisets), and the packet carries
the resent messages followed by the newly taken ones.  Nothing is lost. -/
theorem C09_conservation (sz : Sizes) (c c' : Conn) (t delay : Int) (ska : Bool) (pkt : Packet)
    (hb : buildPacketImpl sz c t ska delay = (c', .ok (some pkt))) :
    ∃ taken : List PMsg,
      (packAll sz c t delay).1.msgs =
        (packResend sz t delay (sortBySeq c.pendingRetryMsg) {} c.pendingRetryMsg).1.msgs ++ taken ∧
      (taken ++ c'.outgoing).Perm c.outgoing := by
  have hs := buildImpl_spec sz c c' t delay ska pkt hb
  obtain ⟨tk, h1, h2⟩ := packNew_perm sz c.outgoing
    (packResend sz t delay (sortBySeq c.pendingRetryMsg) {} c.pendingRetryMsg).1
  exact ⟨tk, h1, by rw [hs.2.2.2.1]; exact h2⟩

/-- when a build sends nothing, the queue is exactly as before (every queued message has a real
packet type — `_send_type` is only ever called with one) -/
theorem C09_idle_keeps_queue (sz : Sizes) (c c' : Conn) (t delay : Int) (ska : Bool)
    (hty : ∀ m ∈ (packAll sz c t delay).1.msgs, m.ty ≠ .unknown)
    (hb : buildPacketImpl sz c t ska delay = (c', .ok none)) : c'.outgoing = c.outgoing := by
  unfold buildPacketImpl at hb
  simp only at hb
  split at hb
  · rename_i hun
    injection hb with hb1 _
    rw [← hb1]
    show (packAll sz c t delay).2.2 = c.outgoing
    have hnil : (packAll sz c t delay).1.msgs = [] := by
      cases hm : (packAll sz c t delay).1.msgs with
      | nil => rfl
      | cons m rest =>
        have h1 : m.ty ≠ .unknown := hty m (by rw [hm]; simp)
        simp only [pktType, hm] at hun
        exact absurd hun h1
    unfold packAll at hnil ⊢
    simp only at hnil ⊢
    exact packNew_none sz c.outgoing _ (by
      rw [hnil]
      have := packNew_msgs_prefix sz c.outgoing
        (packResend sz t delay (sortBySeq c.pendingRetryMsg) {} c.pendingRetryMsg).1
      obtain ⟨tk, h⟩ := this
      rw [hnil] at h
      have : (packResend sz t delay (sortBySeq c.pendingRetryMsg) {} c.pendingRetryMsg).1.msgs = [] := by
        cases hx : (packResend sz t delay (sortBySeq c.pendingRetryMsg) {} c.pendingRetryMsg).1.msgs with
        | nil => rfl
        | cons a b => rw [hx] at h; simp at h
      exact this.symm)
  · split at hb <;> simp at hb

/-- **Messages that fit together travel in one datagram.** With nothing awaiting resend, if the
whole queue fits the capacity (payloads + per-message overhead, at most 255 messages) one build
takes every queued message, in order, and leaves the queue empty. -/
theorem C09_pack_together (sz : Sizes) (c : Conn) (t delay : Int) (hprm : c.pendingRetryMsg = [])
    (hfit : sumLen c.outgoing + overhead c.outgoing.length ≤ sz.maxPayload + 2)
    (hcnt : c.outgoing.length ≤ 255) :
    (packAll sz c t delay).1.msgs = c.outgoing ∧ (packAll sz c t delay).2.2 = [] := by
  unfold packAll
  simp only [hprm, sortBySeq, List.foldr, packResend]
  have := packNew_all sz c.outgoing {} (Pack.inv_empty sz) (by simpa using hfit) (by simpa using hcnt)
  exact ⟨by simpa using this.2, this.1⟩

/-- **Packing never fails.** With the datagram sequence counter in range, message sequence
numbers in range and an MTU below 64 KiB, `Packet.create` cannot raise in `_build_packet_impl`:
the result is always a packet or "nothing to send". -/
theorem C09_build_total (sz : Sizes) (c : Conn) (t delay : Int) (ska : Bool) (hmtu : sz.mtu ≤ 65535)
    (hseq : ∀ m ∈ (packAll sz c t delay).1.msgs, m.seq < 65536) :
    ∃ c' r, buildPacketImpl sz c t ska delay = (c', .ok r) := by
  unfold buildPacketImpl
  simp only
  split
  · exact ⟨_, _, rfl⟩
  · have hinv := packAll_inv sz c t delay
    cases hc : create (mkHdr c t (pktType c ska (packAll sz c t delay).1.msgs)
        (registerPacket { c with pendingRetryMsg := (packAll sz c t delay).2.1,
                                 outgoing := (packAll sz c t delay).2.2 } t
          (packAll sz c t delay).1.msgs).seqSending) ((packAll sz c t delay).1.msgs.map toWMsg) with
    | ok pkt => exact ⟨_, _, rfl⟩
    | error e =>
      exfalso
      -- `create` only fails on an out-of-range sequence number or payload length
      have hwf : ∀ w ∈ (packAll sz c t delay).1.msgs.map toWMsg, w.seq < 65536 ∧ w.payload.length < 65536 := by
        intro w hw
        simp only [List.mem_map] at hw
        obtain ⟨m, hm, rfl⟩ := hw
        refine ⟨hseq m hm, ?_⟩
        have := sumLen_mem_le _ m hm
        obtain ⟨h1, _, h3⟩ := hinv
        have hne : (packAll sz c t delay).1.msgs ≠ [] := by intro x; rw [x] at hm; simp at hm
        have := h3 hne
        simp only [Sizes.maxPayload, Sizes.maxSize, toWMsg] at *
        omega
      exact create_ok_of_wf _ _ hwf e hc

/-! ### non-vacuity -/

example : WfHdr ⟨true, 1000000, .app, 65535, 1, 0xFFFFFFFF, 7, 1⟩ := by unfold WfHdr; decide
example : WfMsg ⟨65535, .app, [1, 2, 3]⟩ := by unfold WfMsg; decide
example : (create ⟨false, 5, .app, 1, 0, 0, 0, 0⟩ [⟨3, .app, [9]⟩, ⟨4, .disconnect, []⟩]).toOption.map (·.msg.length)
    = some 11 := by decide

end Mpgs.Conn
