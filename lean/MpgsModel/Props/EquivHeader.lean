/-
Secondary tie (DESIGN 4.2), group Header: `PacketHeader.to_bytes`, regenerated from the source by `harness/translate.py`
(two `struct.pack` calls, the direction-dependent magic number), gives exactly the 20 bytes of the model's `encodeHdr`.
-/
import MpgsModel.Generated.Header
import MpgsModel.Model.Wire

namespace Mpgs.Equiv
open Mpgs Mpgs.Bytes Mpgs.Wire

theorem ofNat_mod256 (n : Nat) : UInt8.ofNat (n % 256) = UInt8.ofNat n := by
  apply UInt8.toNat_inj.mp
  simp

theorem beBytes1 (n : Nat) : Gen.beBytes 1 n = be8 n := by
  simp [Gen.beBytes, be8, ofNat_mod256]
theorem beBytes2 (n : Nat) (h : n < 65536) : Gen.beBytes 2 n = be16 n := by
  have : n / 256 % 256 = n / 256 := by omega
  simp [Gen.beBytes, be16, ofNat_mod256, this]
theorem beBytes4 (n : Nat) (h : n < 4294967296) : Gen.beBytes 4 n = be32 n := by
  have : n / 16777216 % 256 = n / 16777216 := by omega
  simp [Gen.beBytes, be32, ofNat_mod256, this]

theorem packB (n : Nat) : Gen.packField 'B' n = if n < 256 then .ok (be8 n) else .error .structError := by
  by_cases h : n < 256
  · have : (n : Int) < 256 := by omega
    simp [Gen.packField, h, this, beBytes1]
  · have : ¬ (n : Int) < 256 := by omega
    simp [Gen.packField, h, this]
theorem packH (n : Nat) : Gen.packField 'H' n = if n < 65536 then .ok (be16 n) else .error .structError := by
  by_cases h : n < 65536
  · have : (n : Int) < 65536 := by omega
    simp [Gen.packField, h, this, beBytes2 n h]
  · have : ¬ (n : Int) < 65536 := by omega
    simp [Gen.packField, h, this]
theorem packL (n : Nat) : Gen.packField 'L' n = if n < 4294967296 then .ok (be32 n) else .error .structError := by
  by_cases h : n < 4294967296
  · have : (n : Int) < 4294967296 := by omega
    simp [Gen.packField, h, this, beBytes4 n h]
  · have : ¬ (n : Int) < 4294967296 := by omega
    simp [Gen.packField, h, this]

/-- `struct.error` is the model's `structError` -/
def liftH {α : Type} : Except Gen.Err α → Except Wire.Err α
  | .ok v => .ok v
  | .error _ => .error .structError

/-- `PacketHeader.to_bytes`, regenerated from the source, gives the 20 bytes of the model's `encodeHdr` - in particular the same
    first 12, the AES-GCM nonce - and raises `struct.error` for exactly the headers the model refuses -/
theorem gen_header_to_bytes (h : Header) :
    liftH (Gen.PacketHeader_to_bytes h.isServer h.ctime h.seq h.ack h.ptype.toNat h.length h.count h.ackBits) = encodeHdr h := by
  have hp : h.ptype.toNat < 256 := by cases h.ptype <;> decide
  rw [Gen.PacketHeader_to_bytes]
  unfold encodeHdr
  simp only [packB, packH, packL, Gen.packS, Gen.packAll, hp, if_true]
  cases hs : h.isServer <;>
  (by_cases h1 : h.ctime < 4294967296
   · by_cases h2 : h.seq < 65536
     · by_cases h3 : h.ack < 65536
       · by_cases h4 : h.length < 65536
         · by_cases h5 : h.count < 256
           · by_cases h6 : h.ackBits < 4294967296
             · simp [h1, h2, h3, h4, h5, h6, Gen.packAll, liftH, magicToClient, magicToServer]
             · simp [h1, h2, h3, h4, h5, h6, Gen.packAll, liftH]
           · simp [h1, h2, h3, h4, h5, Gen.packAll, liftH]
         · simp [h1, h2, h3, h4, Gen.packAll, liftH]
       · simp [h1, h2, h3, Gen.packAll, liftH]
     · simp [h1, h2, Gen.packAll, liftH]
   · simp [h1, Gen.packAll, liftH])

end Mpgs.Equiv

namespace Mpgs.Equiv
open Mpgs Mpgs.Bytes Mpgs.Wire

/-- `Packet.total_size(key)`: header + plaintext + 16-byte tag exactly when a (non-empty) key is given and the packet is not a
    SERVER_HELLO, header + plaintext + 4-byte CRC otherwise - the decision `to_bytes` makes -/
theorem gen_total_size (key : Option Bytes) (p : Packet) :
    Gen.Packet_total_size (keyed key).isSome p.hdr.ptype.toNat p.msg.length = .ok (totalSize key p : Int) := by
  unfold Gen.Packet_total_size totalSize
  cases hk : keyed key <;> cases hp : p.hdr.ptype <;> simp [PType.toNat] <;> omega

end Mpgs.Equiv

namespace Mpgs.Equiv
open Mpgs Mpgs.Bytes Mpgs.Wire

/-- the condition under which `Packet.to_bytes` seals (cut out of the source: the test of the `if` whose body calls
    `crypto.encrypt_gcm`) is the one the model's `toBytes` branches on: a non-empty key and any type but SERVER_HELLO -/
theorem gen_to_bytes_seals (key : Option Bytes) (p : Packet) :
    Gen.Packet_to_bytes_seals (keyed key).isSome p.hdr.ptype.toNat =
      .ok ((keyed key).isSome && (p.hdr.ptype != .serverHello)) := by
  unfold Gen.Packet_to_bytes_seals
  cases hk : keyed key <;> cases hp : p.hdr.ptype <;> simp [PType.toNat]

/-- the condition under which `Packet.from_bytes` demands that the datagram opens under the key (the test of the `if` whose body
    calls `crypto.decrypt_gcm`) is "a non-empty key is set" and nothing else: it does not depend on the packet type, as in the
    model's `openBody` - no type bypasses authentication -/
theorem gen_from_bytes_opens (key : Option Bytes) (ty : Int) :
    Gen.Packet_from_bytes_opens (keyed key).isSome ty = .ok (keyed key).isSome := by
  unfold Gen.Packet_from_bytes_opens
  cases keyed key <;> rfl

end Mpgs.Equiv
