import MpgsModel.Props.C01
import MpgsModel.Lemmas.Lifecycle
/-!
# C01 at the server loop

Which object a datagram is handed to is decided by the loop.  A datagram from an address that has a
half-open connection, and that does not decode under that connection's key (for a keyed
connection: AES-GCM does not open it - `C01_keyed_decode_needs_open`), does not replace, re-key or
otherwise alter that connection: same identity, same key, same token, same status - at most its
`dropped` counter moves - no event, no change to the connected pool.  A complete CRC-valid
CLIENT_HELLO forged in the name of a connecting client is such a datagram.
-/
namespace Mpgs.Server
open Mpgs.Bytes Mpgs.Wire Mpgs.Conn

theorem C01_loop_halfopen_untouched (sz : Sizes) (C : Crypto) (s : Srv) (t : Int) (it : Item) (acts : List HAct)
    (e : Ent) (err : Wire.Err) (hc : pget s.conns it.addr = none) (ht : pget s.temps it.addr = some e)
    (hf : fromBytes C it.hdr e.conn.key it.d = .error err) :
    (pget (handleItem sz C s t it acts).1.temps it.addr = some e ∨
     pget (handleItem sz C s t it acts).1.temps it.addr = some { e with conn := { e.conn with dropped := e.conn.dropped + 1 } }) ∧
    (handleItem sz C s t it acts).1.conns = s.conns ∧ (handleItem sz C s t it acts).2.2 = [] ∧
    (handleItem sz C s t it acts).2.1 = acts := by
  unfold handleItem
  simp only [hc, ht]
  by_cases hty : it.hdr.ptype ≠ .challengeResp
  · rw [if_pos hty]
    exact ⟨Or.inl ht, rfl, rfl, rfl⟩
  · rw [if_neg hty]
    have hd := C01_undecodable_noop C (serverRoleOn it.H (tokFor s it) (some e.conn.token) (fun c => actOn sz c (nextAct acts).1))
      e.conn t it.hdr it.d err hf
    rw [hd]
    have hnp : ((drop1 e.conn).2.1.contains Event.promoted) = false := by simp [drop1]
    rw [if_neg (by rw [hnp]; decide)]
    exact ⟨Or.inr (lc_pget_pset_self _ _ _), rfl, rfl, rfl⟩

end Mpgs.Server
