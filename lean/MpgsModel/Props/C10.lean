import MpgsModel.Model.Server
import MpgsModel.Props.C02
import MpgsModel.Lemmas.RoleOn
/-!
# C10 — Server handler lifecycle: connect once, then messages, then disconnect once

Statements about the model of `ServerContext` and of one iteration of `UdpServerThread.run`
(`Model/Server.lean`), for every pool content, datagram, handler behaviour and random stream.
-/
namespace Mpgs.Server
open Mpgs.Bytes Mpgs.Wire Mpgs.Conn

/-- **Tokens.** For every stream of random draws: if `get_token` returns, the token is not the
token of any connection in either pool, is non-zero, below 2³¹ and has bit 30 set. -/
theorem C10_tokens_distinct (s : Srv) (draws : List Nat) (tok : Nat) (h : getToken s draws = some tok) :
    inUse s tok = false ∧ tok ≠ 0 ∧ tok < 2147483648 ∧ tok.testBit 30 = true := by
  induction draws with
  | nil => simp [getToken] at h
  | cons d ds ih =>
    simp only [getToken] at h
    split at h
    · exact ih h
    · rename_i hn
      injection h with h
      subst h
      have h1 : ¬ (maskTok d = 0) := fun x => hn (Or.inl x)
      have h2 : inUse s (maskTok d) = false := by
        cases hu : inUse s (maskTok d) with
        | false => rfl
        | true => exact absurd (Or.inr hu) hn
      refine ⟨h2, h1, ?_, ?_⟩
      · unfold maskTok
        have : d % 2147483648 < 2 ^ 31 := Nat.mod_lt _ (by decide)
        exact Nat.or_lt_two_pow (n := 31) this (by decide)
      · unfold maskTok
        rw [Nat.testBit_or]
        have : (1073741824 : Nat).testBit 30 = true := by decide
        simp [this]

/-- the token a new connection is given differs from the token of every connection in the pools:
simultaneously connected clients carry distinct tokens (as long as the random source eventually
yields a free value — otherwise `get_token` does not return) -/
theorem C10_new_token_fresh (s : Srv) (draws : List Nat) (tok : Nat) (h : getToken s draws = some tok) :
    (∀ p ∈ s.conns, p.2.conn.token ≠ tok) ∧ (∀ p ∈ s.temps, p.2.conn.token ≠ tok) := by
  have hu := (C10_tokens_distinct s draws tok h).1
  unfold inUse at hu
  simp only [Bool.or_eq_false_iff, List.any_eq_false, beq_iff_eq] at hu
  exact ⟨fun p hp => hu.1 p hp, fun p hp => hu.2 p hp⟩

/-! ### which events a queued datagram can produce -/

theorem dispatchMsgs_events (sz : Sizes) (id : Nat) (msgs : List (Nat × Bytes)) (c : Conn) (acts : List HAct) :
    ∀ e ∈ (dispatchMsgs sz id c msgs acts).2.2,
      (∃ sq p, e = SEvent.message id sq p ∧ (sq, p) ∈ msgs) ∨ (∃ w, e = SEvent.contained w) := by
  induction msgs generalizing c acts with
  | nil => intro e he; simp [dispatchMsgs] at he
  | cons m msgs ih =>
    obtain ⟨sq, p⟩ := m
    intro e he
    simp only [dispatchMsgs, List.cons_append, List.mem_cons, List.mem_append] at he
    rcases he with he | he | he
    · exact Or.inl ⟨sq, p, he, by simp⟩
    · split at he
      · simp only [List.mem_singleton] at he; exact Or.inr ⟨_, he⟩
      · simp at he
    · rcases ih _ _ e he with ⟨sq', p', h1, h2⟩ | h
      · exact Or.inl ⟨sq', p', h1, by simp [h2]⟩
      · exact Or.inr h

/-- **Messages only for connected clients; connect only on promotion.** Handling one queued
datagram produces `message` events only when its address is in the connected pool — and then only
with that entry's identity — and a `connect` event only when the address is in the temp pool, the
header is typed CHALLENGE_RESP and `_recv_datagram` on that entry called `_onConnect` (C02: the
datagram opened under the entry's key and carries its token); it never produces `disconnect`. -/
theorem C10_item_events (sz : Sizes) (C : Crypto) (s : Srv) (t : Int) (it : Item) (acts : List HAct) :
    ∀ e ∈ (handleItem sz C s t it acts).2.2,
      (∃ ent sq p, pget s.conns it.addr = some ent ∧ e = SEvent.message ent.id sq p) ∨
      (∃ ent tok, pget s.conns it.addr = none ∧ pget s.temps it.addr = some ent ∧ it.hdr.ptype = .challengeResp ∧
          e = SEvent.connect ent.id it.addr tok ∧
          Event.promoted ∈ (recvDatagram C (serverRole it.H (tokFor s it) (some ent.conn.token)) ent.conn t it.hdr it.d).2.1) ∨
      (∃ w, e = SEvent.contained w) := by
  intro e he
  unfold handleItem at he
  cases hc : pget s.conns it.addr with
  | some ent =>
    simp only [hc] at he
    split at he
    · simp only [List.mem_singleton] at he; exact Or.inr (Or.inr ⟨_, he⟩)
    · rcases dispatchMsgs_events sz ent.id _ _ _ e he with ⟨sq, p, h1, _⟩ | h
      · exact Or.inl ⟨ent, sq, p, rfl, h1⟩
      · exact Or.inr (Or.inr h)
  | none =>
    simp only [hc] at he
    cases ht : pget s.temps it.addr with
    | some ent =>
      simp only [ht] at he
      split at he
      · simp at he
      · rename_i hty
        have hty' : it.hdr.ptype = .challengeResp := by
          apply Classical.byContradiction; intro x; exact hty x
        split at he
        · rename_i hprom
          have hp : Event.promoted ∈ (recvDatagram C (serverRole it.H (tokFor s it) (some ent.conn.token)) ent.conn t it.hdr it.d).2.1 :=
            recvDatagram_roleOn C it.H _ _ _ _ t _ _ (by simpa using hprom)
          have key : ∀ (x : Nat) (e' : SEvent), e' ∈ [SEvent.connect ent.id it.addr x] ++
              (if (nextAct acts).1.raises = true then [SEvent.contained "connect"] else []) →
              (∃ tok, e' = SEvent.connect ent.id it.addr tok) ∨ ∃ w, e' = SEvent.contained w := by
            intro x e' he'
            simp only [List.cons_append, List.nil_append, List.mem_cons] at he'
            rcases he' with h | h
            · exact Or.inl ⟨_, h⟩
            · split at h
              · simp only [List.mem_singleton] at h; exact Or.inr ⟨_, h⟩
              · simp at h
          split at he
          · rw [List.mem_append] at he
            rcases he with he | he
            · rcases key _ e he with ⟨tok, h⟩ | h
              · exact Or.inr (Or.inl ⟨ent, tok, rfl, rfl, hty', h, hp⟩)
              · exact Or.inr (Or.inr h)
            · simp only [List.mem_singleton] at he; exact Or.inr (Or.inr ⟨_, he⟩)
          · rcases key _ e he with ⟨tok, h⟩ | h
            · exact Or.inr (Or.inl ⟨ent, tok, rfl, rfl, hty', h, hp⟩)
            · exact Or.inr (Or.inr h)
        · split at he
          · simp only [List.mem_singleton] at he; exact Or.inr (Or.inr ⟨_, he⟩)
          · simp at he
    | none =>
      simp only [ht] at he
      split at he
      · simp at he
      · split at he
        · simp only [List.mem_singleton] at he; exact Or.inr (Or.inr ⟨_, he⟩)
        · simp at he

/-- shutdown: every client still in the connected pool gets exactly one `disconnect`, in pool
order, whatever the handler does, and `shutdown` is the last event -/
theorem C10_shutdown_disconnects_all (pool : Pool) (acts : List HAct) :
    (shutdownSweep pool acts).filterMap (fun e => match e with | .disconnect id => some id | _ => none)
      = pool.map (·.2.id) ∧
    ∃ pre, shutdownSweep pool acts = pre ++ [.shutdown] := by
  induction pool generalizing acts with
  | nil => exact ⟨by simp [shutdownSweep], [], by simp [shutdownSweep]⟩
  | cons x pool ih =>
    obtain ⟨a, e⟩ := x
    obtain ⟨h1, pre, h2⟩ := ih (nextAct acts).2
    simp only [shutdownSweep, List.cons_append, List.nil_append, List.filterMap_cons, List.map_cons]
    constructor
    · rw [List.filterMap_append]
      have h0 : List.filterMap (fun e => match e with | SEvent.disconnect id => some id | _ => none)
          (if (nextAct acts).1.raises = true then [SEvent.contained "disconnect"] else []) = [] := by
        split <;> simp
      rw [h0, List.nil_append, h1]
    · rw [h2]
      exact ⟨SEvent.disconnect e.id :: ((if (nextAct acts).1.raises = true then [SEvent.contained "disconnect"] else []) ++ pre),
        by simp [List.append_assoc]⟩

/-! ### non-vacuity -/

example : getToken {} [0, 5] = some 1073741824 := by decide
example : (shutdownSweep [((1, 2), ⟨7, { isServer := true }⟩)] [.raise]).length = 3 := by decide

end Mpgs.Server
