import MpgsModel.Lemmas.WebSocketStream
import MpgsModel.Lemmas.WebSocketSegment
import MpgsModel.Lemmas.WebSocketUtf8
/-!
# C18 — WebSocket frames round-trip per RFC 6455; TCP segmentation is harmless

Property theorems only (helper lemmas live in `Lemmas/WebSocket.lean`, `Lemmas/WebSocketStream.lean`).
The model is `Mpgs.WebSocket` (`Model/WebSocket.lean`, the *repaired* code).

* `Rfc.encode` is the independent RFC 6455 §5.2 layout (arithmetic, no code shared with the library
  model); `Frame` is an RFC frame (`mask = some key` for a masked frame, `payload` = application data).
* `LibFrame` is a `WebSocketFrame` object, `writeFrame` / `readFrame` are `writeFrameFactory` /
  `readFrameFactory`, `Handler.feed h chunks` is the sequence of `Channel.dataReceived` calls.
* opcodes: the members of `WebSocketOpCode` that are wire opcodes (`isWire`: Close, Ping, Pong, Text,
  Binary).  `Open = 0xFF` is the library's pseudo opcode for the connect event, does not fit the 4-bit
  field and is outside every RFC statement (see `C18_open_not_wire`).
* lengths are unbounded `Nat`s, payloads arbitrary byte lists: the boundaries 125/126/127 and
  65535/65536 are instances (`C18_boundaries`).
-/
namespace Mpgs.WebSocket

/-! ## frames built by the library are RFC 6455 frames -/

/-- Every frame the static constructors build (fin = 1, no mask, `payload_length = len(payload)`),
for every wire opcode of the enum and every payload of any length below 2^63, is written by
`writeFrame` without error as exactly the octets RFC 6455 prescribes. -/
theorem C18_server_frames_rfc (op : OpCode) (payload : Buf) (hw : op.isWire = true)
    (hn : payload.length < 2 ^ 63) :
    (writeFrame (.build op payload)).2 = none ∧
    (writeFrame (.build op payload)).1.flatten =
      Rfc.encode { fin := true, rsv1 := false, rsv2 := false, rsv3 := false, opcode := op,
                   mask := none, payload := payload } := by
  have h := writeFrame_rfc (.build op payload) ⟨0, 0, 0, 0⟩ hw rfl
    (Nat.lt_trans hn (by decide)) (by simp [LibFrame.build])
  simpa [LibFrame.toSpec, LibFrame.build] using h

example : (OpCode.text).isWire = true ∧ ([0x68, 0x69] : Buf).length < 2 ^ 63 := by decide

/-- The same for an arbitrary frame object — any fin/rsv flags, any wire opcode, mask flag clear or
set (then with any 4-byte key, the `payload` attribute holding the octets as they travel): the
writer emits the RFC encoding of the frame the object stands for (`toSpec`: application data =
unmasking of the travelling octets). -/
theorem C18_lib_frames_rfc (lf : LibFrame) (k : Key) (hw : lf.opcode.isWire = true)
    (hl : lf.payloadLength = lf.payload.length) (hn : lf.payload.length < 2 ^ 63)
    (hk : lf.mask = true → lf.maskingKey = k.toList) :
    (writeFrame lf).2 = none ∧ (writeFrame lf).1.flatten = Rfc.encode (lf.toSpec k) :=
  writeFrame_rfc lf k hw hl (Nat.lt_trans hn (by decide)) hk

example : let lf : LibFrame := { LibFrame.build .binary [1, 2, 3] with mask := true, maskingKey := [9, 8, 7, 6] }
    lf.opcode.isWire = true ∧ lf.payloadLength = lf.payload.length ∧ lf.payload.length < 2 ^ 63 ∧
    (lf.mask = true → lf.maskingKey = (⟨9, 8, 7, 6⟩ : Key).toList) := by decide

/-- `WebSocketFrame.Close(status, message)`: for every 16-bit status the frame is the RFC Close
frame whose body is the status in network byte order followed by the message; a status that does
not fit 16 bits raises `struct.error`. -/
theorem C18_close_frame_rfc (status : Nat) (message : Buf) (hm : message.length + 2 < 2 ^ 63) :
    (status < 65536 →
      ∃ lf, LibFrame.Close status message = .ok lf ∧ (writeFrame lf).2 = none ∧
        (writeFrame lf).1.flatten =
          Rfc.encode { fin := true, rsv1 := false, rsv2 := false, rsv3 := false, opcode := .close,
                       mask := none,
                       payload := UInt8.ofNat (status / 256) :: UInt8.ofNat (status % 256) :: message }) ∧
    (65536 ≤ status → LibFrame.Close status message = .error .structError) := by
  constructor
  · intro hs
    refine ⟨.build .close (UInt8.ofNat (status / 256) :: UInt8.ofNat (status % 256) :: message),
      by simp [LibFrame.Close, packH_eq status hs], ?_⟩
    exact C18_server_frames_rfc .close _ rfl (by simpa using hm)
  · intro hs
    have : ¬ status < 65536 := by omega
    simp [LibFrame.Close, packH, this]

/-- error branch of the writer: a `payload_length` attribute that does not fit 64 bits makes
`writeDataHeader` raise `struct.error` after the two header bytes have already been sent. -/
theorem C18_write_too_long (lf : LibFrame) (hw : lf.opcode.isWire = true)
    (h : 2 ^ 64 ≤ lf.payloadLength) : ∃ hdr, writeFrame lf = ([hdr], some .structError) :=
  writeFrame_too_long lf hw h

/-- The encoded length field at and around every boundary of the three length forms, for every
wire opcode and every payload of that length. -/
theorem C18_boundaries (op : OpCode) (p : Buf) (hw : op.isWire = true) :
    let b0 := UInt8.ofNat (128 + op.value)
    let wire := (writeFrame (.build op p)).1.flatten
    (p.length = 125 → wire = [b0, 125] ++ p) ∧
    (p.length = 126 → wire = [b0, 126, 0, 126] ++ p) ∧
    (p.length = 127 → wire = [b0, 126, 0, 127] ++ p) ∧
    (p.length = 65535 → wire = [b0, 126, 0xFF, 0xFF] ++ p) ∧
    (p.length = 65536 → wire = [b0, 127, 0, 0, 0, 0, 0, 1, 0, 0] ++ p) := by
  intro b0 wire
  have key : ∀ n, p.length = n → n < 2 ^ 63 → wire =
      Rfc.encode { fin := true, rsv1 := false, rsv2 := false, rsv3 := false, opcode := op,
                   mask := none, payload := p } :=
    fun n h1 h2 => (C18_server_frames_rfc op p hw (h1 ▸ h2)).2
  refine ⟨?_, ?_, ?_, ?_, ?_⟩ <;> intro h <;> rw [key _ h (by decide)] <;>
    simp [Rfc.encode, Rfc.byte0, Rfc.byte1, Rfc.lenCode, Rfc.extLen, h, b2n, b0] <;> rfl

/-- `Open` is not a wire opcode: its value does not fit the 4-bit field (the library only uses it
to announce the connection to the endpoint). -/
theorem C18_open_not_wire : OpCode.open_.value = 0xFF ∧ ¬ OpCode.open_.value < 16 ∧
    ∀ op : OpCode, op.isWire = true ↔ op.value < 16 := by
  refine ⟨rfl, by decide, ?_⟩
  intro op; cases op <;> decide

/-! ## parsing -/

/-- XOR masking with the 4-byte key (§5.3) is an involution, from any starting offset, for any
payload (induction on the payload). -/
theorem C18_mask_involution (k : Key) (i : Nat) (p : Buf) : Rfc.mask k i (Rfc.mask k i p) = p :=
  mask_involution k p i

/-- For every RFC frame — any fin/rsv flags, any wire opcode, masked with any key or unmasked, any
payload below 2^63 bytes — followed by arbitrary further bytes, the library reader returns exactly
that frame with the payload unmasked (`ofSpec f`: same flags, opcode, mask flag, key, length and
application data) and leaves exactly the further bytes in the buffer. -/
theorem C18_parse_rfc (f : Frame) (rest : Buf) (hw : f.opcode.isWire = true)
    (hn : f.payload.length < 2 ^ 63) :
    readFrame (Rfc.encode f ++ rest) = (rest, .ok (LibFrame.ofSpec f)) ∧
    (LibFrame.ofSpec f).payload = f.payload ∧ (LibFrame.ofSpec f).payloadLength = f.payload.length :=
  ⟨readFrame_encode f hw (Nat.lt_trans hn (by decide)) rest, rfl, rfl⟩

example : let f : Frame := ⟨true, false, true, false, .ping, some ⟨1, 2, 3, 4⟩, [5, 6, 7]⟩
    f.opcode.isWire = true ∧ f.payload.length < 2 ^ 63 := by decide

/-- A frame built by the library parses back to the same frame: writing any constructor-built frame
and reading the bytes back yields the same object (the parser additionally records the 7-bit
length code in `flags.length`, which the constructors leave 0), whatever follows in the buffer. -/
theorem C18_roundtrip (op : OpCode) (payload rest : Buf) (hw : op.isWire = true)
    (hn : payload.length < 2 ^ 63) :
    readFrame ((writeFrame (.build op payload)).1.flatten ++ rest) =
      (rest, .ok { LibFrame.build op payload with length7 := Rfc.lenCode payload.length }) := by
  rw [(C18_server_frames_rfc op payload hw hn).2]
  exact (C18_parse_rfc _ rest hw hn).1

example : readFrame ((writeFrame (.build .ping [1, 2, 3])).1.flatten ++ [9, 9]) =
    ([9, 9], .ok { LibFrame.build .ping [1, 2, 3] with length7 := 3 }) := by rfl

/-- … and for frame objects with the mask flag set: what is read back is the frame the object
stands for, payload unmasked. -/
theorem C18_roundtrip_masked (lf : LibFrame) (k : Key) (rest : Buf) (hw : lf.opcode.isWire = true)
    (hl : lf.payloadLength = lf.payload.length) (hn : lf.payload.length < 2 ^ 63)
    (hk : lf.mask = true → lf.maskingKey = k.toList) :
    readFrame ((writeFrame lf).1.flatten ++ rest) = (rest, .ok (LibFrame.ofSpec (lf.toSpec k))) := by
  rw [(C18_lib_frames_rfc lf k hw hl hn hk).2]
  exact (C18_parse_rfc _ rest hw (by rw [toSpec_payload_length]; exact hn)).1

/-- error branches of the reader: an empty buffer raises `ValueError`, a single byte
`struct.error`, an opcode nibble outside the enum `ValueError` after the two header bytes were
consumed. -/
theorem C18_parse_errors :
    readFrame [] = ([], .error .valueError) ∧
    (∀ a, readFrame [a] = ([], .error .structError)) ∧
    (∀ a b t, OpCode.ofValue ((a.toNat &&& 0x0F) >>> 0) = .error .valueError →
        readFrame (a :: b :: t) = (t, .error .valueError)) := by
  refine ⟨rfl, fun a => rfl, ?_⟩
  intro a b t h
  have h' : OpCode.ofValue (a.toNat &&& 15) = .error .valueError := by simpa using h
  simp [readFrame, readHeader, recv, parseHeader, h']

/-! ## TCP segmentation -/

/-- **Segmentation is harmless.**  For every list `fs` of client frames and every way of cutting
the concatenation of their RFC encodings into reads `chunks` (any number of reads, any sizes —
frames split across reads, many frames in one read, even empty reads), feeding the reads to the
handler raises nothing, produces exactly the events `expected false fs` (one delivery per frame,
in order, unmasked; the first Close answered with a Close frame) and leaves the buffer empty. -/
theorem C18_stream (fs : List Frame) (chunks : List Buf) (hcf : ∀ f ∈ fs, ClientFrame f = true)
    (hcut : chunks.flatten = flat fs) :
    Handler.init.feed chunks = (⟨[], closedAfter false fs⟩, expected false fs, none) := by
  obtain ⟨done, todo, rest', e1, e2, e3, e4, _⟩ :=
    feed_prefix chunks fs Handler.init [] hcf rfl (by simpa [Handler.init] using hcut)
  have htodo : todo = [] := by
    cases todo with
    | nil => rfl
    | cons g gs =>
      have hg : ClientFrame g = true := hcf g (by rw [e1]; simp)
      have hn : g.payload.length < 2 ^ 64 := by
        simp only [ClientFrame, Bool.and_eq_true, decide_eq_true_eq] at hg
        exact hg.1.2
      rw [List.append_nil, flat_cons] at e3
      rw [e3, hasFrame_encode g hn] at e4
      cases e4
  subst htodo
  simp only [List.append_nil, flat, List.map_nil, List.flatten_nil] at e3 e1
  subst e3 e1
  exact e2

/-- The endpoint's view of `C18_stream`: the callback is invoked with exactly the `(opcode, payload)`
pairs of the frames — each once, in order, payload unmasked — for every chunking. -/
theorem C18_stream_deliveries (fs : List Frame) (chunks : List Buf)
    (hcf : ∀ f ∈ fs, ClientFrame f = true) (hcut : chunks.flatten = flat fs) :
    deliveries (Handler.init.feed chunks).2.1 = fs.map (fun f => (f.opcode, f.payload)) ∧
    (Handler.init.feed chunks).2.2 = none := by
  rw [C18_stream fs chunks hcf hcut]
  exact ⟨deliveries_expected fs false, rfl⟩

example : let fs : List Frame := [⟨true, false, false, false, .text, some ⟨1, 2, 3, 4⟩, [0x68, 0xC3, 0xA9]⟩,
                                  ⟨true, false, false, false, .close, some ⟨0, 0, 0, 0⟩, [3, 232]⟩]
    (∀ f ∈ fs, ClientFrame f = true) ∧
    ([[0x81], [0x83, 1, 2, 3, 4, 0x69, 0xC1], [0xAA, 0x88, 0x82, 0, 0], [0, 0, 3, 232]] : List Buf).flatten = flat fs := by
  decide

/-- The invariant behind it, at every moment of the connection: after any reads `chunks` that
together hold a prefix of the stream (`future` = what the client has sent but TCP has not yet
delivered), the frames are split as `done ++ todo` where the endpoint has received exactly `done`
— the frames lying completely inside the bytes received — nothing of `todo`, the ring buffer is
the unconsumed remainder `rest'` of the received bytes and contains no complete frame. -/
theorem C18_stream_prefix (fs : List Frame) (chunks : List Buf) (future : Buf)
    (hcf : ∀ f ∈ fs, ClientFrame f = true) (hcut : chunks.flatten ++ future = flat fs) :
    ∃ done todo rest', fs = done ++ todo ∧
      Handler.init.feed chunks = (⟨rest', closedAfter false done⟩, expected false done, none) ∧
      deliveries (expected false done) = done.map (fun f => (f.opcode, f.payload)) ∧
      chunks.flatten = flat done ++ rest' ∧ rest' ++ future = flat todo ∧ hasFrame rest' = false := by
  obtain ⟨done, todo, rest', e1, e2, e3, e4, e5⟩ :=
    feed_prefix chunks fs Handler.init future hcf rfl (by simpa [Handler.init] using hcut)
  exact ⟨done, todo, rest', e1, e2, deliveries_expected done false, by simpa [Handler.init] using e5, e3, e4⟩

/-- **Segmentation is harmless for arbitrary bytes.**  Not only for canonical RFC encodings: for
*every* byte string (non-minimal length forms, fin = 0, reserved bits, Close in the middle, garbage
the reader happens to accept, …) on which handling it in one read raises no exception, *every*
way of cutting it into reads — from any handler state whose buffer holds no complete frame, e.g.
the initial one — gives the same final state and the same events in the same order as the single
read. -/
theorem C18_segmentation_invariant (h : Handler) (chunks : List Buf) (hf : hasFrame h.buf = false)
    (hok : (h.call chunks.flatten).2.2 = none) : h.feed chunks = h.call chunks.flatten :=
  feed_eq_call chunks h hf hok

/-- Hence any two segmentations of the same bytes are indistinguishable to the endpoint. -/
theorem C18_chunkings_agree (cs1 cs2 : List Buf) (he : cs1.flatten = cs2.flatten)
    (hok : (Handler.init.call cs1.flatten).2.2 = none) :
    Handler.init.feed cs1 = Handler.init.feed cs2 :=
  feed_chunkings_agree cs1 cs2 Handler.init rfl he hok

/-- the hypothesis of the two theorems above is met by every stream of client frames -/
theorem C18_client_stream_no_error (fs : List Frame) (hcf : ∀ f ∈ fs, ClientFrame f = true) :
    (Handler.init.call (flat fs)).2.2 = none := by
  have h := C18_stream fs [flat fs] hcf (by simp)
  simp only [Handler.feed] at h
  rcases hc : Handler.init.call (flat fs) with ⟨h', evs, e⟩
  rw [hc] at h
  cases e with
  | none => rfl
  | some e => simp at h

/-- The parse of a complete frame is local: whatever follows it in the buffer (the next frames,
half of the next frame, nothing) changes neither the frame returned nor the bytes consumed. -/
theorem C18_parse_local (buf more : Buf) (h : hasFrame buf = true) :
    readFrame (buf ++ more) = ((readFrame buf).1 ++ more, (readFrame buf).2) :=
  readFrame_append buf more h

/-- `send(text)` writes exactly the RFC encoding of an unmasked final Text frame carrying the
UTF-8 bytes, for every text shorter than 2^63 bytes, and leaves the handler unchanged; the reply
`close()` writes is the RFC encoding of a Close frame (status 200, "OK"). -/
theorem C18_send_rfc (h : Handler) (msg : Buf) (hn : msg.length < 2 ^ 63) :
    (h.send msg).1 = h ∧ (h.send msg).2.2 = none ∧
    written (h.send msg).2.1 =
      Rfc.encode { fin := true, rsv1 := false, rsv2 := false, rsv3 := false, opcode := .text,
                   mask := none, payload := msg } ∧
    written closeWrites =
      Rfc.encode { fin := true, rsv1 := false, rsv2 := false, rsv3 := false, opcode := .close,
                   mask := none, payload := [0x00, 0xC8, 0x4F, 0x4B] } := by
  obtain ⟨h1, h2⟩ := C18_server_frames_rfc .text msg rfl hn
  refine ⟨rfl, h1, ?_, by decide⟩
  simp only [Handler.send, LibFrame.Text, written_map_wrote, h2]

/-- `hasFrame()` transcribed statement by statement from the Python (length tests, `buf[1]`,
slices, `struct.unpack`) never raises and computes exactly the pattern-matching predicate
`hasFrame` that the loop model and all theorems above use. -/
theorem C18_hasFrame_literal (buf : Buf) : hasFrameLit buf = .ok (hasFrame buf) :=
  hasFrame_literal buf

/-- error branches of the handler loop: a complete frame without the mask bit raises `Exception`,
a Text frame whose payload is not UTF-8 raises `UnicodeDecodeError`; in both cases the frame is
consumed and nothing is delivered. -/
theorem C18_handler_rejects (f : Frame) (rest : Buf) (c : Bool) (hw : f.opcode.isWire = true)
    (hn : f.payload.length < 2 ^ 63) :
    (f.mask = none →
      Handler.stepFrame ⟨Rfc.encode f ++ rest, c⟩ = (⟨rest, c⟩, [], some .exception)) ∧
    (f.mask.isSome = true → f.opcode = .text → validUtf8 f.payload = false →
      Handler.stepFrame ⟨Rfc.encode f ++ rest, c⟩ = (⟨rest, c⟩, [], some .unicodeError)) := by
  have hr := readFrame_encode f hw (Nat.lt_trans hn (by decide)) rest
  constructor
  · intro hm
    simp [Handler.stepFrame, hr, LibFrame.ofSpec, hm]
  · intro hm ht hv
    simp [Handler.stepFrame, hr, LibFrame.ofSpec, hm, ht, hv]

/-- The validity check that stands for `payload.decode("utf-8")` is exact: a byte string passes iff
it is the UTF-8 encoding of a sequence of Unicode scalar values (`Char`), by Lean core's own
arithmetic encoder.  So the "Text payloads are valid UTF-8" clause of `ClientFrame` admits every
text and nothing else. -/
theorem C18_utf8_exact (b : Buf) :
    validUtf8 b = true ↔ ∃ cs : List Char, b = cs.flatMap String.utf8EncodeChar := by
  constructor
  · exact validUtf8_decode b.length b rfl
  · rintro ⟨cs, rfl⟩; exact validUtf8_encode cs

example : validUtf8 [0xC0, 0xAF] = false ∧ validUtf8 [0xED, 0xA0, 0x80] = false ∧
    validUtf8 [0xF0, 0x9F, 0x98, 0x80] = true := by decide

end Mpgs.WebSocket
