import MpgsModel.Props.C10Kick
import MpgsModel.Lemmas.Unverified
/-!
# C10 - a client that is due is dropped by the sweep of that very iteration

"Due" = its connection is DISCONNECTED (the handler or the peer closed it: DISCONNECTING becomes
DISCONNECTED at the sweep) or nothing authentic has arrived from it for `connection_timeout`
(`timedOut`: sweep clock - `last_recv_time` >= timeout).  The sweep removes it from the connected
pool and reports it with a `disconnect` event - whatever else is in the pool, whatever the other
clients' handlers do.  Formal counterpart of the monitor `silent-client-not-disconnected`.
-/
namespace Mpgs.Server
open Mpgs.Bytes Mpgs.Wire Mpgs.Conn

/-- the connection the sweep looks at: DISCONNECTING is closed first -/
def sweepView (c : Conn) : Conn := if c.status = .disconnecting then Conn.disconnect c none else c

def Due (cfg : SCfg) (t : Int) (c : Conn) : Prop :=
  (sweepView c).status = .disconnected ∨ timedOut (sweepView c) t cfg.connTimeout = true

/-- nothing authentic for `connection_timeout`: due, whatever the status -/
theorem due_of_silence (cfg : SCfg) (t : Int) (c : Conn) (h : t - c.lastRecv ≥ cfg.connTimeout) : Due cfg t c := by
  unfold Due sweepView
  by_cases hd : c.status = .disconnecting
  · left; rw [if_pos hd]; exact disconnect_status _ _
  · right; rw [if_neg hd]; simp [timedOut, h]

/-- closed by the handler or by the peer: due -/
theorem due_of_closed (cfg : SCfg) (t : Int) (c : Conn) (h : c.status = .disconnected ∨ c.status = .disconnecting) : Due cfg t c := by
  unfold Due sweepView
  left
  rcases h with h | h
  · have : ¬ (c.status = .disconnecting) := by rw [h]; decide
    rw [if_neg this]; exact h
  · rw [if_pos h]; exact disconnect_status _ _

theorem sweepConns_cfg (C : Crypto) (sz : Sizes) (t : Int) (s : Srv) (snap : List (Addr × Ent)) (acts : List HAct) :
    (sweepConns C sz t s snap acts).1.cfg = s.cfg := by
  induction snap generalizing s acts with
  | nil => rfl
  | cons x rest ih =>
    obtain ⟨addr, e0⟩ := x
    simp only [sweepConns]
    cases hg : pget s.conns addr with
    | none => exact ih s acts
    | some ent =>
      simp only
      generalize (if ent.conn.status = Status.disconnecting then Conn.disconnect ent.conn none else ent.conn) = c1
      by_cases hcond : c1.status = Status.disconnected ∨ timedOut c1 t s.cfg.connTimeout = true
      · simp only [hcond, if_true]
        exact ih { s with conns := pdel s.conns addr } (nextAct acts).2
      · simp only [hcond, if_false]
        exact ih { s with conns := pset s.conns addr { ent with conn := (updateOut C sz addr c1 t).1 } } acts

theorem handleItem_cfg (sz : Sizes) (C : Crypto) (s : Srv) (t : Int) (it : Item) (acts : List HAct) :
    (handleItem sz C s t it acts).1.cfg = s.cfg := by
  unfold handleItem
  cases hci : pget s.conns it.addr with
  | some e =>
    simp only
    split
    · rfl
    · generalize dispatchMsgs sz e.id _ _ acts = x
      obtain ⟨c2, acts', ev⟩ := x
      rfl
  | none =>
    simp only
    cases ht : pget s.temps it.addr with
    | some e =>
      simp only
      by_cases hty : it.hdr.ptype ≠ .challengeResp
      · rw [if_pos hty]
      · rw [if_neg hty]
        generalize nextAct acts = na
        obtain ⟨a, acts'⟩ := na
        simp only
        split
        · split <;> rfl
        · split <;> rfl
    | none =>
      simp only
      by_cases hty : it.hdr.ptype ≠ .clientHello
      · rw [if_pos hty]
      · rw [if_neg hty]
        split <;> rfl

theorem handleItems_cfg (sz : Sizes) (C : Crypto) (t : Int) (s : Srv) (items : List Item) (acts : List HAct) :
    (handleItems sz C t s items acts).1.cfg = s.cfg := by
  induction items generalizing s acts with
  | nil => rfl
  | cons it rest ih =>
    simp only [handleItems]
    rw [ih, handleItem_cfg]

theorem sweepConns_drops_due (C : Crypto) (sz : Sizes) (t : Int) (s : Srv) (snap : List (Addr × Ent)) (acts : List HAct)
    (a : Addr) (e : Ent) (hk : KN s.conns)
    (hsnap : ∀ x ∈ snap, pget s.conns x.1 = some x.2) (hnd : (snap.map (·.1)).Nodup)
    (hin : (a, e) ∈ snap) (hdue : Due s.cfg t e.conn) :
    pget (sweepConns C sz t s snap acts).1.conns a = none ∧
    SEvent.disconnect e.id ∈ (sweepConns C sz t s snap acts).2.2 := by
  induction snap generalizing s acts with
  | nil => simp at hin
  | cons x rest ih =>
    obtain ⟨addr, e0⟩ := x
    simp only [List.map_cons, List.nodup_cons] at hnd
    have hne : ∀ y ∈ rest, y.1 ≠ addr := by
      intro y hy heq
      exact hnd.1 (List.mem_map.mpr ⟨y, hy, heq⟩)
    have hcur : pget s.conns addr = some e0 := hsnap (addr, e0) (List.mem_cons_self ..)
    simp only [sweepConns, hcur]
    rcases List.mem_cons.mp hin with hhd | htl
    · -- this is the entry
      injection hhd with h1 h2
      subst h1; subst h2
      unfold Due sweepView at hdue
      rw [if_pos hdue]
      have hgone : pget (pdel s.conns a) a = none := pget_pdel_self_kn _ _ hk
      have h2 := sweepConns_unv C sz t { s with conns := pdel s.conns a } rest (nextAct acts).2 a hgone
      refine ⟨h2.2.1, ?_⟩
      simp
    · -- an earlier entry: `a`'s entry is left alone
      have hane : a ≠ addr := hne (a, e) htl
      generalize (if e0.conn.status = Status.disconnecting then Conn.disconnect e0.conn none else e0.conn) = c1
      by_cases hcond : c1.status = Status.disconnected ∨ timedOut c1 t s.cfg.connTimeout = true
      · simp only [hcond, if_true]
        have := ih { s with conns := pdel s.conns addr } (nextAct acts).2 (kn_pdel _ _ hk)
          (by
            intro y hy
            simp only
            rw [lc_pget_pdel_ne _ _ _ (hne y hy)]
            exact hsnap y (List.mem_cons_of_mem _ hy)) hnd.2 htl hdue
        refine ⟨this.1, ?_⟩
        simp only [List.append_assoc, List.cons_append, List.nil_append, List.mem_cons, List.mem_append]
        exact Or.inr (Or.inr (Or.inr this.2))
      · simp only [hcond, if_false]
        have := ih { s with conns := pset s.conns addr { e0 with conn := (updateOut C sz addr c1 t).1 } } acts (kn_pset _ _ _ hk)
          (by
            intro y hy
            simp only
            rw [lc_pget_pset_ne _ _ _ _ (hne y hy)]
            exact hsnap y (List.mem_cons_of_mem _ hy)) hnd.2 htl hdue
        exact ⟨this.1, List.mem_append_right _ this.2⟩


/-- **A client that is due when the sweep starts is gone, and reported, when the iteration ends.**
`s1` is the server after the iteration's queued datagrams and `handler.update` (a kicking update
handler included): if the entry of `a` there is due at the sweep clock `ts`, then after the
iteration `a` is not in the connected pool and its identity has had its `disconnect` event - for
every batch, every handler behaviour, every other client. -/
theorem C10_due_client_dropped (sz : Sizes) (C : Crypto) (s : Srv) (tq ts : Int) (batch : List Item) (acts : List HAct)
    (st : LState) (hi : Inv s st) (a : Addr) (e : Ent)
    (hin : pget (if (nextAct (handleItems sz C tq s batch acts).2.1).1 = HAct.kick
                 then kickAll (handleItems sz C tq s batch acts).1 else (handleItems sz C tq s batch acts).1).conns a = some e)
    (hdue : Due s.cfg ts e.conn) :
    pget (iter sz C s tq ts batch acts).1.conns a = none ∧
    SEvent.disconnect e.id ∈ (iter sz C s tq ts batch acts).2 := by
  have h1 := handleItems_step sz C tq s batch acts st hi
  have hcfg1 := handleItems_cfg sz C tq s batch acts
  unfold iter
  generalize handleItems sz C tq s batch acts = r1 at *
  obtain ⟨s1, acts1, e1⟩ := r1
  simp only at h1 hin hcfg1 ⊢
  have hinv := inv_maybeKick s1 _ (nextAct acts1).1 h1.2
  have hcfgk : (if (nextAct acts1).1 = HAct.kick then kickAll s1 else s1).cfg = s.cfg := by
    split
    · rw [kickAll_cfg]; exact hcfg1
    · exact hcfg1
  have hsw := sweepConns_drops_due C sz ts (if (nextAct acts1).1 = HAct.kick then kickAll s1 else s1)
    (if (nextAct acts1).1 = HAct.kick then kickAll s1 else s1).conns (nextAct acts1).2 a e hinv.knc
    (fun x hx => pget_of_mem _ _ _ hinv.knc hx) hinv.knc (pget_some_mem _ _ _ hin) (by rw [hcfgk]; exact hdue)
  generalize sweepConns C sz ts (if (nextAct acts1).1 = HAct.kick then kickAll s1 else s1)
    (if (nextAct acts1).1 = HAct.kick then kickAll s1 else s1).conns (nextAct acts1).2 = r2 at *
  obtain ⟨s2, acts2, e2⟩ := r2
  simp only at hsw ⊢
  have hc3 := sweepTemps_conns C sz ts s2 s2.temps
  generalize sweepTemps C sz ts s2 s2.temps = r3 at *
  obtain ⟨s3, e3⟩ := r3
  simp only at hc3 ⊢
  refine ⟨by rw [hc3]; exact hsw.1, ?_⟩
  simp only [List.mem_append]
  exact Or.inl (Or.inr hsw.2)

end Mpgs.Server
