import MpgsModel.Model.Wire
/-! Helper lemmas for the wire codec: big-endian packing inverses, CRC range, list slicing. -/
namespace Mpgs.Wire
open Mpgs.Bytes

theorem u8 (n : Nat) (h : n < 256) : (UInt8.ofNat n).toNat = n := by
  simp [UInt8.toNat_ofNat', Nat.mod_eq_of_lt h]

theorem beVal_be8 (n : Nat) (h : n < 256) : beVal (be8 n) = n := by
  simp [beVal, be8, u8 n h]

theorem beVal_be16 (n : Nat) (h : n < 65536) : beVal (be16 n) = n := by
  simp only [beVal, be16, List.foldl]
  rw [u8 (n / 256) (by omega), u8 (n % 256) (by omega)]; omega

theorem beVal_be32 (n : Nat) (h : n < 4294967296) : beVal (be32 n) = n := by
  simp only [beVal, be32, List.foldl]
  rw [u8 (n / 16777216) (by omega), u8 (n / 65536 % 256) (by omega), u8 (n / 256 % 256) (by omega),
    u8 (n % 256) (by omega)]; omega

@[simp] theorem be16_length (n : Nat) : (be16 n).length = 2 := rfl
@[simp] theorem be32_length (n : Nat) : (be32 n).length = 4 := rfl
@[simp] theorem be8_length (n : Nat) : (be8 n).length = 1 := rfl

theorem crcBit_lt (c : Nat) (h : c < 4294967296) : crcBit c < 4294967296 := by
  unfold crcBit
  split
  · exact Nat.xor_lt_two_pow (n := 32) (by omega) (by decide)
  · omega

theorem crcByte_lt (c : Nat) (b : UInt8) (h : c < 4294967296) : crcByte c b < 4294967296 := by
  unfold crcByte
  have hb : b.toNat < 4294967296 := Nat.lt_trans (UInt8.toNat_lt b) (by decide)
  have h0 : c ^^^ b.toNat < 4294967296 := Nat.xor_lt_two_pow (n := 32) h hb
  exact crcBit_lt _ (crcBit_lt _ (crcBit_lt _ (crcBit_lt _ (crcBit_lt _ (crcBit_lt _ (crcBit_lt _
    (crcBit_lt _ h0)))))))

theorem foldl_crc_lt (bs : Bytes) (c : Nat) (h : c < 4294967296) :
    bs.foldl crcByte c < 4294967296 := by
  induction bs generalizing c with
  | nil => simpa
  | cons b bs ih => exact ih _ (crcByte_lt c b h)

theorem crc32_lt (bs : Bytes) : crc32 bs < 4294967296 := by
  unfold crc32
  exact Nat.xor_lt_two_pow (n := 32) (foldl_crc_lt bs _ (by decide)) (by decide)

theorem ptype_roundtrip (ty : PType) : PType.ofWire (beVal (be8 ty.toNat)) = .ok ty := by
  cases ty <;> rfl

theorem ptype_lt (ty : PType) : ty.toNat < 256 := by cases ty <;> decide

end Mpgs.Wire

namespace Mpgs.Wire
open Mpgs.Bytes

theorem drop5 {α} (a b c d e : α) (p r : List α) :
    List.drop (5 + p.length) (a :: b :: c :: d :: e :: (p ++ r)) = r := by
  have : 5 + p.length = (p.length + 4) + 1 := by omega
  rw [this, List.drop_succ_cons]
  have : p.length + 4 = (p.length + 3) + 1 := by omega
  rw [this, List.drop_succ_cons]
  have : p.length + 3 = (p.length + 2) + 1 := by omega
  rw [this, List.drop_succ_cons]
  have : p.length + 2 = (p.length + 1) + 1 := by omega
  rw [this, List.drop_succ_cons, List.drop_succ_cons]
  simp

/-- header fields fit their struct format codes -/
def WfHdr (h : Header) : Prop :=
  h.ctime < 4294967296 ∧ h.seq < 65536 ∧ h.ack < 65536 ∧ h.length < 65536 ∧ h.count < 256 ∧
  h.ackBits < 4294967296

/-- message fields fit their struct format codes -/
def WfMsg (m : WMsg) : Prop := m.seq < 65536 ∧ m.payload.length < 65536

theorem encodeHdr_ok (h : Header) (hw : WfHdr h) :
    encodeHdr h = .ok ((if h.isServer then magicToClient else magicToServer) ++ be32 h.ctime ++ be16 h.seq ++
         be16 h.ack ++ be8 h.ptype.toNat ++ be16 h.length ++ be8 h.count ++ be32 h.ackBits) := by
  unfold encodeHdr WfHdr at *
  rw [if_pos hw]

theorem encodeHdr_length (h : Header) (hb : Bytes) (he : encodeHdr h = .ok hb) : hb.length = 20 := by
  unfold encodeHdr at he
  split at he
  · injection he with he; subst he
    cases h.isServer <;> simp [magicToClient, magicToServer]
  · simp at he

theorem hdr_roundtrip (h : Header) (hw : WfHdr h) (rest : Bytes) (hb : Bytes) (he : encodeHdr h = .ok hb) :
    decodeHdr (!h.isServer) (hb ++ rest) = .ok { h with isServer := !h.isServer } := by
  rw [encodeHdr_ok h hw] at he
  injection he with he
  obtain ⟨h1, h2, h3, h4, h5, h6⟩ := hw
  subst he
  have e1 := beVal_be32 h.ctime h1
  have e2 := beVal_be16 h.seq h2
  have e3 := beVal_be16 h.ack h3
  have e4 := beVal_be16 h.length h4
  have e5 := beVal_be8 h.count h5
  have e6 := beVal_be32 h.ackBits h6
  have e7 := ptype_roundtrip h.ptype
  cases hs : h.isServer <;>
    simp [decodeHdr, magicToClient, magicToServer, be32, be16, be8, take, slice, hs] at * <;>
    simp [*]

theorem hdr_wrong_direction (h : Header) (hw : WfHdr h) (rest : Bytes) (hb : Bytes) (he : encodeHdr h = .ok hb) :
    decodeHdr h.isServer (hb ++ rest) = .error .packetError := by
  rw [encodeHdr_ok h hw] at he
  injection he with he
  subst he
  have e7 := ptype_roundtrip h.ptype
  cases hs : h.isServer <;>
    simp [decodeHdr, magicToClient, magicToServer, be32, be16, be8, take, slice, hs] at * <;>
    simp [*]

theorem unpack_pack (ms : List WMsg) (hw : ∀ m ∈ ms, WfMsg m) :
    unpackMulti ms.length (packMulti ms) = .ok ms := by
  induction ms with
  | nil => rfl
  | cons m ms ih =>
    have hm := hw m (by simp)
    have ih' := ih (fun x hx => hw x (by simp [hx]))
    obtain ⟨h1, h2⟩ := hm
    have e1 := beVal_be16 m.payload.length h2
    have e2 := beVal_be16 m.seq h1
    have e3 := ptype_roundtrip m.ty
    simp only [List.length_cons, unpackMulti, packMulti]
    simp [be16, be8, take, slice, drop] at *
    simp only [e1, e2, e3, drop5, ih']
    simp

end Mpgs.Wire

namespace Mpgs.Wire
open Mpgs.Bytes

theorem openBody_crc (C : Crypto) (h : Header) (hb msg d : Bytes) (hl : hb.length = 20)
    (hlen : h.length = msg.length) (hd : d = hb ++ msg ++ be32 (crc32 (hb ++ msg))) :
    openBody C h none d = .ok msg := by
  have e0 : d.length = 20 + msg.length + 4 := by
    subst hd; simp [hl]; omega
  have e1 : take (20 + msg.length) d = hb ++ msg := by
    subst hd
    rw [take, List.take_append_of_le_length (by simp [hl])]
    exact List.take_of_length_le (by simp [hl])
  have e2 : slice (20 + msg.length) (20 + msg.length + 4) d = be32 (crc32 (hb ++ msg)) := by
    subst hd
    rw [slice]
    have : 20 + msg.length = (hb ++ msg).length := by simp [hl]
    rw [this, List.drop_left]
    exact List.take_of_length_le (by simp)
  have e3 : drop 20 (hb ++ msg) = msg := by
    rw [drop, ← hl, List.drop_left]
  unfold openBody
  rw [hlen]
  simp only [keyed, e0, e1, e2, beVal_be32 _ (crc32_lt _), e3]
  simp

theorem openBody_aead (C : Crypto) (h : Header) (hb msg d k : Bytes) (key : Option Bytes)
    (hk : keyed key = some k) (hl : hb.length = 20) (hlen : h.length = msg.length)
    (hd : d = hb ++ C.aseal k (take 12 hb) hb msg)
    (hct : (C.aseal k (take 12 hb) hb msg).length = msg.length + 16)
    (hopen : C.aopen k (take 12 hb) hb (C.aseal k (take 12 hb) hb msg) = some msg) :
    openBody C h key d = .ok msg := by
  have e0 : d.length = 20 + msg.length + 16 := by
    subst hd; simp [hl, hct]; omega
  have e1 : take 12 d = take 12 hb := by
    subst hd; rw [take, take, List.take_append_of_le_length (by omega)]
  have e2 : take 20 d = hb := by
    subst hd; rw [take, List.take_append_of_le_length (by omega)]
    exact List.take_of_length_le (by omega)
  have e3 : slice 20 (20 + msg.length + 16) d = C.aseal k (take 12 hb) hb msg := by
    subst hd
    rw [slice, ← hl, List.drop_left]
    exact List.take_of_length_le (by omega)
  unfold openBody
  rw [hlen]
  simp only [hk, e0, e1, e2, e3, hopen]
  simp

/-- what `from_bytes` returns for the messages of a packet built by `create`: with a single
message the type travels in the header -/
def decodedMsgs (h : Header) : List WMsg → List WMsg
  | [m] => [⟨m.seq, h.ptype, m.payload⟩]
  | ms => ms

theorem packMulti_length (ms : List WMsg) :
    (packMulti ms).length = (ms.map (fun m => 5 + m.payload.length)).sum := by
  induction ms with
  | nil => rfl
  | cons m ms ih => simp [packMulti, ih]; omega

/-- `create` then `parseMsgs` with the created header gives the messages back -/
theorem parse_create (h : Header) (ms : List WMsg) (p : Packet) (hms : ∀ m ∈ ms, WfMsg m)
    (hc : create h ms = .ok p) :
    p.hdr.count = ms.length ∧ p.hdr.length = p.msg.length ∧ p.msgs = ms ∧
    ∀ flip : Bool, parseMsgs { p.hdr with isServer := flip } p.msg =
      .ok ⟨{ p.hdr with isServer := flip }, p.msg, decodedMsgs h ms⟩ := by
  match ms, hms, hc with
  | [], _, hc =>
    simp only [create] at hc
    injection hc with hc; subst hc
    refine ⟨rfl, rfl, rfl, ?_⟩
    intro flip; simp [parseMsgs, decodedMsgs]
  | [m], hms, hc =>
    have hm := hms m (by simp)
    simp only [create, hm.1, if_true] at hc
    injection hc with hc; subst hc
    refine ⟨rfl, rfl, rfl, ?_⟩
    intro flip
    have e := beVal_be16 m.seq hm.1
    simp [parseMsgs, decodedMsgs, take, drop, be16] at *
    simp [e]
  | m1 :: m2 :: rest, hms, hc =>
    have hall : (m1 :: m2 :: rest).all (fun m => decide (m.seq < 65536) && decide (m.payload.length < 65536)) = true := by
      rw [List.all_eq_true]
      intro m hm
      have := hms m hm
      simp [this.1, this.2]
    simp only [create, hall, if_true] at hc
    injection hc with hc; subst hc
    refine ⟨rfl, rfl, rfl, ?_⟩
    intro flip
    have hu := unpack_pack (m1 :: m2 :: rest) hms
    have hne : ¬ ((m1 :: m2 :: rest).length = 1) := by simp
    have hgt : (m1 :: m2 :: rest).length > 1 := by simp
    simp only [parseMsgs, hne, if_false, hgt, if_true, hu, decodedMsgs]

end Mpgs.Wire
