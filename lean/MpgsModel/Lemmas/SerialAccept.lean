import MpgsModel.Lemmas.SerialRound
/-! `encode` succeeds exactly on `encodable` values (both directions, every depth); round trip of
the client hello with its padding rule. -/
namespace Mpgs.Serial

theorem encodeInt_ok_of_range (i : Int) (h : -9223372036854775808 ≤ i ∧ i < 9223372036854775808) :
    ∃ bs, encodeInt i = .ok bs := by
  unfold encodeInt
  simp only
  split
  · exact ⟨_, rfl⟩
  · split
    · exact ⟨_, rfl⟩
    · split <;> exact ⟨_, rfl⟩

theorem encodeInt_ok_range {i : Int} {bs : Bytes} (h : encodeInt i = .ok bs) :
    -9223372036854775808 ≤ i ∧ i < 9223372036854775808 := by
  unfold encodeInt at h
  simp only at h
  split at h
  · split at h
    · assumption
    · simp at h
  · omega

theorem wrapStruct_ok {α : Type} (a : α) : wrapStruct (.ok a : Except Err α) = .ok a := rfl

mutual
theorem accepts (env : Env) : ∀ (v : Value), encodable env v = true → ∃ bs, encode env v = .ok bs
  | .null, _ => ⟨_, rfl⟩
  | .bool _, _ => ⟨_, rfl⟩
  | .f32 _ _ _ _, _ => ⟨_, rfl⟩
  | .int i, h => by
    simp only [encodable, decide_eq_true_eq] at h
    simpa [encode] using encodeInt_ok_of_range i h
  | .f64 b, h => by
    simp only [encodable] at h
    simp only [encode]
    cases hr : roundF32 b with
    | none => simp [hr] at h
    | some n => exact ⟨_, rfl⟩
  | .str s, h => by
    simp only [encodable, Bool.and_eq_true, decide_eq_true_eq] at h
    obtain ⟨l, hl⟩ := encodeInt_ok_of_range s.length (by simp [MAX_BYTES_LENGTH] at h; omega)
    refine ⟨[0, 13] ++ l ++ s, ?_⟩
    have : ¬ (s.length > MAX_BYTES_LENGTH) := by omega
    simp [encode, h.1, this, hl]
  | .bytes s, h => by
    simp only [encodable, decide_eq_true_eq] at h
    obtain ⟨l, hl⟩ := encodeInt_ok_of_range s.length (by simp [MAX_BYTES_LENGTH] at h; omega)
    refine ⟨[0, 14] ++ l ++ s, ?_⟩
    have : ¬ (s.length > MAX_BYTES_LENGTH) := by omega
    simp [encode, encodeBytes, this, hl]
  | .seq xs, h => by
    simp only [encodable, Bool.and_eq_true, decide_eq_true_eq] at h
    obtain ⟨l, hl⟩ := encodeInt_ok_of_range xs.length (by simp [MAX_ARRAY_LENGTH] at h; omega)
    obtain ⟨body, hb⟩ := accepts_list env xs h.2
    refine ⟨[0, 16] ++ l ++ body, ?_⟩
    have : ¬ (xs.length > MAX_ARRAY_LENGTH) := by omega
    simp [encode, this, hl, hb, wrapStruct_ok]
  | .set xs, h => by
    simp only [encodable, Bool.and_eq_true, decide_eq_true_eq] at h
    obtain ⟨l, hl⟩ := encodeInt_ok_of_range xs.length (by simp [MAX_ARRAY_LENGTH] at h; omega)
    obtain ⟨body, hb⟩ := accepts_list env xs h.2
    refine ⟨[0, 18] ++ l ++ body, ?_⟩
    have : ¬ (xs.length > MAX_ARRAY_LENGTH) := by omega
    simp [encode, this, hl, hb, wrapStruct_ok]
  | .map kvs, h => by
    simp only [encodable, Bool.and_eq_true, decide_eq_true_eq] at h
    obtain ⟨l, hl⟩ := encodeInt_ok_of_range kvs.length (by simp [MAX_ARRAY_LENGTH] at h; omega)
    obtain ⟨body, hb⟩ := accepts_pairs env kvs h.2
    refine ⟨[0, 17] ++ l ++ body, ?_⟩
    have : ¬ (kvs.length > MAX_ARRAY_LENGTH) := by omega
    simp [encode, this, hl, hb, wrapStruct_ok]
  | .object tid fs, h => by
    simp only [encodable, Bool.and_eq_true, decide_eq_true_eq] at h
    obtain ⟨l, hl⟩ := encodeInt_ok_of_range fs.length (by omega)
    obtain ⟨body, hb⟩ := accepts_list env fs h.2
    refine ⟨be2 tid ++ l ++ body, ?_⟩
    simp [encode, packH, h.1.1, hl, hb]
  | .enum tid v, h => by
    simp only [encodable, Bool.and_eq_true, decide_eq_true_eq] at h
    obtain ⟨⟨ht, hm⟩, hv⟩ := h
    obtain ⟨body, hb⟩ := accepts env v hv
    split at hm
    · rename_i members hlook
      split at hm
      · rename_i hmem
        refine ⟨be2 tid ++ body, ?_⟩
        simp [encode, packH, ht, hlook, hmem, hb]
      · simp at hm
    · simp at hm
  | .clientHello _ _ _, h => by simp [encodable] at h
  | .serverHello _ _ _ _ _, h => by simp [encodable] at h
  | .unsupported, h => by simp [encodable] at h
theorem accepts_list (env : Env) : ∀ (xs : List Value), encodableList env xs = true →
    ∃ bs, encodeList env xs = .ok bs
  | [], _ => ⟨[], rfl⟩
  | x :: t, h => by
    simp only [encodableList, Bool.and_eq_true] at h
    obtain ⟨a, ha⟩ := accepts env x h.1
    obtain ⟨b, hb⟩ := accepts_list env t h.2
    exact ⟨a ++ b, by simp [encodeList, ha, hb]⟩
theorem accepts_pairs (env : Env) : ∀ (kvs : List (Value × Value)), encodablePairs env kvs = true →
    ∃ bs, encodePairs env kvs = .ok bs
  | [], _ => ⟨[], rfl⟩
  | (k, v) :: t, h => by
    simp only [encodablePairs, Bool.and_eq_true] at h
    obtain ⟨a, ha⟩ := accepts env k h.1.1
    obtain ⟨b, hb⟩ := accepts env v h.1.2
    obtain ⟨c, hc⟩ := accepts_pairs env t h.2
    exact ⟨a ++ b ++ c, by simp [encodePairs, ha, hb, hc]⟩
end


mutual
theorem refuses (env : Env) : ∀ (v : Value) (bs : Bytes), wt false env.reg v = true →
    encode env v = .ok bs → encodable env v = true
  | .null, _, _, _ => rfl
  | .bool _, _, _, _ => rfl
  | .f32 _ _ _ _, _, _, _ => rfl
  | .int i, bs, _, he => by
    simp only [encode] at he
    simpa [encodable] using encodeInt_ok_range he
  | .f64 b, bs, _, he => by
    simp only [encode] at he
    split at he
    · rename_i n hn; simp [encodable, hn]
    · simp at he
  | .str s, bs, _, he => by
    simp only [encode] at he
    split at he
    · simp at he
    · split at he
      · simp at he
      · rename_i h1 h2
        simp only [encodable, Bool.and_eq_true, decide_eq_true_eq]
        exact ⟨by simpa using h1, by omega⟩
  | .bytes s, bs, _, he => by
    simp only [encode] at he
    have := (encodeBytes_ok he).1
    simpa [encodable] using this
  | .seq xs, bs, hw, he => by
    simp only [encode] at he
    split at he
    · simp at he
    · simp only [wrapStruct_eq_ok, bind_eq_ok] at he
      obtain ⟨l, _, body, hb, _⟩ := he
      simp only [encodable, Bool.and_eq_true, decide_eq_true_eq]
      exact ⟨by omega, refuses_list env xs body (by simpa [wt] using hw) hb⟩
  | .set xs, bs, hw, he => by
    simp only [encode] at he
    split at he
    · simp at he
    · simp only [wrapStruct_eq_ok, bind_eq_ok] at he
      obtain ⟨l, _, body, hb, _⟩ := he
      simp only [encodable, Bool.and_eq_true, decide_eq_true_eq]
      exact ⟨by omega, refuses_list env xs body (by simpa [wt] using hw) hb⟩
  | .map kvs, bs, hw, he => by
    simp only [encode] at he
    split at he
    · simp at he
    · simp only [wrapStruct_eq_ok, bind_eq_ok] at he
      obtain ⟨l, _, body, hb, _⟩ := he
      simp only [encodable, Bool.and_eq_true, decide_eq_true_eq]
      exact ⟨by omega, refuses_pairs env kvs body (by simpa [wt] using hw) hb⟩
  | .object tid fs, bs, hw, he => by
    simp only [encode, bind_eq_ok] at he
    obtain ⟨hd, hh, l, hl, body, hb, _⟩ := he
    obtain ⟨_, htid⟩ := packH_len tid hd hh
    simp only [wt, Bool.and_eq_true] at hw
    simp only [encodable, Bool.and_eq_true, decide_eq_true_eq]
    exact ⟨⟨htid, (encodeInt_ok_range hl).2⟩, refuses_list env fs body hw.2 hb⟩
  | .enum tid v, bs, hw, he => by
    simp only [encode, bind_eq_ok] at he
    obtain ⟨hd, hh, he⟩ := he
    obtain ⟨_, htid⟩ := packH_len tid hd hh
    simp only [wt, Bool.and_eq_true] at hw
    split at he
    · rename_i members hlook
      split at he
      · simp at he
      · simp at he
      · rename_i hmem
        simp only [bind_eq_ok] at he
        obtain ⟨body, hb, _⟩ := he
        simp [encodable, htid, hlook, hmem, refuses env v body hw.2 hb]
    · simp at he
  | .clientHello _ _ _, _, hw, _ => by simp [wt] at hw
  | .serverHello _ _ _ _ _, _, hw, _ => by simp [wt] at hw
  | .unsupported, _, hw, _ => by simp [wt] at hw
theorem refuses_list (env : Env) : ∀ (xs : List Value) (bs : Bytes), wtList false env.reg xs = true →
    encodeList env xs = .ok bs → encodableList env xs = true
  | [], _, _, _ => rfl
  | x :: t, bs, hw, he => by
    simp only [encodeList, bind_eq_ok] at he
    obtain ⟨a, ha, b, hb, _⟩ := he
    simp only [wtList, Bool.and_eq_true] at hw
    simp [encodableList, refuses env x a hw.1 ha, refuses_list env t b hw.2 hb]
theorem refuses_pairs (env : Env) : ∀ (kvs : List (Value × Value)) (bs : Bytes),
    wtPairs false env.reg kvs = true → encodePairs env kvs = .ok bs → encodablePairs env kvs = true
  | [], _, _, _ => rfl
  | (k, v) :: t, bs, hw, he => by
    simp only [encodePairs, bind_eq_ok] at he
    obtain ⟨a, ha, b, hb, c, hc, _⟩ := he
    simp only [wtPairs, Bool.and_eq_true] at hw
    simp [encodablePairs, refuses env k a hw.1.1 ha, refuses env v b hw.1.2 hb, refuses_pairs env t c hw.2 hc]
end

theorem clientHello_round (env : Env) (tid : Nat) (key : Bytes) (ver ver' : Value) (bs : Bytes)
    (hreg : lookup env.reg tid = some .clientHello) (hb0 : isBase tid = false)
    (hkey : env.parseKey key = .ok key) (hur : ∀ n, (env.urandom n).length = n)
    (hw : wt false env.reg ver = true) (hc : canon ver = .ok ver')
    (he : encode env (.clientHello tid key ver) = .ok bs) (rest : Bytes) :
    decode env (bs ++ rest) = .ok (.clientHello tid key ver', rest) := by
  simp only [encode, bind_eq_ok] at he
  obtain ⟨hd, hh, a, ha, b, hb, he⟩ := he
  obtain ⟨rfl, htid⟩ := packH_len tid hd hh
  split at he
  · simp at he
  · rename_i hpos
    injection he with he; subst he
    have ha' : encode env (.bytes key) = .ok a := by simpa [encode] using ha
    unfold decode decodeF
    generalize hF : (be2 tid ++ a ++ b ++ env.urandom (env.padTarget - ((a.length + b.length : Nat) : Int)).toNat ++ rest).length = F
    have hlen : a.length + b.length + 2 ≤ F := by
      rw [← hF]; simp [be2] <;> omega
    obtain ⟨g, rfl⟩ := Nat.exists_eq_add_of_le' (show 2 ≤ F by omega)
    have h1 := dec_enc env (.bytes key) a (.bytes key) (by simp [wt]) ha' (by simp [canon]) (g + 1)
      (b ++ (env.urandom (env.padTarget - ((a.length + b.length : Nat) : Int)).toNat ++ rest)) (by omega)
    have h2 := dec_enc env ver b ver' hw hb hc (g + 1)
      (env.urandom (env.padTarget - ((a.length + b.length : Nat) : Int)).toNat ++ rest) (by omega)
    have hpl := hur (env.padTarget - ((a.length + b.length : Nat) : Int)).toNat
    have hrd : readN (env.padTarget - ((a.length + b.length : Nat) : Int))
        (env.urandom (env.padTarget - ((a.length + b.length : Nat) : Int)).toNat ++ rest)
        = (env.urandom (env.padTarget - ((a.length + b.length : Nat) : Int)).toNat, rest) := by
      have := readN_append (env.urandom (env.padTarget - ((a.length + b.length : Nat) : Int)).toNat) rest
      rw [hpl] at this
      rw [← this]
      congr 1
      omega
    have hsub : ((a ++ (b ++ (env.urandom (env.padTarget - ((a.length + b.length : Nat) : Int)).toNat ++ rest))).length
        - (env.urandom (env.padTarget - ((a.length + b.length : Nat) : Int)).toNat ++ rest).length) = a.length + b.length := by
      simp; omega
    simp only [be2, List.cons_append, List.nil_append, List.append_assoc]
    rw [show g + 2 + 1 = (g + 2) + 1 from rfl, decodeC_cons_res]
    have e1 : (u8 (tid / 256)).toNat * 256 + (u8 tid).toNat = tid := by simp; omega
    rw [e1, hb0]
    simp only [hreg, Bool.false_eq_true, if_false]
    rw [decodeReg]
    simp only [R.res_bind, R.res_tick, R.res_lift, ok_bind, h1, asKeyBytes, hkey, h2, hsub, hrd]
    have : ((env.urandom (env.padTarget - ((a.length + b.length : Nat) : Int)).toNat).length : Int)
        = env.padTarget - ((a.length + b.length : Nat) : Int) := by rw [hpl]; omega
    simp only [Int.natCast_add] at this
    simp [this]

theorem serverHello_round (env : Env) (tid : Nat) (root0 root key vk : Bytes) (salt token salt' token' : Value)
    (bs : Bytes)
    (hreg : lookup env.reg tid = some .serverHello) (hb0 : isBase tid = false)
    (hroot : env.rootKey = some root)
    (hpr : env.parseKey root = .ok root) (hpk : env.parseKey key = .ok key)
    (hvk : (env.serverKey = some none ∧ vk = root) ∨ env.serverKey = some (some vk))
    (hver : ∀ p s, env.sign p = .ok s → env.verify vk s p = .ok ())
    (hws : wt false env.reg salt = true) (hcs : canon salt = .ok salt')
    (hwt : wt false env.reg token = true) (hct : canon token = .ok token')
    (he : encode env (.serverHello tid root0 key salt token) = .ok bs) (rest : Bytes) :
    decode env (bs ++ rest) = .ok (.serverHello tid root key salt' token', rest) := by
  simp only [encode, bind_eq_ok] at he
  obtain ⟨hd, hh, a, ha, b, hb, c, hc, he⟩ := he
  obtain ⟨rfl, htid⟩ := packH_len tid hd hh
  rw [hroot] at he
  simp only [bind_eq_ok] at he
  obtain ⟨sig, hsig, x, hx, y, hy, z, hz, he⟩ := he
  injection he with he; subst he
  have bytesEnc : ∀ s e, encodeBytes s = .ok e → encode env (.bytes s) = .ok e := fun s e h => by simpa [encode] using h
  have lx := encode_len_ge env _ _ (bytesEnc _ _ hx)
  have ly := encode_len_ge env _ _ (bytesEnc _ _ hy)
  have lz := encode_len_ge env _ _ (bytesEnc _ _ hz)
  obtain ⟨_, ly', hly', rfl⟩ := encodeBytes_ok hy
  have hyy : encodeBytes (a ++ b ++ c) = .ok ([0, 14] ++ ly' ++ (a ++ b ++ c)) := hy
  unfold decode decodeF
  generalize hF : (be2 tid ++ x ++ ([0, 14] ++ ly' ++ (a ++ b ++ c)) ++ z ++ rest).length = F
  have hlen : x.length + ([0, 14] ++ ly' ++ (a ++ b ++ c)).length + z.length + 2 ≤ F := by
    rw [← hF]; simp [be2] <;> omega
  obtain ⟨g, rfl⟩ := Nat.exists_eq_add_of_le' (show 2 ≤ F by omega)
  have bw : ∀ s, wt false env.reg (.bytes s) = true := fun s => by simp [wt]
  have bc : ∀ s, canon (.bytes s) = .ok (.bytes s) := fun s => by simp [canon]
  have h1 := dec_enc env (.bytes root) x _ (bw _) (bytesEnc _ _ hx) (bc _) (g + 1)
    (([0, 14] ++ ly' ++ (a ++ b ++ c)) ++ (z ++ rest)) (by omega)
  have h2 := dec_enc env (.bytes (a ++ b ++ c)) _ _ (bw _) (bytesEnc _ _ hyy) (bc _) (g + 1) (z ++ rest) (by omega)
  have h3 := dec_enc env (.bytes sig) z _ (bw _) (bytesEnc _ _ hz) (bc _) (g + 1) rest (by omega)
  have hlen2 : a.length + b.length + c.length ≤ g + 1 := by simp at hlen; omega
  have h4 := dec_enc env (.bytes key) a _ (bw _) (bytesEnc _ _ ha) (bc _) (g + 1) (b ++ c) (by omega)
  have h5 := dec_enc env salt b salt' hws hb hcs (g + 1) c (by omega)
  have h6 := dec_enc env token c token' hwt hc hct (g + 1) [] (by omega)
  simp only [List.append_nil] at h6
  simp only [be2, List.cons_append, List.nil_append, List.append_assoc] at h1 h2 h3 h4 ⊢
  rw [show g + 2 + 1 = (g + 2) + 1 from rfl, decodeC_cons_res]
  have e1 : (u8 (tid / 256)).toNat * 256 + (u8 tid).toNat = tid := by simp; omega
  rw [e1, hb0]
  simp only [hreg, Bool.false_eq_true, if_false]
  rw [decodeReg]
  have hv := hver _ _ hsig
  simp only [List.append_assoc] at hv
  rcases hvk with ⟨hsk, rfl⟩ | hsk
  · simp only [R.res_bind, R.res_tick, R.res_lift, R.res_reparse, ok_bind, h1, asKeyBytes, hpr, h2, h3, hsk, hv, h4, hpk, h5, h6]
    simp
  · simp only [R.res_bind, R.res_tick, R.res_lift, R.res_reparse, ok_bind, h1, asKeyBytes, hpr, h2, h3, hsk, hv, h4, hpk, h5, h6]
    simp

end Mpgs.Serial
