import MpgsModel.Lemmas.AuthTrunc
/-!
Base64 damage: replacing one alphabet character of an encoding by a byte outside the alphabet
(other than `=`) always makes the lenient decoder fail — the character count of the last quad no
longer fits the padding.
-/
namespace Mpgs.Auth

/-- number of alphabet characters -/
def alnum : Bytes → Nat
  | [] => 0
  | c :: cs => (if (sextet c).isSome then 1 else 0) + alnum cs

/-- the three possible paddings -/
inductive Padding | none | one | two
def Padding.bytes : Padding → Bytes
  | .none => []
  | .one => [padChar]
  | .two => [padChar, padChar]

/-- state/padding combinations at which the decoder fails when the pad-free part is exhausted -/
def failsAt (q : Nat) : Padding → Prop
  | .none => q ≠ 0
  | .one => q = 1 ∨ q = 2
  | .two => q = 1

theorem a2b_end_fails (q left : Nat) (s : Padding) (hq : q ≤ 3) (hf : failsAt q s) :
    a2b q left 0 s.bytes = .error .binasciiError := by
  have : q = 0 ∨ q = 1 ∨ q = 2 ∨ q = 3 := by omega
  cases s <;> simp only [failsAt] at hf <;> rcases this with rfl | rfl | rfl | rfl <;>
    simp_all [Padding.bytes, a2b]

/-- pad-free text followed by a padding: the decoder fails when the number of alphabet characters
leaves the quad in a state the padding cannot close -/
theorem a2b_count_fails (t : Bytes) (q left : Nat) (s : Padding) (hq : q ≤ 3)
    (ht : ∀ c ∈ t, c ≠ padChar) (hf : failsAt ((q + alnum t) % 4) s) :
    a2b q left 0 (t ++ s.bytes) = .error .binasciiError := by
  induction t generalizing q left with
  | nil =>
    simp only [alnum, Nat.add_zero] at hf
    rw [Nat.mod_eq_of_lt (by omega)] at hf
    exact a2b_end_fails q left s hq hf
  | cons c t ih =>
    have hc : c ≠ padChar := ht c (by simp)
    have ht' : ∀ c ∈ t, c ≠ padChar := fun x hx => ht x (by simp [hx])
    simp only [List.cons_append]
    rw [a2b]
    simp only [hc, if_false]
    cases hs : sextet c with
    | none =>
      simp only [alnum, hs, Option.isSome_none] at hf
      simp only
      exact ih q left hq ht' (by simpa using hf)
    | some v =>
      simp only [alnum, hs, Option.isSome_some, if_true] at hf
      simp only
      have : q = 0 ∨ q = 1 ∨ q = 2 ∨ q = 3 := by omega
      rcases this with rfl | rfl | rfl | rfl
      · simp only [if_true]
        have e : (1 + alnum t) % 4 = (0 + (1 + alnum t)) % 4 := by omega
        exact ih 1 v (by omega) ht' (by rw [e]; exact hf)
      · simp only [show ¬ (1 = 0) by decide, if_false, if_true]
        have e : (2 + alnum t) % 4 = (1 + (1 + alnum t)) % 4 := by omega
        rw [ih 2 (v % 16) (by omega) ht' (by rw [e]; exact hf)]
        rfl
      · simp only [show ¬ (2 = 0) by decide, show ¬ (2 = 1) by decide, if_false, if_true]
        have e : (3 + alnum t) % 4 = (2 + (1 + alnum t)) % 4 := by omega
        rw [ih 3 (v % 4) (by omega) ht' (by rw [e]; exact hf)]
        rfl
      · simp only [show ¬ (3 = 0) by decide, show ¬ (3 = 1) by decide, show ¬ (3 = 2) by decide, if_false]
        have e : (0 + alnum t) % 4 = (3 + (1 + alnum t)) % 4 := by omega
        rw [ih 0 0 (by omega) ht' (by rw [e]; exact hf)]
        rfl

/-- an alphabet-only text: every byte is an alphabet character (hence not `=`) -/
def AllAlpha (t : Bytes) : Prop := ∀ c ∈ t, (sextet c).isSome = true

theorem alnum_allAlpha (t : Bytes) (h : AllAlpha t) : alnum t = t.length := by
  induction t with
  | nil => rfl
  | cons c t ih =>
    have := h c (by simp)
    simp only [alnum, this, if_true, List.length_cons, ih (fun x hx => h x (by simp [hx]))]
    omega

theorem allAlpha_ne_pad (t : Bytes) (h : AllAlpha t) : ∀ c ∈ t, c ≠ padChar := by
  intro c hc heq
  have := h c hc
  rw [heq, sextet_pad] at this
  cases this

theorem sextet_encChar_isSome (n : Nat) (h : n < 64) : (sextet (encChar n)).isSome = true := by
  rw [sextet_encChar n h]; rfl

/-- shape of an encoding: an alphabet-only body whose length fits the padding that follows -/
theorem b64encode_shape (bs : Bytes) :
    ∃ body s, b64encode bs = body ++ Padding.bytes s ∧ AllAlpha body ∧
      (match s with
       | .none => body.length % 4 = 0
       | .one => body.length % 4 = 3
       | .two => body.length % 4 = 2) := by
  fun_induction b64encode bs with
  | case1 a b c rest ih =>
    have ha := a.toNat_lt; have hb := b.toNat_lt; have hc := c.toNat_lt
    obtain ⟨body, s, h1, h2, h3⟩ := ih
    refine ⟨_ :: _ :: _ :: _ :: body, s, by rw [h1]; rfl, ?_, ?_⟩
    · intro x hx
      simp only [List.mem_cons] at hx
      rcases hx with rfl | rfl | rfl | rfl | hx
      · exact sextet_encChar_isSome _ (by omega)
      · exact sextet_encChar_isSome _ (by omega)
      · exact sextet_encChar_isSome _ (by omega)
      · exact sextet_encChar_isSome _ (by omega)
      · exact h2 x hx
    · cases s <;> simp only [List.length_cons] at h3 ⊢ <;> omega
  | case2 a b =>
    have ha := a.toNat_lt; have hb := b.toNat_lt
    refine ⟨[_, _, _], .one, rfl, ?_, rfl⟩
    intro x hx
    simp only [List.mem_cons, List.not_mem_nil, or_false] at hx
    rcases hx with rfl | rfl | rfl
    · exact sextet_encChar_isSome _ (by omega)
    · exact sextet_encChar_isSome _ (by omega)
    · exact sextet_encChar_isSome _ (by omega)
  | case3 a =>
    have ha := a.toNat_lt
    refine ⟨[_, _], .two, rfl, ?_, rfl⟩
    intro x hx
    simp only [List.mem_cons, List.not_mem_nil, or_false] at hx
    rcases hx with rfl | rfl
    · exact sextet_encChar_isSome _ (by omega)
    · exact sextet_encChar_isSome _ (by omega)
  | case4 => exact ⟨[], .none, rfl, (fun x hx => by cases hx), rfl⟩

theorem padding_mem (s : Padding) : ∀ x ∈ s.bytes, x = padChar := by
  cases s <;> simp [Padding.bytes]

/-- **base64 damage**: an encoding in which the alphabet character at position `i` has been
replaced by a byte that is neither in the alphabet nor `=` does not decode -/
theorem b64decode_damaged (bs : Bytes) (i : Nat) (c : UInt8) (hc : sextet c = none) (hp : c ≠ padChar)
    (hi : i < (b64encode bs).length) (hx : (b64encode bs)[i] ≠ padChar) :
    b64decode ((b64encode bs).set i c) = .error .binasciiError := by
  obtain ⟨body, s, h1, h2, h3⟩ := b64encode_shape bs
  have hib : i < body.length := by
    apply Classical.byContradiction
    intro hge
    apply hx
    simp only [h1]
    rw [List.getElem_append_right (by omega)]
    exact padding_mem s _ (List.getElem_mem _)
  have hset : (b64encode bs).set i c = body.take i ++ c :: (body.drop (i + 1) ++ Padding.bytes s) := by
    rw [h1, List.set_append_left _ _ hib, List.set_eq_take_append_cons_drop, if_pos hib]
    simp
  unfold b64decode
  rw [hset, a2b_skip _ _ _ _ _ _ hp hc, ← List.append_assoc]
  have hall : AllAlpha (body.take i ++ body.drop (i + 1)) := by
    intro x hxm
    simp only [List.mem_append] at hxm
    rcases hxm with hxm | hxm
    · exact h2 x (List.mem_of_mem_take hxm)
    · exact h2 x (List.mem_of_mem_drop hxm)
  apply a2b_count_fails _ 0 0 s (by omega) (allAlpha_ne_pad _ hall)
  rw [alnum_allAlpha _ hall]
  have hl : (body.take i ++ body.drop (i + 1)).length = body.length - 1 := by
    simp only [List.length_append, List.length_take, List.length_drop]; omega
  rw [hl]
  cases s <;> simp only [failsAt] at h3 ⊢ <;> omega

theorem set_plain (x : Bytes) (i : Nat) (c : UInt8) (hcc : c ≠ colon) :
    ∀ y ∈ (b64encode x).set i c, y ≠ colon := by
  intro y hy
  rcases List.mem_or_eq_of_mem_set hy with h | h
  · exact (b64encode_plain _ y h).1
  · rw [h]; exact hcc

/-- a four-field `scrypt:1:` string whose parameter field, or whose data field behind a decodable
parameter field, is a damaged encoding: `binascii.Error` -/
theorem verify_damaged (kdf : Kdf) (sha : Bytes → Bytes) (pw : Bytes) (hs : PyStr) (f2 f3 x : Bytes)
    (i : Nat) (c : UInt8) (hc : sextet c = none) (hp : c ≠ padChar) (hcc : c ≠ colon)
    (henc : encodeUtf8 hs = .ok (kScrypt ++ colon :: (kOne ++ colon :: (f2 ++ colon :: f3))))
    (hi : i < (b64encode x).length) (hx : (b64encode x)[i] ≠ padChar)
    (hd : (f2 = (b64encode x).set i c ∧ ∀ y ∈ f3, y ≠ colon) ∨
          (f3 = (b64encode x).set i c ∧ ∃ params, f2 = b64encode params)) :
    verifyPassword kdf sha (.bytes pw) (.str hs) = .error .binasciiError := by
  have hdmg := b64decode_damaged x i c hc hp hi hx
  rcases hd with ⟨rfl, hf3⟩ | ⟨rfl, params, rfl⟩
  · have hsp : splitOn colon (kScrypt ++ colon :: (kOne ++ colon :: ((b64encode x).set i c ++ colon :: f3))) =
        [kScrypt, kOne, (b64encode x).set i c, f3] := by
      rw [splitOn_four]
      exact ⟨rfl, by decide, by decide, set_plain x i c hcc, hf3⟩
    simp [verifyPassword, verifyPrepare, henc, hsp, hdmg]
  · have hsp : splitOn colon (kScrypt ++ colon :: (kOne ++ colon :: (b64encode params ++ colon ::
        (b64encode x).set i c))) = [kScrypt, kOne, b64encode params, (b64encode x).set i c] := by
      rw [splitOn_four]
      exact ⟨rfl, by decide, by decide, fun y hy => (b64encode_plain _ y hy).1, set_plain x i c hcc⟩
    simp [verifyPassword, verifyPrepare, henc, hsp, hdmg, b64decode_b64encode]

end Mpgs.Auth
