import MpgsModel.Model.Router
/-
C16: the two regular expressions the *unrepaired* `patternToRegex` generated, as model terms, for the
witness theorems in Props/C16.lean; `s` turns a string literal into the model's `List Char`.
-/
namespace Mpgs.Router
open Mpgs.Regex

def s (x : String) : List Char := x.toList

/-- `^\/abc\/?(.+)\/?$` — what `/abc/:rest+` compiled to before fixes/C16-1.patch -/
def unpatchedPlus : Re :=
  .seq .bol (.seq (.seq (.chr '/') (litRe (s "abc")))
    (.seq (.seq (.opt (.chr '/')) (.grp 0 (.star .any true))) tailRe))

/-- `^\/a?\/?$` — what the literal part `a?` compiled to before fixes/C16-2.patch -/
def unescapedQuestion : Re :=
  .seq .bol (.seq (.seq (.chr '/') (.opt (.chr 'a'))) tailRe)

end Mpgs.Router
