import MpgsModel.Lemmas.AuthBase64
/-!
Helper lemmas for `Model/Auth.lean` beyond base64: `splitOn`, ASCII/UTF-8, the parameter block,
the shape of `hashPassword`'s output and of `verifyPrepare`.
-/
namespace Mpgs.Auth

/-! ### characters of an encoding -/

/-- ASCII and not the field separator -/
def Plain (c : UInt8) : Prop := c ≠ colon ∧ c.toNat < 128

theorem plain_encChar (n : Nat) (h : n < 64) : Plain (encChar n) :=
  ⟨encChar_ne_colon n h, encChar_ascii n h⟩

theorem plain_pad : Plain padChar := by unfold Plain; decide

theorem b64encode_plain (bs : Bytes) : ∀ c ∈ b64encode bs, Plain c := by
  fun_induction b64encode bs with
  | case1 a b c rest ih =>
    have ha := a.toNat_lt; have hb := b.toNat_lt; have hc := c.toNat_lt
    intro x hx
    simp only [List.mem_cons] at hx
    rcases hx with rfl | rfl | rfl | rfl | hx
    · exact plain_encChar _ (by omega)
    · exact plain_encChar _ (by omega)
    · exact plain_encChar _ (by omega)
    · exact plain_encChar _ (by omega)
    · exact ih x hx
  | case2 a b =>
    have ha := a.toNat_lt; have hb := b.toNat_lt
    intro x hx
    simp only [List.mem_cons, List.not_mem_nil, or_false] at hx
    rcases hx with rfl | rfl | rfl | rfl
    · exact plain_encChar _ (by omega)
    · exact plain_encChar _ (by omega)
    · exact plain_encChar _ (by omega)
    · exact plain_pad
  | case3 a =>
    have ha := a.toNat_lt
    intro x hx
    simp only [List.mem_cons, List.not_mem_nil, or_false] at hx
    rcases hx with rfl | rfl | rfl | rfl
    · exact plain_encChar _ (by omega)
    · exact plain_encChar _ (by omega)
    · exact plain_pad
    · exact plain_pad
  | case4 => intro x hx; cases hx

/-- `b64encode` is injective (from the round trip) -/
theorem b64encode_injective (a b : Bytes) (h : b64encode a = b64encode b) : a = b := by
  have h1 := b64decode_b64encode a
  rw [h, b64decode_b64encode] at h1
  cases h1; rfl

/-! ### `splitOn` -/

theorem splitOn_ne_nil (sep : UInt8) (s : Bytes) : splitOn sep s ≠ [] := by
  cases s with
  | nil => simp [splitOn]
  | cons c cs =>
    simp only [splitOn]
    split
    · simp
    · split <;> simp

/-- a separator-free string is one field -/
theorem splitOn_nosep (sep : UInt8) (a : Bytes) (h : ∀ c ∈ a, c ≠ sep) : splitOn sep a = [a] := by
  induction a with
  | nil => rfl
  | cons c cs ih =>
    have hc : c ≠ sep := h c (by simp)
    have := ih (fun x hx => h x (by simp [hx]))
    simp [splitOn, hc, this]

/-- a separator-free prefix followed by the separator is the first field -/
theorem splitOn_append (sep : UInt8) (a rest : Bytes) (h : ∀ c ∈ a, c ≠ sep) :
    splitOn sep (a ++ sep :: rest) = a :: splitOn sep rest := by
  induction a with
  | nil => simp [splitOn]
  | cons c cs ih =>
    have hc : c ≠ sep := h c (by simp)
    have := ih (fun x hx => h x (by simp [hx]))
    simp [splitOn, hc, this]

/-- joining the fields with the separator gives the string back -/
def joinSep (sep : UInt8) : List Bytes → Bytes
  | [] => []
  | [a] => a
  | a :: b :: rest => a ++ sep :: joinSep sep (b :: rest)

theorem joinSep_splitOn (sep : UInt8) (s : Bytes) : joinSep sep (splitOn sep s) = s := by
  induction s with
  | nil => rfl
  | cons c cs ih =>
    simp only [splitOn]
    split
    · rename_i h
      subst h
      cases hsp : splitOn c cs with
      | nil => exact absurd hsp (splitOn_ne_nil _ _)
      | cons p ps => rw [hsp] at ih; simp [joinSep, ih]
    · cases hsp : splitOn sep cs with
      | nil => exact absurd hsp (splitOn_ne_nil _ _)
      | cons p ps =>
        rw [hsp] at ih
        cases ps with
        | nil => simp [joinSep] at ih ⊢; exact ih
        | cons p2 ps2 => simp [joinSep] at ih ⊢; exact ih

theorem splitOn_fields_nosep (sep : UInt8) (s : Bytes) : ∀ f ∈ splitOn sep s, ∀ c ∈ f, c ≠ sep := by
  induction s with
  | nil => intro f hf; simp [splitOn] at hf; subst hf; simp
  | cons c cs ih =>
    simp only [splitOn]
    split
    · intro f hf
      simp only [List.mem_cons] at hf
      rcases hf with rfl | hf
      · simp
      · exact ih f hf
    · rename_i hc
      cases hsp : splitOn sep cs with
      | nil => exact absurd hsp (splitOn_ne_nil _ _)
      | cons p ps =>
        rw [hsp] at ih
        intro f hf
        simp only [List.mem_cons] at hf
        rcases hf with rfl | hf
        · intro x hx
          simp only [List.mem_cons] at hx
          rcases hx with rfl | hx
          · exact hc
          · exact ih p (by simp) x hx
        · exact ih f (by simp [hf])

/-! ### ASCII text -/

theorem decodeAscii_ok (bs : Bytes) (h : ∀ c ∈ bs, c.toNat < 128) :
    ∃ s, decodeAscii bs = .ok s ∧ encodeUtf8 s = .ok bs := by
  induction bs with
  | nil => exact ⟨[], rfl, rfl⟩
  | cons b bs ih =>
    obtain ⟨s, h1, h2⟩ := ih (fun x hx => h x (by simp [hx]))
    have hb : b.toNat < 128 := h b (by simp)
    refine ⟨⟨b.toNat, by omega⟩ :: s, ?_, ?_⟩
    · simp [decodeAscii, hb, h1, Except.map]
    · simp [encodeUtf8, hb, h2, Except.map]

/-! ### parameter block -/

theorem unpack_pack (P : Params) (bs : Bytes) (h : packParams P = .ok bs) : unpackParams bs = .ok P := by
  unfold packParams at h
  split at h
  · rename_i hr
    cases h
    obtain ⟨h1, h2, h3, h4, h5⟩ := hr
    obtain ⟨N, r, p, s, l⟩ := P
    simp only at h1 h2 h3 h4 h5
    simp only [unpackParams, UInt8.toNat_ofNat']
    congr 2 <;> omega
  · cases h

theorem unpack_length (bs : Bytes) (P : Params) (h : unpackParams bs = .ok P) : bs.length = 6 := by
  unfold unpackParams at h
  split at h
  · rfl
  · cases h

theorem defaultParams_packed :
    packParams ⟨defaultN, defaultR, defaultP, SALT_LENGTH, DIGEST_LENGTH⟩ = .ok [64, 0, 16, 1, 16, 24] := by
  rfl

theorem scryptInit_default : scryptInit defaultN defaultR defaultP = .ok () := by rfl

end Mpgs.Auth

namespace Mpgs.Auth

/-! ### which exception each step can raise -/

theorem map_error {α β : Type} (f : α → β) (x : Except Err α) (e : Err)
    (h : x.map f = .error e) : x = .error e := by
  cases x with
  | error e' => simp [Except.map] at h; rw [h]
  | ok a => simp [Except.map] at h

theorem map_ok {α β : Type} (f : α → β) (x : Except Err α) (b : β)
    (h : x.map f = .ok b) : ∃ a, x = .ok a ∧ f a = b := by
  cases x with
  | error e' => simp [Except.map] at h
  | ok a => simp [Except.map] at h; exact ⟨a, rfl, h⟩

theorem encodeUtf8_err (s : PyStr) (e : Err) (h : encodeUtf8 s = .error e) :
    e = .unicodeEncodeError := by
  induction s with
  | nil => simp [encodeUtf8] at h
  | cons c cs ih =>
    simp only [encodeUtf8] at h
    split at h
    · exact ih (map_error _ _ _ h)
    · split at h
      · exact ih (map_error _ _ _ h)
      · split at h
        · cases h; rfl
        · split at h
          · exact ih (map_error _ _ _ h)
          · exact ih (map_error _ _ _ h)

theorem a2b_err (q left pads : Nat) (s : Bytes) (e : Err) (h : a2b q left pads s = .error e) :
    e = .binasciiError := by
  induction s generalizing q left pads with
  | nil =>
    simp only [a2b] at h
    split at h
    · cases h
    · cases h; rfl
  | cons c cs ih =>
    rw [a2b] at h
    split at h
    · split at h
      · split at h
        · cases h
        · exact ih _ _ _ h
      · exact ih _ _ _ h
    · split at h
      · exact ih _ _ _ h
      · split at h
        · exact ih _ _ _ h
        · split at h
          · exact ih _ _ _ (map_error _ _ _ h)
          · split at h
            · exact ih _ _ _ (map_error _ _ _ h)
            · exact ih _ _ _ (map_error _ _ _ h)

theorem b64decode_err (s : Bytes) (e : Err) (h : b64decode s = .error e) : e = .binasciiError :=
  a2b_err 0 0 0 s e h

theorem unpack_err (bs : Bytes) (e : Err) (h : unpackParams bs = .error e) : e = .structError := by
  unfold unpackParams at h
  split at h
  · cases h
  · cases h; rfl

theorem scryptInit_err (N r p : Nat) (e : Err) (h : scryptInit N r p = .error e) : e = .valueError := by
  unfold scryptInit at h
  repeat' split at h
  all_goals cases h
  all_goals rfl

theorem scryptVerify_err (kdf : Kdf) (q : Query) (e : Err) (h : scryptVerify kdf q = .error e) :
    e = .invalidKey := by
  unfold scryptVerify at h
  split at h
  · cases h
  · cases h; rfl

end Mpgs.Auth
