import MpgsModel.Lemmas.Live
import MpgsModel.Lemmas.C12Typed
import MpgsModel.Lemmas.Pack
import MpgsModel.Lemmas.LiveBuild
/-!
At-most-once for user callbacks (C07), as a potential argument over whole histories.

`pot u c` counts the places where the user callback `u` is held by the connection: as the callback
of a queued message, in a parked callback list, inside a `RetrySender` that has not reported, as
the user callback of a `FragmentSender` that has not reported.  Every operation satisfies
`pot u c' + fired u events ≤ pot u c + introduced u op`; hence over any history the number of
invocations of `u` is bounded by the number of sends that were given `u`.  With a typed queue, fresh
datagram numbers and no disconnect the inequality is an equality (conservation): nothing is lost.
-/
namespace Mpgs.Conn
open Mpgs.Bytes Mpgs.Wire

def isU (u : Nat) (cb : Option Cb) : Nat := if cb = some (.user u) then 1 else 0

def occOut (u : Nat) : List PMsg → Nat
  | [] => 0
  | m :: t => isU u m.cb + occOut u t

def cntU (u : Nat) : List Cb → Nat
  | [] => 0
  | cb :: t => isU u (some cb) + cntU u t

def occCbs (u : Nat) : List (Nat × List Cb) → Nat
  | [] => 0
  | x :: t => cntU u x.2 + occCbs u t

def heldR (u : Nat) (o : RetrySender) : Nat := if o.done then 0 else isU u o.inner

def occRetry (u : Nat) : List RetrySender → Nat
  | [] => 0
  | o :: t => heldR u o + occRetry u t

def heldF (u : Nat) (o : FragSender) : Nat :=
  if o.acks.all (fun a => a.isSome) then 0 else (if o.userCb = some u then 1 else 0)

def occFrag (u : Nat) : List FragSender → Nat
  | [] => 0
  | o :: t => heldF u o + occFrag u t

def pot (u : Nat) (c : Conn) : Nat :=
  occOut u c.outgoing + occCbs u c.pendingCbs + occRetry u c.retryObjs + occFrag u c.fragObjs

def firedE (u : Nat) (e : Event) : Nat :=
  match e with
  | .userCb id _ => if id = u then 1 else 0
  | _ => 0

def fired (u : Nat) : List Event → Nat
  | [] => 0
  | e :: t => firedE u e + fired u t

theorem occOut_append (u : Nat) (a b : List PMsg) : occOut u (a ++ b) = occOut u a + occOut u b := by
  induction a with
  | nil => simp [occOut]
  | cons m t ih => simp [occOut, ih, Nat.add_assoc]

theorem cntU_append (u : Nat) (a b : List Cb) : cntU u (a ++ b) = cntU u a + cntU u b := by
  induction a with
  | nil => simp [cntU]
  | cons m t ih => simp [cntU, ih, Nat.add_assoc]

theorem occRetry_append (u : Nat) (a b : List RetrySender) : occRetry u (a ++ b) = occRetry u a + occRetry u b := by
  induction a with
  | nil => simp [occRetry]
  | cons m t ih => simp [occRetry, ih, Nat.add_assoc]

theorem occFrag_append (u : Nat) (a b : List FragSender) : occFrag u (a ++ b) = occFrag u a + occFrag u b := by
  induction a with
  | nil => simp [occFrag]
  | cons m t ih => simp [occFrag, ih, Nat.add_assoc]

theorem fired_append (u : Nat) (a b : List Event) : fired u (a ++ b) = fired u a + fired u b := by
  induction a with
  | nil => simp [fired]
  | cons m t ih => simp [fired, ih, Nat.add_assoc]

/-- replacing an object: the count changes by the difference of the two objects' terms -/
theorem occRetry_setObj (u : Nat) (l : List RetrySender) (i : Nat) (o v : RetrySender) (h : l[i]? = some o) :
    occRetry u (setObj l i v) + heldR u o = occRetry u l + heldR u v := by
  induction l generalizing i with
  | nil => simp at h
  | cons a t ih =>
    cases i with
    | zero =>
      simp at h; subst h
      simp only [setObj, occRetry]; omega
    | succ i =>
      simp at h
      simp only [setObj, occRetry]
      have := ih i h
      omega

theorem occFrag_setObj (u : Nat) (l : List FragSender) (i : Nat) (o v : FragSender) (h : l[i]? = some o) :
    occFrag u (setObj l i v) + heldF u o = occFrag u l + heldF u v := by
  induction l generalizing i with
  | nil => simp at h
  | cons a t ih =>
    cases i with
    | zero =>
      simp at h; subst h
      simp only [setObj, occFrag]; omega
    | succ i =>
      simp at h
      simp only [setObj, occFrag]
      have := ih i h
      omega

/-- removing the entry `aget` finds -/
theorem occCbs_adel (u : Nat) (l : List (Nat × List Cb)) (s : Nat) (cbs : List Cb) (h : aget l s = some cbs) :
    occCbs u (adel l s) + cntU u cbs = occCbs u l := by
  induction l with
  | nil => simp [aget] at h
  | cons x t ih =>
    obtain ⟨k, v⟩ := x
    simp only [aget] at h
    simp only [adel]
    by_cases hk : k = s
    · simp only [hk, if_true] at h ⊢
      cases h
      simp only [occCbs]; omega
    · simp only [hk, if_false] at h ⊢
      simp only [occCbs]
      have := ih h
      omega

theorem occCbs_adel_le (u : Nat) (l : List (Nat × List Cb)) (s : Nat) : occCbs u (adel l s) ≤ occCbs u l := by
  induction l with
  | nil => simp [adel]
  | cons x t ih =>
    obtain ⟨k, v⟩ := x
    simp only [adel]
    split
    · simp only [occCbs]; omega
    · simp only [occCbs]; omega

theorem occCbs_aset_le (u : Nat) (l : List (Nat × List Cb)) (s : Nat) (cbs : List Cb) :
    occCbs u (aset l s cbs) ≤ occCbs u l + cntU u cbs := by
  induction l with
  | nil => simp [aset, occCbs]
  | cons x t ih =>
    obtain ⟨k, v⟩ := x
    simp only [aset]
    split
    · simp only [occCbs]; omega
    · simp only [occCbs]; omega

/-! ### the invariant that keeps direct holders unique -/

/-- `u` is not the direct callback of a message that is re-sent on the keep-alive interval
(BEST_EFFORT sends are outside the exactly-once statement) -/
def Direct0 (u : Nat) (c : Conn) : Prop :=
  (∀ x ∈ c.pendingRetryMsg, x.2.cb ≠ some (.user u)) ∧
  (∀ m ∈ c.outgoing, m.cb = some (.user u) → m.retry = 0)

theorem isU_retry (u rid : Nat) : isU u (some (Cb.retry rid)) = 0 := by simp [isU]
theorem isU_frag (u a b : Nat) : isU u (some (Cb.frag a b)) = 0 := by simp [isU]

theorem pot_sendType (u : Nat) (c : Conn) (ty : PType) (p : Bytes) (r : Int) (cb : Option Cb) :
    pot u (sendType c ty p r cb) = pot u c + isU u cb := by
  unfold sendType pot
  simp only
  split
  · simp only [occOut_append, occRetry_append, occOut, occRetry, heldR, isU_retry]
    simp
    omega
  · simp only [occOut_append, occOut]
    omega

theorem direct0_sendType (u : Nat) (c : Conn) (ty : PType) (p : Bytes) (r : Int) (cb : Option Cb)
    (hd : Direct0 u c) (hcb : cb = some (.user u) → r = 0 ∨ r = -1) : Direct0 u (sendType c ty p r cb) := by
  unfold sendType
  simp only
  refine ⟨hd.1, ?_⟩
  intro m hm hmu
  rcases List.mem_append.mp hm with h | h
  · exact hd.2 m h hmu
  · simp only [List.mem_singleton] at h
    subst h
    by_cases hr : r = -1
    · simp [hr] at hmu
    · simp only [hr, if_false] at hmu ⊢
      rcases hcb hmu with h0 | h1
      · exact h0
      · exact absurd h1 hr

/-! ### callbacks -/

theorem pot_runLeaf (u : Nat) (c : Conn) (cb : Cb) (v : Bool) (hd : Direct0 u c) :
    pot u (runLeaf c cb v).1 + fired u (runLeaf c cb v).2 = pot u c + isU u (some cb) ∧
    Direct0 u (runLeaf c cb v).1 := by
  cases cb with
  | user id =>
    refine ⟨?_, hd⟩
    simp only [runLeaf, fired, firedE, isU]
    by_cases h : id = u
    · simp [h]
    · have : ¬ (some (Cb.user id) = some (Cb.user u)) := by
        intro e; injection e with e; injection e with e; exact h e
      simp [h, this]
  | retry rid => exact ⟨by simp [runLeaf, fired, isU], hd⟩
  | helloTimeout => exact ⟨by simp [runLeaf, fired, isU], hd⟩
  | challengeTimeout => exact ⟨by simp [runLeaf, fired, isU], hd⟩
  | clientDisconnect => exact ⟨by simp [runLeaf, fired, firedE, isU], hd⟩
  | frag fid idx =>
    simp only [runLeaf]
    cases hf : c.fragObjs[fid]? with
    | none => exact ⟨by simp [fired, isU], hd⟩
    | some obj =>
      simp only
      cases ha : obj.acks[idx]? with
      | none => exact ⟨by simp [fired, isU], hd⟩
      | some a =>
        cases a with
        | some b => exact ⟨by simp [fired, isU], hd⟩
        | none =>
          simp only
          split
          · refine ⟨?_, direct0_sendType u c _ _ _ _ hd (by intro h; cases h)⟩
            simp only [pot_sendType, fired, isU_frag]
          · -- the slot is resolved; the user callback fires when it was the last one
            have hnot : (obj.acks.all (fun a => a.isSome)) = false := by
              apply Bool.eq_false_iff.mpr
              intro hall
              rw [List.all_eq_true] at hall
              have hm : (none : Option Bool) ∈ obj.acks := List.mem_of_getElem? ha
              have := hall none hm
              simp at this
            have hold : heldF u obj = (if obj.userCb = some u then 1 else 0) := by
              simp [heldF, hnot]
            have hset := occFrag_setObj u c.fragObjs fid obj { obj with acks := setAck obj.acks idx v } hf
            have hg := isU_frag u fid idx
            rw [hold] at hset
            split
            · rename_i hall
              have hnew : heldF u { obj with acks := setAck obj.acks idx v } = 0 := by
                simp [heldF, hall]
              rw [hnew] at hset
              split
              · rename_i id heq
                have hite : (if obj.userCb = some u then 1 else 0) = (if id = u then 1 else 0) := by
                  rw [heq]
                  by_cases hid : id = u
                  · simp [hid]
                  · have : ¬ (some id = some u) := fun e => hid (Option.some.inj e)
                    simp [hid, this]
                rw [hite] at hset
                refine ⟨?_, hd⟩
                simp only [pot, fired, firedE]
                omega
              · rename_i heq
                have hite : (if obj.userCb = some u then 1 else 0) = 0 := by
                  rw [heq]; simp
                rw [hite] at hset
                refine ⟨?_, hd⟩
                simp only [pot, fired]
                omega
            · rename_i hall
              have hnew : heldF u { obj with acks := setAck obj.acks idx v } = (if obj.userCb = some u then 1 else 0) := by
                simp [heldF, hall]
              rw [hnew] at hset
              refine ⟨?_, hd⟩
              simp only [pot, fired]
              omega

theorem pot_runCb (u : Nat) (c : Conn) (cb : Cb) (v : Bool) (hd : Direct0 u c) :
    pot u (runCb c cb v).1 + fired u (runCb c cb v).2 = pot u c + isU u (some cb) ∧
    Direct0 u (runCb c cb v).1 := by
  cases cb with
  | user id => simp only [runCb]; exact pot_runLeaf u c _ v hd
  | frag fid idx => simp only [runCb]; exact pot_runLeaf u c _ v hd
  | helloTimeout => simp only [runCb]; exact pot_runLeaf u c _ v hd
  | challengeTimeout => simp only [runCb]; exact pot_runLeaf u c _ v hd
  | clientDisconnect => simp only [runCb]; exact pot_runLeaf u c _ v hd
  | retry rid =>
    simp only [runCb]
    cases ho : c.retryObjs[rid]? with
    | none => exact ⟨by simp [fired, isU], hd⟩
    | some obj =>
      simp only
      split
      · exact ⟨by simp [fired, isU], hd⟩
      · rename_i hdone
        split
        · -- failure: re-queued under the sender object itself
          refine ⟨?_, hd.1, ?_⟩
          · simp only [pot, occOut_append, occOut, isU_retry, fired]; omega
          · intro m hm hmu
            rcases List.mem_append.mp hm with h | h
            · exact hd.2 m h hmu
            · simp only [List.mem_singleton] at h
              subst h
              simp at hmu
        · -- success: marked done, then the wrapped callback runs
          have hset := occRetry_setObj u c.retryObjs rid obj { obj with done := true } ho
          have h1 : heldR u obj = isU u obj.inner := by simp [heldR, hdone]
          have h2 : heldR u { obj with done := true } = 0 := by simp [heldR]
          rw [h1, h2] at hset
          have hd1 : Direct0 u { c with retryObjs := setObj c.retryObjs rid { obj with done := true } } := hd
          split
          · rename_i inner heq
            have hl := pot_runLeaf u { c with retryObjs := setObj c.retryObjs rid { obj with done := true } } inner true hd1
            refine ⟨?_, hl.2⟩
            have hp : pot u { c with retryObjs := setObj c.retryObjs rid { obj with done := true } } + isU u obj.inner = pot u c := by
              simp only [pot]; omega
            have hi : isU u obj.inner = isU u (some inner) := by rw [heq]
            rw [hi] at hp
            have := hl.1
            simp only [isU_retry]
            omega
          · rename_i heq
            refine ⟨?_, hd1⟩
            have hi : isU u obj.inner = 0 := by rw [heq]; simp [isU]
            rw [hi] at hset
            simp only [pot, fired, isU_retry]
            omega

def cntAll (u : Nat) (cbs : List Cb) : Nat := cntU u cbs

theorem pot_runCbs (u : Nat) (c : Conn) (cbs : List Cb) (v : Bool) (hd : Direct0 u c) :
    pot u (runCbs c cbs v).1 + fired u (runCbs c cbs v).2 = pot u c + cntU u cbs ∧
    Direct0 u (runCbs c cbs v).1 := by
  induction cbs generalizing c with
  | nil => exact ⟨by simp [runCbs, fired, cntU], hd⟩
  | cons cb rest ih =>
    simp only [runCbs, cntU]
    have h1 := pot_runCb u c cb v hd
    have h2 := ih (runCb c cb v).1 h1.2
    refine ⟨?_, h2.2⟩
    simp only [fired_append]
    omega

/-- `Direct0` and `pot` only read five fields -/
theorem pot_congr {u : Nat} {c c' : Conn} (h1 : c'.outgoing = c.outgoing) (h2 : c'.pendingCbs = c.pendingCbs)
    (h3 : c'.retryObjs = c.retryObjs) (h4 : c'.fragObjs = c.fragObjs) : pot u c' = pot u c := by
  unfold pot; rw [h1, h2, h3, h4]

theorem direct0_congr {u : Nat} {c c' : Conn} (h1 : c'.outgoing = c.outgoing)
    (h2 : c'.pendingRetryMsg = c.pendingRetryMsg) (hd : Direct0 u c) : Direct0 u c' := by
  unfold Direct0 at *; rw [h1, h2]; exact hd

theorem mem_clearRetry (prm : List (Nat × PMsg)) (ks : List Nat) (x : Nat × PMsg) (h : x ∈ clearRetry prm ks) : x ∈ prm := by
  induction ks generalizing prm with
  | nil => exact h
  | cons k ks ih =>
    have := ih (adel prm k) h
    clear ih h
    induction prm with
    | nil => simp [adel] at this
    | cons a t ih2 =>
      obtain ⟨a1, a2⟩ := a
      simp only [adel] at this
      split at this
      · exact List.mem_cons_of_mem _ this
      · rcases List.mem_cons.mp this with e | e
        · rw [e]; exact List.mem_cons_self ..
        · exact List.mem_cons_of_mem _ (ih2 e)

theorem pot_resolve (u : Nat) (c : Conn) (s : Nat) (ok : Bool) (hd : Direct0 u c) :
    pot u (resolve c s ok).1 + fired u (resolve c s ok).2 = pot u c ∧ Direct0 u (resolve c s ok).1 := by
  unfold resolve
  simp only
  have hp0 : pot u (if ok = true then { c with acked := c.acked + 1 } else { c with timeouts := c.timeouts + 1 }) = pot u c := by
    split <;> rfl
  have hd0 : Direct0 u (if ok = true then { c with acked := c.acked + 1 } else { c with timeouts := c.timeouts + 1 }) := by
    split <;> exact hd
  generalize (if ok = true then { c with acked := c.acked + 1 } else { c with timeouts := c.timeouts + 1 }) = c0 at *
  rw [← hp0]
  cases hcb : aget c0.pendingCbs s with
  | none =>
    simp only [fired, firedE, Nat.zero_add]
    cases hr : aget c0.pendingRetry s with
    | none => exact ⟨by simp [pot, fired], hd0⟩
    | some ms =>
      refine ⟨by simp [pot, fired], hd0.1 |> fun h => ?_⟩
      exact ⟨fun x hx => h x (mem_clearRetry _ _ x hx), hd0.2⟩
  | some cbs =>
    simp only
    have hrun := pot_runCbs u c0 cbs ok hd0
    have hext := ext_runCbs c0 cbs ok
    generalize runCbs c0 cbs ok = r at *
    obtain ⟨c', ev⟩ := r
    simp only at hrun hext ⊢
    have hdel := occCbs_adel u c0.pendingCbs s cbs hcb
    have hcbs : c'.pendingCbs = c0.pendingCbs := hext.cbs
    have hpot : pot u { c' with pendingCbs := adel c'.pendingCbs s } + cntU u cbs = pot u c' := by
      simp only [pot, hcbs]; omega
    have hdir : Direct0 u { c' with pendingCbs := adel c'.pendingCbs s } := hrun.2
    cases hr : aget c'.pendingRetry s with
    | none =>
      refine ⟨?_, hdir⟩
      simp only [fired, firedE, Nat.zero_add]
      have : pot u ({ ({ c' with pendingCbs := adel c'.pendingCbs s } : Conn) with pendingAcks := adel c'.pendingAcks s }) = pot u { c' with pendingCbs := adel c'.pendingCbs s } := rfl
      rw [this]; omega
    | some ms =>
      refine ⟨?_, ⟨fun x hx => hdir.1 x (mem_clearRetry _ _ x hx), hdir.2⟩⟩
      simp only [fired, firedE, Nat.zero_add]
      have : pot u ({ ({ c' with pendingCbs := adel c'.pendingCbs s, pendingRetryMsg := clearRetry c'.pendingRetryMsg ms, pendingRetry := adel c'.pendingRetry s } : Conn) with pendingAcks := adel c'.pendingAcks s }) = pot u { c' with pendingCbs := adel c'.pendingCbs s } := rfl
      rw [this]; omega

/-! ### the loops over `resolve` -/

theorem pot_checkTimeoutKeys (u : Nat) (c : Conn) (t : Int) (ks : List Nat) (hd : Direct0 u c) :
    pot u (checkTimeoutKeys c t ks).1 + fired u (checkTimeoutKeys c t ks).2 = pot u c ∧
    Direct0 u (checkTimeoutKeys c t ks).1 := by
  induction ks generalizing c with
  | nil => exact ⟨by simp [checkTimeoutKeys, fired], hd⟩
  | cons s ks ih =>
    simp only [checkTimeoutKeys]
    split
    · exact ih c hd
    · split
      · have h1 := pot_resolve u c s false hd
        have h2 := ih (resolve c s false).1 h1.2
        refine ⟨?_, h2.2⟩
        simp only [fired_append]; omega
      · exact ih c hd

theorem pot_handleAckKeys (u : Nat) (c : Conn) (a b : Nat) (ks : List Nat) (hd : Direct0 u c) :
    pot u (handleAckKeys c a b ks).1 + fired u (handleAckKeys c a b ks).2 = pot u c ∧
    Direct0 u (handleAckKeys c a b ks).1 := by
  induction ks generalizing c with
  | nil => exact ⟨by simp [handleAckKeys, fired], hd⟩
  | cons s ks ih =>
    simp only [handleAckKeys]
    split
    · exact ih c hd
    · split
      · have h1 := pot_resolve u c s true hd
        have h2 := ih (resolve c s true).1 h1.2
        refine ⟨?_, h2.2⟩
        simp only [fired_append]; omega
      · split
        · have h1 := pot_resolve u c s false hd
          have h2 := ih (resolve c s false).1 h1.2
          refine ⟨?_, h2.2⟩
          simp only [fired_append]; omega
        · exact ih c hd

/-! ### building a packet -/

theorem occOut_perm (u : Nat) {a b : List PMsg} (h : a.Perm b) : occOut u a = occOut u b := by
  induction h with
  | nil => rfl
  | cons x _ ih => simp [occOut, ih]
  | swap x y l => simp only [occOut]; omega
  | trans _ _ ih1 ih2 => rw [ih1, ih2]

theorem occOut_zero (u : Nat) (l : List PMsg) (h : ∀ m ∈ l, m.cb ≠ some (.user u)) : occOut u l = 0 := by
  induction l with
  | nil => rfl
  | cons m t ih =>
    simp only [occOut]
    have h1 : isU u m.cb = 0 := by simp [isU, h m (List.mem_cons_self ..)]
    rw [h1, ih (fun x hx => h x (List.mem_cons_of_mem _ hx))]

theorem packResend_from (P : PMsg → Prop) (sz : Sizes) (t delay : Int) (items : List (Nat × PMsg)) (p : Pack)
    (prm : List (Nat × PMsg)) (hi : ∀ x ∈ items, P x.2) (hp : ∀ m ∈ p.msgs, P m) :
    (∀ m ∈ (packResend sz t delay items p prm).1.msgs, P m) ∧
    (∀ x ∈ (packResend sz t delay items p prm).2, x ∈ prm) := by
  induction items generalizing p prm with
  | nil => exact ⟨hp, fun x h => h⟩
  | cons a items ih =>
    obtain ⟨ms, m⟩ := a
    have hi' : ∀ x ∈ items, P x.2 := fun x hx => hi x (List.mem_cons_of_mem _ hx)
    simp only [packResend]
    split
    · exact ih p prm hi' hp
    · split
      · have := ih (p.add m) (adel prm ms) hi' (by
          intro m' hm'
          simp only [Pack.add, List.mem_append, List.mem_singleton] at hm'
          rcases hm' with h | h
          · exact hp m' h
          · rw [h]; exact hi (ms, m) (List.mem_cons_self ..))
        exact ⟨this.1, fun x hx => t_mem_adel prm ms x (this.2 x hx)⟩
      · exact ih p prm hi' hp

theorem registerMsgs_cnt (u : Nat) (t : Int) (msgs : List PMsg) (prm : List (Nat × PMsg)) (cbs : List Cb) (rts : List Nat) :
    cntU u (registerMsgs t msgs prm cbs rts).2.1 = cntU u cbs + occOut u msgs := by
  induction msgs generalizing prm cbs rts with
  | nil => simp [registerMsgs, occOut]
  | cons m rest ih =>
    simp only [registerMsgs, occOut]
    cases hcb : m.cb with
    | none =>
      have h0 : isU u (none : Option Cb) = 0 := by simp [isU]
      simp only [h0]
      split
      · rw [ih]; omega
      · rw [ih]; omega
    | some cb =>
      simp only
      split
      · rw [ih, cntU_append]; simp only [cntU]; omega
      · rw [ih, cntU_append]; simp only [cntU]; omega

theorem registerMsgs_prm (P : PMsg → Prop) (t : Int) (msgs : List PMsg) (prm : List (Nat × PMsg)) (cbs : List Cb)
    (rts : List Nat) (hp : ∀ x ∈ prm, P x.2) (hm : ∀ m ∈ msgs, m.retry ≠ 0 → P { m with assembled := t }) :
    ∀ x ∈ (registerMsgs t msgs prm cbs rts).1, P x.2 := by
  induction msgs generalizing prm cbs rts with
  | nil => exact hp
  | cons m rest ih =>
    simp only [registerMsgs]
    have hm' : ∀ m' ∈ rest, m'.retry ≠ 0 → P { m' with assembled := t } := fun m' h => hm m' (List.mem_cons_of_mem _ h)
    split
    · rename_i hr
      apply ih _ _ _ _ hm'
      intro x hx
      rcases t_mem_aset prm m.seq _ x hx with h | h
      · exact hp x h
      · rw [h]; exact hm m (List.mem_cons_self ..) hr
    · exact ih _ _ _ hp hm'

theorem pot_buildPacketImpl (u : Nat) (sz : Sizes) (c : Conn) (t : Int) (ska : Bool) (delay : Int) (hd : Direct0 u c) :
    pot u (buildPacketImpl sz c t ska delay).1 ≤ pot u c ∧ Direct0 u (buildPacketImpl sz c t ska delay).1 := by
  -- what the two packing loops do to the queue
  have hres := packResend_from (fun m => m.cb ≠ some (.user u)) sz t delay (sortBySeq c.pendingRetryMsg) {} c.pendingRetryMsg
    (fun x hx => hd.1 x (t_mem_sortBySeq _ x hx)) (by intro m hm; simp at hm)
  obtain ⟨taken, htk, hperm⟩ := packNew_perm sz c.outgoing (packResend sz t delay (sortBySeq c.pendingRetryMsg) {} c.pendingRetryMsg).1
  have hmsgs : (packAll sz c t delay).1.msgs = (packResend sz t delay (sortBySeq c.pendingRetryMsg) {} c.pendingRetryMsg).1.msgs ++ taken := htk
  have hkept : (packAll sz c t delay).2.2 = (packNew sz c.outgoing (packResend sz t delay (sortBySeq c.pendingRetryMsg) {} c.pendingRetryMsg).1).2 := rfl
  have hprm : (packAll sz c t delay).2.1 = (packResend sz t delay (sortBySeq c.pendingRetryMsg) {} c.pendingRetryMsg).2 := rfl
  have hsplit : occOut u c.outgoing = occOut u taken + occOut u (packAll sz c t delay).2.2 := by
    rw [hkept, ← occOut_append]; exact (occOut_perm u hperm).symm
  have hzero : occOut u (packResend sz t delay (sortBySeq c.pendingRetryMsg) {} c.pendingRetryMsg).1.msgs = 0 :=
    occOut_zero u _ hres.1
  have hcnt : occOut u (packAll sz c t delay).1.msgs = occOut u taken := by
    rw [hmsgs, occOut_append, hzero]; omega
  have htaken_mem : ∀ m ∈ taken, m ∈ c.outgoing := fun m hm => hperm.mem_iff.mp (List.mem_append_left _ hm)
  have hkept_mem : ∀ m ∈ (packAll sz c t delay).2.2, m ∈ c.outgoing := by
    intro m hm; rw [hkept] at hm; exact hperm.mem_iff.mp (List.mem_append_right _ hm)
  have hprm_mem : ∀ x ∈ (packAll sz c t delay).2.1, x.2.cb ≠ some (.user u) := by
    intro x hx; rw [hprm] at hx; exact hd.1 x (hres.2 x hx)
  have hd1 : Direct0 u { c with pendingRetryMsg := (packAll sz c t delay).2.1, outgoing := (packAll sz c t delay).2.2 } :=
    ⟨hprm_mem, fun m hm => hd.2 m (hkept_mem m hm)⟩
  unfold buildPacketImpl
  simp only
  split
  · refine ⟨?_, hd1⟩
    simp only [pot]; omega
  · -- a packet is registered
    have hreg_cnt := registerMsgs_cnt u t (packAll sz c t delay).1.msgs (packAll sz c t delay).2.1 [] []
    have hreg_prm := registerMsgs_prm (fun m => m.cb ≠ some (.user u)) t (packAll sz c t delay).1.msgs (packAll sz c t delay).2.1 [] []
      hprm_mem (by
        intro m hm hr
        rw [hmsgs] at hm
        rcases List.mem_append.mp hm with h | h
        · exact hres.1 m h
        · intro hcb
          exact hr (hd.2 m (htaken_mem m h) hcb))
    have hpot : pot u (registerPacket { c with pendingRetryMsg := (packAll sz c t delay).2.1, outgoing := (packAll sz c t delay).2.2 } t (packAll sz c t delay).1.msgs) ≤ pot u c := by
      unfold registerPacket
      simp only [pot]
      have hle := occCbs_aset_le u c.pendingCbs (seqInc c.seqSending) (registerMsgs t (packAll sz c t delay).1.msgs (packAll sz c t delay).2.1 [] []).2.1
      simp only [cntU, Nat.zero_add] at hreg_cnt
      split <;> omega
    have hdir : Direct0 u (registerPacket { c with pendingRetryMsg := (packAll sz c t delay).2.1, outgoing := (packAll sz c t delay).2.2 } t (packAll sz c t delay).1.msgs) :=
      ⟨hreg_prm, hd1.2⟩
    split
    · exact ⟨hpot, hdir⟩
    · exact ⟨hpot, hdir⟩

theorem pot_buildPacket (u : Nat) (sz : Sizes) (c : Conn) (t : Int) (hd : Direct0 u c) :
    pot u (buildPacket sz c t).1 ≤ pot u c ∧ Direct0 u (buildPacket sz c t).1 := by
  unfold buildPacket
  split
  · exact ⟨Nat.le_refl _, hd⟩
  · have := pot_buildPacketImpl u sz c t (decide (t - c.lastKeepAlive > c.keepAlive)) c.keepAlive hd
    split
    · exact ⟨this.1, this.2⟩
    · exact this

/-! ### receiving -/

/-- handshake handlers neither hold nor invoke user callbacks -/
def Role.KeepsPot (R : Role) : Prop :=
  (∀ u c t b, Direct0 u c → pot u (R.clientHello c t b).1 + fired u (R.clientHello c t b).2.1 = pot u c ∧ Direct0 u (R.clientHello c t b).1) ∧
  (∀ u c t b, Direct0 u c → pot u (R.serverHello c t b).1 + fired u (R.serverHello c t b).2.1 = pot u c ∧ Direct0 u (R.serverHello c t b).1) ∧
  (∀ u c t b, Direct0 u c → pot u (R.challengeResp c t b).1 + fired u (R.challengeResp c t b).2.1 = pot u c ∧ Direct0 u (R.challengeResp c t b).1)

theorem baseRole_keepsPot : baseRole.KeepsPot :=
  ⟨fun _ _ _ _ h => ⟨by simp [baseRole, fired], h⟩, fun _ _ _ _ h => ⟨by simp [baseRole, fired], h⟩,
   fun _ _ _ _ h => ⟨by simp [baseRole, fired], h⟩⟩

theorem pot_recvAppFragment (u : Nat) (c : Conn) (t : Int) (m : Nat) (f : Bytes) (hd : Direct0 u c) :
    pot u (recvAppFragment c t m f).1 + fired u (recvAppFragment c t m f).2.1 = pot u c ∧
    Direct0 u (recvAppFragment c t m f).1 := by
  unfold recvAppFragment
  split
  · exact ⟨by simp [fired], hd⟩
  · simp only
    split
    · exact ⟨by simp [fired, firedE, fragDeliver, pot], hd⟩
    · exact ⟨by simp [fired, fragStore, pot], hd⟩

theorem pot_recvMessage (u : Nat) (R : Role) (hR : R.KeepsPot) (c : Conn) (t : Int) (m : WMsg) (hd : Direct0 u c) :
    pot u (recvMessage R c t m).1 + fired u (recvMessage R c t m).2.1 = pot u c ∧
    Direct0 u (recvMessage R c t m).1 := by
  unfold recvMessage
  split
  · exact ⟨by simp [fired], hd⟩
  · rename_i bf _
    have hd1 : Direct0 u { c with bfMsg := bf } := hd
    have hp1 : pot u { c with bfMsg := bf } = pot u c := rfl
    simp only
    split
    · have := hR.1 u _ t m.payload hd1; rw [hp1] at this; exact this
    · have := hR.2.1 u _ t m.payload hd1; rw [hp1] at this; exact this
    · have := hR.2.2 u _ t m.payload hd1; rw [hp1] at this; exact this
    · exact ⟨by simp [fired, pot], hd⟩
    · exact ⟨by simp [fired, pot], hd⟩
    · have := pot_recvAppFragment u _ t m.seq m.payload hd1; rw [hp1] at this; exact this
    · exact ⟨by simp [fired, firedE, pot], hd⟩
    · exact ⟨by simp [fired, pot], hd⟩

theorem pot_recvMessages (u : Nat) (R : Role) (hR : R.KeepsPot) (c : Conn) (t : Int) (ms : List WMsg) (hd : Direct0 u c) :
    pot u (recvMessages R c t ms).1 + fired u (recvMessages R c t ms).2.1 = pot u c ∧
    Direct0 u (recvMessages R c t ms).1 := by
  induction ms generalizing c with
  | nil => exact ⟨by simp [recvMessages, fired], hd⟩
  | cons m rest ih =>
    simp only [recvMessages]
    have h1 := pot_recvMessage u R hR c t m hd
    generalize recvMessage R c t m = r at *
    obtain ⟨c1, e1, o⟩ := r
    cases o with
    | some err => exact h1
    | none =>
      simp only at h1 ⊢
      have h2 := ih c1 h1.2
      generalize recvMessages R c1 t rest = r2 at h2 ⊢
      obtain ⟨c2, e2, o2⟩ := r2
      simp only at h2 ⊢
      refine ⟨?_, h2.2⟩
      simp only [fired_append]; omega

theorem pot_recvDatagram (u : Nat) (C : Crypto) (R : Role) (hR : R.KeepsPot) (c : Conn) (t : Int) (h : Header)
    (d : Bytes) (hd : Direct0 u c) :
    pot u (recvDatagram C R c t h d).1 + fired u (recvDatagram C R c t h d).2.1 = pot u c ∧
    Direct0 u (recvDatagram C R c t h d).1 := by
  have hdrop : pot u (drop1 c).1 + fired u (drop1 c).2.1 = pot u c ∧ Direct0 u (drop1 c).1 :=
    ⟨by simp [drop1, fired, firedE, pot], hd⟩
  unfold recvDatagram
  cases fromBytes C h c.key d with
  | error e => exact hdrop
  | ok pkt =>
    simp only
    split
    · exact hdrop
    · split
      · exact hdrop
      · cases c.bfPkt.insert (pkt.hdr.seq : Int) with
        | error e => exact hdrop
        | ok bf =>
          simp only [accept, handleAckBits]
          have hd1 : Direct0 u { c with bfPkt := bf, received := c.received + 1, lastRecv := t } := hd
          have hp1 : pot u { c with bfPkt := bf, received := c.received + 1, lastRecv := t } = pot u c := rfl
          have h1 := pot_handleAckKeys u { c with bfPkt := bf, received := c.received + 1, lastRecv := t } h.ack h.ackBits
            (c.pendingAcks.map (·.1)) hd1
          generalize handleAckKeys { c with bfPkt := bf, received := c.received + 1, lastRecv := t } h.ack h.ackBits (c.pendingAcks.map (·.1)) = r1 at h1 ⊢
          obtain ⟨c1, e1⟩ := r1
          simp only at h1 ⊢
          have h2 := pot_recvMessages u R hR c1 t pkt.msgs h1.2
          generalize recvMessages R c1 t pkt.msgs = r2 at h2 ⊢
          obtain ⟨c2, e2, o2⟩ := r2
          simp only at h2 ⊢
          refine ⟨?_, h2.2⟩
          simp only [fired_append]
          omega

/-! ### sending -/

theorem pot_sendFrags (u : Nat) (c : Conn) (fid fragId count : Nat) (retry : Int) (i : Nat) (fs : List Bytes)
    (hd : Direct0 u c) :
    pot u (sendFrags c fid fragId count retry i fs) = pot u c ∧ Direct0 u (sendFrags c fid fragId count retry i fs) := by
  induction fs generalizing c i with
  | nil => exact ⟨rfl, hd⟩
  | cons f fs ih =>
    simp only [sendFrags]
    have h1 := pot_sendType u c .appFragment (fragPrefix fragId (1 + i) count ++ f) retry (some (.frag fid i))
    have hd1 := direct0_sendType u c .appFragment (fragPrefix fragId (1 + i) count ++ f) retry (some (.frag fid i)) hd
      (by intro h; cases h)
    have h2 := ih _ (i + 1) hd1
    refine ⟨?_, h2.2⟩
    rw [h2.1, h1, isU_frag]; omega

/-- how many holders an operation introduces for `u` -/
def intro7 (u : Nat) : Op → Nat
  | .send _ _ (some id) => if id = u then 1 else 0
  | .disconnect cb => isU u cb
  | _ => 0

theorem pot_send (u : Nat) (sz : Sizes) (c : Conn) (p : Bytes) (r : Int) (cb : Option Nat) (hd : Direct0 u c)
    (hbe : ¬ (r = 1 ∧ cb = some u)) :
    pot u (send sz c p r cb).1 ≤ pot u c + intro7 u (.send p r cb) ∧ Direct0 u (send sz c p r cb).1 := by
  have hiu : isU u (cb.map Cb.user) = intro7 u (.send p r cb) := by
    cases cb with
    | none => simp [isU, intro7]
    | some id =>
      simp only [Option.map, isU, intro7]
      by_cases h : id = u
      · simp [h]
      · have : ¬ (some (Cb.user id) = some (Cb.user u)) := by
          intro e; injection e with e; injection e with e; exact h e
        simp [h, this]
  unfold send
  split
  · exact ⟨Nat.le_add_right _ _, hd⟩
  · rename_i hr
    split
    · exact ⟨Nat.le_add_right _ _, hd⟩
    · split
      · -- fragmented
        unfold sendFragmented
        simp only
        split
        · refine ⟨?_, hd⟩
          simp only [pot, occFrag_append, occFrag, heldF]
          simp
        · have hd2 : Direct0 u { c with seqFragment := seqInc c.seqFragment, fragObjs := c.fragObjs ++ [⟨seqInc c.seqFragment, r, cb, splitFrags sz.maxPayload sz.maxFragment p.length p, (splitFrags sz.maxPayload sz.maxFragment p.length p).map (fun _ => none)⟩] } := hd
          have hf := pot_sendFrags u _ c.fragObjs.length (seqInc c.seqFragment) (splitFrags sz.maxPayload sz.maxFragment p.length p).length (if r = -1 then 0 else r) 0 (splitFrags sz.maxPayload sz.maxFragment p.length p) hd2
          refine ⟨?_, hf.2⟩
          have hnew : heldF u ⟨seqInc c.seqFragment, r, cb, splitFrags sz.maxPayload sz.maxFragment p.length p, (splitFrags sz.maxPayload sz.maxFragment p.length p).map (fun _ => none)⟩ ≤ intro7 u (.send p r cb) := by
            simp only [heldF]
            split
            · exact Nat.zero_le _
            · cases cb with
              | none => simp
              | some id =>
                simp only [intro7]
                by_cases h : id = u
                · simp [h]
                · have : ¬ (some id = some u) := fun e => h (Option.some.inj e)
                  simp [h, this]
          have hp2 : pot u { c with seqFragment := seqInc c.seqFragment, fragObjs := c.fragObjs ++ [⟨seqInc c.seqFragment, r, cb, splitFrags sz.maxPayload sz.maxFragment p.length p, (splitFrags sz.maxPayload sz.maxFragment p.length p).map (fun _ => none)⟩] } ≤ pot u c + intro7 u (.send p r cb) := by
            simp only [pot, occFrag_append, occFrag]; omega
          have : pot u ({ sendFrags { c with seqFragment := seqInc c.seqFragment, fragObjs := c.fragObjs ++ [⟨seqInc c.seqFragment, r, cb, splitFrags sz.maxPayload sz.maxFragment p.length p, (splitFrags sz.maxPayload sz.maxFragment p.length p).map (fun _ => none)⟩] } c.fragObjs.length (seqInc c.seqFragment) (splitFrags sz.maxPayload sz.maxFragment p.length p).length (if r = -1 then 0 else r) 0 (splitFrags sz.maxPayload sz.maxFragment p.length p) with pendingFrags := aset (sendFrags { c with seqFragment := seqInc c.seqFragment, fragObjs := c.fragObjs ++ [⟨seqInc c.seqFragment, r, cb, splitFrags sz.maxPayload sz.maxFragment p.length p, (splitFrags sz.maxPayload sz.maxFragment p.length p).map (fun _ => none)⟩] } c.fragObjs.length (seqInc c.seqFragment) (splitFrags sz.maxPayload sz.maxFragment p.length p).length (if r = -1 then 0 else r) 0 (splitFrags sz.maxPayload sz.maxFragment p.length p)).pendingFrags (seqInc c.seqFragment) c.fragObjs.length } : Conn)
              = pot u (sendFrags { c with seqFragment := seqInc c.seqFragment, fragObjs := c.fragObjs ++ [⟨seqInc c.seqFragment, r, cb, splitFrags sz.maxPayload sz.maxFragment p.length p, (splitFrags sz.maxPayload sz.maxFragment p.length p).map (fun _ => none)⟩] } c.fragObjs.length (seqInc c.seqFragment) (splitFrags sz.maxPayload sz.maxFragment p.length p).length (if r = -1 then 0 else r) 0 (splitFrags sz.maxPayload sz.maxFragment p.length p)) := rfl
          rw [this, hf.1]; exact hp2
      · refine ⟨?_, direct0_sendType u c .app p r (cb.map Cb.user) hd ?_⟩
        · rw [pot_sendType, hiu]; exact Nat.le_refl _
        · intro hcb
          have hr' : r = 0 ∨ r = 1 ∨ r = -1 := by
            by_cases h0 : r = 0
            · exact Or.inl h0
            · by_cases h1 : r = 1
              · exact Or.inr (Or.inl h1)
              · by_cases h2 : r = -1
                · exact Or.inr (Or.inr h2)
                · exact absurd ⟨h0, h1, h2⟩ hr
          rcases hr' with h | h | h
          · exact Or.inl h
          · exfalso
            apply hbe
            refine ⟨h, ?_⟩
            cases cb with
            | none => simp at hcb
            | some id =>
              simp only [Option.map] at hcb
              injection hcb with e; injection e with e; rw [e]
          · exact Or.inr h

theorem pot_disconnect (u : Nat) (c : Conn) (cb : Option Cb) (hd : Direct0 u c) :
    pot u (disconnect c cb) ≤ pot u c + isU u cb ∧ Direct0 u (disconnect c cb) := by
  unfold disconnect
  split
  · have hd1 : Direct0 u { c with outgoing := [], incoming := [], pendingCbs := [], pendingRetry := [], pendingAcks := [] } :=
      ⟨hd.1, fun m hm => by cases hm⟩
    have h1 := pot_sendType u { c with outgoing := [], incoming := [], pendingCbs := [], pendingRetry := [], pendingAcks := [] } .disconnect [] 0 cb
    have hd2 := direct0_sendType u _ .disconnect [] 0 cb hd1 (fun _ => Or.inl rfl)
    refine ⟨?_, hd2⟩
    have : pot u ({ sendType { c with outgoing := [], incoming := [], pendingCbs := [], pendingRetry := [], pendingAcks := [] } .disconnect [] 0 cb with status := .disconnected } : Conn)
        = pot u (sendType { c with outgoing := [], incoming := [], pendingCbs := [], pendingRetry := [], pendingAcks := [] } .disconnect [] 0 cb) := rfl
    rw [this, h1]
    simp only [pot, occOut, occCbs]; omega
  · exact ⟨Nat.le_add_right _ _, hd⟩

/-! ### operations and histories -/

def firedO (u : Nat) : List Out → Nat
  | [] => 0
  | .ev e :: t => firedE u e + firedO u t
  | _ :: t => firedO u t

theorem firedO_append (u : Nat) (a b : List Out) : firedO u (a ++ b) = firedO u a + firedO u b := by
  induction a with
  | nil => simp [firedO]
  | cons x t ih => cases x <;> simp [firedO, ih, Nat.add_assoc]

theorem firedO_map (u : Nat) (evs : List Event) : firedO u (evs.map Out.ev) = fired u evs := by
  induction evs with
  | nil => rfl
  | cons e t ih => simp [firedO, fired, ih]

/-- the history never gives `u` to a BEST_EFFORT send (their callbacks may fire once per datagram) -/
def NoBestEffort (u : Nat) : List Op → Prop
  | [] => True
  | .send _ r cb :: ops => ¬ (r = 1 ∧ cb = some u) ∧ NoBestEffort u ops
  | _ :: ops => NoBestEffort u ops

def intros7 (u : Nat) : List Op → Nat
  | [] => 0
  | op :: ops => intro7 u op + intros7 u ops

theorem pot_step (u : Nat) (E : Env) (hR : E.R.KeepsPot) (c : Conn) (op : Op) (hd : Direct0 u c)
    (hbe : NoBestEffort u [op]) :
    pot u (step E c op).1 + firedO u (step E c op).2 ≤ pot u c + intro7 u op ∧ Direct0 u (step E c op).1 := by
  cases op with
  | send p r cb =>
    have h := pot_send u E.sz c p r cb hd hbe.1
    simp only [step]
    generalize send E.sz c p r cb = x at h
    obtain ⟨c', o⟩ := x
    cases o <;> exact ⟨by simpa [firedO] using h.1, h.2⟩
  | build t =>
    have h := pot_buildPacket u E.sz c t hd
    simp only [step]
    generalize buildPacket E.sz c t = x at h
    obtain ⟨c', o⟩ := x
    cases o with
    | error e => exact ⟨by simpa [firedO, intro7] using h.1, h.2⟩
    | ok r =>
      cases r with
      | none => exact ⟨by simpa [firedO, intro7] using h.1, h.2⟩
      | some pkt =>
        simp only
        cases toBytes E.C c'.key pkt <;> exact ⟨by simpa [firedO, intro7] using h.1, h.2⟩
  | recv t h d =>
    have hh := pot_recvDatagram u E.C E.R hR c t h d hd
    simp only [step]
    generalize recvDatagram E.C E.R c t h d = x at hh ⊢
    obtain ⟨c', ev, r⟩ := x
    simp only at hh ⊢
    simp only [firedO_append, firedO_map, firedO, intro7]
    exact ⟨by omega, hh.2⟩
  | tmo t =>
    have hh := pot_checkTimeoutKeys u c t (c.pendingAcks.map (·.1)) hd
    simp only [step, checkTimeout, firedO_map, intro7]
    exact ⟨by omega, hh.2⟩
  | disconnect cb =>
    have hh := pot_disconnect u c cb hd
    simp only [step, firedO, intro7]
    exact ⟨by omega, hh.2⟩
  | take => exact ⟨by simp [step, firedO, intro7, pot], hd⟩

theorem pot_run (u : Nat) (E : Env) (hR : E.R.KeepsPot) (c : Conn) (ops : List Op) (hd : Direct0 u c)
    (hbe : NoBestEffort u ops) :
    pot u (run E c ops).1 + firedO u (run E c ops).2 ≤ pot u c + intros7 u ops := by
  induction ops generalizing c with
  | nil => simp [run, firedO, intros7]
  | cons op ops ih =>
    have hop : NoBestEffort u [op] := by
      cases op <;> first | exact ⟨hbe.1, trivial⟩ | trivial
    have hrest : NoBestEffort u ops := by
      cases op <;> first | exact hbe.2 | exact hbe
    have h1 := pot_step u E hR c op hd hop
    have h2 := ih (step E c op).1 h1.2 hrest
    simp only [run, firedO_append, intros7]
    omega

/-! ### conservation: with a typed queue, fresh datagram numbers and no disconnect nothing is lost -/

theorem occCbs_aset_fresh (u : Nat) (l : List (Nat × List Cb)) (s : Nat) (cbs : List Cb) (h : aget l s = none) :
    occCbs u (aset l s cbs) = occCbs u l + cntU u cbs := by
  induction l with
  | nil => simp [aset, occCbs]
  | cons x t ih =>
    obtain ⟨k, v⟩ := x
    simp only [aget] at h
    simp only [aset]
    by_cases hk : k = s
    · simp [hk] at h
    · simp only [hk, if_false] at h ⊢
      simp only [occCbs, ih h]; omega

theorem cntU_nil_of_isEmpty (u : Nat) (cbs : List Cb) (h : cbs.isEmpty = true) : cntU u cbs = 0 := by
  cases cbs with
  | nil => rfl
  | cons a b => simp at h

theorem pot_buildPacketImpl_eq (u : Nat) (sz : Sizes) (c : Conn) (t : Int) (ska : Bool) (delay : Int)
    (hd : Direct0 u c) (ht : Typed c) (hf : FreshSeq c) :
    pot u (buildPacketImpl sz c t ska delay).1 = pot u c := by
  have hres := packResend_from (fun m => m.cb ≠ some (.user u)) sz t delay (sortBySeq c.pendingRetryMsg) {} c.pendingRetryMsg
    (fun x hx => hd.1 x (t_mem_sortBySeq _ x hx)) (by intro m hm; simp at hm)
  obtain ⟨taken, htk, hperm⟩ := packNew_perm sz c.outgoing (packResend sz t delay (sortBySeq c.pendingRetryMsg) {} c.pendingRetryMsg).1
  have hmsgs : (packAll sz c t delay).1.msgs = (packResend sz t delay (sortBySeq c.pendingRetryMsg) {} c.pendingRetryMsg).1.msgs ++ taken := htk
  have hkept : (packAll sz c t delay).2.2 = (packNew sz c.outgoing (packResend sz t delay (sortBySeq c.pendingRetryMsg) {} c.pendingRetryMsg).1).2 := rfl
  have hsplit : occOut u c.outgoing = occOut u taken + occOut u (packAll sz c t delay).2.2 := by
    rw [hkept, ← occOut_append]; exact (occOut_perm u hperm).symm
  have hzero : occOut u (packResend sz t delay (sortBySeq c.pendingRetryMsg) {} c.pendingRetryMsg).1.msgs = 0 :=
    occOut_zero u _ hres.1
  have hcnt : occOut u (packAll sz c t delay).1.msgs = occOut u taken := by
    rw [hmsgs, occOut_append, hzero]; omega
  have htyped := packAll_typed sz c t delay ht
  unfold buildPacketImpl
  simp only
  split
  · -- nothing is sent: then nothing was packed (every packed message has a real type)
    rename_i hty
    have hnil : (packAll sz c t delay).1.msgs = [] := by
      cases hm : (packAll sz c t delay).1.msgs with
      | nil => rfl
      | cons a rest =>
        exfalso
        have := pktType_typed c ska (packAll sz c t delay).1.msgs a (by rw [hm]; exact List.mem_cons_self ..) htyped.1
        exact this hty
    have ht0 : occOut u taken = 0 := by rw [← hcnt, hnil]; rfl
    simp only [pot]; omega
  · have hreg_cnt := registerMsgs_cnt u t (packAll sz c t delay).1.msgs (packAll sz c t delay).2.1 [] []
    simp only [cntU, Nat.zero_add] at hreg_cnt
    have hpot : pot u (registerPacket { c with pendingRetryMsg := (packAll sz c t delay).2.1, outgoing := (packAll sz c t delay).2.2 } t (packAll sz c t delay).1.msgs) = pot u c := by
      unfold registerPacket
      simp only [pot]
      have hfr := occCbs_aset_fresh u c.pendingCbs (seqInc c.seqSending) (registerMsgs t (packAll sz c t delay).1.msgs (packAll sz c t delay).2.1 [] []).2.1 hf
      split
      · rename_i hemp
        have := cntU_nil_of_isEmpty u _ hemp
        omega
      · omega
    split
    · exact hpot
    · exact hpot

theorem pot_buildPacket_eq (u : Nat) (sz : Sizes) (c : Conn) (t : Int) (hd : Direct0 u c) (ht : Typed c) (hf : FreshSeq c) :
    pot u (buildPacket sz c t).1 = pot u c := by
  unfold buildPacket
  split
  · rfl
  · have := pot_buildPacketImpl_eq u sz c t (decide (t - c.lastKeepAlive > c.keepAlive)) c.keepAlive hd ht hf
    split
    · exact this
    · exact this

theorem splitFrags_ne_nil (mp mf : Nat) (p : Bytes) (h : 0 < p.length) : splitFrags mp mf p.length p ≠ [] := by
  cases hn : p.length with
  | zero => omega
  | succ n =>
    simp only [splitFrags]
    have : ¬ p.length = 0 := by omega
    simp only [this, if_false]
    split <;> simp

/-- a send that the connection accepts and that is given `u` -/
def introA (u : Nat) (sz : Sizes) (c : Conn) : Op → Nat
  | .send p r (some id) =>
    if id = u ∧ c.status = .connected ∧ (r = 0 ∨ r = -1) ∧
        (p.length ≤ sz.maxPayload ∨ p.length ≤ sz.maxFragment * maxFragments) then 1 else 0
  | _ => 0

theorem pot_send_eq (u : Nat) (sz : Sizes) (c : Conn) (p : Bytes) (r : Int) (cb : Option Nat) (hd : Direct0 u c)
    (hbe : ¬ (r = 1 ∧ cb = some u)) :
    pot u (send sz c p r cb).1 = pot u c + introA u sz c (.send p r cb) := by
  have hcbu : ∀ id, cb = some id → (isU u (cb.map Cb.user) = if id = u then 1 else 0) := by
    intro id h; subst h
    simp only [Option.map, isU]
    by_cases h : id = u
    · simp [h]
    · have : ¬ (some (Cb.user id) = some (Cb.user u)) := by
        intro e; injection e with e; injection e with e; exact h e
      simp [h, this]
  unfold send
  split
  · -- invalid retry mode: refused
    rename_i hr
    cases cb with
    | none => simp [introA]
    | some id =>
      simp only [introA]
      have : ¬ (r = 0 ∨ r = -1) := by
        intro h; rcases h with h | h
        · exact hr.1 h
        · exact hr.2.2 h
      simp [this]
  · rename_i hr
    split
    · rename_i hst
      cases cb with
      | none => simp [introA]
      | some id => simp [introA, hst]
    · rename_i hst
      have hst' : c.status = .connected := by
        apply Classical.byContradiction; intro x; exact hst x
      split
      · rename_i hbig
        unfold sendFragmented
        simp only
        split
        · rename_i hlim
          have : ¬ (p.length ≤ sz.maxPayload ∨ p.length ≤ sz.maxFragment * maxFragments) := by omega
          cases cb with
          | none => simp [introA, pot, occFrag_append, occFrag, heldF]
          | some id => simp [introA, this, pot, occFrag_append, occFrag, heldF]
        · rename_i hlim
          have hlim' : p.length ≤ sz.maxFragment * maxFragments := by omega
          have hd2 : Direct0 u { c with seqFragment := seqInc c.seqFragment, fragObjs := c.fragObjs ++ [⟨seqInc c.seqFragment, r, cb, splitFrags sz.maxPayload sz.maxFragment p.length p, (splitFrags sz.maxPayload sz.maxFragment p.length p).map (fun _ => none)⟩] } := hd
          have hf := pot_sendFrags u _ c.fragObjs.length (seqInc c.seqFragment) (splitFrags sz.maxPayload sz.maxFragment p.length p).length (if r = -1 then 0 else r) 0 (splitFrags sz.maxPayload sz.maxFragment p.length p) hd2
          have hne := splitFrags_ne_nil sz.maxPayload sz.maxFragment p (by omega)
          have hall : ((splitFrags sz.maxPayload sz.maxFragment p.length p).map (fun _ => (none : Option Bool))).all (fun a => a.isSome) = false := by
            cases hx : splitFrags sz.maxPayload sz.maxFragment p.length p with
            | nil => exact absurd hx hne
            | cons a b => simp
          have hnew : heldF u ⟨seqInc c.seqFragment, r, cb, splitFrags sz.maxPayload sz.maxFragment p.length p, (splitFrags sz.maxPayload sz.maxFragment p.length p).map (fun _ => none)⟩ = introA u sz c (.send p r cb) := by
            simp only [heldF, hall]
            have hr' : r = 0 ∨ r = -1 ∨ r = 1 := by
              by_cases h0 : r = 0
              · exact Or.inl h0
              · by_cases h2 : r = -1
                · exact Or.inr (Or.inl h2)
                · by_cases h1 : r = 1
                  · exact Or.inr (Or.inr h1)
                  · exact absurd ⟨h0, h1, h2⟩ hr
            cases cb with
            | none => simp [introA]
            | some id =>
              simp only [introA]
              by_cases h : id = u
              · subst h
                have hr2 : r = 0 ∨ r = -1 := by
                  rcases hr' with h0 | h0 | h0
                  · exact Or.inl h0
                  · exact Or.inr h0
                  · exact absurd ⟨h0, rfl⟩ hbe
                simp [hst', hr2, Or.inr hlim']
              · have : ¬ (some id = some u) := fun e => h (Option.some.inj e)
                simp [h, this]
          have hp2 : pot u { c with seqFragment := seqInc c.seqFragment, fragObjs := c.fragObjs ++ [⟨seqInc c.seqFragment, r, cb, splitFrags sz.maxPayload sz.maxFragment p.length p, (splitFrags sz.maxPayload sz.maxFragment p.length p).map (fun _ => none)⟩] } = pot u c + introA u sz c (.send p r cb) := by
            simp only [pot, occFrag_append, occFrag]; omega
          have : pot u ({ sendFrags { c with seqFragment := seqInc c.seqFragment, fragObjs := c.fragObjs ++ [⟨seqInc c.seqFragment, r, cb, splitFrags sz.maxPayload sz.maxFragment p.length p, (splitFrags sz.maxPayload sz.maxFragment p.length p).map (fun _ => none)⟩] } c.fragObjs.length (seqInc c.seqFragment) (splitFrags sz.maxPayload sz.maxFragment p.length p).length (if r = -1 then 0 else r) 0 (splitFrags sz.maxPayload sz.maxFragment p.length p) with pendingFrags := aset (sendFrags { c with seqFragment := seqInc c.seqFragment, fragObjs := c.fragObjs ++ [⟨seqInc c.seqFragment, r, cb, splitFrags sz.maxPayload sz.maxFragment p.length p, (splitFrags sz.maxPayload sz.maxFragment p.length p).map (fun _ => none)⟩] } c.fragObjs.length (seqInc c.seqFragment) (splitFrags sz.maxPayload sz.maxFragment p.length p).length (if r = -1 then 0 else r) 0 (splitFrags sz.maxPayload sz.maxFragment p.length p)).pendingFrags (seqInc c.seqFragment) c.fragObjs.length } : Conn)
              = pot u (sendFrags { c with seqFragment := seqInc c.seqFragment, fragObjs := c.fragObjs ++ [⟨seqInc c.seqFragment, r, cb, splitFrags sz.maxPayload sz.maxFragment p.length p, (splitFrags sz.maxPayload sz.maxFragment p.length p).map (fun _ => none)⟩] } c.fragObjs.length (seqInc c.seqFragment) (splitFrags sz.maxPayload sz.maxFragment p.length p).length (if r = -1 then 0 else r) 0 (splitFrags sz.maxPayload sz.maxFragment p.length p)) := rfl
          rw [this, hf.1]; exact hp2
      · rename_i hsmall
        rw [pot_sendType]
        cases cb with
        | none => simp [introA, isU]
        | some id =>
          rw [hcbu id rfl]
          simp only [introA]
          by_cases h : id = u
          · subst h
            have hr' : r = 0 ∨ r = -1 := by
              by_cases h0 : r = 0
              · exact Or.inl h0
              · by_cases h2 : r = -1
                · exact Or.inr h2
                · by_cases h1 : r = 1
                  · exact absurd ⟨h1, rfl⟩ hbe
                  · exact absurd ⟨h0, h1, h2⟩ hr
            have hlen : p.length ≤ sz.maxPayload ∨ p.length ≤ sz.maxFragment * maxFragments := by
              left; omega
            simp [hst', hr', hlen]
          · simp [h]

/-! ### conservation over operations and histories -/

def NoDisc : List Op → Prop
  | [] => True
  | .disconnect _ :: _ => False
  | _ :: ops => NoDisc ops

/-- accepted sends given `u` along the run (the state matters: a send on a connection that is not
CONNECTED is ignored, one above the limit is refused) -/
def introsA (u : Nat) (E : Env) : Conn → List Op → Nat
  | _, [] => 0
  | c, op :: ops => introA u E.sz c op + introsA u E (step E c op).1 ops

/-- the datagram number each build of the history takes is fresh (cf. C05) -/
def FreshRun (E : Env) : Conn → List Op → Prop
  | _, [] => True
  | c, op :: ops => (∀ t, op = .build t → FreshSeq c) ∧ FreshRun E (step E c op).1 ops

theorem pot_step_eq (u : Nat) (E : Env) (hR : E.R.KeepsPot) (c : Conn) (op : Op) (hd : Direct0 u c)
    (ht : Typed c) (hf : ∀ t, op = .build t → FreshSeq c) (hbe : NoBestEffort u [op]) (hnd : NoDisc [op]) :
    pot u (step E c op).1 + firedO u (step E c op).2 = pot u c + introA u E.sz c op := by
  cases op with
  | send p r cb =>
    have h := pot_send_eq u E.sz c p r cb hd hbe.1
    simp only [step]
    generalize send E.sz c p r cb = x at h
    obtain ⟨c', o⟩ := x
    cases o <;> simpa [firedO] using h
  | build t =>
    have h := pot_buildPacket_eq u E.sz c t hd ht (hf t rfl)
    simp only [step]
    generalize buildPacket E.sz c t = x at h
    obtain ⟨c', o⟩ := x
    cases o with
    | error e => simpa [firedO, introA] using h
    | ok r =>
      cases r with
      | none => simpa [firedO, introA] using h
      | some pkt =>
        simp only
        cases toBytes E.C c'.key pkt <;> simpa [firedO, introA] using h
  | recv t h d =>
    have hh := pot_recvDatagram u E.C E.R hR c t h d hd
    simp only [step]
    generalize recvDatagram E.C E.R c t h d = x at hh ⊢
    obtain ⟨c', ev, r⟩ := x
    simp only at hh ⊢
    simp only [firedO_append, firedO_map, firedO, introA]
    omega
  | tmo t =>
    have hh := pot_checkTimeoutKeys u c t (c.pendingAcks.map (·.1)) hd
    simp only [step, checkTimeout, firedO_map, introA]
    omega
  | disconnect cb => exact hnd.elim
  | take => simp [step, firedO, introA, pot]

theorem pot_run_eq (u : Nat) (E : Env) (hR : E.R.KeepsPot) (hT : E.R.KeepsTyped) (c : Conn) (ops : List Op)
    (hd : Direct0 u c) (ht : Typed c) (hf : FreshRun E c ops) (hbe : NoBestEffort u ops) (hnd : NoDisc ops) :
    pot u (run E c ops).1 + firedO u (run E c ops).2 = pot u c + introsA u E c ops := by
  induction ops generalizing c with
  | nil => simp [run, firedO, introsA]
  | cons op ops ih =>
    have hop : NoBestEffort u [op] := by
      cases op <;> first | exact ⟨hbe.1, trivial⟩ | trivial
    have hrest : NoBestEffort u ops := by
      cases op <;> first | exact hbe.2 | exact hbe
    have hnd1 : NoDisc [op] := by
      cases op <;> first | trivial | exact hnd.elim
    have hnd2 : NoDisc ops := by
      cases op <;> first | exact hnd | exact hnd.elim
    have h1 := pot_step_eq u E hR c op hd ht hf.1 hop hnd1
    have hd1 := (pot_step u E (by
      -- the inequality version of the role hypothesis follows from the equality version
      exact hR) c op hd hop).2
    have ht1 : Typed (step E c op).1 := xstep_typed E hT c (.base op) ht
    have h2 := ih (step E c op).1 hd1 ht1 hf.2 hrest hnd2
    simp only [run, firedO_append, introsA]
    omega

/-! ### the two subclasses' handshake handlers -/

theorem clientRole_keepsPot (H : Hs) : (clientRole H).KeepsPot := by
  refine ⟨fun _ _ _ _ h => ⟨by simp [clientRole, fired], h⟩, ?_, fun _ _ _ _ h => ⟨by simp [clientRole, fired], h⟩⟩
  intro u c t b hd
  simp only [clientRole, clientServerHello]
  cases H.parseServerHello b with
  | error e => exact ⟨by simp [fired], hd⟩
  | ok r =>
    simp only
    split
    · exact ⟨by simp [fired, pot], hd⟩
    · cases H.parsePayload r.2.1 with
      | error e => exact ⟨by simp [fired], hd⟩
      | ok q =>
        simp only [adopt]
        have hd1 : Direct0 u { c with token := q.2.2, key := some (H.ecdhClient q.1 q.2.1) } := hd
        have h1 := pot_sendType u { c with token := q.2.2, key := some (H.ecdhClient q.1 q.2.1) } .challengeResp (H.challengeBytes q.2.2) 0 (some .challengeTimeout)
        have hd2 := direct0_sendType u _ .challengeResp (H.challengeBytes q.2.2) 0 (some .challengeTimeout) hd1 (by intro h; cases h)
        have hz : isU u (some Cb.challengeTimeout) = 0 := by simp [isU]
        refine ⟨?_, hd2⟩
        have hf : fired u (if c.hasConnectCb = true then [Event.connectCb true] else []) = 0 := by
          split <;> simp [fired, firedE]
        rw [hf]
        have : pot u ({ sendType { c with token := q.2.2, key := some (H.ecdhClient q.1 q.2.1) } .challengeResp (H.challengeBytes q.2.2) 0 (some .challengeTimeout) with status := .connected, helloSentAt := 0 } : Conn)
            = pot u (sendType { c with token := q.2.2, key := some (H.ecdhClient q.1 q.2.1) } .challengeResp (H.challengeBytes q.2.2) 0 (some .challengeTimeout)) := rfl
        rw [this, h1, hz]
        simp [pot]

theorem serverRole_keepsPot (H : Hs) (tok : Nat) (tt : Option Nat) : (serverRole H tok tt).KeepsPot := by
  refine ⟨?_, fun _ _ _ _ h => ⟨by simp [serverRole, fired], h⟩, ?_⟩
  · intro u c t b hd
    simp only [serverRole, serverClientHello]
    split
    · exact ⟨by simp [fired], hd⟩
    · cases H.parseClientHello b with
      | error e => exact ⟨by simp [fired], hd⟩
      | ok ver =>
        simp only
        split
        · exact ⟨by simp [fired], hd⟩
        · split
          · exact ⟨by simp [fired, pot], hd⟩
          · have hd1 : Direct0 u { c with token := tok, key := some (H.serverReply b tok).1, status := .connecting } := hd
            have h1 := pot_sendType u { c with token := tok, key := some (H.serverReply b tok).1, status := .connecting } .serverHello (H.serverReply b tok).2 0 none
            have hd2 := direct0_sendType u _ .serverHello (H.serverReply b tok).2 0 none hd1 (by intro h; cases h)
            refine ⟨?_, hd2⟩
            rw [h1]
            simp [fired, isU, pot]
  · intro u c t b hd
    simp only [serverRole, serverChallenge]
    cases H.parseChallenge b with
    | error e => exact ⟨by simp [fired], hd⟩
    | ok tk =>
      simp only
      split
      · exact ⟨by simp [fired, firedE, pot], hd⟩
      · exact ⟨by simp [fired], hd⟩

end Mpgs.Conn
