import MpgsModel.Lemmas.Pool
/-! `kickAll` (the update handler disconnecting every connected client) touches the connection
objects of the connected pool only: same addresses, same identities, same half-open pool. -/
namespace Mpgs.Server
open Mpgs.Bytes Mpgs.Wire Mpgs.Conn

def kickEnt (e : Ent) : Ent := { e with conn := Conn.disconnect e.conn none }

theorem kickAll_conns (s : Srv) : (kickAll s).conns = s.conns.map (fun p => (p.1, kickEnt p.2)) := rfl
theorem kickAll_temps (s : Srv) : (kickAll s).temps = s.temps := rfl
theorem kickAll_cfg (s : Srv) : (kickAll s).cfg = s.cfg := rfl
theorem kickAll_born (s : Srv) : (kickAll s).born = s.born := rfl

theorem kickAll_keys (s : Srv) : (kickAll s).conns.map (·.1) = s.conns.map (·.1) := by
  simp [kickAll_conns, List.map_map, Function.comp_def]

theorem kickAll_mem (s : Srv) (a : Addr) (e : Ent) :
    (a, e) ∈ (kickAll s).conns ↔ ∃ e0, (a, e0) ∈ s.conns ∧ e = kickEnt e0 := by
  rw [kickAll_conns, List.mem_map]
  constructor
  · rintro ⟨⟨a0, e0⟩, hm, heq⟩
    injection heq with h1 h2
    subst h1
    exact ⟨e0, hm, h2.symm⟩
  · rintro ⟨e0, hm, rfl⟩
    exact ⟨(a, e0), hm, rfl⟩

theorem pget_kick (p : Pool) (a : Addr) :
    pget (p.map (fun x => (x.1, kickEnt x.2))) a = (pget p a).map kickEnt := by
  induction p with
  | nil => rfl
  | cons x rest ih =>
    obtain ⟨k, v⟩ := x
    simp only [List.map_cons, pget]
    split
    · rfl
    · exact ih

theorem pget_kickAll (s : Srv) (a : Addr) : pget (kickAll s).conns a = (pget s.conns a).map kickEnt := by
  rw [kickAll_conns]; exact pget_kick _ _

theorem kickEnt_id (e : Ent) : (kickEnt e).id = e.id := rfl

end Mpgs.Server
