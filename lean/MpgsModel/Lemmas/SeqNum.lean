import MpgsModel.Model.SeqNum
/-! Helper lemmas: ring arithmetic, bit-window lemmas, refinement of `BitField` to a set of
absolute positions. -/
namespace Mpgs.Seq

/-- ring image (1..65535) of an absolute (unwrapped) position -/
def ring (p : Int) : Int := (p - 1) % M + 1

theorem ring_range (p : Int) : 1 ≤ ring p ∧ ring p ≤ M := by
  simp only [ring, M]; omega

theorem ring_of_range (a : Int) (h1 : 1 ≤ a) (h2 : a ≤ M) : ring a = a := by
  simp only [ring, M] at *; omega

theorem diff_def (a b : Int) : diff a b =
    if a - b > 32767 then a - b - 65535 else if a - b < -32767 then a - b + 65535 else a - b := rfl

theorem ring_spec (p : Int) : ∃ q : Int, ring p = p - 65535 * q ∧ 1 ≤ ring p ∧ ring p ≤ 65535 := by
  refine ⟨(p - 1) / 65535, ?_⟩
  simp only [ring, M]; omega

theorem diff_ring (c p : Int) (h1 : c - p ≤ T) (h2 : -T ≤ c - p) :
    diff (ring c) (ring p) = c - p := by
  obtain ⟨q1, e1, a1, b1⟩ := ring_spec c
  obtain ⟨q2, e2, a2, b2⟩ := ring_spec p
  simp only [T] at h1 h2
  generalize ring c = x at *
  generalize ring p = y at *
  rw [diff_def]
  split
  · omega
  · split <;> omega

/-! ### bits -/

theorem onehot_shift (nbits d : Nat) (hd1 : 1 ≤ d) (hd : d ≤ nbits) :
    (1 <<< (nbits - 1)) >>> (d - 1) = 2 ^ (nbits - d) := by
  rw [Nat.one_shiftLeft, Nat.shiftRight_eq_div_pow, Nat.pow_div (by omega) (by omega)]
  congr 1; omega

theorem onehot_shift_big (nbits d : Nat) (hb : 0 < nbits) (hd : nbits < d) :
    (1 <<< (nbits - 1)) >>> (d - 1) = 0 := by
  rw [Nat.one_shiftLeft, Nat.shiftRight_eq_div_pow]
  apply Nat.div_eq_of_lt
  apply Nat.pow_lt_pow_right (by omega) (by omega)

theorem two_pow_and (x i : Nat) : 2 ^ i &&& x = if x.testBit i then 2 ^ i else 0 := by
  apply Nat.eq_of_testBit_eq
  intro j
  rw [Nat.testBit_and, Nat.testBit_two_pow]
  by_cases h : i = j
  · subst h; cases hx : x.testBit i <;> simp [hx]
  · cases hx : x.testBit i <;> simp [h, hx]

theorem two_pow_and_ne_zero (x i : Nat) : (2 ^ i &&& x != 0) = x.testBit i := by
  rw [two_pow_and]
  cases h : x.testBit i <;> simp [h]

theorem and_two_pow_ne_zero (x i : Nat) : (x &&& 2 ^ i != 0) = x.testBit i := by
  rw [Nat.and_comm]; exact two_pow_and_ne_zero x i

/-! ### abstract window: absolute positions -/

structure Abs where
  cur : Option Int
  acc : List Int
  deriving Repr

def Abs.insert (nbits : Nat) (a : Abs) (p : Int) : Except Err Abs :=
  match a.cur with
  | none => .ok ⟨some p, [p]⟩
  | some c =>
    if p > c then .ok ⟨some p, p :: a.acc⟩
    else if p = c then .error .duplication
    else if c - p ≤ nbits ∧ p ∈ a.acc then .error .duplication
    else .ok ⟨some c, p :: a.acc⟩

/-- abstraction relation between the concrete `(current_seqnum, bits)` and the set of accepted
absolute positions -/
def Rel (b : BitField) (a : Abs) : Prop :=
  match a.cur with
  | none => b.cur = 0 ∧ b.bits = 0 ∧ a.acc = []
  | some c =>
    b.cur = ring c ∧ b.bits < 2 ^ b.nbits ∧ c ∈ a.acc ∧ (∀ q ∈ a.acc, q ≤ c) ∧
    ∀ d : Nat, 1 ≤ d → d ≤ b.nbits → b.bits.testBit (b.nbits - d) = decide ((c - (d : Int)) ∈ a.acc)

theorem rel_insert (b : BitField) (a : Abs) (p : Int) (hb : 0 < b.nbits) (hR : Rel b a)
    (hwin : ∀ c, a.cur = some c → c - p ≤ T ∧ -T ≤ c - p) :
    match a.insert b.nbits p, b.insert (ring p) with
    | .ok a', .ok b' => Rel b' a' ∧ b'.nbits = b.nbits
    | .error .duplication, .error .duplication => True
    | _, _ => False := by
  unfold Rel at hR
  cases hc : a.cur with
  | none =>
    simp only [hc] at hR
    obtain ⟨h0, hbits, hacc⟩ := hR
    simp only [Abs.insert, hc, BitField.insert, h0, if_true]
    refine ⟨?_, trivial⟩
    simp only [Rel]
    refine ⟨trivial, by rw [hbits]; exact Nat.pow_pos (by omega), by simp, by simp, ?_⟩
    intro d hd1 hd
    rw [hbits]
    have : ¬ (p - (d : Int) = p) := by omega
    simp [this]
  | some c =>
    simp only [hc] at hR
    obtain ⟨hcur, hlt, hcin, hle, hbit⟩ := hR
    obtain ⟨hw1, hw2⟩ := hwin c hc
    have hr := ring_range c
    have hne : ¬ (b.cur = 0) := by rw [hcur]; omega
    have hd : diff b.cur (ring p) = c - p := by rw [hcur]; exact diff_ring c p hw1 hw2
    simp only [Abs.insert, hc, BitField.insert, hne, if_false, hd]
    by_cases hgt : p > c
    · -- newer
      have hneg : c - p < 0 := by omega
      simp only [hgt, if_true, hneg]
      have hn : ((-(c - p)).toNat : Int) = p - c := by omega
      generalize hnn : (-(c - p)).toNat = n at hn
      have hn1 : 1 ≤ n := by omega
      by_cases hnb : n ≤ b.nbits
      · simp only [hnb, if_true]
        refine ⟨?_, trivial⟩
        simp only [Rel]
        refine ⟨trivial, ?_, by simp, ?_, ?_⟩
        · apply Nat.or_lt_two_pow
          · rw [Nat.shiftRight_eq_div_pow]
            exact Nat.lt_of_le_of_lt (Nat.div_le_self _ _) hlt
          · rw [BitField.onehot, onehot_shift b.nbits n hn1 hnb]
            exact Nat.pow_lt_pow_right (by omega) (by omega)
        · intro q hq
          simp only [List.mem_cons] at hq
          rcases hq with rfl | hq
          · omega
          · have := hle q hq; omega
        · intro d hd1 hdn
          show (b.bits >>> n ||| b.onehot >>> (n - 1)).testBit (b.nbits - d) = _
          rw [Nat.testBit_or, Nat.testBit_shiftRight, BitField.onehot,
            onehot_shift b.nbits n hn1 hnb, Nat.testBit_two_pow]
          have hpd : ¬ (p - (d : Int) = p) := by omega
          simp only [List.mem_cons, hpd, false_or]
          by_cases hlt' : n < d
          · have e2 : n + (b.nbits - d) = b.nbits - (d - n) := by omega
            rw [e2, hbit (d - n) (by omega) (by omega)]
            have e3 : c - ((d - n : Nat) : Int) = p - (d : Int) := by omega
            have : ¬ (b.nbits - n = b.nbits - d) := by omega
            simp [e3, this]
          · have hbig : b.bits.testBit (n + (b.nbits - d)) = false :=
              Nat.testBit_lt_two_pow (Nat.lt_of_lt_of_le hlt (Nat.pow_le_pow_right (by omega) (by omega)))
            rw [hbig]
            by_cases hdn : d = n
            · subst hdn
              have : p - (d : Int) = c := by omega
              simp [this, hcin]
            · have h1 : ¬ (b.nbits - n = b.nbits - d) := by omega
              have h2 : ¬ (p - (d : Int)) ∈ a.acc := by
                intro hin; have := hle _ hin; omega
              simp [h1, h2]
      · simp only [hnb, if_false]
        refine ⟨?_, trivial⟩
        simp only [Rel]
        refine ⟨trivial, Nat.pow_pos (by omega), by simp, ?_, ?_⟩
        · intro q hq
          simp only [List.mem_cons] at hq
          rcases hq with rfl | hq
          · omega
          · have := hle q hq; omega
        · intro d hd1 hdn
          have hpd : ¬ (p - (d : Int) = p) := by omega
          have h2 : ¬ (p - (d : Int)) ∈ a.acc := by
            intro hin; have := hle _ hin; omega
          simp [hpd, h2]
    · simp only [hgt, if_false]
      by_cases heq : p = c
      · have : ¬ (c - p < 0) := by omega
        have h0 : c - p = 0 := by omega
        simp [heq]
      · have hpos : ¬ (c - p < 0) := by omega
        have hnz : ¬ (c - p = 0) := by omega
        simp only [heq, if_false, hpos, hnz]
        have hk : (((c - p).toNat : Nat) : Int) = c - p := by omega
        generalize hkk : (c - p).toNat = k at hk
        have hk1 : 1 ≤ k := by omega
        by_cases hkb : k ≤ b.nbits
        · rw [BitField.onehot, onehot_shift b.nbits k hk1 hkb, two_pow_and_ne_zero,
            hbit k hk1 hkb]
          have e : c - (k : Int) = p := by omega
          have hkb' : c - p ≤ (b.nbits : Int) := by omega
          rw [e]
          by_cases hin : p ∈ a.acc
          · simp [hin, hkb']
          · simp only [hin, and_false, if_false, decide_false, Bool.false_eq_true]
            refine ⟨?_, trivial⟩
            simp only [Rel]
            refine ⟨hcur, ?_, by simp [hcin], ?_, ?_⟩
            · apply Nat.or_lt_two_pow hlt
              exact Nat.pow_lt_pow_right (by omega) (by omega)
            · intro q hq
              simp only [List.mem_cons] at hq
              rcases hq with rfl | hq
              · omega
              · exact hle q hq
            · intro d hd1 hdn
              show (b.bits ||| 2 ^ (b.nbits - k)).testBit (b.nbits - d) = _
              rw [Nat.testBit_or, Nat.testBit_two_pow, hbit d hd1 hdn]
              by_cases hdk : d = k
              · subst hdk; simp [e]
              · have h1 : ¬ (b.nbits - k = b.nbits - d) := by omega
                have h2 : ¬ (c - (d : Int) = p) := by omega
                simp [h1, h2]
        · have hkb' : ¬ (c - p ≤ (b.nbits : Int)) := by omega
          rw [BitField.onehot, onehot_shift_big b.nbits k hb (by omega)]
          simp only [Nat.zero_and, bne_self_eq_false, Bool.false_eq_true, if_false, hkb',
            false_and, Nat.or_zero]
          refine ⟨?_, trivial⟩
          simp only [Rel]
          refine ⟨hcur, hlt, by simp [hcin], ?_, ?_⟩
          · intro q hq
            simp only [List.mem_cons] at hq
            rcases hq with rfl | hq
            · omega
            · exact hle q hq
          · intro d hd1 hdn
            rw [hbit d hd1 hdn]
            have h2 : ¬ (c - (d : Int) = p) := by omega
            simp [h2]

theorem rel_contains (b : BitField) (a : Abs) (c q : Int) (hb : 0 < b.nbits) (hR : Rel b a)
    (hc : a.cur = some c) (h1 : c - q ≤ T) (h2 : -T ≤ c - q) :
    b.contains (ring q) = decide (0 ≤ c - q ∧ c - q ≤ b.nbits ∧ q ∈ a.acc) := by
  unfold Rel at hR
  simp only [hc] at hR
  obtain ⟨hcur, hlt, hcin, hle, hbit⟩ := hR
  have hd : diff b.cur (ring q) = c - q := by rw [hcur]; exact diff_ring c q h1 h2
  simp only [BitField.contains, hd]
  by_cases h0 : c - q = 0
  · have : q = c := by omega
    subst this
    simp [hcin]
  · simp only [h0, if_false]
    by_cases hpos : c - q > 0
    · simp only [hpos, if_true]
      have hk : (((c - q).toNat : Nat) : Int) = c - q := by omega
      generalize hkk : (c - q).toNat = k at hk
      have hk1 : 1 ≤ k := by omega
      by_cases hkb : k ≤ b.nbits
      · rw [BitField.onehot, onehot_shift b.nbits k hk1 hkb, two_pow_and_ne_zero, hbit k hk1 hkb]
        have e : c - (k : Int) = q := by omega
        have x1 : 0 ≤ c - q := by omega
        have x2 : c - q ≤ (b.nbits : Int) := by omega
        rw [e]; simp only [x1, x2, true_and]
      · rw [BitField.onehot, onehot_shift_big b.nbits k hb (by omega)]
        have x2 : ¬ (c - q ≤ (b.nbits : Int)) := by omega
        simp [x2]
    · simp only [hpos, if_false]
      have : ¬ (0 ≤ c - q) := by omega
      simp only [this, false_and, decide_false]

/-! ### histories -/

/-- run a history of absolute positions through both machines; `true` = accepted -/
def runAbs (nbits : Nat) : Abs → List Int → Abs × List Bool
  | a, [] => (a, [])
  | a, p :: ps => match a.insert nbits p with
    | .ok a' => let (a'', r) := runAbs nbits a' ps; (a'', true :: r)
    | .error _ => let (a'', r) := runAbs nbits a ps; (a'', false :: r)

def runBits : BitField → List Int → BitField × List Bool
  | b, [] => (b, [])
  | b, s :: ss => match b.insert s with
    | .ok b' => let (b'', r) := runBits b' ss; (b'', true :: r)
    | .error _ => let (b'', r) := runBits b ss; (b'', false :: r)

/-- every inserted position is within half a ring of the newest position at that moment -/
def InWindow (nbits : Nat) : Abs → List Int → Prop
  | _, [] => True
  | a, p :: ps =>
    (∀ c, a.cur = some c → c - p ≤ T ∧ -T ≤ c - p) ∧
    match a.insert nbits p with
    | .ok a' => InWindow nbits a' ps
    | .error _ => InWindow nbits a ps

theorem rel_run (b : BitField) (a : Abs) (ps : List Int) (hb : 0 < b.nbits) (hR : Rel b a)
    (hw : InWindow b.nbits a ps) :
    Rel (runBits b (ps.map ring)).1 (runAbs b.nbits a ps).1 ∧
    (runBits b (ps.map ring)).2 = (runAbs b.nbits a ps).2 ∧
    (runBits b (ps.map ring)).1.nbits = b.nbits := by
  induction ps generalizing b a with
  | nil => exact ⟨hR, rfl, rfl⟩
  | cons p ps ih =>
    obtain ⟨hwin, hrest⟩ := hw
    have h := rel_insert b a p hb hR hwin
    simp only [List.map_cons, runBits, runAbs]
    cases ha : a.insert b.nbits p with
    | ok a' =>
      cases hbi : b.insert (ring p) with
      | ok b' =>
        simp only [ha, hbi] at h hrest
        obtain ⟨hR', hn⟩ := h
        have := ih b' a' (by omega) hR' (by rw [hn]; exact hrest)
        simp only [hn] at this
        exact ⟨this.1, by simp [this.2.1], this.2.2⟩
      | error e => simp [ha, hbi] at h
    | error e =>
      cases hbi : b.insert (ring p) with
      | ok b' => simp only [ha, hbi] at h
      | error e' =>
        simp only [ha] at hrest
        have := ih b a hb hR hrest
        exact ⟨this.1, by simp [this.2.1], this.2.2⟩

end Mpgs.Seq
