import MpgsModel.Lemmas.WebSocketStream
/-!
Segmentation invariance of the handler for *arbitrary* byte streams (C18): what the reader does
with a buffer that starts with a complete frame does not depend on the bytes that follow
(`readFrame_append`), hence the handler loop commutes with cutting the input (`drain_append`,
`feed_eq_call`).  Core Lean only.
-/
namespace Mpgs.WebSocket

theorem recv_append (n : Nat) (l x : Buf) (h : n ≤ l.length) :
    recv n (l ++ x) = ((recv n l).1, (recv n l).2 ++ x) := by
  simp [recv, List.take_append_of_le_length h, List.drop_append_of_le_length h]

theorem readData_append (f : LibFrame) (buf x : Buf) (h : f.payloadLength ≤ buf.length) :
    readData f (buf ++ x) = ((readData f buf).1 ++ x, (readData f buf).2) := by
  simp only [readData, recv_append _ _ _ h]
  by_cases hm : f.mask = true
  · simp only [hm, if_true]
    cases xorLoop f.maskingKey 0 (recv f.payloadLength buf).1 <;> rfl
  · simp [hm]

/-- the part of `readFrame` after the two header bytes -/
def afterHeader (f : LibFrame) (buf : Buf) : Buf × Except Err LibFrame :=
  match readDataHeader f buf with
  | (buf, .error e) => (buf, .error e)
  | (buf, .ok f) => readData f buf

theorem readFrame_eq (buf : Buf) : readFrame buf =
    match readHeader buf with
    | (b, .error e) => (b, .error e)
    | (b, .ok f) => afterHeader f b := rfl

theorem afterHeader_eq (f : LibFrame) (t b' : Buf) (n : Nat) (h : readExtLen f t = (b', .ok n)) :
    afterHeader f t =
      if f.mask then readData { f with payloadLength := n, maskingKey := (recv 4 b').1 } (recv 4 b').2
      else readData { f with payloadLength := n } b' := by
  simp only [afterHeader, readDataHeader, h]
  by_cases hm : f.mask = true <;> simp [hm]

theorem afterHeader_append (f : LibFrame) (t x b' : Buf) (n : Nat)
    (h1 : readExtLen f t = (b', .ok n)) (h2 : readExtLen f (t ++ x) = (b' ++ x, .ok n))
    (h3 : (if f.mask then 4 else 0) + n ≤ b'.length) :
    afterHeader f (t ++ x) = ((afterHeader f t).1 ++ x, (afterHeader f t).2) := by
  rw [afterHeader_eq f t b' n h1, afterHeader_eq f (t ++ x) (b' ++ x) n h2]
  by_cases hm : f.mask = true
  · simp only [hm, if_true] at h3 ⊢
    rw [recv_append 4 b' x (by omega)]
    apply readData_append
    simp [recv]; omega
  · have hm' : f.mask = false := by simpa using hm
    simp only [hm', Bool.false_eq_true, if_false] at h3 ⊢
    apply readData_append
    simp; omega

theorem parseHeader_fields (a b : UInt8) (f : LibFrame) (h : parseHeader [a, b] = .ok f) :
    f.length7 = b.toNat &&& 0x7F ∧ f.mask = (b.toNat &&& 0x80 != 0) := by
  simp only [parseHeader] at h
  split at h
  · cases h
  · cases h; exact ⟨rfl, rfl⟩

/-- what the reader does with a buffer that starts with a complete frame does not depend on what
    follows the frame -/
theorem readFrame_append (buf x : Buf) (h : hasFrame buf = true) :
    readFrame (buf ++ x) = ((readFrame buf).1 ++ x, (readFrame buf).2) := by
  match buf, h with
  | a :: b1 :: t, h =>
    have hh : ∀ y, readHeader (a :: b1 :: y) = (y, parseHeader [a, b1]) := by
      intro y; simp [readHeader, recv]
    simp only [readFrame_eq, List.cons_append, hh]
    cases hp : parseHeader [a, b1] with
    | error e => rfl
    | ok f =>
      obtain ⟨hl, hm⟩ := parseHeader_fields a b1 f hp
      simp only [hasFrame, frameSize, ← hl, ← hm] at h
      simp only []
      by_cases h6 : f.length7 = 126
      · simp only [h6, if_true] at h
        match t, h with
        | c :: d :: t', h =>
          simp only [decide_eq_true_eq, List.length_cons] at h
          apply afterHeader_append f _ x t' (be16 c d)
          · simp [readExtLen, h6, recv, unpackH]
          · simp [readExtLen, h6, recv, unpackH]
          · cases hmm : f.mask <;> simp [hmm] at h ⊢ <;> omega
      · by_cases h7 : f.length7 = 127
        · simp only [h7, if_true] at h
          match t, h with
          | c0 :: c1 :: c2 :: c3 :: c4 :: c5 :: c6 :: c7 :: t', h =>
            simp only [List.length_cons] at h
            apply afterHeader_append f _ x t' (be64 c0 c1 c2 c3 c4 c5 c6 c7)
            · simp [readExtLen, h7, recv, unpackQ]
            · simp [readExtLen, h7, recv, unpackQ]
            · cases hmm : f.mask <;> simp [hmm] at h ⊢ <;> omega
        · simp only [h6, h7, if_false, decide_eq_true_eq, List.length_cons] at h
          apply afterHeader_append f _ x t f.length7
          · simp [readExtLen, h6, h7]
          · simp [readExtLen, h6, h7]
          · cases hmm : f.mask <;> simp [hmm] at h ⊢ <;> omega

theorem hasFrame_append (buf x : Buf) (h : hasFrame buf = true) : hasFrame (buf ++ x) = true := by
  cases hs : frameSize buf with
  | none => simp [hasFrame, hs] at h
  | some n =>
    simp only [hasFrame, hs, decide_eq_true_eq] at h
    simp only [hasFrame, frameSize_append buf x n hs, decide_eq_true_eq, List.length_append]
    omega

/-- one loop iteration does not depend on what follows the first complete frame -/
theorem stepFrame_append (h : Handler) (x : Buf) (hf : hasFrame h.buf = true) :
    Handler.stepFrame ⟨h.buf ++ x, h.closed⟩ =
      (⟨h.stepFrame.1.buf ++ x, h.stepFrame.1.closed⟩, h.stepFrame.2.1, h.stepFrame.2.2) := by
  simp only [Handler.stepFrame, readFrame_append h.buf x hf]
  generalize readFrame h.buf = r
  obtain ⟨b, r⟩ := r
  cases r with
  | error e => rfl
  | ok f =>
    simp only []
    by_cases hm : (!f.mask) = true
    · simp [hm]
    · by_cases hu : (f.opcode = .text && !validUtf8 f.payload) = true
      · simp [hm, hu]
      · by_cases hc : f.opcode = .close
        · simp [hm, hc, close_events]
        · simp [hm, hu, hc]

theorem drain_err (h h' : Handler) (evs : List Event) (e : Err) (hf : hasFrame h.buf = true)
    (hs : h.stepFrame = (h', evs, some e)) : h.drain = (h', evs, some e) := by
  rw [Handler.drain]
  simp only [hf, dite_true]
  split
  · rename_i heq
    rw [hs] at heq
    cases heq
    rfl
  · rename_i heq
    rw [hs] at heq
    cases heq

theorem stepFrame_shrinks (h : Handler) (hf : hasFrame h.buf = true) :
    h.stepFrame.1.buf.length < h.buf.length := by
  rw [Handler.stepFrame_buf]
  have := readFrame_length_le h.buf
  have := hasFrame_length hf
  omega

/-- when the loop ends without an exception the buffer holds no complete frame -/
theorem drain_post (n : Nat) : ∀ h : Handler, h.buf.length = n → h.drain.2.2 = none →
    hasFrame h.drain.1.buf = false := by
  induction n using Nat.strongRecOn with
  | ind n ih =>
    intro h hn hok
    by_cases hf : hasFrame h.buf = true
    · rcases hs : h.stepFrame with ⟨h1, evs1, e1⟩
      cases e1 with
      | some e => rw [drain_err h h1 evs1 e hf hs] at hok; cases hok
      | none =>
        rw [drain_step h h1 evs1 hf hs] at hok ⊢
        have hlt := stepFrame_shrinks h hf
        rw [hs] at hlt
        exact ih h1.buf.length (by simpa [hn] using hlt) h1 rfl hok
    · have hf' : hasFrame h.buf = false := by simpa using hf
      rw [drain_not_ready h hf']
      exact hf'

/-- the loop on `buf ++ x` = the loop on `buf`, then the loop on what it left ++ `x` -/
theorem drain_append (n : Nat) : ∀ (h : Handler) (x : Buf), h.buf.length = n →
    (Handler.drain ⟨h.buf ++ x, h.closed⟩).2.2 = none →
    h.drain.2.2 = none ∧
    Handler.drain ⟨h.buf ++ x, h.closed⟩ =
      ((Handler.drain ⟨h.drain.1.buf ++ x, h.drain.1.closed⟩).1,
       h.drain.2.1 ++ (Handler.drain ⟨h.drain.1.buf ++ x, h.drain.1.closed⟩).2.1,
       (Handler.drain ⟨h.drain.1.buf ++ x, h.drain.1.closed⟩).2.2) := by
  induction n using Nat.strongRecOn with
  | ind n ih =>
    intro h x hn hok
    by_cases hf : hasFrame h.buf = true
    · have hfx : hasFrame (Handler.mk (h.buf ++ x) h.closed).buf = true := hasFrame_append h.buf x hf
      have hsx := stepFrame_append h x hf
      rcases hs : h.stepFrame with ⟨h1, evs1, e1⟩
      rw [hs] at hsx
      simp only [] at hsx
      cases e1 with
      | some e => rw [drain_err _ _ _ e hfx hsx] at hok; cases hok
      | none =>
        rw [drain_step _ _ _ hfx hsx] at hok ⊢
        rw [drain_step h h1 evs1 hf hs]
        have hlt := stepFrame_shrinks h hf
        rw [hs] at hlt
        obtain ⟨i1, i2⟩ := ih h1.buf.length (by simpa [hn] using hlt) h1 x rfl hok
        refine ⟨i1, ?_⟩
        rw [i2]
        simp [List.append_assoc]
    · have hf' : hasFrame h.buf = false := by simpa using hf
      rw [drain_not_ready h hf']
      simp

/-- **segmentation invariance for arbitrary bytes**: if handling the whole byte string in one read
    raises nothing, then every way of delivering it in pieces gives the same final state and the
    same events in the same order -/
theorem feed_eq_call (chunks : List Buf) : ∀ h : Handler, hasFrame h.buf = false →
    (h.call chunks.flatten).2.2 = none → h.feed chunks = h.call chunks.flatten := by
  induction chunks with
  | nil =>
    intro h hf _
    simp only [Handler.feed, Handler.call, List.flatten_nil, List.append_nil]
    rw [drain_not_ready _ hf]
  | cons c cs ih =>
    intro h _ hok
    have e : Handler.call h (c :: cs).flatten
        = Handler.drain ⟨(Handler.mk (h.buf ++ c) h.closed).buf ++ cs.flatten, h.closed⟩ := by
      simp [Handler.call, List.append_assoc]
    rw [e] at hok ⊢
    obtain ⟨i1, i2⟩ := drain_append _ ⟨h.buf ++ c, h.closed⟩ cs.flatten rfl hok
    rw [i2] at hok ⊢
    have hp := drain_post _ ⟨h.buf ++ c, h.closed⟩ rfl i1
    simp only [Handler.feed, Handler.call]
    rcases hd : Handler.drain ⟨h.buf ++ c, h.closed⟩ with ⟨h1, evs1, e1⟩
    rw [hd] at i1 hp hok
    simp only [] at i1 hp hok ⊢
    subst i1
    have := ih h1 hp hok
    simp only [Handler.call] at this
    simp only [this]

/-- any two ways of cutting the same bytes -/
theorem feed_chunkings_agree (cs1 cs2 : List Buf) (h : Handler) (hf : hasFrame h.buf = false)
    (he : cs1.flatten = cs2.flatten) (hok : (h.call cs1.flatten).2.2 = none) :
    h.feed cs1 = h.feed cs2 := by
  rw [feed_eq_call cs1 h hf hok, feed_eq_call cs2 h hf (he ▸ hok), he]

/-- the bytes written to the transport -/
def written : List Event → Buf
  | [] => []
  | .wrote b :: es => b ++ written es
  | .deliver _ _ :: es => written es

theorem written_map_wrote (ws : List Buf) : written (ws.map .wrote) = ws.flatten := by
  induction ws with
  | nil => rfl
  | cons w ws ih => simp [written, ih]

end Mpgs.WebSocket
