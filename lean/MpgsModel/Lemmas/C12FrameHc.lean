import MpgsModel.Model.ConnStep
-- GENERATED from ConnFrame.lean by the method of tools/gen_frames.py (projection `hc`) - do not edit
/-! Frame lemmas for C12: the functions below leave the projection `hc` of the connection state alone. -/
namespace Mpgs.Conn
open Mpgs.Bytes Mpgs.Wire

/-- the connect-attempt clock of the client: when the hello went out, the configured time-out, whether a callback was given -/
def hc (c : Conn) : Int × Int × Bool := (c.helloSentAt, c.tempTimeout, c.hasConnectCb)

theorem hc_sendType (c : Conn) (ty : PType) (p : Bytes) (r : Int) (cb : Option Cb) :
    hc (sendType c ty p r cb) = hc c := by
  unfold sendType hc; split <;> rfl

theorem hc_sendFrags (c : Conn) (fid fragId count : Nat) (retry : Int) (i : Nat) (fs : List Bytes) :
    hc (sendFrags c fid fragId count retry i fs) = hc c := by
  induction fs generalizing c i with
  | nil => rfl
  | cons f fs ih => simp only [sendFrags]; rw [ih, hc_sendType]

theorem hc_sendFragmented (sz : Sizes) (c : Conn) (p : Bytes) (r : Int) (cb : Option Nat) :
    hc (sendFragmented sz c p r cb).1 = hc c := by
  unfold sendFragmented
  simp only
  split
  · rfl
  · show hc (sendFrags _ _ _ _ _ _ _) = hc c
    rw [hc_sendFrags]; rfl

theorem hc_send (sz : Sizes) (c : Conn) (p : Bytes) (r : Int) (cb : Option Nat) :
    hc (send sz c p r cb).1 = hc c := by
  unfold send
  split
  · rfl
  · split
    · rfl
    · split
      · exact hc_sendFragmented sz c p r cb
      · exact hc_sendType c .app p r _

theorem hc_disconnect (c : Conn) (cb : Option Cb) : hc (disconnect c cb) = hc c := by
  unfold disconnect sendType hc
  split
  · split <;> rfl
  · rfl

theorem hc_runLeaf (c : Conn) (cb : Cb) (v : Bool) : hc (runLeaf c cb v).1 = hc c := by
  unfold runLeaf
  split
  · rfl
  · split
    · rfl
    · split
      · rfl
      · rfl
      · split
        · exact hc_sendType _ _ _ _ _
        · simp only
          split
          · split <;> rfl
          · rfl
  · rfl
  · rfl
  · rfl
  · rfl

theorem hc_runCb (c : Conn) (cb : Cb) (v : Bool) : hc (runCb c cb v).1 = hc c := by
  unfold runCb
  split
  · split
    · rfl
    · split
      · rfl
      · split
        · rfl
        · simp only
          split
          · rw [hc_runLeaf]; rfl
          · rfl
  · exact hc_runLeaf _ _ _

theorem hc_runCbs (c : Conn) (cbs : List Cb) (v : Bool) : hc (runCbs c cbs v).1 = hc c := by
  induction cbs generalizing c with
  | nil => rfl
  | cons cb cbs ih =>
    simp only [runCbs]
    rw [ih, hc_runCb]

theorem hc_resolve (c : Conn) (s : Nat) (ok : Bool) : hc (resolve c s ok).1 = hc c := by
  unfold resolve
  simp only
  have h0 : hc (if ok = true then { c with acked := c.acked + 1 } else { c with timeouts := c.timeouts + 1 }) = hc c := by
    split <;> rfl
  generalize (if ok = true then { c with acked := c.acked + 1 } else { c with timeouts := c.timeouts + 1 }) = c0 at *
  cases hcb : aget c0.pendingCbs s with
  | none =>
    simp only
    cases hr : aget c0.pendingRetry s <;> simp only [hc] at h0 ⊢ <;> exact h0
  | some cbs =>
    simp only
    have h1 := hc_runCbs c0 cbs ok
    generalize runCbs c0 cbs ok = r at *
    obtain ⟨c', ev⟩ := r
    simp only at h1 ⊢
    cases hr : aget c'.pendingRetry s <;> simp only [hc] at h0 h1 ⊢ <;> rw [h1, h0]

theorem hc_checkTimeoutKeys (c : Conn) (t : Int) (ks : List Nat) :
    hc (checkTimeoutKeys c t ks).1 = hc c := by
  induction ks generalizing c with
  | nil => rfl
  | cons s ks ih =>
    simp only [checkTimeoutKeys]
    split
    · exact ih c
    · split
      · simp only; rw [ih, hc_resolve]
      · exact ih c

theorem hc_checkTimeout (c : Conn) (t : Int) : hc (checkTimeout c t).1 = hc c :=
  hc_checkTimeoutKeys c t _

theorem hc_handleAckKeys (c : Conn) (a b : Nat) (ks : List Nat) :
    hc (handleAckKeys c a b ks).1 = hc c := by
  induction ks generalizing c with
  | nil => rfl
  | cons s ks ih =>
    simp only [handleAckKeys]
    split
    · exact ih c
    · split
      · simp only; rw [ih, hc_resolve]
      · split
        · simp only; rw [ih, hc_resolve]
        · exact ih c

theorem hc_recvAppFragment (c : Conn) (t : Int) (m : Nat) (f : Bytes) :
    hc (recvAppFragment c t m f).1 = hc c := by
  unfold recvAppFragment
  split
  · rfl
  · simp only
    split <;> rfl

/-- the handshake handlers of a role leave the sender clock alone -/
def Role.KeepsHc (R : Role) : Prop :=
  (∀ c t p, hc (R.clientHello c t p).1 = hc c) ∧ (∀ c t p, hc (R.serverHello c t p).1 = hc c) ∧
  (∀ c t p, hc (R.challengeResp c t p).1 = hc c)

theorem hc_recvMessage (R : Role) (hR : R.KeepsHc) (c : Conn) (t : Int) (m : WMsg) :
    hc (recvMessage R c t m).1 = hc c := by
  unfold recvMessage
  split
  · rfl
  · rename_i bf _
    have e : hc { c with bfMsg := bf } = hc c := rfl
    split
    · rw [hR.1]; exact e
    · rw [hR.2.1]; exact e
    · rw [hR.2.2]; exact e
    · exact e
    · exact e
    · rw [hc_recvAppFragment]; exact e
    · exact e
    · exact e

theorem hc_recvMessages (R : Role) (hR : R.KeepsHc) (c : Conn) (t : Int) (ms : List WMsg) :
    hc (recvMessages R c t ms).1 = hc c := by
  induction ms generalizing c with
  | nil => rfl
  | cons m ms ih =>
    simp only [recvMessages]
    have h1 := hc_recvMessage R hR c t m
    generalize recvMessage R c t m = r at *
    obtain ⟨c1, e1, err⟩ := r
    cases err with
    | some e => exact h1
    | none => simp only; rw [ih]; exact h1

theorem hc_accept (R : Role) (hR : R.KeepsHc) (c : Conn) (t : Int) (h : Header) (pkt : Packet)
    (bf : Seq.BitField) : hc (accept R c t h pkt bf).1 = hc c := by
  unfold accept
  simp only
  rw [hc_recvMessages R hR]
  unfold handleAckBits
  rw [hc_handleAckKeys]
  rfl

theorem hc_recvDatagram (C : Crypto) (R : Role) (hR : R.KeepsHc) (c : Conn) (t : Int) (h : Header)
    (d : Bytes) : hc (recvDatagram C R c t h d).1 = hc c := by
  unfold recvDatagram
  split
  · rfl
  · split
    · rfl
    · split
      · rfl
      · split
        · rfl
        · exact hc_accept R hR c t h _ _

theorem baseRole_keepsHc : baseRole.KeepsHc := ⟨fun _ _ _ => rfl, fun _ _ _ => rfl, fun _ _ _ => rfl⟩

end Mpgs.Conn
