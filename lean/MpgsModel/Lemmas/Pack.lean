import MpgsModel.Model.Conn
import MpgsModel.Lemmas.Wire
/-! Packing lemmas for `_build_packet_impl`: size accounting, conservation of queued messages. -/
namespace Mpgs.Conn
open Mpgs.Bytes Mpgs.Wire

def sumLen : List PMsg → Nat
  | [] => 0
  | m :: ms => m.payload.length + sumLen ms

theorem sumLen_append (a b : List PMsg) : sumLen (a ++ b) = sumLen a + sumLen b := by
  induction a with
  | nil => simp [sumLen]
  | cons m a ih => simp [sumLen, ih]; omega

/-- the invariant of the packing loops: `len` is the sum of the payload lengths, at most 255
messages, and (if non-empty) payloads + per-message overhead fit the datagram capacity -/
def Pack.Inv (sz : Sizes) (p : Pack) : Prop :=
  p.len = sumLen p.msgs ∧ p.msgs.length ≤ 255 ∧
  (p.msgs ≠ [] → p.len + overhead p.msgs.length ≤ sz.maxPayload + 2)

theorem Pack.inv_empty (sz : Sizes) : Pack.Inv sz {} := by simp [Pack.Inv, sumLen]

theorem Pack.inv_add (sz : Sizes) (p : Pack) (m : PMsg) (hi : p.Inv sz) (hf : fits sz p m = true) :
    (p.add m).Inv sz := by
  obtain ⟨h1, h2, h3⟩ := hi
  simp only [fits, Bool.and_eq_true, decide_eq_true_eq] at hf
  refine ⟨?_, ?_, ?_⟩
  · simp [Pack.add, sumLen_append, sumLen, h1]
  · simp [Pack.add]; omega
  · intro _
    simp only [Pack.add, List.length_append, List.length_singleton]
    have : p.msgs.length + 1 = 1 + p.msgs.length := by omega
    rw [this]; omega

theorem packResend_inv (sz : Sizes) (t delay : Int) (items : List (Nat × PMsg)) (p : Pack)
    (prm : List (Nat × PMsg)) (hi : p.Inv sz) : (packResend sz t delay items p prm).1.Inv sz := by
  induction items generalizing p prm with
  | nil => simpa [packResend]
  | cons x items ih =>
    obtain ⟨ms, m⟩ := x
    simp only [packResend]
    split
    · exact ih p prm hi
    · split
      · rename_i hf; exact ih _ _ (Pack.inv_add sz p m hi hf)
      · exact ih p prm hi

theorem packNew_inv (sz : Sizes) (q : List PMsg) (p : Pack) (hi : p.Inv sz) :
    (packNew sz q p).1.Inv sz := by
  induction q generalizing p with
  | nil => simpa [packNew]
  | cons m q ih =>
    simp only [packNew]
    split
    · rename_i hf; exact ih _ (Pack.inv_add sz p m hi hf)
    · exact ih p hi

/-- conservation: the messages taken by the first-fit loop together with those left queued are
exactly the queue (as a multiset); nothing is lost or duplicated -/
theorem packNew_perm (sz : Sizes) (q : List PMsg) (p : Pack) :
    ∃ taken, (packNew sz q p).1.msgs = p.msgs ++ taken ∧ (taken ++ (packNew sz q p).2).Perm q := by
  induction q generalizing p with
  | nil => exact ⟨[], by simp [packNew]⟩
  | cons m q ih =>
    simp only [packNew]
    split
    · obtain ⟨tk, h1, h2⟩ := ih (p.add m)
      refine ⟨m :: tk, ?_, ?_⟩
      · rw [h1]; simp [Pack.add]
      · simpa using h2
    · obtain ⟨tk, h1, h2⟩ := ih p
      refine ⟨tk, h1, ?_⟩
      simp only
      exact (List.perm_middle).trans (List.Perm.cons m h2)

/-- if the whole queue fits one datagram (and at most 255 messages) the loop takes it all -/
theorem packNew_all (sz : Sizes) (q : List PMsg) (p : Pack) (hi : p.Inv sz)
    (hfit : p.len + sumLen q + overhead (p.msgs.length + q.length) ≤ sz.maxPayload + 2)
    (hcnt : p.msgs.length + q.length ≤ 255) :
    (packNew sz q p).2 = [] ∧ (packNew sz q p).1.msgs = p.msgs ++ q := by
  induction q generalizing p with
  | nil => simp [packNew]
  | cons m q ih =>
    have hf : fits sz p m = true := by
      simp only [fits, Bool.and_eq_true, decide_eq_true_eq]
      simp only [sumLen, List.length_cons] at hfit hcnt
      have hov : overhead (1 + p.msgs.length) ≤ overhead (p.msgs.length + (q.length + 1)) := by
        unfold overhead; split <;> split <;> (try split) <;> (try split) <;> omega
      constructor <;> omega
    simp only [packNew, hf, if_true]
    have hi' := Pack.inv_add sz p m hi hf
    have := ih (p.add m) hi' (by
      simp only [Pack.add, List.length_append, List.length_singleton, sumLen, List.length_cons,
        List.length_nil] at *
      have : p.msgs.length + (0 + 1) + q.length = p.msgs.length + (q.length + 1) := by omega
      rw [this]; omega) (by simp [Pack.add] at *; omega)
    refine ⟨this.1, ?_⟩
    rw [this.2]; simp [Pack.add]

theorem wmsgs_len (ms : List PMsg) :
    ((ms.map toWMsg).map (fun m => 5 + m.payload.length)).sum = sumLen ms + 5 * ms.length := by
  induction ms with
  | nil => rfl
  | cons m ms ih => simp [sumLen, toWMsg, ih] at *; omega

/-- payload length of the packet `create` builds from a pack = payloads + `overhead(n)` -/
theorem create_len (h : Header) (ms : List PMsg) (p : Packet)
    (hc : create h (ms.map toWMsg) = .ok p) :
    p.msg.length = sumLen ms + overhead ms.length ∧ p.hdr.count = ms.length ∧
    p.hdr.length = p.msg.length := by
  match ms, hc with
  | [], hc =>
    simp only [List.map_nil, create] at hc
    injection hc with hc; subst hc
    simp [sumLen, overhead]
  | [m], hc =>
    simp only [List.map_cons, List.map_nil, create] at hc
    split at hc
    · injection hc with hc; subst hc
      simp [sumLen, overhead, toWMsg]; omega
    · simp at hc
  | m1 :: m2 :: rest, hc =>
    simp only [List.map_cons, create] at hc
    split at hc
    · injection hc with hc; subst hc
      have := wmsgs_len (m1 :: m2 :: rest)
      simp only [List.map_cons] at this
      refine ⟨?_, by simp, rfl⟩
      simp only [packMulti_length, List.map_cons, this, overhead, List.length_cons]
      have : ¬ (rest.length + 1 + 1 = 0) := by omega
      have : ¬ (rest.length + 1 + 1 = 1) := by omega
      simp [*]
    · simp at hc

theorem packNew_msgs_prefix (sz : Sizes) (q : List PMsg) (p : Pack) :
    ∃ taken, (packNew sz q p).1.msgs = p.msgs ++ taken := by
  obtain ⟨tk, h1, _⟩ := packNew_perm sz q p
  exact ⟨tk, h1⟩

/-- if the loop took nothing, it kept the whole queue, in order -/
theorem packNew_none (sz : Sizes) (q : List PMsg) (p : Pack)
    (h : (packNew sz q p).1.msgs = p.msgs) : (packNew sz q p).2 = q := by
  induction q generalizing p with
  | nil => simp [packNew]
  | cons m q ih =>
    simp only [packNew] at h ⊢
    split
    · rename_i hf
      exfalso
      simp only [hf, if_true] at h
      obtain ⟨tk, ht⟩ := packNew_msgs_prefix sz q (p.add m)
      rw [ht] at h
      have := congrArg List.length h
      simp [Pack.add] at this
    · rename_i hf
      simp only [hf] at h
      simp only
      rw [ih p h]

theorem sumLen_mem_le (ms : List PMsg) (m : PMsg) (h : m ∈ ms) : m.payload.length ≤ sumLen ms := by
  induction ms with
  | nil => simp at h
  | cons x ms ih =>
    simp only [List.mem_cons] at h
    simp only [sumLen]
    rcases h with rfl | h
    · omega
    · have := ih h; omega

theorem create_ok_of_wf (h : Header) (ms : List WMsg)
    (hw : ∀ w ∈ ms, w.seq < 65536 ∧ w.payload.length < 65536) (e : Wire.Err)
    (hc : create h ms = .error e) : False := by
  match ms, hw, hc with
  | [], _, hc => simp [create] at hc
  | [m], hw, hc =>
    have := hw m (by simp)
    simp [create, this.1] at hc
  | m1 :: m2 :: rest, hw, hc =>
    have hall : (m1 :: m2 :: rest).all (fun m => decide (m.seq < 65536) && decide (m.payload.length < 65536)) = true := by
      rw [List.all_eq_true]
      intro m hm
      have := hw m hm
      simp [this.1, this.2]
    simp only [create, hall, if_true] at hc
    simp at hc

end Mpgs.Conn
