import MpgsModel.Model.Path
/-!
Helper lemmas for `Props/C17.lean` (core Lean only).

Structure
1. `split` / `joinSlash` algebra (`split (a ++ "/" ++ b) = split a ++ split b`, no component of a
   split contains the separator, `split ∘ joinSlash = id` on separator-free components).
2. the `normpath` loop: in rooted mode the stack only ever holds `Clean` components; components
   other than `..` are never popped (`foldl_normStep_noDotdot`).
3. `normpath` of an absolute path = root slashes ++ stack joined (`normpath_abs`).
4. `join`: associativity for relative arguments, the root slashes of a join.
5. the containment core (`core`) and the reduction of `pathJoinSafe` to it.
-/
namespace Mpgs.Path

/-! ### 1. split / joinSlash -/

theorem split_nil : split [] = [[]] := rfl

theorem split_cons_slash (s : Str) : split ('/' :: s) = [] :: split s := by
  simp [split, splitAux]

theorem split_cons_other (c : Char) (s : Str) (h : c ≠ '/') :
    split (c :: s) = (c :: (splitAux s).1) :: (splitAux s).2 := by
  simp [split, splitAux, h]

theorem split_append_slash (a b : Str) : split (a ++ '/' :: b) = split a ++ split b := by
  induction a with
  | nil => simp [split, splitAux]
  | cons c a ih =>
    by_cases hc : c = '/'
    · subst hc
      simp only [List.cons_append, split_cons_slash, ih]
    · simp only [List.cons_append, split_cons_other _ _ hc]
      simp only [split] at ih
      simp only [List.cons_append, List.cons.injEq] at ih
      simp [ih.1, ih.2, split]

theorem split_noSlash (s : Str) : ∀ c ∈ split s, '/' ∉ c := by
  induction s with
  | nil => simp [split, splitAux]
  | cons x s ih =>
    by_cases hx : x = '/'
    · subst hx
      intro c hc
      rw [split_cons_slash] at hc
      rcases List.mem_cons.mp hc with rfl | hc
      · simp
      · exact ih c hc
    · intro c hc
      rw [split_cons_other _ _ hx] at hc
      rcases List.mem_cons.mp hc with rfl | hc
      · have := ih (splitAux s).1 (by simp [split])
        intro hm
        rcases List.mem_cons.mp hm with h | h
        · exact hx h.symm
        · exact this h
      · exact ih c (by simp [split, hc])

theorem split_of_noSlash (c : Str) (h : '/' ∉ c) : split c = [c] := by
  induction c with
  | nil => rfl
  | cons x c ih =>
    have hx : x ≠ '/' := fun e => h (by simp [e])
    have hc : '/' ∉ c := fun e => h (by simp [e])
    have := ih hc
    simp only [split, List.cons.injEq] at this
    rw [split_cons_other _ _ hx, this.1, this.2]

theorem split_joinSlash (cs : List Str) (hne : cs ≠ []) (h : ∀ c ∈ cs, '/' ∉ c) :
    split (joinSlash cs) = cs := by
  induction cs with
  | nil => exact absurd rfl hne
  | cons c cs ih =>
    cases cs with
    | nil => simpa [joinSlash] using split_of_noSlash c (h c (by simp))
    | cons d cs =>
      simp only [joinSlash]
      rw [split_append_slash, split_of_noSlash c (h c (by simp)),
        ih (by simp) (fun x hx => h x (List.mem_cons_of_mem _ hx))]
      rfl

theorem joinSlash_append (s f : List Str) (hs : s ≠ []) (hf : f ≠ []) :
    joinSlash (s ++ f) = joinSlash s ++ '/' :: joinSlash f := by
  induction s with
  | nil => exact absurd rfl hs
  | cons c s ih =>
    cases s with
    | nil =>
      cases f with
      | nil => exact absurd rfl hf
      | cons d f => simp [joinSlash]
    | cons d s =>
      have := ih (by simp)
      simp only [List.cons_append] at this ⊢
      simp [joinSlash, this]

/-! ### 2. the normpath loop -/

theorem normStep_skip (b : Bool) (st : List Str) (c : Str) (h : c = [] ∨ c = dot) :
    normStep b st c = st := by
  simp [normStep, h]

theorem normStep_push (b : Bool) (st : List Str) (c : Str) (h0 : c ≠ []) (h1 : c ≠ dot)
    (h2 : c ≠ dotdot) : normStep b st c = st ++ [c] := by
  simp [normStep, h0, h1, h2]

/-- the components the loop keeps when none of them is `..` -/
def keep : List Str → List Str
  | [] => []
  | c :: cs => if c = [] ∨ c = dot then keep cs else c :: keep cs

theorem mem_keep (cs : List Str) (c : Str) : c ∈ keep cs ↔ c ∈ cs ∧ c ≠ [] ∧ c ≠ dot := by
  induction cs with
  | nil => simp [keep]
  | cons d cs ih =>
    by_cases hd : d = [] ∨ d = dot
    · simp only [keep, hd, if_true, ih, List.mem_cons]
      constructor
      · rintro ⟨h1, h2⟩; exact ⟨Or.inr h1, h2⟩
      · rintro ⟨h1 | h1, h2⟩
        · subst h1; exact absurd hd (by simp [h2.1, h2.2])
        · exact ⟨h1, h2⟩
    · simp only [keep, hd, if_false, List.mem_cons, ih]
      constructor
      · rintro (h | ⟨h1, h2⟩)
        · subst h; exact ⟨Or.inl rfl, by simpa using hd⟩
        · exact ⟨Or.inr h1, h2⟩
      · rintro ⟨h1 | h1, h2⟩
        · exact Or.inl h1
        · exact Or.inr ⟨h1, h2⟩

/-- components that are not `..` are appended (or skipped), never popped -/
theorem foldl_normStep_noDotdot (b : Bool) (cs : List Str) (st : List Str)
    (h : dotdot ∉ cs) : cs.foldl (normStep b) st = st ++ keep cs := by
  induction cs generalizing st with
  | nil => simp [keep]
  | cons c cs ih =>
    have hc : c ≠ dotdot := fun e => h (by simp [e])
    have hcs : dotdot ∉ cs := fun e => h (by simp [e])
    simp only [List.foldl_cons]
    by_cases hd : c = [] ∨ c = dot
    · rw [normStep_skip b st c hd, ih _ hcs]; simp [keep, hd]
    · have h0 : c ≠ [] := fun e => hd (Or.inl e)
      have h1 : c ≠ dot := fun e => hd (Or.inr e)
      rw [normStep_push b st c h0 h1 hc, ih _ hcs]; simp [keep, hd]

theorem clean_not_dotdot {st : List Str} (h : ∀ c ∈ st, Clean c) : st.getLast? ≠ some dotdot := by
  intro e
  have := List.mem_of_getLast? e
  exact (h _ this).2.2.1 rfl

/-- rooted mode, `..`: pop (nothing to pop at the root) -/
theorem normStep_dotdot_rooted (st : List Str) (hl : st.getLast? ≠ some dotdot) :
    normStep true st dotdot = st.dropLast := by
  unfold normStep
  have a : ¬ (dotdot = [] ∨ dotdot = dot) := by decide
  rw [if_neg a]
  have b : ¬ (dotdot ≠ dotdot ∨ (true = false ∧ st = []) ∨ (st ≠ [] ∧ st.getLast? = some dotdot)) := by
    simp [hl]
  rw [if_neg b]
  split
  · rfl
  · simp_all

/-- rooted mode: the stack holds clean components only -/
theorem normStep_clean (st : List Str) (c : Str) (hst : ∀ x ∈ st, Clean x) (hc : '/' ∉ c) :
    ∀ x ∈ normStep true st c, Clean x := by
  by_cases hd : c = [] ∨ c = dot
  · rw [normStep_skip _ _ _ hd]; exact hst
  · have h0 : c ≠ [] := fun e => hd (Or.inl e)
    have h1 : c ≠ dot := fun e => hd (Or.inr e)
    by_cases h2 : c = dotdot
    · subst h2
      rw [normStep_dotdot_rooted st (clean_not_dotdot hst)]
      intro x hx
      exact hst x (List.dropLast_subset _ hx)
    · rw [normStep_push _ _ _ h0 h1 h2]
      intro x hx
      rcases List.mem_append.mp hx with hx | hx
      · exact hst x hx
      · have : x = c := by simpa using hx
        subst this
        exact ⟨h0, h1, h2, hc⟩

theorem foldl_normStep_clean (cs : List Str) (st : List Str) (hst : ∀ x ∈ st, Clean x)
    (hcs : ∀ c ∈ cs, '/' ∉ c) : ∀ x ∈ cs.foldl (normStep true) st, Clean x := by
  induction cs generalizing st with
  | nil => simpa using hst
  | cons c cs ih =>
    simp only [List.foldl_cons]
    exact ih _ (normStep_clean st c hst (hcs c (by simp))) (fun x hx => hcs x (List.mem_cons_of_mem _ hx))

/-! ### 3. normpath of an absolute path -/

/-- the stack `normpath` builds for an absolute path, computed on the *whole* path: the root
    slashes only contribute empty components, which the loop skips -/
def stack (p : Str) : List Str := (split p).foldl (normStep true) []

@[simp] theorem normStep_nil (b : Bool) (st : List Str) : normStep b st [] = st := by
  simp [normStep]

theorem foldl_skip_nil (b : Bool) (cs : List Str) (st : List Str) :
    ([] :: cs).foldl (normStep b) st = cs.foldl (normStep b) st := by
  simp [List.foldl_cons, normStep]

theorem stack_cons_slash (r : Str) : stack ('/' :: r) = (split r).foldl (normStep true) [] := by
  simp [stack, split_cons_slash]

theorem isabs_iff (p : Str) : isabs p = true ↔ ∃ r, p = '/' :: r := by
  cases p with
  | nil => simp [isabs]
  | cons c r => simp [isabs]

theorem isabs_false_iff (p : Str) : isabs p = false ↔ p = [] ∨ ∃ c r, p = c :: r ∧ c ≠ '/' := by
  cases p with
  | nil => simp [isabs]
  | cons c r => simp [isabs]

theorem splitroot_abs (p : Str) (h : isabs p = true) :
    ((splitroot p).1 = ['/'] ∨ (splitroot p).1 = ['/', '/']) ∧
    (split (splitroot p).2).foldl (normStep true) [] = stack p := by
  obtain ⟨r1, rfl⟩ := (isabs_iff p).mp h
  cases r1 with
  | nil => simp [splitroot, stack_cons_slash]
  | cons c1 r2 =>
    by_cases h1 : c1 = '/'
    · subst h1
      cases r2 with
      | nil => simp [splitroot, stack_cons_slash, split_cons_slash]
      | cons c2 r3 =>
        by_cases h2 : c2 = '/'
        · subst h2
          simp [splitroot, stack_cons_slash]
        · simp [splitroot, h2, stack_cons_slash, split_cons_slash]
    · simp [splitroot, h1, stack_cons_slash]

theorem normpath_abs (p : Str) (h : isabs p = true) :
    normpath p = (splitroot p).1 ++ joinSlash (stack p) := by
  obtain ⟨hsl, hst⟩ := splitroot_abs p h
  have hne : p ≠ [] := by
    intro e; subst e; simp [isabs] at h
  have hr : (splitroot p).1 ≠ [] := by
    rcases hsl with e | e <;> simp [e]
  unfold normpath
  simp only [if_neg hne]
  have hd : decide ((splitroot p).1 ≠ []) = true := by simpa using hr
  rw [hd, hst]
  have : (splitroot p).1 ++ joinSlash (stack p) ≠ [] := by
    intro e
    exact hr (List.append_eq_nil_iff.mp e).1
  simp [this]

/-! ### 4. join -/

theorem endsSlash_iff (a : Str) : endsSlash a = true ↔ ∃ a0, a = a0 ++ ['/'] := by
  simp [endsSlash, List.getLast?_eq_some_iff]

theorem join_rel (a b : Str) (hb : isabs b = false) :
    join a b = if a = [] ∨ endsSlash a = true then a ++ b else a ++ '/' :: b := by
  simp [join, hb]

theorem isabs_append (a b : Str) (ha : a ≠ []) : isabs (a ++ b) = isabs a := by
  cases a with
  | nil => exact absurd rfl ha
  | cons c a => simp [isabs]

theorem endsSlash_append (a b : Str) (hb : b ≠ []) : endsSlash (a ++ b) = endsSlash b := by
  simp [endsSlash, List.getLast?_append, hb]

theorem ne_nil_of_isabs {p : Str} (h : isabs p = true) : p ≠ [] := by
  intro e; subst e; simp [isabs] at h

theorem join_assoc (cwd r n : Str) (hc : isabs cwd = true) (hr : isabs r = false)
    (hn : isabs n = false) : join cwd (join r n) = join (join cwd r) n := by
  have hc0 := ne_nil_of_isabs hc
  by_cases hr0 : r = []
  · subst hr0
    have e1 : join [] n = n := by simp [join_rel _ _ hn]
    rw [e1, join_rel cwd n hn, join_rel cwd [] (by simp [isabs]), join_rel _ n hn]
    by_cases he : endsSlash cwd = true
    · simp [he, hc0]
    · have : endsSlash (cwd ++ ['/']) = true := (endsSlash_iff _).mpr ⟨cwd, rfl⟩
      simp [he, hc0, this]
  · have hj : isabs (join r n) = false := by
      rw [join_rel r n hn]
      split
      · rw [isabs_append _ _ hr0]; exact hr
      · rw [isabs_append _ _ hr0]; exact hr
    have hx : join cwd r ≠ [] := by
      rw [join_rel cwd r hr]; split <;> simp [hc0]
    have hxe : endsSlash (join cwd r) = endsSlash r := by
      rw [join_rel cwd r hr]
      split
      · exact endsSlash_append _ _ hr0
      · exact endsSlash_append cwd ('/' :: r) (by simp) ▸ (by
          have := endsSlash_append ['/'] r hr0
          simpa using this)
    rw [join_rel cwd _ hj, join_rel (join cwd r) n hn, hxe, join_rel r n hn, join_rel cwd r hr]
    by_cases he : endsSlash cwd = true <;> by_cases hre : endsSlash r = true <;>
      simp [he, hre, hc0, hr0]

/-- what `abspath` normalises -/
def absBase (cwd r : Str) : Str := if isabs r then r else join cwd r

theorem abspath_eq (cwd r : Str) : abspath cwd r = normpath (absBase cwd r) := by
  unfold abspath absBase; split <;> rfl

theorem isabs_absBase (cwd r : Str) (hc : isabs cwd = true) : isabs (absBase cwd r) = true := by
  unfold absBase
  split
  · assumption
  · rename_i h
    have h : isabs r = false := by simpa using h
    rw [join_rel cwd r h]
    split <;> (rw [isabs_append _ _ (ne_nil_of_isabs hc)]; exact hc)

theorem abspath_join (cwd r n : Str) (hc : isabs cwd = true) (hn : isabs n = false) :
    abspath cwd (join r n) = normpath (join (absBase cwd r) n) := by
  by_cases hr : isabs r = true
  · have hr0 := ne_nil_of_isabs hr
    have : isabs (join r n) = true := by
      rw [join_rel r n hn]; split <;> (rw [isabs_append _ _ hr0]; exact hr)
    simp [abspath, absBase, this, hr]
  · have hr : isabs r = false := by simpa using hr
    have : isabs (join r n) = false := by
      by_cases hr0 : r = []
      · subst hr0; simpa [join_rel _ _ hn] using hn
      · rw [join_rel r n hn]; split <;> (rw [isabs_append _ _ hr0]; exact hr)
    simp [abspath, absBase, this, hr, join_assoc cwd r n hc hr hn]

/-! ### 5. containment core -/

theorem splitroot_fst_append_rel (x n : Str) (hx : isabs x = true) (hn : isabs n = false) :
    (splitroot (x ++ n)).1 = (splitroot x).1 := by
  obtain ⟨r1, rfl⟩ := (isabs_iff x).mp hx
  rcases (isabs_false_iff n).mp hn with rfl | ⟨y, ys, rfl, hy⟩
  · simp
  · match r1 with
    | [] => simp [splitroot, hy]
    | [b] => by_cases hb : b = '/' <;> simp [splitroot, hb, hy]
    | b :: c :: r => by_cases hb : b = '/' <;> by_cases hc : c = '/' <;> simp [splitroot, hb, hc]

theorem splitroot_fst_append_slash (x n : Str) (hx : isabs x = true) (he : endsSlash x = false) :
    (splitroot (x ++ '/' :: n)).1 = (splitroot x).1 := by
  obtain ⟨r1, rfl⟩ := (isabs_iff x).mp hx
  match r1 with
  | [] => simp [endsSlash] at he
  | [b] =>
    have hb : b ≠ '/' := by
      intro e; subst e; simp [endsSlash] at he
    simp [splitroot, hb]
  | b :: c :: r => by_cases hb : b = '/' <;> by_cases hc : c = '/' <;> simp [splitroot, hb, hc]

theorem stack_append_slash (x n : Str) :
    stack (x ++ '/' :: n) = (split n).foldl (normStep true) (stack x) := by
  simp [stack, split_append_slash, List.foldl_append]

/-- The containment core.  `x` absolute, `n` relative without a `..` component: the join has the
    root slashes of `x`, and its stack is the stack of `x` followed by the non-empty, non-`.`
    components of `n`. -/
theorem core (x n : Str) (hx : isabs x = true) (hn : isabs n = false) (hdd : dotdot ∉ split n) :
    (splitroot (join x n)).1 = (splitroot x).1 ∧ stack (join x n) = stack x ++ keep (split n) := by
  have hx0 := ne_nil_of_isabs hx
  rw [join_rel x n hn]
  by_cases he : endsSlash x = true
  · rw [if_pos (Or.inr he)]
    refine ⟨splitroot_fst_append_rel x n hx hn, ?_⟩
    obtain ⟨x0, rfl⟩ := (endsSlash_iff x).mp he
    have e1 : x0 ++ ['/'] ++ n = x0 ++ '/' :: n := by simp
    have e2 : stack (x0 ++ ['/']) = stack x0 := by
      have := stack_append_slash x0 []
      simpa [split_nil] using this
    rw [e1, stack_append_slash, e2, foldl_normStep_noDotdot _ _ _ hdd]
  · have he' : endsSlash x = false := by simpa using he
    rw [if_neg (by simp [hx0, he'])]
    refine ⟨splitroot_fst_append_slash x n hx he', ?_⟩
    rw [stack_append_slash, foldl_normStep_noDotdot _ _ _ hdd]

theorem stack_clean (p : Str) : ∀ c ∈ stack p, Clean c :=
  foldl_normStep_clean (split p) [] (by simp) (split_noSlash p)

theorem keep_clean (n : Str) (hdd : dotdot ∉ split n) : ∀ c ∈ keep (split n), Clean c := by
  intro c hc
  obtain ⟨h1, h2, h3⟩ := (mem_keep _ _).mp hc
  exact ⟨h2, h3, fun e => hdd (e ▸ h1), split_noSlash n c h1⟩

/-- string form of "components extend": the longer join is the shorter one, or continues it
    after a separator (the separator being the root's own when the stack is empty) -/
theorem beneath_join (sl : Str) (s f : List Str) (hsl : sl = ['/'] ∨ sl = ['/', '/']) :
    Beneath (sl ++ joinSlash s) (sl ++ joinSlash (s ++ f)) := by
  by_cases hf : f = []
  · subst hf; left; simp
  · by_cases hs : s = []
    · subst hs
      right; right
      refine ⟨by simpa [joinSlash] using hsl, ?_⟩
      simp [joinSlash]
    · right; left
      rw [joinSlash_append s f hs hf]
      refine ⟨joinSlash f, ?_⟩
      simp

/-- the whole argument, for the preprocessed arguments of `path_join_safe` -/
theorem contained_core (cwd r n : Str) (hc : isabs cwd = true) (hn : isabs n = false)
    (hdd : dotdot ∉ split n) :
    ∃ sl s, (sl = ['/'] ∨ sl = ['/', '/']) ∧ (∀ c ∈ s, Clean c) ∧
      (∀ c ∈ keep (split n), Clean c) ∧
      abspath cwd r = sl ++ joinSlash s ∧
      abspath cwd (join r n) = sl ++ joinSlash (s ++ keep (split n)) := by
  have hx := isabs_absBase cwd r hc
  obtain ⟨h1, h2⟩ := core (absBase cwd r) n hx hn hdd
  have hj : isabs (join (absBase cwd r) n) = true := by
    rw [join_rel _ _ hn]; split <;> (rw [isabs_append _ _ (ne_nil_of_isabs hx)]; exact hx)
  refine ⟨(splitroot (absBase cwd r)).1, stack (absBase cwd r), (splitroot_abs _ hx).1,
    stack_clean _, keep_clean n hdd, ?_, ?_⟩
  · rw [abspath_eq, normpath_abs _ hx]
  · rw [abspath_join cwd r n hc hn, normpath_abs _ hj, h1, h2]

/-! ### 6. a normalised absolute path is a fixpoint of normpath -/

theorem keep_of_clean (cs : List Str) (h : ∀ c ∈ cs, Clean c) : keep cs = cs := by
  induction cs with
  | nil => rfl
  | cons c cs ih =>
    have hc := h c (by simp)
    have : ¬ (c = [] ∨ c = dot) := by
      intro e; rcases e with e | e
      · exact hc.1 e
      · exact hc.2.1 e
    simp [keep, this, ih (fun x hx => h x (List.mem_cons_of_mem _ hx))]

theorem keep_eq_filter (cs : List Str) (h : dot ∉ cs) :
    keep cs = cs.filter (fun c => !c.isEmpty) := by
  induction cs with
  | nil => rfl
  | cons c cs ih =>
    have hc : c ≠ dot := fun e => h (by simp [e])
    have hcs : dot ∉ cs := fun e => h (by simp [e])
    by_cases h0 : c = []
    · simp [keep, h0, ih hcs]
    · simp [keep, h0, hc, ih hcs]

theorem joinSlash_head (cs : List Str) (hne : cs ≠ []) (h : ∀ c ∈ cs, Clean c) :
    ∃ x r, joinSlash cs = x :: r ∧ x ≠ '/' := by
  match cs with
  | [] => exact absurd rfl hne
  | c :: rest =>
    have hc := h c (by simp)
    match c, hc with
    | [], hc => exact absurd rfl hc.1
    | x :: xs, hc =>
      have hx : x ≠ '/' := fun e => hc.2.2.2 (by simp [e])
      cases rest with
      | nil => exact ⟨x, xs, by simp [joinSlash], hx⟩
      | cons d ds => exact ⟨x, xs ++ '/' :: joinSlash (d :: ds), by simp [joinSlash], hx⟩

theorem normpath_normalised (sl : Str) (cs : List Str) (hsl : sl = ['/'] ∨ sl = ['/', '/'])
    (h : ∀ c ∈ cs, Clean c) : normpath (sl ++ joinSlash cs) = sl ++ joinSlash cs := by
  have habs : isabs (sl ++ joinSlash cs) = true := by
    rcases hsl with e | e <;> simp [e, isabs]
  rw [normpath_abs _ habs]
  by_cases hne : cs = []
  · subst hne
    rcases hsl with e | e <;> subst e <;> simp [joinSlash, splitroot, stack_cons_slash, split_cons_slash, split_nil]
  · obtain ⟨x, r, hj, hx⟩ := joinSlash_head cs hne h
    have hdd : dotdot ∉ cs := fun e => (h _ e).2.2.1 rfl
    have hfold : (split (joinSlash cs)).foldl (normStep true) [] = cs := by
      rw [split_joinSlash cs hne (fun c hc => (h c hc).2.2.2), foldl_normStep_noDotdot _ _ _ hdd,
        keep_of_clean cs h]
      simp
    rcases hsl with e | e <;> subst e
    · have e1 : (splitroot (['/'] ++ joinSlash cs)).1 = ['/'] := by
        rw [hj]; simp [splitroot, hx]
      have e2 : stack (['/'] ++ joinSlash cs) = cs := by
        rw [show ['/'] ++ joinSlash cs = '/' :: joinSlash cs from rfl, stack_cons_slash, hfold]
      rw [e1, e2]
    · have e1 : (splitroot (['/', '/'] ++ joinSlash cs)).1 = ['/', '/'] := by
        rw [hj]; simp [splitroot, hx]
      have e2 : stack (['/', '/'] ++ joinSlash cs) = cs := by
        rw [show ['/', '/'] ++ joinSlash cs = '/' :: '/' :: joinSlash cs from rfl, stack_cons_slash,
          split_cons_slash, foldl_skip_nil, hfold]
      rw [e1, e2]

/-! ### 7. unfolding `pathJoinSafe` -/

theorem pathJoinSafe_ok (cwd root name p : Str) (h : pathJoinSafe cwd root name = .ok p) :
    dotdot ∉ split (fixSep name) ∧ dot ∉ split (fixSep name) ∧ isabs (fixSep name) = false ∧
    p = abspath cwd (join (fixSep root) (fixSep name)) := by
  unfold pathJoinSafe at h
  simp only at h
  split at h
  · cases h
  · rename_i h1
    split at h
    · cases h
    · rename_i h2
      have h1' : ¬ dotdot ∈ split (fixSep name) ∧ ¬ dot ∈ split (fixSep name) := by
        constructor
        · exact fun e => h1 (Or.inl e)
        · exact fun e => h1 (Or.inr e)
      refine ⟨h1'.1, h1'.2, by simpa using h2, ?_⟩
      injection h with h
      exact h.symm

theorem pathJoinSafe_of_clean (cwd root name : Str) (h1 : dotdot ∉ split (fixSep name))
    (h2 : dot ∉ split (fixSep name)) (h3 : isabs (fixSep name) = false) :
    pathJoinSafe cwd root name = .ok (abspath cwd (join (fixSep root) (fixSep name))) := by
  unfold pathJoinSafe
  simp [h1, h2, h3]

theorem fixSep_idem (s : Str) : fixSep (fixSep s) = fixSep s := by
  induction s with
  | nil => rfl
  | cons c cs ih =>
    by_cases hc : c = '\\'
    · subst hc; simp [fixSep, ih]
    · simp [fixSep, hc, ih]

theorem fixSep_noBackslash (s : Str) : '\\' ∉ fixSep s := by
  induction s with
  | nil => simp [fixSep]
  | cons c cs ih =>
    by_cases hc : c = '\\'
    · subst hc; simp [fixSep, ih]
    · simp [fixSep, hc, ih]; exact fun e => hc e.symm

/-! ### 8. a `.` / `..` segment is seen by the component check wherever it stands -/

theorem fixSep_append (a b : Str) : fixSep (a ++ b) = fixSep a ++ fixSep b := by
  induction a with
  | nil => rfl
  | cons c a ih => simp [fixSep, ih]

theorem mem_split_mid (a seg b : Str) (hs : '/' ∉ seg)
    (ha : a = [] ∨ ∃ a0, a = a0 ++ ['/']) (hb : b = [] ∨ ∃ b0, b = '/' :: b0) :
    seg ∈ split (a ++ seg ++ b) := by
  have h2 : seg ∈ split (seg ++ b) := by
    rcases hb with rfl | ⟨b0, rfl⟩
    · simp [split_of_noSlash seg hs]
    · rw [split_append_slash, split_of_noSlash seg hs]; simp
  rcases ha with rfl | ⟨a0, rfl⟩
  · simpa using h2
  · have : a0 ++ ['/'] ++ seg ++ b = a0 ++ '/' :: (seg ++ b) := by simp
    rw [this, split_append_slash]
    exact List.mem_append_right _ h2

theorem seg_mem_split (pre post seg : Str) (hseg : seg = dot ∨ seg = dotdot)
    (hpre : pre = [] ∨ ∃ q, pre = q ++ ['/'] ∨ pre = q ++ ['\\'])
    (hpost : post = [] ∨ ∃ q, post = '/' :: q ∨ post = '\\' :: q) :
    seg ∈ split (fixSep (pre ++ seg ++ post)) := by
  have hfs : fixSep seg = seg := by rcases hseg with rfl | rfl <;> decide
  have hns : '/' ∉ seg := by rcases hseg with rfl | rfl <;> decide
  rw [fixSep_append, fixSep_append, hfs]
  apply mem_split_mid _ _ _ hns
  · rcases hpre with rfl | ⟨q, rfl | rfl⟩
    · exact Or.inl rfl
    · exact Or.inr ⟨fixSep q, by simp [fixSep_append, fixSep]⟩
    · exact Or.inr ⟨fixSep q, by simp [fixSep_append, fixSep]⟩
  · rcases hpost with rfl | ⟨q, rfl | rfl⟩
    · exact Or.inl rfl
    · exact Or.inr ⟨fixSep q, by simp [fixSep]⟩
    · exact Or.inr ⟨fixSep q, by simp [fixSep]⟩

deriving instance DecidableEq for Except

instance (r p : Str) : Decidable (Beneath r p) := by
  unfold Beneath; infer_instance

end Mpgs.Path
