import MpgsModel.Lemmas.C12
import MpgsModel.Props.C03
/-! One-step facts about the histories of `Model/Client.lean` (`XOp` / `xstep`): what each operation does
to the send times, to the liveness clock, to the connect-attempt clock and to the status. -/
namespace Mpgs.Conn
open Mpgs.Bytes Mpgs.Wire

/-! ### the strict time-out scan of `ServerClientConnection.update` -/

theorem sc_checkTimeoutStrictKeys (c : Conn) (t : Int) (ks : List Nat) :
    sc (checkTimeoutStrictKeys c t ks).1 = sc c := by
  induction ks generalizing c with
  | nil => rfl
  | cons s ks ih =>
    simp only [checkTimeoutStrictKeys]
    split
    · exact ih c
    · split
      · simp only; rw [ih, sc_resolve]
      · exact ih c

theorem lr_checkTimeoutStrictKeys (c : Conn) (t : Int) (ks : List Nat) :
    lr (checkTimeoutStrictKeys c t ks).1 = lr c := by
  induction ks generalizing c with
  | nil => rfl
  | cons s ks ih =>
    simp only [checkTimeoutStrictKeys]
    split
    · exact ih c
    · split
      · simp only; rw [ih, lr_resolve]
      · exact ih c

theorem hc_checkTimeoutStrictKeys (c : Conn) (t : Int) (ks : List Nat) :
    hc (checkTimeoutStrictKeys c t ks).1 = hc c := by
  induction ks generalizing c with
  | nil => rfl
  | cons s ks ih =>
    simp only [checkTimeoutStrictKeys]
    split
    · exact ih c
    · split
      · simp only; rw [ih, hc_resolve]
      · exact ih c

theorem stt_checkTimeoutStrictKeys (c : Conn) (t : Int) (ks : List Nat) :
    stt (checkTimeoutStrictKeys c t ks).1 = stt c := by
  induction ks generalizing c with
  | nil => rfl
  | cons s ks ih =>
    simp only [checkTimeoutStrictKeys]
    split
    · exact ih c
    · split
      · simp only; rw [ih, stt_resolve]
      · exact ih c

/-! ### the send times -/

/-- what C12 needs of the sender clock: the two send times and the two configured intervals -/
structure Tm where
  lastSend : Int
  lastKeepAlive : Int
  sendInterval : Int
  keepAlive : Int
  deriving DecidableEq

def tm (c : Conn) : Tm := ⟨c.lastSend, c.lastKeepAlive, c.sendInterval, c.keepAlive⟩

theorem tm_of_sc {a b : Conn} (h : sc a = sc b) : tm a = tm b := by
  have h1 := congrArg SClock.lastSend h
  have h2 := congrArg SClock.lastKeepAlive h
  have h3 := congrArg SClock.sendInterval h
  have h4 := congrArg SClock.keepAlive h
  simp only [sc] at h1 h2 h3 h4
  simp only [tm, h1, h2, h3, h4]

theorem tm_buildPacketImpl (sz : Sizes) (c : Conn) (t delay : Int) (ska : Bool) :
    tm (buildPacketImpl sz c t ska delay).1 = tm c := by
  unfold buildPacketImpl
  simp only
  split
  · rfl
  · split <;> rfl

/-- `_build_packet` either emits (both send times become `t`, and the send interval had elapsed) or
leaves the send times alone (also when packing raised) -/
theorem buildPacket_tm (sz : Sizes) (c : Conn) (t : Int) :
    (∃ pkt, (buildPacket sz c t).2 = .ok (some pkt) ∧
      tm (buildPacket sz c t).1 = ⟨t, t, c.sendInterval, c.keepAlive⟩ ∧ t - c.lastSend ≥ c.sendInterval) ∨
    ((∀ pkt, (buildPacket sz c t).2 ≠ .ok (some pkt)) ∧ tm (buildPacket sz c t).1 = tm c) := by
  unfold buildPacket
  split
  · right; exact ⟨by intro pkt h; simp at h, rfl⟩
  · rename_i hg
    split
    · rename_i pkt hr
      left
      refine ⟨pkt, rfl, ?_, by omega⟩
      have := tm_buildPacketImpl sz c t c.keepAlive (decide (t - c.lastKeepAlive > c.keepAlive))
      simp only [tm, Tm.mk.injEq] at this
      simp only [tm, finishBuild, this.2.2.1, this.2.2.2]
    · rename_i other hno
      right
      exact ⟨fun pkt h => hno pkt h, tm_buildPacketImpl sz c t _ _⟩

/-- CONNECTED, send interval elapsed, keep-alive interval exceeded: `_build_packet` does not answer "nothing" -/
theorem buildPacket_must_emit (sz : Sizes) (c : Conn) (t : Int) (hs : c.status = .connected)
    (h1 : t - c.lastSend ≥ c.sendInterval) (h2 : t - c.lastKeepAlive > c.keepAlive)
    (hq : ∀ m ∈ (packAll sz c t c.keepAlive).1.msgs, m.ty ≠ .unknown) :
    (buildPacket sz c t).2 ≠ .ok none := by
  have hk := buildImpl_ka_not_none sz c t c.keepAlive hs hq
  unfold buildPacket
  rw [if_neg (by omega)]
  have hd : decide (t - c.lastKeepAlive > c.keepAlive) = true := by simpa using h2
  rw [hd]
  split
  · simp
  · rename_i other hno
    exact hk

theorem emitOuts_fst (E : Env) (r : Conn × List Event × Except Err (Option Packet)) :
    (emitOuts E r).1 = r.1 := by
  unfold emitOuts
  split
  · rfl
  · rfl
  · split <;> rfl

theorem step_build_fst (E : Env) (c : Conn) (t : Int) : (step E c (.build t)).1 = (buildPacket E.sz c t).1 := by
  simp only [step]
  split
  · rename_i h; rw [h]
  · rename_i h; rw [h]
  · rename_i h; rw [h]; split <;> rfl

/-- the clock value at which an operation calls `_build_packet` (the guard of the two `update()`
methods included), if it does -/
def buildTime : XOp → Option Int
  | .base (.build t) => some t
  | .supd t => some t
  | .csend t => some t
  | _ => none

/-- the time of the datagram an operation hands to the socket, if any -/
def xemit (E : Env) (c : Conn) : XOp → Option Int
  | .base (.build t) => match (buildPacket E.sz c t).2 with | .ok (some _) => some t | _ => none
  | .supd t => match (serverUpdate E.sz c t).2.2 with | .ok (some _) => some t | _ => none
  | .csend t => match (clientSend E.sz c t).2.2 with | .ok (some _) => some t | _ => none
  | _ => none

def xemitTimes (E : Env) (c : Conn) : List XOp → List Int
  | [] => []
  | op :: ops => (xemit E c op).toList ++ xemitTimes E (xstep E c op).1 ops

/-- `ServerClientConnection.update`: emits (send times become `t`) or leaves the send times alone -/
theorem serverUpdate_tm (sz : Sizes) (c : Conn) (t : Int) :
    (∃ pkt, (serverUpdate sz c t).2.2 = .ok (some pkt) ∧
      tm (serverUpdate sz c t).1 = ⟨t, t, c.sendInterval, c.keepAlive⟩ ∧ t - c.lastSend ≥ c.sendInterval) ∨
    ((∀ pkt, (serverUpdate sz c t).2.2 ≠ .ok (some pkt)) ∧ tm (serverUpdate sz c t).1 = tm c) := by
  unfold serverUpdate
  split
  · have hb := buildPacket_tm sz c t
    split
    · rename_i c1 e hbp
      rw [hbp] at hb
      right
      rcases hb with ⟨pkt, h, _⟩ | ⟨_, h⟩
      · simp at h
      · exact ⟨by intro pkt h; simp at h, h⟩
    · rename_i c1 r hbp
      rw [hbp] at hb
      simp only at hb ⊢
      have hk : tm (checkTimeoutStrictKeys c1 t (c1.pendingAcks.map (·.1))).1 = tm c1 :=
        tm_of_sc (sc_checkTimeoutStrictKeys c1 t _)
      rcases hb with ⟨pkt, h, h2, h3⟩ | ⟨h, h2⟩
      · left; exact ⟨pkt, h, by rw [hk]; exact h2, h3⟩
      · right; exact ⟨h, by rw [hk]; exact h2⟩
  · right; exact ⟨by intro pkt h; simp at h, rfl⟩

theorem clientSend_tm (sz : Sizes) (c : Conn) (t : Int) :
    (∃ pkt, (clientSend sz c t).2.2 = .ok (some pkt) ∧
      tm (clientSend sz c t).1 = ⟨t, t, c.sendInterval, c.keepAlive⟩ ∧ t - c.lastSend ≥ c.sendInterval) ∨
    ((∀ pkt, (clientSend sz c t).2.2 ≠ .ok (some pkt)) ∧ tm (clientSend sz c t).1 = tm c) := by
  unfold clientSend
  split
  · have hb := buildPacket_tm sz c t
    split
    · rename_i c1 e hbp
      rw [hbp] at hb
      right
      rcases hb with ⟨pkt, h, _⟩ | ⟨_, h⟩
      · simp at h
      · exact ⟨by intro pkt h; simp at h, h⟩
    · rename_i c1 r hbp
      rw [hbp] at hb
      simp only at hb ⊢
      have hk : tm (checkTimeout c1 t).1 = tm c1 := tm_of_sc (sc_checkTimeout c1 t)
      rcases hb with ⟨pkt, h, h2, h3⟩ | ⟨h, h2⟩
      · left; exact ⟨pkt, h, by rw [hk]; exact h2, h3⟩
      · right; exact ⟨h, by rw [hk]; exact h2⟩
  · right; exact ⟨by intro pkt h; simp at h, rfl⟩

/-- **one step and the send times**: an operation either emits at its clock value `t` (both send
times become `t`, the intervals stay, `send_interval` had elapsed) or leaves all four alone -/
theorem xstep_tm (E : Env) (hR : E.R.KeepsClock) (c : Conn) (op : XOp) :
    (∃ t, xemit E c op = some t ∧ buildTime op = some t ∧
      tm (xstep E c op).1 = ⟨t, t, c.sendInterval, c.keepAlive⟩ ∧ t - c.lastSend ≥ c.sendInterval) ∨
    (xemit E c op = none ∧ tm (xstep E c op).1 = tm c) := by
  cases op with
  | base op =>
    cases op with
    | send p r cb =>
      right; refine ⟨rfl, tm_of_sc ?_⟩
      simp only [xstep, step]
      have := sc_send E.sz c p r cb
      split <;> simp_all
    | build t =>
      simp only [xstep, step_build_fst, xemit, buildTime]
      rcases buildPacket_tm E.sz c t with ⟨pkt, h1, h2, h3⟩ | ⟨h1, h2⟩
      · left; exact ⟨t, by rw [h1], rfl, h2, h3⟩
      · right
        refine ⟨?_, h2⟩
        split
        · rename_i p hp; exact absurd hp (h1 p)
        · rfl
    | recv t h d => right; exact ⟨rfl, tm_of_sc (sc_recvDatagram E.C E.R hR c t h d)⟩
    | tmo t => right; exact ⟨rfl, tm_of_sc (sc_checkTimeout c t)⟩
    | disconnect cb => right; exact ⟨rfl, tm_of_sc (sc_disconnect c cb)⟩
    | take => right; exact ⟨rfl, rfl⟩
  | cupd t => right; exact ⟨rfl, tm_of_sc (clientUpdate_frame c t).1⟩
  | supd t =>
    simp only [xstep, emitOuts_fst, xemit, buildTime]
    rcases serverUpdate_tm E.sz c t with ⟨pkt, h1, h2, h3⟩ | ⟨h1, h2⟩
    · left; exact ⟨t, by rw [h1], rfl, h2, h3⟩
    · right
      refine ⟨?_, h2⟩
      split
      · rename_i p hp; exact absurd hp (h1 p)
      · rfl
  | csend t =>
    simp only [xstep, emitOuts_fst, xemit, buildTime]
    rcases clientSend_tm E.sz c t with ⟨pkt, h1, h2, h3⟩ | ⟨h1, h2⟩
    · left; exact ⟨t, by rw [h1], rfl, h2, h3⟩
    · right
      refine ⟨?_, h2⟩
      split
      · rename_i p hp; exact absurd hp (h1 p)
      · rfl

/-- the build call of an operation is in order: CONNECTED, every packed message has a real packet
type, packing does not raise (`C09_build_total`) -/
def BuildOk (E : Env) (c : Conn) (t : Int) : Prop :=
  c.status = .connected ∧ (∀ m ∈ (packAll E.sz c t c.keepAlive).1.msgs, m.ty ≠ .unknown) ∧
  (∀ e, (buildPacket E.sz c t).2 ≠ .error e)

/-- **an overdue build call emits**: more than `g ≥ max(keepAlive, sendInterval)` after the last
emission, every kind of build call (bare `_build_packet`, server `update()`, client send half) emits -/
theorem xstep_must_emit (E : Env) (c : Conn) (op : XOp) (t g : Int) (hbt : buildTime op = some t)
    (hok : BuildOk E c t) (hka : c.lastKeepAlive = c.lastSend) (hg1 : c.keepAlive ≤ g) (hg2 : c.sendInterval ≤ g)
    (hover : t - c.lastSend > g) : xemit E c op = some t := by
  obtain ⟨hs, hq, hne⟩ := hok
  have hme := buildPacket_must_emit E.sz c t hs (by omega) (by omega) hq
  have hsome : ∃ pkt, (buildPacket E.sz c t).2 = .ok (some pkt) := by
    cases hr : (buildPacket E.sz c t).2 with
    | error e => exact absurd hr (hne e)
    | ok o =>
      cases o with
      | none => exact absurd hr hme
      | some pkt => exact ⟨pkt, rfl⟩
  obtain ⟨pkt, hpkt⟩ := hsome
  cases op with
  | base op =>
    cases op with
    | build t' =>
      simp only [buildTime, Option.some.injEq] at hbt; subst hbt
      simp only [xemit, hpkt]
    | send _ _ _ => simp [buildTime] at hbt
    | recv _ _ _ => simp [buildTime] at hbt
    | tmo _ => simp [buildTime] at hbt
    | disconnect _ => simp [buildTime] at hbt
    | take => simp [buildTime] at hbt
  | cupd _ => simp [buildTime] at hbt
  | supd t' =>
    simp only [buildTime, Option.some.injEq] at hbt; subst hbt
    have hsu : (serverUpdate E.sz c t').2.2 = .ok (some pkt) := by
      unfold serverUpdate
      rw [if_pos (by omega)]
      cases hbp : buildPacket E.sz c t' with
      | mk c1 r =>
        rw [hbp] at hpkt
        simp only at hpkt
        subst hpkt
        rfl
    simp only [xemit, hsu]
  | csend t' =>
    simp only [buildTime, Option.some.injEq] at hbt; subst hbt
    have hsu : (clientSend E.sz c t').2.2 = .ok (some pkt) := by
      unfold clientSend
      rw [if_pos (by omega)]
      cases hbp : buildPacket E.sz c t' with
      | mk c1 r =>
        rw [hbp] at hpkt
        simp only at hpkt
        subst hpkt
        rfl
    simp only [xemit, hsu]

/-! ### the liveness clock -/

/-- the operation is a reception that `_recv_datagram` does not reject (returns True or raises
while processing a message of an authenticated datagram) -/
def accepts (E : Env) (c : Conn) : XOp → Prop
  | .base (.recv t h d) => (recvDatagram E.C E.R c t h d).2.2 ≠ .rejected
  | _ => False

instance (E : Env) (c : Conn) (op : XOp) : Decidable (accepts E c op) := by
  cases op with
  | base op => cases op <;> (simp only [accepts]; infer_instance)
  | cupd _ => exact isFalse (fun h => h)
  | supd _ => exact isFalse (fun h => h)
  | csend _ => exact isFalse (fun h => h)

/-- the clock value an operation runs at (queueing, disconnecting and draining read no clock) -/
def xtime : XOp → Option Int
  | .base (.build t) => some t
  | .base (.recv t _ _) => some t
  | .base (.tmo t) => some t
  | .base _ => none
  | .cupd t => some t
  | .supd t => some t
  | .csend t => some t

theorem lr_accept (R : Role) (hR : R.KeepsLr) (c : Conn) (t : Int) (h : Header) (pkt : Packet)
    (bf : Seq.BitField) : (accept R c t h pkt bf).1.lastRecv = t ∧ (accept R c t h pkt bf).2.2 ≠ .rejected := by
  unfold accept
  simp only
  refine ⟨?_, by split <;> simp⟩
  have := lr_recvMessages R hR (handleAckBits { c with bfPkt := bf, received := c.received + 1, lastRecv := t } h).1 t pkt.msgs
  simp only [lr] at this
  rw [this]
  unfold handleAckBits
  have := lr_handleAckKeys { c with bfPkt := bf, received := c.received + 1, lastRecv := t } h.ack h.ackBits
    (List.map (·.1) ({ c with bfPkt := bf, received := c.received + 1, lastRecv := t } : Conn).pendingAcks)
  simp only [lr] at this
  rw [this]

/-- `_recv_datagram` either rejects (liveness clock untouched) or accepts (liveness clock := now) -/
theorem recvDatagram_lr (C : Crypto) (R : Role) (hR : R.KeepsLr) (c : Conn) (t : Int) (h : Header) (d : Bytes) :
    ((recvDatagram C R c t h d).2.2 = .rejected ∧ (recvDatagram C R c t h d).1.lastRecv = c.lastRecv) ∨
    ((recvDatagram C R c t h d).2.2 ≠ .rejected ∧ (recvDatagram C R c t h d).1.lastRecv = t) := by
  unfold recvDatagram
  split
  · left; exact ⟨rfl, rfl⟩
  · split
    · left; exact ⟨rfl, rfl⟩
    · split
      · left; exact ⟨rfl, rfl⟩
      · split
        · left; exact ⟨rfl, rfl⟩
        · rename_i pkt _ _ _ _ bf _
          right
          have := lr_accept R hR c t h pkt bf
          exact ⟨this.2, this.1⟩

theorem serverUpdate_live (sz : Sizes) (c : Conn) (t : Int) :
    (serverUpdate sz c t).1.lastRecv = c.lastRecv ∧ hc (serverUpdate sz c t).1 = hc c ∧
    (serverUpdate sz c t).1.status = c.status := by
  unfold serverUpdate
  split
  · have hl := live_buildPacket sz c t
    split
    · rename_i c1 e hbp
      rw [hbp] at hl
      simp only [live, Live.mk.injEq] at hl
      simp only [hc]
      exact ⟨hl.1, by rw [hl.2.2.1, hl.2.2.2.1, hl.2.2.2.2.1], hl.2.1⟩
    · rename_i c1 r hbp
      rw [hbp] at hl
      simp only [live, Live.mk.injEq] at hl
      have h1 := lr_checkTimeoutStrictKeys c1 t (c1.pendingAcks.map (·.1))
      have h2 := hc_checkTimeoutStrictKeys c1 t (c1.pendingAcks.map (·.1))
      have h3 := stt_checkTimeoutStrictKeys c1 t (c1.pendingAcks.map (·.1))
      simp only [lr, stt] at h1 h3
      simp only
      refine ⟨by rw [h1]; exact hl.1, ?_, by rw [h3]; exact hl.2.1⟩
      rw [h2]; simp only [hc]; rw [hl.2.2.1, hl.2.2.2.1, hl.2.2.2.2.1]
  · exact ⟨rfl, rfl, rfl⟩

theorem clientSend_live (sz : Sizes) (c : Conn) (t : Int) :
    (clientSend sz c t).1.lastRecv = c.lastRecv ∧ hc (clientSend sz c t).1 = hc c ∧
    (clientSend sz c t).1.status = c.status := by
  unfold clientSend
  split
  · have hl := live_buildPacket sz c t
    split
    · rename_i c1 e hbp
      rw [hbp] at hl
      simp only [live, Live.mk.injEq] at hl
      simp only [hc]
      exact ⟨hl.1, by rw [hl.2.2.1, hl.2.2.2.1, hl.2.2.2.2.1], hl.2.1⟩
    · rename_i c1 r hbp
      rw [hbp] at hl
      simp only [live, Live.mk.injEq] at hl
      have h1 := lr_checkTimeout c1 t
      have h2 := hc_checkTimeout c1 t
      have h3 := stt_checkTimeout c1 t
      simp only [lr, stt] at h1 h3
      simp only
      refine ⟨by rw [h1]; exact hl.1, ?_, by rw [h3]; exact hl.2.1⟩
      rw [h2]; simp only [hc]; rw [hl.2.2.1, hl.2.2.2.1, hl.2.2.2.2.1]
  · exact ⟨rfl, rfl, rfl⟩

/-- **one step and the liveness clock**: only an accepted reception moves `last_recv_time`, to its own clock value -/
theorem xstep_lr (E : Env) (hR : E.R.KeepsLr) (c : Conn) (op : XOp) :
    (¬ accepts E c op ∧ (xstep E c op).1.lastRecv = c.lastRecv) ∨
    (accepts E c op ∧ ∃ t, xtime op = some t ∧ (xstep E c op).1.lastRecv = t) := by
  cases op with
  | base op =>
    cases op with
    | send p r cb =>
      left; refine ⟨fun h => h, ?_⟩
      simp only [xstep, step]
      have := lr_send E.sz c p r cb
      simp only [lr] at this
      split <;> simp_all
    | build t =>
      left; refine ⟨fun h => h, ?_⟩
      simp only [xstep, step_build_fst]
      have := live_buildPacket E.sz c t
      simp only [live, Live.mk.injEq] at this
      exact this.1
    | recv t h d =>
      simp only [xstep, step, accepts, xtime]
      rcases recvDatagram_lr E.C E.R hR c t h d with ⟨h1, h2⟩ | ⟨h1, h2⟩
      · left; exact ⟨by rw [h1]; simp, h2⟩
      · right; exact ⟨h1, t, rfl, h2⟩
    | tmo t => left; exact ⟨fun h => h, lr_checkTimeout c t⟩
    | disconnect cb => left; exact ⟨fun h => h, lr_disconnect c cb⟩
    | take => left; exact ⟨fun h => h, rfl⟩
  | cupd t => left; exact ⟨fun h => h, (clientUpdate_frame c t).2.1⟩
  | supd t => left; refine ⟨fun h => h, ?_⟩; simp only [xstep, emitOuts_fst]; exact (serverUpdate_live E.sz c t).1
  | csend t => left; refine ⟨fun h => h, ?_⟩; simp only [xstep, emitOuts_fst]; exact (clientSend_live E.sz c t).1

/-! ### the connect-attempt clock -/

/-- every operation except the client's `update()` leaves the connect-attempt clock alone, as long
as no valid server hello is processed (`KeepsHc`) -/
theorem xstep_hc (E : Env) (hR : E.R.KeepsHc) (c : Conn) (op : XOp) (hop : ∀ t, op ≠ .cupd t) :
    hc (xstep E c op).1 = hc c := by
  cases op with
  | base op =>
    cases op with
    | send p r cb =>
      simp only [xstep, step]
      have := hc_send E.sz c p r cb
      split <;> simp_all
    | build t =>
      simp only [xstep, step_build_fst]
      have := live_buildPacket E.sz c t
      simp only [live, Live.mk.injEq] at this
      simp only [hc]; rw [this.2.2.1, this.2.2.2.1, this.2.2.2.2.1]
    | recv t h d => exact hc_recvDatagram E.C E.R hR c t h d
    | tmo t => exact hc_checkTimeout c t
    | disconnect cb => exact hc_disconnect c cb
    | take => rfl
  | cupd t => exact absurd rfl (hop t)
  | supd t => simp only [xstep, emitOuts_fst]; exact (serverUpdate_live E.sz c t).2.1
  | csend t => simp only [xstep, emitOuts_fst]; exact (clientSend_live E.sz c t).2.1

/-! ### DROPPED is set by the client's `update()` and by nothing else -/

/-- the handshake handlers of a role never set DROPPED -/
def Role.NoDrop (R : Role) : Prop :=
  (∀ c t p, c.status ≠ .dropped → (R.clientHello c t p).1.status ≠ .dropped) ∧
  (∀ c t p, c.status ≠ .dropped → (R.serverHello c t p).1.status ≠ .dropped) ∧
  (∀ c t p, c.status ≠ .dropped → (R.challengeResp c t p).1.status ≠ .dropped)

theorem baseRole_noDrop : baseRole.NoDrop := ⟨fun _ _ _ h => h, fun _ _ _ h => h, fun _ _ _ h => h⟩

theorem clientRole_noDrop (H : Hs) : (clientRole H).NoDrop := by
  refine ⟨fun _ _ _ h => h, ?_, fun _ _ _ h => h⟩
  intro c t p hnd
  show (clientServerHello H c t p).1.status ≠ .dropped
  unfold clientServerHello
  split
  · exact hnd
  · split
    · simp
    · split
      · exact hnd
      · simp [adopt]

theorem serverRole_noDrop (H : Hs) (tok : Nat) (tt : Option Nat) : (serverRole H tok tt).NoDrop := by
  refine ⟨?_, fun _ _ _ h => h, ?_⟩
  · intro c t p hnd
    show (serverClientHello H tok c t p).1.status ≠ .dropped
    unfold serverClientHello
    split
    · exact hnd
    · split
      · exact hnd
      · split
        · exact hnd
        · split
          · exact hnd
          · have := stt_sendType { c with token := tok, key := some (H.serverReply p tok).1, status := Status.connecting }
              .serverHello (H.serverReply p tok).2 0 none
            simp only [stt] at this
            simp only [this]; simp
  · intro c t p hnd
    show (serverChallenge H tt c t p).1.status ≠ .dropped
    unfold serverChallenge
    split
    · exact hnd
    · split
      · simp
      · exact hnd

theorem nd_recvMessage (R : Role) (hR : R.NoDrop) (c : Conn) (t : Int) (m : WMsg) (hnd : c.status ≠ .dropped) :
    (recvMessage R c t m).1.status ≠ .dropped := by
  unfold recvMessage
  split
  · exact hnd
  · rename_i bf _
    split
    · exact hR.1 _ t _ hnd
    · exact hR.2.1 _ t _ hnd
    · exact hR.2.2 _ t _ hnd
    · exact hnd
    · simp
    · have := stt_recvAppFragment { c with bfMsg := bf } t m.seq m.payload
      simp only [stt] at this
      rw [this]; exact hnd
    · exact hnd
    · exact hnd

theorem nd_recvMessages (R : Role) (hR : R.NoDrop) (c : Conn) (t : Int) (ms : List WMsg) (hnd : c.status ≠ .dropped) :
    (recvMessages R c t ms).1.status ≠ .dropped := by
  induction ms generalizing c with
  | nil => exact hnd
  | cons m ms ih =>
    simp only [recvMessages]
    have h1 := nd_recvMessage R hR c t m hnd
    generalize recvMessage R c t m = r at *
    obtain ⟨c1, e1, err⟩ := r
    cases err with
    | some e => exact h1
    | none => simp only; exact ih c1 h1

theorem nd_recvDatagram (C : Crypto) (R : Role) (hR : R.NoDrop) (c : Conn) (t : Int) (h : Header) (d : Bytes)
    (hnd : c.status ≠ .dropped) : (recvDatagram C R c t h d).1.status ≠ .dropped := by
  unfold recvDatagram
  split
  · exact hnd
  · split
    · exact hnd
    · split
      · exact hnd
      · split
        · exact hnd
        · rename_i pkt _ _ _ bf _
          unfold accept
          simp only
          apply nd_recvMessages R hR
          unfold handleAckBits
          have := stt_handleAckKeys { c with bfPkt := bf, received := c.received + 1, lastRecv := t } h.ack h.ackBits
            (List.map (·.1) ({ c with bfPkt := bf, received := c.received + 1, lastRecv := t } : Conn).pendingAcks)
          simp only [stt] at this
          rw [this]; exact hnd

/-- no operation other than the client's `update()` makes a connection DROPPED -/
theorem xstep_nd (E : Env) (hR : E.R.NoDrop) (c : Conn) (op : XOp) (hop : ∀ t, op ≠ .cupd t)
    (hnd : c.status ≠ .dropped) : (xstep E c op).1.status ≠ .dropped := by
  cases op with
  | base op =>
    cases op with
    | send p r cb =>
      simp only [xstep, step]
      have := stt_send E.sz c p r cb
      simp only [stt] at this
      split <;> simp_all
    | build t =>
      simp only [xstep, step_build_fst]
      have := live_buildPacket E.sz c t
      simp only [live, Live.mk.injEq] at this
      rw [this.2.1]; exact hnd
    | recv t h d => exact nd_recvDatagram E.C E.R hR c t h d hnd
    | tmo t =>
      have := stt_checkTimeout c t
      simp only [stt] at this
      simp only [xstep, step]; rw [this]; exact hnd
    | disconnect cb =>
      simp only [xstep, step, disconnect]
      split
      · simp
      · simp
    | take => exact hnd
  | cupd t => exact absurd rfl (hop t)
  | supd t => simp only [xstep, emitOuts_fst]; rw [(serverUpdate_live E.sz c t).2.2]; exact hnd
  | csend t => simp only [xstep, emitOuts_fst]; rw [(clientSend_live E.sz c t).2.2]; exact hnd

/-! ### further one-step facts -/

/-- once the send interval has elapsed `_build_packet` returns what the packing step returns -/
theorem buildPacket_snd (sz : Sizes) (c : Conn) (t : Int) (h1 : t - c.lastSend ≥ c.sendInterval) :
    (buildPacket sz c t).2 = (buildPacketImpl sz c t (decide (t - c.lastKeepAlive > c.keepAlive)) c.keepAlive).2 := by
  unfold buildPacket
  rw [if_neg (by omega)]
  split
  · rename_i pkt hr; rw [hr]
  · rfl

/-- within 5 s of the last accepted datagram `update()` does not make a connection DROPPED -/
theorem clientUpdate_no_drop (c : Conn) (t : Int) (h : t ≤ c.lastRecv + 5120) (hnd : c.status ≠ .dropped) :
    (clientUpdate c t).1.status ≠ .dropped := by
  unfold clientUpdate
  have hno : ¬ (c.lastRecv > 0 ∧ t > c.lastRecv + 5120) := by omega
  simp only [hno, ↓reduceIte]
  split
  · simp
  · exact hnd

/-- later than 5 s after the last accepted datagram `update()` of an established connection sets DROPPED -/
theorem clientUpdate_drops (c : Conn) (t : Int) (hpos : c.lastRecv > 0) (h : t > c.lastRecv + 5120)
    (hh : c.helloSentAt = 0) : (clientUpdate c t).1.status = .dropped := by
  rw [clientUpdate_idle c t hh, if_pos ⟨hpos, h⟩]

end Mpgs.Conn
