import MpgsModel.Model.Client
import MpgsModel.Model.ConnStep
import MpgsModel.Lemmas.ConnFrame
import MpgsModel.Lemmas.C12FrameLr
import MpgsModel.Lemmas.C12FrameHc
import MpgsModel.Lemmas.C12FrameSt
/-! Helper lemmas for C12 (keep-alives and time-outs): what `_build_packet` leaves alone, when it must
emit, the handshake roles and the liveness clock, one-step facts about the two `update()` methods. -/
namespace Mpgs.Conn
open Mpgs.Bytes Mpgs.Wire

/-! ### the handshake roles and the frames -/

theorem clientRole_keepsClock (H : Hs) : (clientRole H).KeepsClock := by
  refine ⟨fun _ _ _ => rfl, ?_, fun _ _ _ => rfl⟩
  intro c t p
  show sc (clientServerHello H c t p).1 = sc c
  unfold clientServerHello
  split
  · rfl
  · split
    · rfl
    · split
      · rfl
      · simp only [adopt]; rw [show ∀ x : Conn, sc { x with status := Status.connected, helloSentAt := 0 } = sc x from fun _ => rfl,
          sc_sendType]; rfl

theorem serverRole_keepsClock (H : Hs) (tok : Nat) (tt : Option Nat) : (serverRole H tok tt).KeepsClock := by
  refine ⟨?_, fun _ _ _ => rfl, ?_⟩
  · intro c t p
    show sc (serverClientHello H tok c t p).1 = sc c
    unfold serverClientHello
    split
    · rfl
    · split
      · rfl
      · split
        · rfl
        · split
          · rfl
          · simp only; rw [sc_sendType]; rfl
  · intro c t p
    show sc (serverChallenge H tt c t p).1 = sc c
    unfold serverChallenge
    split
    · rfl
    · split <;> rfl

theorem clientRole_keepsLr (H : Hs) : (clientRole H).KeepsLr := by
  refine ⟨fun _ _ _ => rfl, ?_, fun _ _ _ => rfl⟩
  intro c t p
  show lr (clientServerHello H c t p).1 = lr c
  unfold clientServerHello
  split
  · rfl
  · split
    · rfl
    · split
      · rfl
      · simp only [adopt]; rw [show ∀ x : Conn, lr { x with status := Status.connected, helloSentAt := 0 } = lr x from fun _ => rfl,
          lr_sendType]; rfl

theorem serverRole_keepsLr (H : Hs) (tok : Nat) (tt : Option Nat) : (serverRole H tok tt).KeepsLr := by
  refine ⟨?_, fun _ _ _ => rfl, ?_⟩
  · intro c t p
    show lr (serverClientHello H tok c t p).1 = lr c
    unfold serverClientHello
    split
    · rfl
    · split
      · rfl
      · split
        · rfl
        · split
          · rfl
          · simp only; rw [lr_sendType]; rfl
  · intro c t p
    show lr (serverChallenge H tt c t p).1 = lr c
    unfold serverChallenge
    split
    · rfl
    · split <;> rfl

/-- no datagram carries a server hello that parses and verifies: the connect attempt stays unanswered -/
def Hs.NoValidHello (H : Hs) : Prop :=
  ∀ d, match H.parseServerHello d with
    | .error _ => True
    | .ok r => ∀ k, H.verify k r.2.2 r.2.1 = false

theorem clientRole_keepsHc (H : Hs) (hH : H.NoValidHello) : (clientRole H).KeepsHc := by
  refine ⟨fun _ _ _ => rfl, ?_, fun _ _ _ => rfl⟩
  intro c t p
  show hc (clientServerHello H c t p).1 = hc c
  unfold clientServerHello
  have := hH p
  split
  · rfl
  · rename_i r hr
    rw [hr] at this
    simp only at this
    rw [this (checkKey c r.1)]
    rfl

/-! ### `_build_packet` -/

/-- everything C12 looks at except the sender clock -/
structure Live where
  lastRecv : Int
  status : Status
  helloSentAt : Int
  tempTimeout : Int
  hasConnectCb : Bool
  keepAlive : Int
  sendInterval : Int
  deriving DecidableEq

def live (c : Conn) : Live :=
  ⟨c.lastRecv, c.status, c.helloSentAt, c.tempTimeout, c.hasConnectCb, c.keepAlive, c.sendInterval⟩

theorem live_buildPacketImpl (sz : Sizes) (c : Conn) (t delay : Int) (ska : Bool) :
    live (buildPacketImpl sz c t ska delay).1 = live c := by
  unfold buildPacketImpl
  simp only
  split
  · rfl
  · split <;> rfl

theorem live_buildPacket (sz : Sizes) (c : Conn) (t : Int) : live (buildPacket sz c t).1 = live c := by
  unfold buildPacket
  split
  · rfl
  · split
    · show live (finishBuild _ t) = live c
      rw [show ∀ x : Conn, live (finishBuild x t) = live x from fun _ => rfl, live_buildPacketImpl]
    · exact live_buildPacketImpl sz c t _ _

/-- with the keep-alive flag set and CONNECTED the packing step never answers "nothing to send"
(every queued message has a real packet type: `_send_type` is only ever called with one) -/
theorem buildImpl_ka_not_none (sz : Sizes) (c : Conn) (t delay : Int) (hs : c.status = .connected)
    (hq : ∀ m ∈ (packAll sz c t delay).1.msgs, m.ty ≠ .unknown) :
    (buildPacketImpl sz c t true delay).2 ≠ .ok none := by
  unfold buildPacketImpl
  simp only
  split
  · rename_i hun
    exfalso
    cases hm : (packAll sz c t delay).1.msgs with
    | nil => simp [pktType, hm, hs] at hun
    | cons m rest =>
      simp only [pktType, hm] at hun
      exact hq m (by rw [hm]; simp) hun
  · split
    · simp
    · simp

/-- the type of the packet the packing step builds -/
theorem buildImpl_ptype (sz : Sizes) (c : Conn) (t delay : Int) (ska : Bool) (pkt : Packet)
    (hi : (buildPacketImpl sz c t ska delay).2 = .ok (some pkt)) :
    pkt.hdr.ptype = pktType c ska (packAll sz c t delay).1.msgs ∧
    pkt.hdr.count = (packAll sz c t delay).1.msgs.length := by
  unfold buildPacketImpl at hi
  simp only at hi
  split at hi
  · simp at hi
  · split at hi
    · rename_i pk hcr
      injection hi with hi; injection hi with hi; subst hi
      unfold create at hcr
      split at hcr
      · rename_i hnil
        injection hcr with hcr; subst hcr
        have : (packAll sz c t delay).1.msgs = [] := by simpa using hnil
        exact ⟨rfl, by rw [this]; rfl⟩
      · rename_i m hone
        split at hcr
        · injection hcr with hcr; subst hcr
          have : (packAll sz c t delay).1.msgs.length = 1 := by
            have := congrArg List.length hone; simpa using this
          exact ⟨rfl, this.symm⟩
        · simp at hcr
      · split at hcr
        · injection hcr with hcr; subst hcr
          exact ⟨rfl, by simp⟩
        · simp at hcr
    · simp at hi

/-! ### `ClientServerConnection.update` -/

/-- a client that is not waiting for a server hello: `update()` is the 5 s rule and nothing else -/
theorem clientUpdate_idle (c : Conn) (t : Int) (hh : c.helloSentAt = 0) :
    clientUpdate c t =
      (if c.lastRecv > 0 ∧ t > c.lastRecv + 5120 then { c with status := .dropped } else c, []) := by
  unfold clientUpdate
  simp only
  split <;> simp [hh]

/-- the connect time-out has not expired: nothing but (possibly) the 5 s rule happens -/
theorem clientUpdate_waits (c : Conn) (t : Int) (hw : t - c.helloSentAt ≤ c.tempTimeout) :
    clientUpdate c t =
      (if c.lastRecv > 0 ∧ t > c.lastRecv + 5120 then { c with status := .dropped } else c, []) := by
  unfold clientUpdate
  simp only
  split
  · rw [if_neg]; simp only; omega
  · rw [if_neg]; omega

/-- the connect time-out expired -/
theorem clientUpdate_fires (c : Conn) (t : Int) (hh : c.helloSentAt ≠ 0) (hw : t - c.helloSentAt > c.tempTimeout) :
    (clientUpdate c t).1.status = .disconnected ∧ (clientUpdate c t).1.helloSentAt = 0 ∧
    (clientUpdate c t).2 = (if c.hasConnectCb then [.connectCb false] else []) ∧
    live (clientUpdate c t).1 = { live c with status := .disconnected, helloSentAt := 0 } ∧
    sc (clientUpdate c t).1 = sc c := by
  unfold clientUpdate
  simp only
  split
  · rw [if_pos ⟨hh, hw⟩]; exact ⟨rfl, rfl, rfl, rfl, rfl⟩
  · rw [if_pos ⟨hh, hw⟩]; exact ⟨rfl, rfl, rfl, rfl, rfl⟩

/-- `update()` never touches the sender clock, the liveness clock or the configuration -/
theorem clientUpdate_frame (c : Conn) (t : Int) :
    sc (clientUpdate c t).1 = sc c ∧ (clientUpdate c t).1.lastRecv = c.lastRecv ∧
    (clientUpdate c t).1.tempTimeout = c.tempTimeout ∧ (clientUpdate c t).1.hasConnectCb = c.hasConnectCb ∧
    (clientUpdate c t).1.keepAlive = c.keepAlive ∧ (clientUpdate c t).1.sendInterval = c.sendInterval := by
  unfold clientUpdate
  simp only
  split <;> split <;> exact ⟨rfl, rfl, rfl, rfl, rfl, rfl⟩

end Mpgs.Conn
