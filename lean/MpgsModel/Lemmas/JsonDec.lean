/-
Round trip `int(str(n)) = n` for the decimal text model in `MpgsModel.Model.JsonDec`:
`pyParseInt (toDecimal n) = some n` for every `n : Int`, with injectivity of `toDecimal` as a
corollary.  Core Lean only.
-/
import MpgsModel.Model.JsonDec
namespace Mpgs.Json

def IsDigit (c : Char) : Prop := 48 ≤ c.toNat ∧ c.toNat ≤ 57

instance (c : Char) : Decidable (IsDigit c) := by unfold IsDigit; infer_instance
def dval (c : Char) : Nat := c.toNat - 48

theorem digitChar_toNat (d : Nat) (h : d < 10) : (digitChar d).toNat = 48 + d := by
  have : d = 0 ∨ d = 1 ∨ d = 2 ∨ d = 3 ∨ d = 4 ∨ d = 5 ∨ d = 6 ∨ d = 7 ∨ d = 8 ∨ d = 9 := by omega
  rcases this with rfl | rfl | rfl | rfl | rfl | rfl | rfl | rfl | rfl | rfl <;> decide

theorem isDigit_digitChar (d : Nat) (h : d < 10) : IsDigit (digitChar d) := by
  simp [IsDigit, digitChar_toNat d h]; omega

theorem dval_digitChar (d : Nat) (h : d < 10) : dval (digitChar d) = d := by
  simp [dval, digitChar_toNat d h]

theorem digitVal_of_isDigit {c : Char} (h : IsDigit c) : digitVal c = some (dval c) := by
  simp [digitVal, dval, IsDigit] at *; exact h

theorem revDigits_spec (fuel : Nat) : ∀ n, n < fuel →
    (∀ c ∈ revDigits fuel n, IsDigit c) ∧ revDigits fuel n ≠ [] ∧
    (revDigits fuel n).foldr (fun c a => a * 10 + dval c) 0 = n := by
  induction fuel with
  | zero => intro n h; omega
  | succ fuel ih =>
    intro n h
    have hd : n % 10 < 10 := Nat.mod_lt _ (by omega)
    simp only [revDigits]
    split
    · rename_i h0
      refine ⟨?_, by simp, ?_⟩
      · intro c hc; simp at hc; subst hc; exact isDigit_digitChar _ hd
      · simp [dval_digitChar _ hd]; omega
    · rename_i h0
      obtain ⟨h1, h2, h3⟩ := ih (n / 10) (by omega)
      refine ⟨?_, by simp, ?_⟩
      · intro c hc
        simp at hc
        rcases hc with rfl | hc
        · exact isDigit_digitChar _ hd
        · exact h1 c hc
      · simp only [List.foldr_cons, h3, dval_digitChar _ hd]; omega

theorem parseDigits_digits_true (ds : List Char) : ∀ acc, (∀ c ∈ ds, IsDigit c) →
    parseDigits ds acc true = some (ds.foldl (fun a c => a * 10 + dval c) acc) := by
  induction ds with
  | nil => intro acc _; simp [parseDigits]
  | cons c cs ih =>
    intro acc h
    have hc : IsDigit c := h c (by simp)
    have hne : c ≠ '_' := by
      intro e; subst e; exact absurd hc (by decide)
    simp only [parseDigits, if_neg hne, digitVal_of_isDigit hc, List.foldl_cons]
    exact ih _ (fun c' hc' => h c' (by simp [hc']))

theorem parseDigits_digits (ds : List Char) (acc : Nat) (prev : Bool) (hne : ds ≠ [])
    (h : ∀ c ∈ ds, IsDigit c) :
    parseDigits ds acc prev = some (ds.foldl (fun a c => a * 10 + dval c) acc) := by
  cases ds with
  | nil => exact absurd rfl hne
  | cons c cs =>
    have hc : IsDigit c := h c (by simp)
    have hne : c ≠ '_' := by
      intro e; subst e; exact absurd hc (by decide)
    simp only [parseDigits, if_neg hne, digitVal_of_isDigit hc, List.foldl_cons]
    exact parseDigits_digits_true cs _ (fun c' hc' => h c' (by simp [hc']))

theorem natDec_spec (n : Nat) : (∀ c ∈ natDec n, IsDigit c) ∧ natDec n ≠ [] ∧
    (natDec n).foldl (fun a c => a * 10 + dval c) 0 = n := by
  obtain ⟨h1, h2, h3⟩ := revDigits_spec (n + 1) n (by omega)
  refine ⟨?_, ?_, ?_⟩
  · intro c hc; simp [natDec] at hc; exact h1 c hc
  · simp [natDec, h2]
  · simp only [natDec, List.foldl_reverse]; exact h3

theorem natDec_ne_nil (n : Nat) : natDec n ≠ [] := (natDec_spec n).2.1

/-- every character of `natDec n` is an ASCII digit -/
theorem natDec_digitVal (n : Nat) (c : Char) (hc : c ∈ natDec n) :
    ∃ d, digitVal c = some d ∧ d < 10 := by
  have h := (natDec_spec n).1 c hc
  refine ⟨dval c, digitVal_of_isDigit h, ?_⟩
  simp only [IsDigit, dval] at *; omega

theorem parseDigits_natDec (n : Nat) : parseDigits (natDec n) 0 false = some n := by
  obtain ⟨h1, h2, h3⟩ := natDec_spec n
  rw [parseDigits_digits _ _ _ h2 h1, h3]

theorem dropWhile_eq_self {p : Char → Bool} (s : List Char) (h : ∀ c ∈ s, p c = false) :
    s.dropWhile p = s := by
  cases s with
  | nil => rfl
  | cons c cs => simp [h c (by simp)]

theorem pyStrip_eq_self (s : Str) (h : ∀ c ∈ s, isPySpace c = false) : pyStrip s = s := by
  unfold pyStrip
  rw [dropWhile_eq_self s h, dropWhile_eq_self _ (by simpa using h), List.reverse_reverse]

theorem not_space_of_isDigit {c : Char} (h : IsDigit c) : isPySpace c = false := by
  simp [isPySpace, IsDigit] at *; omega

theorem pyParseInt_natDec (n : Nat) : pyParseInt (natDec n) = some (Int.ofNat n) := by
  obtain ⟨h1, h2, h3⟩ := natDec_spec n
  unfold pyParseInt
  rw [pyStrip_eq_self _ (fun c hc => not_space_of_isDigit (h1 c hc))]
  split
  · rename_i r heq
    exact absurd (h1 '-' (by simp [heq])) (by decide)
  · rename_i r heq
    exact absurd (h1 '+' (by simp [heq])) (by decide)
  · simp [parseDigits_natDec]

theorem pyParseInt_toDecimal (n : Int) : pyParseInt (toDecimal n) = some n := by
  cases n with
  | ofNat n => exact pyParseInt_natDec n
  | negSucc n =>
    obtain ⟨h1, h2, h3⟩ := natDec_spec (n + 1)
    unfold pyParseInt toDecimal
    rw [pyStrip_eq_self]
    · simp [parseDigits_natDec]; rfl
    · intro c hc
      simp at hc
      rcases hc with rfl | hc
      · decide
      · exact not_space_of_isDigit (h1 c hc)

theorem toDecimal_injective (a b : Int) (h : toDecimal a = toDecimal b) : a = b := by
  have := pyParseInt_toDecimal a
  rw [h, pyParseInt_toDecimal] at this
  exact (Option.some.inj this).symm

theorem toDecimal_ne_nil (n : Int) : toDecimal n ≠ [] := by
  cases n with
  | ofNat n => exact (natDec_spec n).2.1
  | negSucc n => simp [toDecimal]

end Mpgs.Json
