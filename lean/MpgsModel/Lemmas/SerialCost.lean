import MpgsModel.Lemmas.SerialSafe
/-! Cost of the decoder against the bytes consumed: every step is paid for by bytes it
consumes or by bytes it was made to parse again (`CostOK`), hence the total is linear in
input + re-parsed bytes. -/
namespace Mpgs.Serial

theorem R.cost_bind_ok {α β : Type} {x : R α} {f : α → R β} {a : α} (h : x.res = .ok a) :
    (x >>= f).cost = x.cost + (f a).cost := by
  show (R.bind x f).cost = _
  unfold R.bind; rw [h]
theorem R.cost_bind_err {α β : Type} {x : R α} {f : α → R β} {e : Err} (h : x.res = .error e) :
    (x >>= f).cost = x.cost := by
  show (R.bind x f).cost = _
  unfold R.bind; rw [h]
theorem R.re_bind_ok {α β : Type} {x : R α} {f : α → R β} {a : α} (h : x.res = .ok a) :
    (x >>= f).re = x.re + (f a).re := by
  show (R.bind x f).re = _
  unfold R.bind; rw [h]
theorem R.re_bind_err {α β : Type} {x : R α} {f : α → R β} {e : Err} (h : x.res = .error e) :
    (x >>= f).re = x.re := by
  show (R.bind x f).re = _
  unfold R.bind; rw [h]
theorem R.res_bind_ok {α β : Type} {x : R α} {f : α → R β} {a : α} (h : x.res = .ok a) :
    (x >>= f).res = (f a).res := by simp [h]
theorem R.res_bind_err {α β : Type} {x : R α} {f : α → R β} {e : Err} (h : x.res = .error e) :
    (x >>= f).res = .error e := by simp [h]
@[simp] theorem R.cost_ok {α : Type} (a : α) : (R.ok a).cost = 0 := rfl
@[simp] theorem R.cost_err {α : Type} (e : Err) : (R.err e : R α).cost = 0 := rfl
@[simp] theorem R.cost_lift {α : Type} (x : Except Err α) : (R.lift x).cost = 0 := rfl
@[simp] theorem R.cost_tick (n : Nat) : (R.tick n).cost = n := rfl
@[simp] theorem R.cost_reparse (n : Nat) : (R.reparse n).cost = 0 := rfl
@[simp] theorem R.cost_wrapHdr {α : Type} (x : R α) : (R.wrapHdr x).cost = x.cost := rfl
@[simp] theorem R.re_ok {α : Type} (a : α) : (R.ok a).re = 0 := rfl
@[simp] theorem R.re_err {α : Type} (e : Err) : (R.err e : R α).re = 0 := rfl
@[simp] theorem R.re_lift {α : Type} (x : Except Err α) : (R.lift x).re = 0 := rfl
@[simp] theorem R.re_tick (n : Nat) : (R.tick n).re = 0 := rfl
@[simp] theorem R.re_reparse (n : Nat) : (R.reparse n).re = n := rfl
@[simp] theorem R.re_wrapHdr {α : Type} (x : R α) : (R.wrapHdr x).re = x.re := rfl
@[simp] theorem R.cost_tick_bind {β : Type} (n : Nat) (f : Unit → R β) : (R.tick n >>= f).cost = n + (f ()).cost :=
  R.cost_bind_ok rfl
@[simp] theorem R.re_tick_bind {β : Type} (n : Nat) (f : Unit → R β) : (R.tick n >>= f).re = (f ()).re := by
  rw [R.re_bind_ok (a := ()) rfl]; simp
@[simp] theorem R.res_tick_bind {β : Type} (n : Nat) (f : Unit → R β) : (R.tick n >>= f).res = (f ()).res := by
  simp

/-- cost accounting against the bytes consumed: a successful step pays `A` per byte it consumed
    or re-parsed (plus `extra`), a failing step at most `A` per remaining or re-parsed byte plus
    `extra + 1` -/
def CostOK (A : Nat) {α : Type} (x : R (α × Bytes)) (n extra : Nat) : Prop :=
  match x.res with
  | .ok (_, rest) => x.cost + A * rest.length ≤ A * n + A * x.re + extra
  | .error _ => x.cost ≤ A * n + A * x.re + extra + 1

/-- the same without a claim about the rest (for the inner stream of a server hello) -/
def Spend (A : Nat) {α : Type} (x : R α) (n extra : Nat) : Prop :=
  x.cost ≤ A * n + A * x.re + extra

/-- sequencing: a step that returns a rest, followed by a continuation on that rest -/
theorem CostOK.bind {A : Nat} {α β : Type} {x : R (α × Bytes)} {k : α × Bytes → R (β × Bytes)} {n extra : Nat}
    (hx : CostOK A x n 0) (hk : ∀ a r, x.res = .ok (a, r) → CostOK A (k (a, r)) r.length extra) :
    CostOK A (x >>= k) n extra := by
  unfold CostOK at hx ⊢
  cases h : x.res with
  | error e =>
    rw [R.res_bind_err h, R.cost_bind_err h, R.re_bind_err h]
    rw [h] at hx
    simp only at hx ⊢
    omega
  | ok p =>
    obtain ⟨a, r⟩ := p
    rw [R.res_bind_ok h, R.cost_bind_ok h, R.re_bind_ok h, Nat.mul_add]
    rw [h] at hx
    have := hk a r h
    unfold CostOK at this
    simp only at hx
    split <;> rename_i h2 <;> rw [h2] at this <;> simp only at this <;> omega

theorem Spend.bind {A : Nat} {α β : Type} {x : R (α × Bytes)} {k : α × Bytes → R β} {n extra : Nat}
    (hx : CostOK A x n 0) (he : 1 ≤ extra) (hk : ∀ a r, x.res = .ok (a, r) → Spend A (k (a, r)) r.length extra) :
    Spend A (x >>= k) n extra := by
  unfold CostOK at hx
  unfold Spend
  cases h : x.res with
  | error e =>
    rw [R.cost_bind_err h, R.re_bind_err h]
    rw [h] at hx
    simp only at hx
    omega
  | ok p =>
    obtain ⟨a, r⟩ := p
    rw [R.cost_bind_ok h, R.re_bind_ok h, Nat.mul_add]
    rw [h] at hx
    have := hk a r h
    unfold Spend at this
    simp only at hx
    omega

theorem Spend.lift_bind {A : Nat} {α β : Type} {e : Except Err α} {k : α → R β} {n extra : Nat}
    (hk : ∀ a, e = .ok a → Spend A (k a) n extra) : Spend A (R.lift e >>= k) n extra := by
  cases e with
  | error err =>
    unfold Spend
    rw [R.cost_bind_err (e := err) rfl]
    simp
  | ok a =>
    have := hk a rfl
    unfold Spend at this ⊢
    rw [R.cost_bind_ok (a := a) rfl, R.re_bind_ok (a := a) rfl]
    simpa using this

theorem CostOK.lift_bind {A : Nat} {α β : Type} {e : Except Err α} {k : α → R (β × Bytes)} {n extra : Nat}
    (hk : ∀ a, e = .ok a → CostOK A (k a) n extra) : CostOK A (R.lift e >>= k) n extra := by
  cases e with
  | error err =>
    unfold CostOK
    rw [R.res_bind_err (e := err) rfl, R.cost_bind_err (e := err) rfl]
    simp
  | ok a =>
    have := hk a rfl
    unfold CostOK at this ⊢
    rw [R.res_bind_ok (a := a) rfl, R.cost_bind_ok (a := a) rfl, R.re_bind_ok (a := a) rfl]
    simpa using this

theorem CostOK.mono {A : Nat} {α : Type} {x : R (α × Bytes)} {n extra extra' : Nat}
    (h : CostOK A x n extra) (he : extra ≤ extra') : CostOK A x n extra' := by
  unfold CostOK at h ⊢
  split <;> rename_i h2 <;> rw [h2] at h <;> simp only at h <;> omega

theorem costOK_ok {A : Nat} {α : Type} (a : α) (r : Bytes) : CostOK A (R.ok (a, r)) r.length 0 := by
  unfold CostOK; simp

theorem costOK_err {A : Nat} {α : Type} (e : Err) (n : Nat) : CostOK A (R.err e : R (α × Bytes)) n 0 := by
  unfold CostOK; simp

theorem pay_bytes {A d r2 r1 : Nat} (hA : 1 ≤ A) (h : d + r2 = r1) : d + A * r2 ≤ A * r1 := by
  subst h
  rw [Nat.mul_add]
  have := Nat.le_mul_of_pos_left d (show 0 < A by omega)
  omega

theorem costOK_fixed {A : Nat} (hA : 1 ≤ A) (w : Nat) (r : Bytes) (k : Bytes × Bytes → R (Value × Bytes))
    (hk : ∀ d r', CostOK A (k (d, r')) r'.length 0) :
    CostOK A (readFixed w r >>= k) r.length 0 := by
  unfold readFixed
  split
  · rename_i hw
    have h1 := hk (r.take w) (r.drop w)
    unfold CostOK at h1 ⊢
    rw [R.res_bind_ok rfl, R.cost_bind_ok rfl, R.re_bind_ok rfl]
    have := pay_bytes (A := A) (d := w) (r2 := (r.drop w).length) (r1 := r.length) hA (by simp; omega)
    split <;> rename_i h2 <;> rw [h2] at h1 <;> simp only [Nat.zero_add] at h1 ⊢ <;> omega
  · unfold CostOK
    rw [R.res_bind_err rfl, R.cost_bind_err rfl]
    have := Nat.le_mul_of_pos_left r.length (show 0 < A by omega)
    simp only; omega

theorem costOK_readF32 {A : Nat} (hA : 1 ≤ A) (r : Bytes) : CostOK A (readF32 r) r.length 0 := by
  unfold readF32
  split
  · simp [CostOK, Nat.mul_add]; omega
  · have := Nat.le_mul_of_pos_left r.length (show 0 < A by omega)
    simp [CostOK]; omega

theorem costOK_afterRead {A : Nat} (hA : 1 ≤ A) {d r2 r1 : Bytes} (hr : d.length + r2.length = r1.length)
    (x : R (Value × Bytes)) (hc : x.cost = d.length) (hrest : ∀ v rest, x.res = .ok (v, rest) → rest = r2) :
    CostOK A x r1.length 0 := by
  unfold CostOK
  have h1 := pay_bytes (A := A) hA hr
  have h2 := Nat.le_mul_of_pos_left r1.length (show 0 < A by omega)
  split
  · rename_i v rest h
    rw [hrest v rest h, hc]; omega
  · rw [hc]; omega

theorem CostOK.wrapHdr {A : Nat} {α : Type} {x : R (α × Bytes)} {n extra : Nat}
    (h : CostOK A x n extra) : CostOK A (R.wrapHdr x) n extra := by
  unfold CostOK at h ⊢
  simp only [R.res_wrapHdr, R.cost_wrapHdr, R.re_wrapHdr]
  cases hx : x.res with
  | ok p => rw [hx] at h; simpa [wrapHdrE] using h
  | error e =>
    rw [hx] at h
    simp only at h
    cases e <;> simpa [wrapHdrE] using h

/-- paying `m` up front out of `d` consumed bytes -/
theorem CostOK.tick {A : Nat} {α : Type} {x : R (α × Bytes)} {n extra m d : Nat}
    (h : CostOK A x n extra) (hm : m + extra ≤ A * d) : CostOK A (R.tick m >>= fun _ => x) (n + d) 0 := by
  unfold CostOK at h ⊢
  rw [R.res_tick_bind, R.cost_tick_bind, R.re_tick_bind, Nat.mul_add]
  split <;> rename_i h2 <;> rw [h2] at h <;> simp only at h ⊢ <;> omega

/-- paying `m` up front, kept as slack -/
theorem CostOK.tick_extra {A : Nat} {α : Type} {x : R (α × Bytes)} {n extra m : Nat}
    (h : CostOK A x n extra) : CostOK A (R.tick m >>= fun _ => x) n (extra + m) := by
  unfold CostOK at h ⊢
  rw [R.res_tick_bind, R.cost_tick_bind, R.re_tick_bind]
  split <;> rename_i h2 <;> rw [h2] at h <;> simp only at h ⊢ <;> omega

structure CostCfg (env : Env) (A : Nat) : Prop where
  hA : 8 ≤ A
  hF : ∀ tid d, lookup env.reg tid = some (.object d) → d.length + 8 ≤ A

structure CostInv (env : Env) (A : Nat) (f : Nat) : Prop where
  c : ∀ bs, CostOK A (decodeC env f bs) bs.length 0
  b : ∀ tid r, CostOK A (decodeBase env f tid r) r.length 0
  g : ∀ tid k r, lookup env.reg tid = some k → CostOK A (decodeReg env f tid k r) r.length A
  l : ∀ n bs, CostOK A (decodeList env f n bs) bs.length 0
  p : ∀ n acc bs, CostOK A (decodePairs env f n acc bs) bs.length 0
  fl : ∀ n k bs, CostOK A (decodeFields env f n k bs) bs.length 0

theorem costInv_zero (env : Env) (A : Nat) : CostInv env A 0 where
  c := by intro bs; simp [decodeC, CostOK]
  b := by intro tid r; simp [decodeBase, CostOK]
  g := by intro tid k r _; simp [decodeReg, CostOK]
  l := by intro n bs; cases n <;> simp [decodeList, CostOK]
  p := by intro n acc bs; cases n <;> simp [decodePairs, CostOK]
  fl := by intro n k bs; cases n <;> simp [decodeFields, CostOK]

theorem costInv_c (env : Env) (A : Nat) (cfg : CostCfg env A) (f : Nat) (ih : CostInv env A f) :
    ∀ bs, CostOK A (decodeC env (f + 1) bs) bs.length 0 := by
  intro bs
  have hA := cfg.hA
  match bs with
  | [] => simp [decodeC, CostOK]
  | [_] => simp [decodeC, CostOK]; omega
  | t0 :: t1 :: r =>
    rw [decodeC]
    have key : ∀ (x : R (Value × Bytes)), CostOK A x r.length A →
        CostOK A (R.tick 1 >>= fun _ => R.tick 2 >>= fun _ => x) (t0 :: t1 :: r).length 0 := by
      intro x hx
      have h1 : CostOK A (R.tick 2 >>= fun _ => x) r.length (A + 2) := CostOK.tick_extra hx
      have h2 := CostOK.tick (m := 1) (d := 2) h1 (by omega)
      simpa using h2
    apply key
    dsimp only
    split
    · exact (CostOK.mono (ih.b _ _) (by omega)).wrapHdr
    · split
      · rename_i k hk
        exact (ih.g _ _ _ hk).wrapHdr
      · simp [CostOK]

theorem costInv_b (env : Env) (A : Nat) (cfg : CostCfg env A) (f : Nat) (ih : CostInv env A f) :
    ∀ tid r, CostOK A (decodeBase env (f + 1) tid r) r.length 0 := by
  intro tid r
  have hA1 : 1 ≤ A := by have := cfg.hA; omega
  rw [decodeBase]
  by_cases c1 : tid = 1
  · rw [if_pos c1]
    exact costOK_fixed hA1 _ _ _ (fun d r' => costOK_ok _ _)
  rw [if_neg c1]
  by_cases c3 : tid = 3
  · rw [if_pos c3]
    exact costOK_fixed hA1 _ _ _ (fun d r' => costOK_ok _ _)
  rw [if_neg c3]
  by_cases c4 : tid = 4
  · rw [if_pos c4]
    exact costOK_fixed hA1 _ _ _ (fun d r' => costOK_ok _ _)
  rw [if_neg c4]
  by_cases c5 : tid = 5
  · rw [if_pos c5]
    exact costOK_fixed hA1 _ _ _ (fun d r' => costOK_ok _ _)
  rw [if_neg c5]
  by_cases c6 : tid = 6
  · rw [if_pos c6]
    exact costOK_fixed hA1 _ _ _ (fun d r' => costOK_ok _ _)
  rw [if_neg c6]
  by_cases c8 : tid = 8
  · rw [if_pos c8]
    exact costOK_fixed hA1 _ _ _ (fun d r' => costOK_ok _ _)
  rw [if_neg c8]
  by_cases c9 : tid = 9
  · rw [if_pos c9]
    exact costOK_fixed hA1 _ _ _ (fun d r' => costOK_ok _ _)
  rw [if_neg c9]
  by_cases c10 : tid = 10
  · rw [if_pos c10]
    exact costOK_fixed hA1 _ _ _ (fun d r' => costOK_ok _ _)
  rw [if_neg c10]
  by_cases c11 : tid = 11
  · rw [if_pos c11]
    exact costOK_readF32 hA1 r
  rw [if_neg c11]
  by_cases c12 : tid = 12
  · rw [if_pos c12]
    exact costOK_fixed hA1 _ _ _ (fun d r' => costOK_ok _ _)
  rw [if_neg c12]
  by_cases c15 : tid = 15
  · rw [if_pos c15]
    exact costOK_ok _ _
  rw [if_neg c15]
  by_cases c13 : tid = 13
  · rw [if_pos c13]
    refine CostOK.bind (ih.c r) (fun lv r1 _ => CostOK.lift_bind (fun n _ => ?_))
    split
    · exact costOK_err _ _
    · have hr := readN_spec n r1
      generalize readN n r1 = p at hr ⊢
      obtain ⟨d, r2⟩ := p
      refine costOK_afterRead hA1 hr.2 _ ?_ ?_
      · simp only [R.cost_tick_bind]; split <;> simp
      · intro v rest h
        simp only [R.res_tick_bind] at h
        split at h
        · simp at h; exact h.2.symm
        · simp at h
  rw [if_neg c13]
  by_cases c14 : tid = 14
  · rw [if_pos c14]
    refine CostOK.bind (ih.c r) (fun lv r1 _ => CostOK.lift_bind (fun n _ => ?_))
    split
    · exact costOK_err _ _
    · have hr := readN_spec n r1
      generalize readN n r1 = p at hr ⊢
      obtain ⟨d, r2⟩ := p
      refine costOK_afterRead hA1 hr.2 _ ?_ ?_
      · simp only [R.cost_tick_bind]; simp
      · intro v rest h
        simp only [R.res_tick_bind] at h
        simp at h; exact h.2.symm
  rw [if_neg c14]
  by_cases c16 : tid = 16
  · rw [if_pos c16]
    refine CostOK.bind (ih.c r) (fun lv r1 _ => CostOK.lift_bind (fun n _ => ?_))
    split
    · exact costOK_err _ _
    · exact CostOK.bind (ih.l _ r1) (fun xs r2 _ => costOK_ok _ _)
  rw [if_neg c16]
  by_cases c17 : tid = 17
  · rw [if_pos c17]
    refine CostOK.bind (ih.c r) (fun lv r1 _ => CostOK.lift_bind (fun n _ => ?_))
    split
    · exact costOK_err _ _
    · exact CostOK.bind (ih.p _ _ r1) (fun xs r2 _ => costOK_ok _ _)
  rw [if_neg c17]
  by_cases c18 : tid = 18
  · rw [if_pos c18]
    refine CostOK.bind (ih.c r) (fun lv r1 _ => CostOK.lift_bind (fun n _ => ?_))
    split
    · exact costOK_err _ _
    · exact CostOK.bind (ih.l _ r1) (fun xs r2 _ => CostOK.lift_bind (fun ys _ => costOK_ok _ _))
  rw [if_neg c18]
  exact costOK_err _ _


theorem spend_ok {A : Nat} {α : Type} (a : α) (n extra : Nat) : Spend A (R.ok a) n extra := by
  unfold Spend; simp

/-- re-parsing `p` (already read once) under a `Spend` bound, then returning the outer rest -/
theorem costOK_reparse {A : Nat} {x : R (Value × Bytes)} {p r3 : Bytes} {extra : Nat}
    (hs : Spend A x p.length extra) (hrest : ∀ v rest, x.res = .ok (v, rest) → rest = r3) :
    CostOK A (R.reparse p.length >>= fun _ => x) r3.length extra := by
  unfold Spend at hs
  unfold CostOK
  rw [R.res_bind_ok (a := ()) rfl, R.cost_bind_ok (a := ()) rfl, R.re_bind_ok (a := ()) rfl]
  simp only [R.cost_reparse, R.re_reparse, Nat.zero_add, Nat.mul_add]
  split
  · rename_i v rest h
    rw [hrest v rest h]; omega
  · omega

theorem costInv_g (env : Env) (A : Nat) (cfg : CostCfg env A) (f : Nat) (ih : CostInv env A f) :
    ∀ tid k r, lookup env.reg tid = some k → CostOK A (decodeReg env (f + 1) tid k r) r.length A := by
  intro tid k r hk
  have hA := cfg.hA
  have hA1 : 1 ≤ A := by omega
  cases k with
  | object defaults =>
    rw [decodeReg]
    have hF := cfg.hF tid defaults hk
    refine CostOK.mono (CostOK.tick_extra (extra := 0) ?_) (by omega)
    refine CostOK.bind (ih.c r) (fun nv r1 _ => CostOK.lift_bind (fun n _ => ?_))
    exact CostOK.bind (ih.fl _ _ r1) (fun vals r2 _ => costOK_ok _ _)
  | enum members =>
    rw [decodeReg]
    exact CostOK.mono (CostOK.bind (ih.c r) (fun v r1 _ => costOK_ok _ _)) (by omega)
  | clientHello =>
    rw [decodeReg]
    refine CostOK.mono (CostOK.tick_extra (extra := 0) ?_) (by omega)
    refine CostOK.bind (ih.c r) (fun der r1 _ => CostOK.lift_bind (fun key _ => ?_))
    refine CostOK.bind (ih.c r1) (fun ver r2 _ => ?_)
    dsimp only
    have hr := readN_spec (env.padTarget - ((r.length - r2.length : Nat) : Int)) r2
    generalize readN (env.padTarget - ((r.length - r2.length : Nat) : Int)) r2 = p at hr ⊢
    obtain ⟨pad, r3⟩ := p
    refine costOK_afterRead hA1 hr.2 _ ?_ ?_
    · simp only [R.cost_tick_bind]; split <;> simp
    · intro v rest h
      simp only [R.res_tick_bind] at h
      split at h
      · simp at h
      · simp at h; exact h.2.symm
  | serverHello =>
    rw [decodeReg]
    refine CostOK.mono (CostOK.tick_extra (extra := 1) ?_) (by omega)
    refine CostOK.bind (ih.c r) (fun rootV r1 _ => CostOK.lift_bind (fun root _ => ?_))
    refine CostOK.bind (ih.c r1) (fun payload r2 _ => ?_)
    refine CostOK.bind (ih.c r2) (fun sig r3 _ => CostOK.lift_bind (fun key hkey => ?_))
    dsimp only
    split
    · rename_i s p
      refine CostOK.lift_bind (fun u hu => ?_)
      refine costOK_reparse ?_ ?_
      · refine Spend.bind (ih.c _) (Nat.le_refl 1) (fun der t1 _ => Spend.lift_bind (fun k _ => ?_))
        refine Spend.bind (ih.c t1) (Nat.le_refl 1) (fun salt t2 _ => ?_)
        exact Spend.bind (ih.c t2) (Nat.le_refl 1) (fun token t3 _ => spend_ok _ _ _)
      · intro v rest h
        simp only [R.res_bind, bind_eq_ok, R.res_lift] at h
        obtain ⟨_, _, _, _, _, _, _, _, h⟩ := h
        simp only [R.res_ok, Except.ok.injEq, Prod.mk.injEq] at h
        exact h.2.symm
    · exact CostOK.mono (costOK_err _ _) (by omega)

theorem costInv_l (env : Env) (A : Nat) (f : Nat) (ih : CostInv env A f) :
    ∀ n bs, CostOK A (decodeList env (f + 1) n bs) bs.length 0 := by
  intro n bs
  cases n with
  | zero => simp only [decodeList]; exact costOK_ok _ _
  | succ n =>
    simp only [decodeList]
    exact CostOK.bind (ih.c bs) (fun x r1 _ => CostOK.bind (ih.l n r1) (fun xs r2 _ => costOK_ok _ _))

theorem costInv_fl (env : Env) (A : Nat) (f : Nat) (ih : CostInv env A f) :
    ∀ n k bs, CostOK A (decodeFields env (f + 1) n k bs) bs.length 0 := by
  intro n k bs
  cases n with
  | zero => simp only [decodeFields]; exact costOK_ok _ _
  | succ n =>
    cases k with
    | zero => simp only [decodeFields]; exact costOK_err _ _
    | succ k =>
      simp only [decodeFields]
      exact CostOK.bind (ih.c bs) (fun x r1 _ => CostOK.bind (ih.fl n k r1) (fun xs r2 _ => costOK_ok _ _))

theorem costInv_p (env : Env) (A : Nat) (f : Nat) (ih : CostInv env A f) :
    ∀ n acc bs, CostOK A (decodePairs env (f + 1) n acc bs) bs.length 0 := by
  intro n acc bs
  cases n with
  | zero => simp only [decodePairs]; exact costOK_ok _ _
  | succ n =>
    simp only [decodePairs]
    exact CostOK.bind (ih.c bs) (fun k r1 _ => CostOK.bind (ih.c r1) (fun v r2 _ =>
      CostOK.lift_bind (fun acc' _ => ih.p n acc' r2)))

theorem costInv (env : Env) (A : Nat) (cfg : CostCfg env A) : ∀ f, CostInv env A f
  | 0 => costInv_zero env A
  | f + 1 =>
    have ih := costInv env A cfg f
    ⟨costInv_c env A cfg f ih, costInv_b env A cfg f ih, costInv_g env A cfg f ih, costInv_l env A f ih,
     costInv_p env A f ih, costInv_fl env A f ih⟩

/-- the bound in closed form: whatever the outcome -/
theorem cost_le (env : Env) (A : Nat) (cfg : CostCfg env A) (f : Nat) (bs : Bytes) :
    (decodeC env f bs).cost ≤ A * (bs.length + (decodeC env f bs).re) + 1 := by
  have := (costInv env A cfg f).c bs
  unfold CostOK at this
  rw [Nat.mul_add]
  split at this <;> omega

/-! ### nothing is re-parsed unless a signature verifies under a key the caller supplied -/

/-- no `server_public_key` keyword, or no signature ever verifies -/
def NoReparse (env : Env) : Prop := env.serverKey = none ∨ ∀ k s p, env.verify k s p ≠ .ok ()

structure ReInv (env : Env) (f : Nat) : Prop where
  c : ∀ bs, (decodeC env f bs).re = 0
  b : ∀ tid r, (decodeBase env f tid r).re = 0
  g : ∀ tid k r, (decodeReg env f tid k r).re = 0
  l : ∀ n bs, (decodeList env f n bs).re = 0
  p : ∀ n acc bs, (decodePairs env f n acc bs).re = 0
  fl : ∀ n k bs, (decodeFields env f n k bs).re = 0

theorem re_bind_zero {α β : Type} {x : R α} {k : α → R β} (hx : x.re = 0) (hk : ∀ a, x.res = .ok a → (k a).re = 0) :
    (x >>= k).re = 0 := by
  cases h : x.res with
  | error e => rw [R.re_bind_err h, hx]
  | ok a => rw [R.re_bind_ok h, hx, hk a h]

@[simp] theorem readFixed_re (w : Nat) (r : Bytes) : (readFixed w r).re = 0 := by
  unfold readFixed; split <;> rfl
@[simp] theorem readF32_re (r : Bytes) : (readF32 r).re = 0 := by
  unfold readF32; split <;> rfl

macro "rz" ih:ident : tactic => `(tactic| repeat (first
  | exact rfl
  | exact ($ih).c _ | exact ($ih).b _ _ | exact ($ih).g _ _ _ | exact ($ih).l _ _ | exact ($ih).p _ _ _ | exact ($ih).fl _ _ _
  | exact readFixed_re _ _ | exact readF32_re _
  | apply re_bind_zero
  | (intro _ _)
  | split
  | simp only [R.re_ok, R.re_err, R.re_lift, R.re_tick, R.re_wrapHdr]))

theorem reInv_zero (env : Env) : ReInv env 0 where
  c := by intro bs; simp [decodeC]
  b := by intro tid r; simp [decodeBase]
  g := by intro tid k r; simp [decodeReg]
  l := by intro n bs; cases n <;> simp [decodeList]
  p := by intro n acc bs; cases n <;> simp [decodePairs]
  fl := by intro n k bs; cases n <;> simp [decodeFields]

theorem reInv_b (env : Env) (f : Nat) (ih : ReInv env f) : ∀ tid r, (decodeBase env (f + 1) tid r).re = 0 := by
  intro tid r
  rw [decodeBase]
  by_cases c1 : tid = 1
  · rw [if_pos c1]
    rz ih
  rw [if_neg c1]
  by_cases c3 : tid = 3
  · rw [if_pos c3]
    rz ih
  rw [if_neg c3]
  by_cases c4 : tid = 4
  · rw [if_pos c4]
    rz ih
  rw [if_neg c4]
  by_cases c5 : tid = 5
  · rw [if_pos c5]
    rz ih
  rw [if_neg c5]
  by_cases c6 : tid = 6
  · rw [if_pos c6]
    rz ih
  rw [if_neg c6]
  by_cases c8 : tid = 8
  · rw [if_pos c8]
    rz ih
  rw [if_neg c8]
  by_cases c9 : tid = 9
  · rw [if_pos c9]
    rz ih
  rw [if_neg c9]
  by_cases c10 : tid = 10
  · rw [if_pos c10]
    rz ih
  rw [if_neg c10]
  by_cases c11 : tid = 11
  · rw [if_pos c11]
    rz ih
  rw [if_neg c11]
  by_cases c12 : tid = 12
  · rw [if_pos c12]
    rz ih
  rw [if_neg c12]
  by_cases c15 : tid = 15
  · rw [if_pos c15]
    rz ih
  rw [if_neg c15]
  by_cases c13 : tid = 13
  · rw [if_pos c13]
    rz ih
  rw [if_neg c13]
  by_cases c14 : tid = 14
  · rw [if_pos c14]
    rz ih
  rw [if_neg c14]
  by_cases c16 : tid = 16
  · rw [if_pos c16]
    rz ih
  rw [if_neg c16]
  by_cases c17 : tid = 17
  · rw [if_pos c17]
    rz ih
  rw [if_neg c17]
  by_cases c18 : tid = 18
  · rw [if_pos c18]
    rz ih
  rw [if_neg c18]
  rz ih

theorem reInv_c (env : Env) (f : Nat) (ih : ReInv env f) : ∀ bs, (decodeC env (f + 1) bs).re = 0 := by
  intro bs
  match bs with
  | [] => simp [decodeC]; rz ih
  | [_] => simp [decodeC]; rz ih
  | t0 :: t1 :: r =>
    rw [decodeC]
    rz ih


theorem reInv_l (env : Env) (f : Nat) (ih : ReInv env f) : ∀ n bs, (decodeList env (f + 1) n bs).re = 0 := by
  intro n bs
  cases n with
  | zero => simp [decodeList]
  | succ n => simp only [decodeList]; rz ih

theorem reInv_fl (env : Env) (f : Nat) (ih : ReInv env f) : ∀ n k bs, (decodeFields env (f + 1) n k bs).re = 0 := by
  intro n k bs
  cases n with
  | zero => simp [decodeFields]
  | succ n =>
    cases k with
    | zero => simp [decodeFields]
    | succ k => simp only [decodeFields]; rz ih

theorem reInv_p (env : Env) (f : Nat) (ih : ReInv env f) : ∀ n acc bs, (decodePairs env (f + 1) n acc bs).re = 0 := by
  intro n acc bs
  cases n with
  | zero => simp [decodePairs]
  | succ n => simp only [decodePairs]; rz ih

theorem reInv_g (env : Env) (hn : NoReparse env) (f : Nat) (ih : ReInv env f) :
    ∀ tid k r, (decodeReg env (f + 1) tid k r).re = 0 := by
  intro tid k r
  cases k with
  | object defaults => rw [decodeReg]; rz ih
  | enum members => rw [decodeReg]; rz ih
  | clientHello =>
    rw [decodeReg]
    rz ih
  | serverHello =>
    rw [decodeReg]
    apply re_bind_zero rfl; intro _ _
    apply re_bind_zero (ih.c _); intro a1 _
    apply re_bind_zero rfl; intro root _
    apply re_bind_zero (ih.c _); intro a2 _
    apply re_bind_zero (ih.c _); intro a3 _
    apply re_bind_zero rfl; intro key hkey
    split
    · apply re_bind_zero rfl; intro u hu
      exfalso
      rcases hn with h0 | h0
      · rw [h0] at hkey; simp at hkey
      · exact h0 _ _ _ hu
    · rfl

theorem reInv (env : Env) (hn : NoReparse env) : ∀ f, ReInv env f
  | 0 => reInv_zero env
  | f + 1 =>
    have ih := reInv env hn f
    ⟨reInv_c env f ih, reInv_b env f ih, reInv_g env hn f ih, reInv_l env f ih, reInv_p env f ih,
     reInv_fl env f ih⟩

/-- what is re-parsed is at most what verified: every re-parsed byte belongs to a payload read
    from the input, so one level of signed hellos re-parses at most the input once -/
theorem re_zero (env : Env) (hn : NoReparse env) (f : Nat) (bs : Bytes) : (decodeC env f bs).re = 0 :=
  (reInv env hn f).c bs

end Mpgs.Serial
