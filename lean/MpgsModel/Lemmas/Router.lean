import MpgsModel.Lemmas.Regex
import MpgsModel.Lemmas.RouterSegs
/-
C16 core: the regex compiled from a pattern (`compileElems`) has a declarative match on `s`
exactly when `s` is `/seg/…/seg` (optionally plus one `/`) for segments that `Spec.segSols`
distributes over the pattern, and the captures are the Spec's reported values.
-/
namespace Mpgs.Router
open Mpgs.Regex

/-- no newline in the text -/
def NoNl (s : List Char) : Prop := ∀ ch ∈ s, ch ≠ '\n'

/-- a literal part contains no `/` (it is a piece of `pattern.split("/")`) -/
def Elem.WF : Elem → Prop
  | .lit s => '/' ∉ s
  | _ => True

/-- the capture store after binding the values `b` to groups `i, i+1, …` on top of `c` -/
def capsOf : Nat → Spec.Vals → Caps → Caps
  | _, [], c => c
  | i, none :: b, c => capsOf (i + 1) b c
  | i, some v :: b, c => capsOf (i + 1) b ((i, v) :: c)

/-- equal up to "absent ≡ empty" -/
def AbsEq (a b : Spec.Vals) : Prop := a.map (·.getD []) = b.map (·.getD [])

theorem absEq_refl (a : Spec.Vals) : AbsEq a a := rfl
theorem absEq_cons_some {a b : Spec.Vals} (u : List Char) (h : AbsEq a b) :
    AbsEq (some u :: a) (some u :: b) := by simp only [AbsEq, List.map_cons] at *; rw [h]
theorem absEq_cons_none {a b : Spec.Vals} (h : AbsEq a b) :
    AbsEq (none :: a) (none :: b) := by simp only [AbsEq, List.map_cons] at *; rw [h]
theorem absEq_cons_none_empty {a b : Spec.Vals} (h : AbsEq a b) :
    AbsEq (none :: a) (some [] :: b) := by simp only [AbsEq, List.map_cons] at *; rw [h]; rfl

theorem atEnd_noNl {r : List Char} (h : atEnd r = true) (hr : NoNl r) : r = [] := by
  cases r with
  | nil => rfl
  | cons a t =>
    simp only [atEnd, Bool.or_eq_true, beq_iff_eq] at h
    rcases h with h | h
    · cases h
    · have : a = '\n' := (List.cons.inj h).1
      exact absurd this (hr a (by simp))

theorem mat_litRe (n : Nat) : ∀ (x s : List Char) (c : Caps) (r : List Char) (c' : Caps),
    MatC n (litRe x) s c r c' ↔ s = x ++ r ∧ c' = c := by
  intro x
  induction x with
  | nil =>
    intro s c r c'
    simp only [litRe, MatC, List.nil_append]
    constructor <;> rintro ⟨rfl, rfl⟩ <;> exact ⟨rfl, rfl⟩
  | cons a x ih =>
    intro s c r c'
    simp only [litRe, MatC]
    constructor
    · rintro ⟨m, cm, ⟨rfl, rfl⟩, h⟩
      obtain ⟨rfl, rfl⟩ := (ih _ _ _ _).mp h
      exact ⟨rfl, rfl⟩
    · rintro ⟨rfl, rfl⟩
      exact ⟨x ++ r, c', ⟨rfl, rfl⟩, (ih _ _ _ _).mpr ⟨rfl, rfl⟩⟩

theorem mat_lit (n i : Nat) (x s : List Char) (c : Caps) (r : List Char) (c' : Caps) :
    MatC n (elemRe i (.lit x)) s c r c' ↔ s = '/' :: (x ++ r) ∧ c' = c := by
  simp only [elemRe, MatC]
  constructor
  · rintro ⟨m, cm, ⟨rfl, rfl⟩, h⟩
    obtain ⟨rfl, rfl⟩ := (mat_litRe n _ _ _ _ _).mp h
    exact ⟨rfl, rfl⟩
  · rintro ⟨rfl, rfl⟩
    exact ⟨x ++ r, c', ⟨rfl, rfl⟩, (mat_litRe n _ _ _ _ _).mpr ⟨rfl, rfl⟩⟩

theorem mat_slash_grp (n i : Nat) (cls : Cls) (m : Bool) (s : List Char) (c : Caps)
    (r : List Char) (c' : Caps) :
    MatC n (.seq (.chr '/') (.grp i (.star cls m))) s c r c' ↔
      ∃ u, s = '/' :: (u ++ r) ∧ (∀ ch ∈ u, cls.ok ch = true) ∧ (m = true → u ≠ []) ∧
        c' = (i, u) :: c := by
  simp only [MatC]
  constructor
  · rintro ⟨mid, cm, ⟨rfl, rfl⟩, c1, ⟨rfl, u, rfl, h2, h3⟩, rfl⟩
    refine ⟨u, rfl, h2, h3, ?_⟩
    simp
  · rintro ⟨u, rfl, h2, h3, rfl⟩
    refine ⟨u ++ r, c, ⟨rfl, rfl⟩, c, ⟨rfl, u, rfl, h2, h3⟩, ?_⟩
    simp

theorem mat_optalt (n : Nat) (X : Re) (s : List Char) (c : Caps) (r : List Char) (c' : Caps) :
    MatC n (.opt (.alt X (.chr '/'))) s c r c' ↔
      MatC n X s c r c' ∨ (s = '/' :: r ∧ c' = c) ∨ (r = s ∧ c' = c) := by
  simp only [MatC, or_assoc]

theorem mat_tail (n : Nat) (s : List Char) (c : Caps) (r : List Char) (c' : Caps) (hs : NoNl s) :
    MatC n tailRe s c r c' ↔ (s = [] ∨ s = ['/']) ∧ r = [] ∧ c' = c := by
  simp only [tailRe, MatC]
  constructor
  · rintro ⟨m, cm, h1, rfl, rfl, hend⟩
    rcases h1 with ⟨rfl, rfl⟩ | ⟨rfl, rfl⟩
    · have hr : NoNl r := fun ch h => hs ch (List.mem_cons_of_mem _ h)
      have := atEnd_noNl hend hr
      subst this
      exact ⟨Or.inr rfl, rfl, rfl⟩
    · have := atEnd_noNl hend hs
      subst this
      exact ⟨Or.inl rfl, rfl, rfl⟩
  · rintro ⟨h1 | h1, rfl, rfl⟩
    · subst h1
      exact ⟨[], c', Or.inr ⟨rfl, rfl⟩, rfl, rfl, by simp [atEnd]⟩
    · subst h1
      exact ⟨[], c', Or.inl ⟨rfl, rfl⟩, rfl, rfl, by simp [atEnd]⟩

theorem compileElems_cons {e : Elem} {es : List Elem} {final : Bool} {i : Nat} {re : Re}
    (h : compileElems (e :: es) final i = .ok re) :
    ∃ r', compileElems es (final || e.isFinal) (i + e.ngroups) = .ok r' ∧
      re = .seq (elemRe i e) r' := by
  simp only [compileElems] at h
  split at h
  · cases h
  · split at h
    · rename_i r' hr
      cases h
      exact ⟨r', hr, rfl⟩
    · cases h

theorem notSlash_of_ok {u : List Char} (h : ∀ ch ∈ u, Cls.notSlash.ok ch = true) : '/' ∉ u := by
  intro hm
  have := h '/' hm
  simp [Cls.ok] at this

theorem ok_of_notSlash {u : List Char} (h : '/' ∉ u) : ∀ ch ∈ u, Cls.notSlash.ok ch = true := by
  intro ch hch
  simp only [Cls.ok, bne_iff_ne, ne_eq]
  intro e; subst e; exact h hch

theorem ok_any_of_noNl {u : List Char} (h : NoNl u) : ∀ ch ∈ u, Cls.any.ok ch = true := by
  intro ch hch
  simp only [Cls.ok, bne_iff_ne, ne_eq]
  exact h ch hch

/-- soundness: every way the compiled regex matches is a Spec solution on some segmentation -/
theorem elems_sound (n : Nat) : ∀ (es : List Elem) (final : Bool) (i : Nat) (re : Re),
    compileElems es final i = .ok re → (∀ e ∈ es, e.WF) →
    ∀ (s : List Char) (c : Caps) (r : List Char) (c' : Caps), NoNl s → MatC n re s c r c' →
    r = [] ∧ ∃ segs b b0, SlashFree segs ∧ (s = joinSegs segs ∨ s = joinSegs segs ++ ['/']) ∧
      b ∈ Spec.segSols es segs ∧ c' = capsOf i b0 c ∧ AbsEq b0 b := by
  intro es
  induction es with
  | nil =>
    intro final i re hre _ s c r c' hs hm
    simp only [compileElems] at hre
    cases hre
    obtain ⟨h1, rfl, rfl⟩ := (mat_tail n s c r c' hs).mp hm
    refine ⟨rfl, [], [], [], by simp [SlashFree], ?_, by simp [Spec.segSols], rfl, rfl⟩
    rcases h1 with rfl | rfl <;> simp [joinSegs]
  | cons e es ih =>
    intro final i re hre hwf s c r c' hs hm
    obtain ⟨r', hr', rfl⟩ := compileElems_cons hre
    have hwf' : ∀ e' ∈ es, e'.WF := fun e' h => hwf e' (List.mem_cons_of_mem _ h)
    have hm' : ∃ m cm, MatC n (elemRe i e) s c m cm ∧ MatC n r' m cm r c' := hm
    obtain ⟨m, cm, h1, h2⟩ := hm'
    cases e with
    | lit x =>
      obtain ⟨rfl, rfl⟩ := (mat_lit n i x s c m cm).mp h1
      have hsm : NoNl m := fun ch h => hs ch (by simp [h])
      obtain ⟨rfl, segs, b, b0, hsf, hjoin, hb, hc, habs⟩ := ih _ _ _ hr' hwf' m cm r c' hsm h2
      simp only [Elem.ngroups, Elem.token, Option.isSome_none, Bool.false_eq_true, if_false,
        Nat.add_zero] at hc
      have hx : '/' ∉ x := hwf (.lit x) (by simp)
      refine ⟨rfl, x :: segs, b, b0, slashFree_cons.mpr ⟨hx, hsf⟩, ?_, by simp [Spec.segSols, hb],
        hc, habs⟩
      rcases hjoin with rfl | rfl
      · left; simp [joinSegs]
      · right; simp [joinSegs]
    | param nm =>
      obtain ⟨u, rfl, hu, hne, rfl⟩ := (mat_slash_grp n i .notSlash true s c m cm).mp h1
      have hsm : NoNl m := fun ch h => hs ch (by simp [h])
      obtain ⟨rfl, segs, b, b0, hsf, hjoin, hb, hc, habs⟩ := ih _ _ _ hr' hwf' m _ r c' hsm h2
      simp only [Elem.ngroups, Elem.token, Option.isSome_some, if_true] at hc
      have hne' : u ≠ [] := hne rfl
      refine ⟨rfl, u :: segs, some u :: b, some u :: b0,
        slashFree_cons.mpr ⟨notSlash_of_ok hu, hsf⟩, ?_, ?_, by simpa [capsOf] using hc,
        absEq_cons_some u habs⟩
      · rcases hjoin with rfl | rfl
        · left; simp [joinSegs]
        · right; simp [joinSegs]
      · simp only [Spec.segSols]
        rw [if_neg (by simpa using hne')]
        exact List.mem_map.mpr ⟨b, hb, rfl⟩
    | opt nm =>
      have hsplit := (mat_optalt n _ s c m cm).mp h1
      rcases hsplit with h1' | ⟨rfl, rfl⟩ | ⟨rfl, rfl⟩
      · obtain ⟨u, rfl, hu, _, rfl⟩ := (mat_slash_grp n i .notSlash false s c m cm).mp h1'
        have hsm : NoNl m := fun ch h => hs ch (by simp [h])
        obtain ⟨rfl, segs, b, b0, hsf, hjoin, hb, hc, habs⟩ := ih _ _ _ hr' hwf' m _ r c' hsm h2
        simp only [Elem.ngroups, Elem.token, Option.isSome_some, if_true] at hc
        refine ⟨rfl, u :: segs, some u :: b, some u :: b0,
          slashFree_cons.mpr ⟨notSlash_of_ok hu, hsf⟩, ?_, ?_, by simpa [capsOf] using hc,
          absEq_cons_some u habs⟩
        · rcases hjoin with rfl | rfl
          · left; simp [joinSegs]
          · right; simp [joinSegs]
        · simp only [Spec.segSols, List.mem_append]
          exact Or.inl (List.mem_map.mpr ⟨b, hb, rfl⟩)
      · -- the `|\/` alternative: a slash is consumed, the group stays unset
        have hsm : NoNl m := fun ch h => hs ch (by simp [h])
        obtain ⟨rfl, segs, b, b0, hsf, hjoin, hb, hc, habs⟩ := ih _ _ _ hr' hwf' m _ r c' hsm h2
        simp only [Elem.ngroups, Elem.token, Option.isSome_some, if_true] at hc
        refine ⟨rfl, [] :: segs, some [] :: b, none :: b0,
          slashFree_cons.mpr ⟨by simp, hsf⟩, ?_, ?_, by simpa [capsOf] using hc,
          absEq_cons_none_empty habs⟩
        · rcases hjoin with rfl | rfl
          · left; simp [joinSegs]
          · right; simp [joinSegs]
        · simp only [Spec.segSols, List.mem_append]
          exact Or.inl (List.mem_map.mpr ⟨b, hb, rfl⟩)
      · obtain ⟨rfl, segs, b, b0, hsf, hjoin, hb, hc, habs⟩ := ih _ _ _ hr' hwf' m _ r c' hs h2
        simp only [Elem.ngroups, Elem.token, Option.isSome_some, if_true] at hc
        refine ⟨rfl, segs, none :: b, none :: b0, hsf, hjoin, ?_, by simpa [capsOf] using hc,
          absEq_cons_none habs⟩
        simp only [Spec.segSols, List.mem_append]
        exact Or.inr (List.mem_map.mpr ⟨b, hb, rfl⟩)
    | plus nm =>
      obtain ⟨u, rfl, hu, hne, rfl⟩ := (mat_slash_grp n i .any true s c m cm).mp h1
      have hsm : NoNl m := fun ch h => hs ch (by simp [h])
      obtain ⟨rfl, segs, b, b0, hsf, hjoin, hb, hc, habs⟩ := ih _ _ _ hr' hwf' m _ r c' hsm h2
      simp only [Elem.ngroups, Elem.token, Option.isSome_some, if_true] at hc
      have hne' : u ≠ [] := hne rfl
      obtain ⟨p, hp0, hpsf, hpj, hpu⟩ := exists_segs u
      refine ⟨rfl, p ++ segs, some u :: b, some u :: b0,
        slashFree_append.mpr ⟨hpsf, hsf⟩, ?_, ?_, by simpa [capsOf] using hc,
        absEq_cons_some u habs⟩
      · rcases hjoin with rfl | rfl
        · left; simp [joinSegs_append, hpj]
        · right; simp [joinSegs_append, hpj]
      · simp only [Spec.segSols, List.mem_flatMap]
        refine ⟨(p, segs), (mem_splits _ _).mpr rfl, ?_⟩
        simp only [hpu]
        rw [if_neg (by simpa using hne')]
        exact List.mem_map.mpr ⟨b, hb, rfl⟩
    | star nm =>
      have hsplit := (mat_optalt n _ s c m cm).mp h1
      rcases hsplit with h1' | ⟨rfl, rfl⟩ | ⟨rfl, rfl⟩
      · obtain ⟨u, rfl, hu, _, rfl⟩ := (mat_slash_grp n i .any false s c m cm).mp h1'
        have hsm : NoNl m := fun ch h => hs ch (by simp [h])
        obtain ⟨rfl, segs, b, b0, hsf, hjoin, hb, hc, habs⟩ := ih _ _ _ hr' hwf' m _ r c' hsm h2
        simp only [Elem.ngroups, Elem.token, Option.isSome_some, if_true] at hc
        obtain ⟨p, hp0, hpsf, hpj, hpu⟩ := exists_segs u
        refine ⟨rfl, p ++ segs, some u :: b, some u :: b0,
          slashFree_append.mpr ⟨hpsf, hsf⟩, ?_, ?_, by simpa [capsOf] using hc,
          absEq_cons_some u habs⟩
        · rcases hjoin with rfl | rfl
          · left; simp [joinSegs_append, hpj]
          · right; simp [joinSegs_append, hpj]
        · simp only [Spec.segSols, List.mem_append, List.mem_flatMap]
          refine Or.inl ⟨(p, segs), (mem_splits _ _).mpr rfl, ?_⟩
          simp only [hpu]
          rw [if_neg (by simpa using hp0)]
          exact List.mem_map.mpr ⟨b, hb, rfl⟩
      · have hsm : NoNl m := fun ch h => hs ch (by simp [h])
        obtain ⟨rfl, segs, b, b0, hsf, hjoin, hb, hc, habs⟩ := ih _ _ _ hr' hwf' m _ r c' hsm h2
        simp only [Elem.ngroups, Elem.token, Option.isSome_some, if_true] at hc
        refine ⟨rfl, [[]] ++ segs, some [] :: b, none :: b0,
          slashFree_append.mpr ⟨by simp [SlashFree], hsf⟩, ?_, ?_, by simpa [capsOf] using hc,
          absEq_cons_none_empty habs⟩
        · rcases hjoin with rfl | rfl
          · left; simp [joinSegs]
          · right; simp [joinSegs]
        · simp only [Spec.segSols, List.mem_append, List.mem_flatMap]
          refine Or.inl ⟨([[]], segs), (mem_splits _ _).mpr rfl, ?_⟩
          simp only [Spec.joinSlash]
          rw [if_neg (by simp)]
          exact List.mem_map.mpr ⟨b, hb, rfl⟩
      · obtain ⟨rfl, segs, b, b0, hsf, hjoin, hb, hc, habs⟩ := ih _ _ _ hr' hwf' m _ r c' hs h2
        simp only [Elem.ngroups, Elem.token, Option.isSome_some, if_true] at hc
        refine ⟨rfl, segs, none :: b, none :: b0, hsf, hjoin, ?_, by simpa [capsOf] using hc,
          absEq_cons_none habs⟩
        simp only [Spec.segSols, List.mem_append]
        exact Or.inr (List.mem_map.mpr ⟨b, hb, rfl⟩)

theorem noNl_append_left {a b : List Char} (h : NoNl (a ++ b)) : NoNl a :=
  fun ch hch => h ch (List.mem_append_left _ hch)
theorem noNl_append_right {a b : List Char} (h : NoNl (a ++ b)) : NoNl b :=
  fun ch hch => h ch (List.mem_append_right _ hch)

/-- completeness: every Spec solution on a segmentation of `s` is realised by the compiled regex,
    with exactly the Spec's values as captures -/
theorem elems_complete (n : Nat) : ∀ (es : List Elem) (final : Bool) (i : Nat) (re : Re),
    compileElems es final i = .ok re →
    ∀ (segs : List (List Char)) (b : Spec.Vals) (s : List Char) (c : Caps),
    SlashFree segs → NoNl s → (s = joinSegs segs ∨ s = joinSegs segs ++ ['/']) →
    b ∈ Spec.segSols es segs → MatC n re s c [] (capsOf i b c) := by
  intro es
  induction es with
  | nil =>
    intro final i re hre segs b s c _ hs hjoin hb
    simp only [compileElems] at hre
    cases hre
    cases segs with
    | cons x xs => simp [Spec.segSols] at hb
    | nil =>
      simp only [Spec.segSols, List.isEmpty_nil, if_true, List.mem_singleton] at hb
      subst hb
      refine (mat_tail n s c [] _ hs).mpr ⟨?_, rfl, rfl⟩
      rcases hjoin with rfl | rfl
      · left; rfl
      · right; rfl
  | cons e es ih =>
    intro final i re hre segs b s c hsf hs hjoin hb
    obtain ⟨r', hr', rfl⟩ := compileElems_cons hre
    show ∃ m cm, MatC n (elemRe i e) s c m cm ∧ MatC n r' m cm [] (capsOf i b c)
    cases e with
    | lit x =>
      cases segs with
      | nil => simp [Spec.segSols] at hb
      | cons y ys =>
        simp only [Spec.segSols] at hb
        by_cases hyx : y = x
        · subst hyx
          rw [if_pos rfl] at hb
          have ⟨_, hys⟩ := slashFree_cons.mp hsf
          -- the rest of the subject
          have key : ∀ m, s = '/' :: (y ++ m) → (m = joinSegs ys ∨ m = joinSegs ys ++ ['/']) →
              ∃ m cm, MatC n (elemRe i (.lit y)) s c m cm ∧ MatC n r' m cm [] (capsOf i b c) := by
            intro m hsm hm
            have hnm : NoNl m := by
              subst hsm
              exact fun ch h => hs ch (by simp [h])
            have := ih _ _ _ hr' ys b m c hys hnm hm hb
            simp only [Elem.ngroups, Elem.token, Option.isSome_none, Bool.false_eq_true, if_false,
              Nat.add_zero] at this
            exact ⟨m, c, (mat_lit n i y s c m c).mpr ⟨hsm, rfl⟩, this⟩
          rcases hjoin with rfl | rfl
          · exact key (joinSegs ys) (by simp [joinSegs]) (Or.inl rfl)
          · exact key (joinSegs ys ++ ['/']) (by simp [joinSegs]) (Or.inr rfl)
        · rw [if_neg hyx] at hb
          simp at hb
    | param nm =>
      cases segs with
      | nil => simp [Spec.segSols] at hb
      | cons y ys =>
        simp only [Spec.segSols] at hb
        by_cases hy0 : y.isEmpty = true
        · rw [if_pos hy0] at hb; simp at hb
        · rw [if_neg hy0] at hb
          obtain ⟨b', hb', rfl⟩ := List.mem_map.mp hb
          have ⟨hy, hys⟩ := slashFree_cons.mp hsf
          have hyne : y ≠ [] := by simpa using hy0
          have key : ∀ m, s = '/' :: (y ++ m) → (m = joinSegs ys ∨ m = joinSegs ys ++ ['/']) →
              ∃ m cm, MatC n (elemRe i (.param nm)) s c m cm ∧
                MatC n r' m cm [] (capsOf i (some y :: b') c) := by
            intro m hsm hm
            have hnm : NoNl m := by
              subst hsm
              exact fun ch h => hs ch (by simp [h])
            have := ih _ _ _ hr' ys b' m ((i, y) :: c) hys hnm hm hb'
            simp only [Elem.ngroups, Elem.token, Option.isSome_some, if_true] at this
            exact ⟨m, (i, y) :: c,
              (mat_slash_grp n i .notSlash true s c m _).mpr
                ⟨y, hsm, ok_of_notSlash hy, fun _ => hyne, rfl⟩, by simpa [capsOf] using this⟩
          rcases hjoin with rfl | rfl
          · exact key (joinSegs ys) (by simp [joinSegs]) (Or.inl rfl)
          · exact key (joinSegs ys ++ ['/']) (by simp [joinSegs]) (Or.inr rfl)
    | opt nm =>
      simp only [Spec.segSols, List.mem_append] at hb
      rcases hb with hb | hb
      · cases segs with
        | nil => simp at hb
        | cons y ys =>
          obtain ⟨b', hb', rfl⟩ := List.mem_map.mp hb
          have ⟨hy, hys⟩ := slashFree_cons.mp hsf
          have key : ∀ m, s = '/' :: (y ++ m) → (m = joinSegs ys ∨ m = joinSegs ys ++ ['/']) →
              ∃ m cm, MatC n (elemRe i (.opt nm)) s c m cm ∧
                MatC n r' m cm [] (capsOf i (some y :: b') c) := by
            intro m hsm hm
            have hnm : NoNl m := by
              subst hsm
              exact fun ch h => hs ch (by simp [h])
            have := ih _ _ _ hr' ys b' m ((i, y) :: c) hys hnm hm hb'
            simp only [Elem.ngroups, Elem.token, Option.isSome_some, if_true] at this
            refine ⟨m, (i, y) :: c, (mat_optalt n _ s c m _).mpr (Or.inl ?_),
              by simpa [capsOf] using this⟩
            exact (mat_slash_grp n i .notSlash false s c m _).mpr
              ⟨y, hsm, ok_of_notSlash hy, (fun h => by cases h), rfl⟩
          rcases hjoin with rfl | rfl
          · exact key (joinSegs ys) (by simp [joinSegs]) (Or.inl rfl)
          · exact key (joinSegs ys ++ ['/']) (by simp [joinSegs]) (Or.inr rfl)
      · obtain ⟨b', hb', rfl⟩ := List.mem_map.mp hb
        have := ih _ _ _ hr' segs b' s c hsf hs hjoin hb'
        simp only [Elem.ngroups, Elem.token, Option.isSome_some, if_true] at this
        exact ⟨s, c, (mat_optalt n _ s c s c).mpr (Or.inr (Or.inr ⟨rfl, rfl⟩)),
          by simpa [capsOf] using this⟩
    | plus nm =>
      simp only [Spec.segSols, List.mem_flatMap] at hb
      obtain ⟨⟨p, q⟩, hpq, hb⟩ := hb
      have hpq' : p ++ q = segs := (mem_splits _ _).mp hpq
      subst hpq'
      by_cases hj : (Spec.joinSlash p).isEmpty = true
      · simp only [hj, if_true] at hb; simp at hb
      · simp only [hj] at hb
        obtain ⟨b', hb', rfl⟩ := List.mem_map.mp hb
        have ⟨hp, hq⟩ := slashFree_append.mp hsf
        have hjne : Spec.joinSlash p ≠ [] := by simpa using hj
        have hp0 : p ≠ [] := by
          intro h; subst h; exact hjne rfl
        have hpj := joinSegs_eq_joinSlash p hp0
        have key : ∀ m, s = '/' :: (Spec.joinSlash p ++ m) →
            (m = joinSegs q ∨ m = joinSegs q ++ ['/']) →
            ∃ m cm, MatC n (elemRe i (.plus nm)) s c m cm ∧
              MatC n r' m cm [] (capsOf i (some (Spec.joinSlash p) :: b') c) := by
          intro m hsm hm
          have hnu : NoNl (Spec.joinSlash p) := by
            subst hsm
            exact fun ch h => hs ch (by simp [h])
          have hnm : NoNl m := by
            subst hsm
            exact fun ch h => hs ch (by simp [h])
          have := ih _ _ _ hr' q b' m ((i, Spec.joinSlash p) :: c) hq hnm hm hb'
          simp only [Elem.ngroups, Elem.token, Option.isSome_some, if_true] at this
          exact ⟨m, (i, Spec.joinSlash p) :: c,
            (mat_slash_grp n i .any true s c m _).mpr
              ⟨_, hsm, ok_any_of_noNl hnu, fun _ => hjne, rfl⟩, by simpa [capsOf] using this⟩
        rcases hjoin with rfl | rfl
        · exact key (joinSegs q) (by simp [joinSegs_append, hpj]) (Or.inl rfl)
        · exact key (joinSegs q ++ ['/']) (by simp [joinSegs_append, hpj]) (Or.inr rfl)
    | star nm =>
      simp only [Spec.segSols, List.mem_append, List.mem_flatMap] at hb
      rcases hb with ⟨⟨p, q⟩, hpq, hb⟩ | hb
      · have hpq' : p ++ q = segs := (mem_splits _ _).mp hpq
        subst hpq'
        by_cases hj : p.isEmpty = true
        · simp only [hj, if_true] at hb; simp at hb
        · simp only [hj] at hb
          obtain ⟨b', hb', rfl⟩ := List.mem_map.mp hb
          have ⟨hp, hq⟩ := slashFree_append.mp hsf
          have hp0 : p ≠ [] := by simpa using hj
          have hpj := joinSegs_eq_joinSlash p hp0
          have key : ∀ m, s = '/' :: (Spec.joinSlash p ++ m) →
              (m = joinSegs q ∨ m = joinSegs q ++ ['/']) →
              ∃ m cm, MatC n (elemRe i (.star nm)) s c m cm ∧
                MatC n r' m cm [] (capsOf i (some (Spec.joinSlash p) :: b') c) := by
            intro m hsm hm
            have hnu : NoNl (Spec.joinSlash p) := by
              subst hsm
              exact fun ch h => hs ch (by simp [h])
            have hnm : NoNl m := by
              subst hsm
              exact fun ch h => hs ch (by simp [h])
            have := ih _ _ _ hr' q b' m ((i, Spec.joinSlash p) :: c) hq hnm hm hb'
            simp only [Elem.ngroups, Elem.token, Option.isSome_some, if_true] at this
            refine ⟨m, (i, Spec.joinSlash p) :: c, (mat_optalt n _ s c m _).mpr (Or.inl ?_),
              by simpa [capsOf] using this⟩
            exact (mat_slash_grp n i .any false s c m _).mpr
              ⟨_, hsm, ok_any_of_noNl hnu, (fun h => by cases h), rfl⟩
          rcases hjoin with rfl | rfl
          · exact key (joinSegs q) (by simp [joinSegs_append, hpj]) (Or.inl rfl)
          · exact key (joinSegs q ++ ['/']) (by simp [joinSegs_append, hpj]) (Or.inr rfl)
      · obtain ⟨b', hb', rfl⟩ := List.mem_map.mp hb
        have := ih _ _ _ hr' segs b' s c hsf hs hjoin hb'
        simp only [Elem.ngroups, Elem.token, Option.isSome_some, if_true] at this
        exact ⟨s, c, (mat_optalt n _ s c s c).mpr (Or.inr (Or.inr ⟨rfl, rfl⟩)),
          by simpa [capsOf] using this⟩

end Mpgs.Router
