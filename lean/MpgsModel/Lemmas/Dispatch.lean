import MpgsModel.Model.Dispatch
/-! Helper lemmas for the dispatcher model (refinement to `String → Option Handler`). -/
namespace Mpgs.Dispatch

theorem lookup_append_fresh (t : Table) (ev : String) (h : Handler) (ev' : String)
    (hb : bound t ev = false) :
    lookup (t ++ [(ev, h)]) ev' = if ev' = ev then some h else lookup t ev' := by
  induction t with
  | nil =>
    by_cases e : ev' = ev
    · subst e; simp [lookup]
    · have : ¬ ev = ev' := fun x => e x.symm
      simp [lookup, e, this]
  | cons p t ih =>
    obtain ⟨k, hk⟩ := p
    simp only [bound, lookup] at hb
    by_cases e0 : k = ev
    · simp [e0] at hb
    · simp only [e0, if_false] at hb
      have ih' := ih (by simpa [bound] using hb)
      simp only [List.cons_append, lookup]
      by_cases e : k = ev'
      · have : ¬ ev' = ev := by intro x; exact e0 (e.trans x)
        simp [e, this]
      · simp [e, ih']

theorem lookup_erase (t : Table) (ev ev' : String) :
    lookup (erase t ev) ev' = if ev' = ev then none else lookup t ev' := by
  induction t with
  | nil => simp [lookup, erase]
  | cons p t ih =>
    obtain ⟨k, hk⟩ := p
    simp only [erase, lookup]
    by_cases e : k = ev
    · simp only [e, if_true, ih]
      by_cases e' : ev' = ev
      · simp [e']
      · have : ¬ ev = ev' := fun x => e' x.symm
        simp [e', this]
    · simp only [e, if_false, lookup, ih]
      by_cases e' : k = ev'
      · have : ¬ ev' = ev := by intro x; exact e (e'.trans x)
        simp [e', this]
      · simp [e']

/-- events named by a method list -/
def events (ms : List (String × String)) : List String := ms.map (·.2)

theorem lookup_unregisterMethods (ms : List (String × String)) (t : Table) (ev' : String) :
    lookup (unregisterMethods t ms) ev' = if ev' ∈ events ms then none else lookup t ev' := by
  induction ms generalizing t with
  | nil => simp [unregisterMethods, events]
  | cons m ms ih =>
    obtain ⟨mn, ev⟩ := m
    simp only [unregisterMethods, events, List.map_cons, List.mem_cons] at *
    rw [ih]
    by_cases hin : ev' ∈ List.map (fun x => x.2) ms
    · simp [hin]
    · simp only [hin, if_false, or_false]
      by_cases hb : bound t ev = true
      · simp [hb, lookup_erase]
      · simp only [hb]
        by_cases e : ev' = ev
        · subst e
          have : lookup t ev' = none := by
            simp only [bound, Bool.not_eq_true, Option.isSome_eq_false_iff, Option.isNone_iff_eq_none] at hb
            exact hb
          simp [this]
        · simp [e]

/-- the handler `register` binds to `ev'`: the first method of the resource annotated with it -/
def firstMethod (ms : List (String × String)) (ev' : String) : Option String :=
  match ms with
  | [] => none
  | (mn, ev) :: rest => if ev = ev' then some mn else firstMethod rest ev'

theorem firstMethod_none (ms : List (String × String)) (ev' : String) (h : ev' ∉ events ms) :
    firstMethod ms ev' = none := by
  induction ms with
  | nil => rfl
  | cons m ms ih =>
    obtain ⟨mn, ev⟩ := m
    simp only [events, List.map_cons, List.mem_cons, not_or] at h
    have : ¬ ev = ev' := fun x => h.1 x.symm
    simp only [firstMethod, this, if_false]
    exact ih h.2

/-- registering the methods of a resource on a table where none of its (pairwise distinct)
    event names is bound succeeds and binds each event to the resource's method. -/
theorem registerMethods_fresh (rid : Nat) (ms : List (String × String)) (t : Table)
    (hfree : ∀ ev ∈ events ms, bound t ev = false) (hnd : (events ms).Nodup) :
    (registerMethods rid t ms).2 = none ∧
    ∀ ev', lookup (registerMethods rid t ms).1 ev' =
      match firstMethod ms ev' with
      | some mn => some ⟨rid, mn⟩
      | none => lookup t ev' := by
  induction ms generalizing t with
  | nil => simp [registerMethods, firstMethod]
  | cons m ms ih =>
    obtain ⟨mn, ev⟩ := m
    simp only [events, List.map_cons, List.nodup_cons, List.mem_cons, forall_eq_or_imp] at hfree hnd
    obtain ⟨hf0, hf⟩ := hfree
    obtain ⟨hnotin, hnd'⟩ := hnd
    have hfree' : ∀ ev'' ∈ events ms, bound (t ++ [(ev, (⟨rid, mn⟩ : Handler))]) ev'' = false := by
      intro ev'' hin
      have h1 := hf ev'' hin
      have hne : ¬ ev'' = ev := by
        intro x; subst x; exact hnotin hin
      simp only [bound] at h1 ⊢
      rw [lookup_append_fresh t ev ⟨rid, mn⟩ ev'' hf0]
      simpa [hne] using h1
    have := ih (t ++ [(ev, ⟨rid, mn⟩)]) hfree' hnd'
    simp only [registerMethods, registerFunction, hf0, Bool.false_eq_true, if_false]
    refine ⟨this.1, ?_⟩
    intro ev'
    rw [this.2 ev']
    simp only [firstMethod]
    by_cases e : ev = ev'
    · subst e
      rw [firstMethod_none ms ev hnotin]
      simp [lookup_append_fresh t ev ⟨rid, mn⟩ ev hf0]
    · have e' : ¬ ev' = ev := fun x => e x.symm
      simp only [e, if_false]
      cases hfind : firstMethod ms ev' with
      | some m' => simp
      | none => simp [lookup_append_fresh t ev ⟨rid, mn⟩ ev' hf0, e']

/-- a failing `register` leaves every binding that existed before the call untouched -/
theorem registerMethods_preserves (rid : Nat) (ms : List (String × String)) (t : Table)
    (ev' : String) (h : Handler) (hl : lookup t ev' = some h) :
    lookup (registerMethods rid t ms).1 ev' = some h := by
  induction ms generalizing t with
  | nil => simpa [registerMethods]
  | cons m ms ih =>
    obtain ⟨mn, ev⟩ := m
    simp only [registerMethods, registerFunction]
    by_cases hb : bound t ev = true
    · simpa [hb]
    · simp only [hb, Bool.false_eq_true, if_false]
      apply ih
      rw [lookup_append_fresh t ev _ ev' (by simpa using hb)]
      by_cases e : ev' = ev
      · subst e; simp [bound, hl] at hb
      · simpa [e]

theorem registerMethods_dup (rid : Nat) (ms : List (String × String)) (t : Table)
    (ev : String) (hin : ev ∈ events ms) (hb : bound t ev = true) :
    (registerMethods rid t ms).2 = some .exception := by
  induction ms generalizing t with
  | nil => simp [events] at hin
  | cons m ms ih =>
    obtain ⟨mn, ev0⟩ := m
    simp only [registerMethods, registerFunction]
    by_cases hb0 : bound t ev0 = true
    · simp [hb0]
    · simp only [hb0, Bool.false_eq_true, if_false]
      simp only [events, List.map_cons, List.mem_cons] at hin
      rcases hin with e | hin
      · subst e; exact absurd hb hb0
      · apply ih _ hin
        simp only [bound] at hb ⊢
        rw [lookup_append_fresh t ev0 _ ev (by simpa using hb0)]
        split
        · rfl
        · exact hb

def KeysNodup (t : Table) : Prop := (t.map (·.1)).Nodup

theorem lookup_none_of_not_mem (t : Table) (ev : String) (h : ev ∉ t.map (·.1)) :
    lookup t ev = none := by
  induction t with
  | nil => rfl
  | cons p t ih =>
    obtain ⟨k, hk⟩ := p
    simp only [List.map_cons, List.mem_cons, not_or] at h
    have : ¬ k = ev := fun x => h.1 x.symm
    simp only [lookup, this, if_false]
    exact ih h.2

theorem mem_keys_of_lookup (t : Table) (ev : String) (h : Handler) (hl : lookup t ev = some h) :
    ev ∈ t.map (·.1) := by
  induction t with
  | nil => simp [lookup] at hl
  | cons p t ih =>
    obtain ⟨k, hk⟩ := p
    simp only [lookup] at hl
    by_cases e : k = ev
    · simp [e]
    · simp only [e, if_false] at hl
      simp [ih hl]

theorem lookup_some_of_mem_keys (t : Table) (ev : String) (h : ev ∈ t.map (·.1)) :
    ∃ h', lookup t ev = some h' := by
  induction t with
  | nil => simp at h
  | cons p t ih =>
    obtain ⟨k, hk'⟩ := p
    simp only [lookup]
    by_cases e : k = ev
    · exact ⟨hk', by simp [e]⟩
    · simp only [e, if_false]
      apply ih
      simp only [List.map_cons, List.mem_cons] at h
      rcases h with x | x
      · exact absurd x.symm e
      · exact x

theorem keysNodup_append_fresh (t : Table) (ev : String) (h : Handler)
    (hk : KeysNodup t) (hb : bound t ev = false) : KeysNodup (t ++ [(ev, h)]) := by
  unfold KeysNodup at *
  rw [List.map_append, List.nodup_append]
  refine ⟨hk, by simp, ?_⟩
  intro a ha b hb'
  simp only [List.map_cons, List.map_nil, List.mem_singleton] at hb'
  subst hb'
  intro e; subst e
  have : ∃ h', lookup t a = some h' := lookup_some_of_mem_keys t a ha
  obtain ⟨h', hl⟩ := this
  simp [bound, hl] at hb

theorem erase_keys_sublist (t : Table) (ev : String) :
    ((erase t ev).map (·.1)).Sublist (t.map (·.1)) := by
  induction t with
  | nil => simp [erase]
  | cons p t ih =>
    obtain ⟨k, hk⟩ := p
    simp only [erase]
    split
    · exact List.Sublist.cons _ ih
    · exact List.Sublist.cons_cons _ ih

theorem keysNodup_erase (t : Table) (ev : String) (hk : KeysNodup t) : KeysNodup (erase t ev) := by
  unfold KeysNodup at *
  exact (erase_keys_sublist t ev).nodup hk

theorem keysNodup_registerMethods (rid : Nat) (ms : List (String × String)) (t : Table)
    (hk : KeysNodup t) : KeysNodup (registerMethods rid t ms).1 := by
  induction ms generalizing t with
  | nil => simpa [registerMethods]
  | cons m ms ih =>
    obtain ⟨mn, ev⟩ := m
    simp only [registerMethods, registerFunction]
    by_cases hb : bound t ev = true
    · simpa [hb]
    · simp only [hb, Bool.false_eq_true, if_false]
      exact ih _ (keysNodup_append_fresh t ev _ hk (by simpa using hb))

theorem keysNodup_unregisterMethods (ms : List (String × String)) (t : Table)
    (hk : KeysNodup t) : KeysNodup (unregisterMethods t ms) := by
  induction ms generalizing t with
  | nil => simpa [unregisterMethods]
  | cons m ms ih =>
    obtain ⟨mn, ev⟩ := m
    simp only [unregisterMethods]
    apply ih
    split
    · exact keysNodup_erase t ev hk
    · exact hk

theorem keysNodup_step (t : Table) (op : Op) (hk : KeysNodup t) : KeysNodup (step t op).1 := by
  cases op with
  | register r =>
    have := keysNodup_registerMethods r.id r.methods t hk
    simp only [step, register]
    split <;> simp_all
  | unregister r => exact keysNodup_unregisterMethods r.methods t hk
  | regFn ev h =>
    simp only [step, registerFunction]
    by_cases hb : bound t ev = true
    · simpa [hb]
    · simp only [hb, Bool.false_eq_true, if_false]
      exact keysNodup_append_fresh t ev h hk (by simpa using hb)
  | unregFn ev =>
    simp only [step, unregisterFunction]
    by_cases hb : bound t ev = true
    · simp only [hb, if_true]; exact keysNodup_erase t ev hk
    · simpa [hb]
  | dispatch cls args =>
    simp only [step]
    split <;> simpa

theorem keysNodup_run (t : Table) (ops : List Op) (hk : KeysNodup t) : KeysNodup (run t ops).1 := by
  induction ops generalizing t with
  | nil => simpa [run]
  | cons op ops ih =>
    simp only [run]
    exact ih _ (keysNodup_step t op hk)

end Mpgs.Dispatch
