import MpgsModel.Model.Conn
/-! Association-list (Python dict) lemmas. -/
namespace Mpgs.Conn

def KeysNodup {α : Type} (l : List (Nat × α)) : Prop := (l.map (·.1)).Nodup

theorem aget_of_mem {α : Type} (l : List (Nat × α)) (x : Nat × α) (hn : KeysNodup l) (h : x ∈ l) :
    aget l x.1 = some x.2 := by
  induction l with
  | nil => simp at h
  | cons y l ih =>
    obtain ⟨a, w⟩ := y
    simp only [KeysNodup, List.map_cons, List.nodup_cons] at hn
    simp only [List.mem_cons] at h
    simp only [aget]
    rcases h with h | h
    · subst h; simp
    · have : ¬ a = x.1 := by
        intro e; apply hn.1; rw [e]; exact List.mem_map_of_mem h
      simp only [this, if_false]
      exact ih hn.2 h

theorem mem_adel_iff {α : Type} (l : List (Nat × α)) (k : Nat) (x : Nat × α) (hn : KeysNodup l) :
    x ∈ adel l k ↔ x ∈ l ∧ x.1 ≠ k := by
  induction l with
  | nil => simp [adel]
  | cons y l ih =>
    obtain ⟨a, w⟩ := y
    simp only [KeysNodup, List.map_cons, List.nodup_cons] at hn
    simp only [adel]
    by_cases e : a = k
    · subst e
      simp only [if_true, List.mem_cons]
      constructor
      · intro h
        refine ⟨Or.inr h, ?_⟩
        intro e'; apply hn.1; rw [← e']; exact List.mem_map_of_mem h
      · intro ⟨h, hne⟩
        rcases h with h | h
        · subst h; exact absurd rfl hne
        · exact h
    · simp only [e, if_false, List.mem_cons]
      constructor
      · intro h
        rcases h with h | h
        · subst h; exact ⟨Or.inl rfl, e⟩
        · have := (ih hn.2).mp h; exact ⟨Or.inr this.1, this.2⟩
      · intro ⟨h, hne⟩
        rcases h with h | h
        · exact Or.inl h
        · exact Or.inr ((ih hn.2).mpr ⟨h, hne⟩)

theorem keysNodup_adel {α : Type} (l : List (Nat × α)) (k : Nat) (hn : KeysNodup l) : KeysNodup (adel l k) := by
  induction l with
  | nil => simpa [adel]
  | cons y l ih =>
    obtain ⟨a, w⟩ := y
    simp only [KeysNodup, List.map_cons, List.nodup_cons] at hn
    simp only [adel]
    by_cases e : a = k
    · simp only [e, if_true]; exact hn.2
    · simp only [e, if_false, KeysNodup, List.map_cons, List.nodup_cons]
      refine ⟨?_, ih hn.2⟩
      intro hmem
      apply hn.1
      simp only [List.mem_map] at hmem ⊢
      obtain ⟨x, hx, hxa⟩ := hmem
      exact ⟨x, ((mem_adel_iff l k x hn.2).mp hx).1, hxa⟩

end Mpgs.Conn
