import MpgsModel.Model.Server
/-! Address-keyed pools (`ServerContext.connections`, `temp_connections`): membership after
`pset` / `pdel`, with unique keys. -/
namespace Mpgs.Server
open Mpgs.Conn

def KN (p : Pool) : Prop := (p.map (·.1)).Nodup

theorem kn_nil : KN [] := by simp [KN]

theorem pget_some_mem (p : Pool) (a : Addr) (e : Ent) (h : pget p a = some e) : (a, e) ∈ p := by
  induction p with
  | nil => simp [pget] at h
  | cons x t ih =>
    obtain ⟨k, v⟩ := x
    simp only [pget] at h
    split at h
    · rename_i hk; injection h with h; subst h; subst hk; exact List.mem_cons_self ..
    · exact List.mem_cons_of_mem _ (ih h)

theorem pget_of_mem (p : Pool) (a : Addr) (e : Ent) (hk : KN p) (h : (a, e) ∈ p) : pget p a = some e := by
  induction p with
  | nil => cases h
  | cons x t ih =>
    obtain ⟨k, v⟩ := x
    simp only [KN, List.map_cons, List.nodup_cons] at hk
    simp only [pget]
    rcases List.mem_cons.mp h with e1 | e1
    · injection e1 with e1 e2; subst e1; subst e2; simp
    · have hne : k ≠ a := by
        intro e2; subst e2
        exact hk.1 (List.mem_map.mpr ⟨(k, e), e1, rfl⟩)
      simp only [hne, if_false]
      exact ih hk.2 e1

theorem pget_none_not_mem (p : Pool) (a : Addr) (h : pget p a = none) : ∀ e, (a, e) ∉ p := by
  induction p with
  | nil => intro e he; cases he
  | cons x t ih =>
    obtain ⟨k, v⟩ := x
    simp only [pget] at h
    split at h
    · cases h
    · rename_i hk
      intro e he
      rcases List.mem_cons.mp he with e1 | e1
      · injection e1 with e1 _; exact hk e1.symm
      · exact ih h e e1

theorem pdel_mem (p : Pool) (a : Addr) (hk : KN p) (k : Addr) (w : Ent) :
    (k, w) ∈ pdel p a ↔ (k, w) ∈ p ∧ k ≠ a := by
  induction p with
  | nil => simp [pdel]
  | cons x t ih =>
    obtain ⟨k0, v⟩ := x
    simp only [KN, List.map_cons, List.nodup_cons] at hk
    simp only [pdel]
    by_cases h0 : k0 = a
    · subst h0
      simp only [if_true, List.mem_cons]
      constructor
      · intro h
        refine ⟨Or.inr h, ?_⟩
        intro e; subst e
        exact hk.1 (List.mem_map.mpr ⟨(k, w), h, rfl⟩)
      · rintro ⟨h | h, hne⟩
        · injection h with h1 _; exact absurd h1 hne
        · exact h
    · simp only [h0, if_false, List.mem_cons]
      constructor
      · rintro (h | h)
        · injection h with h1 h2; subst h1; subst h2; exact ⟨Or.inl rfl, h0⟩
        · have := (ih hk.2).mp h; exact ⟨Or.inr this.1, this.2⟩
      · rintro ⟨h | h, hne⟩
        · exact Or.inl h
        · exact Or.inr ((ih hk.2).mpr ⟨h, hne⟩)

theorem pdel_keys_sub (p : Pool) (a : Addr) : ∀ k, k ∈ (pdel p a).map (·.1) → k ∈ p.map (·.1) := by
  induction p with
  | nil => intro k h; simp [pdel] at h
  | cons x t ih =>
    obtain ⟨k0, v⟩ := x
    intro k h
    simp only [pdel] at h
    split at h
    · exact List.mem_cons_of_mem _ h
    · simp only [List.map_cons, List.mem_cons] at h ⊢
      rcases h with h | h
      · exact Or.inl h
      · exact Or.inr (ih k h)

theorem kn_pdel (p : Pool) (a : Addr) (hk : KN p) : KN (pdel p a) := by
  induction p with
  | nil => simp [pdel, KN]
  | cons x t ih =>
    obtain ⟨k0, v⟩ := x
    simp only [KN, List.map_cons, List.nodup_cons] at hk
    simp only [pdel]
    split
    · exact hk.2
    · simp only [KN, List.map_cons, List.nodup_cons]
      exact ⟨fun h => hk.1 (pdel_keys_sub t a k0 h), ih hk.2⟩

theorem pset_mem (p : Pool) (a : Addr) (v : Ent) (hk : KN p) (k : Addr) (w : Ent) :
    (k, w) ∈ pset p a v ↔ ((k, w) ∈ p ∧ k ≠ a) ∨ (k = a ∧ w = v) := by
  induction p with
  | nil =>
    simp only [pset, List.mem_singleton]
    constructor
    · intro h; injection h with h1 h2; exact Or.inr ⟨h1, h2⟩
    · rintro (⟨h, _⟩ | ⟨h1, h2⟩)
      · cases h
      · rw [h1, h2]
  | cons x t ih =>
    obtain ⟨k0, v0⟩ := x
    simp only [KN, List.map_cons, List.nodup_cons] at hk
    simp only [pset]
    by_cases h0 : k0 = a
    · subst h0
      simp only [if_true, List.mem_cons]
      constructor
      · rintro (h | h)
        · injection h with h1 h2; exact Or.inr ⟨h1, h2⟩
        · left
          refine ⟨Or.inr h, ?_⟩
          intro e; subst e
          exact hk.1 (List.mem_map.mpr ⟨(k, w), h, rfl⟩)
      · rintro (⟨h | h, hne⟩ | ⟨h1, h2⟩)
        · injection h with h1 _; exact absurd h1 hne
        · exact Or.inr h
        · left; rw [h1, h2]
    · simp only [h0, if_false, List.mem_cons]
      constructor
      · rintro (h | h)
        · injection h with h1 h2; subst h1; subst h2; exact Or.inl ⟨Or.inl rfl, h0⟩
        · rcases (ih hk.2).mp h with ⟨h1, h2⟩ | h1
          · exact Or.inl ⟨Or.inr h1, h2⟩
          · exact Or.inr h1
      · rintro (⟨h | h, hne⟩ | h1)
        · exact Or.inl h
        · exact Or.inr ((ih hk.2).mpr (Or.inl ⟨h, hne⟩))
        · exact Or.inr ((ih hk.2).mpr (Or.inr h1))

theorem pset_keys (p : Pool) (a : Addr) (v : Ent) : ∀ k, k ∈ (pset p a v).map (·.1) → k ∈ p.map (·.1) ∨ k = a := by
  induction p with
  | nil => intro k h; simp [pset] at h; exact Or.inr h
  | cons x t ih =>
    obtain ⟨k0, v0⟩ := x
    intro k h
    simp only [pset] at h
    split at h
    · simp only [List.map_cons, List.mem_cons] at h ⊢
      exact Or.inl h
    · simp only [List.map_cons, List.mem_cons] at h ⊢
      rcases h with h | h
      · exact Or.inl (Or.inl h)
      · rcases ih k h with h1 | h1
        · exact Or.inl (Or.inr h1)
        · exact Or.inr h1

theorem kn_pset (p : Pool) (a : Addr) (v : Ent) (hk : KN p) : KN (pset p a v) := by
  induction p with
  | nil => simp [pset, KN]
  | cons x t ih =>
    obtain ⟨k0, v0⟩ := x
    simp only [KN, List.map_cons, List.nodup_cons] at hk
    simp only [pset]
    split
    · simp only [KN, List.map_cons, List.nodup_cons]; exact hk
    · rename_i h0
      simp only [KN, List.map_cons, List.nodup_cons]
      refine ⟨?_, ih hk.2⟩
      intro h
      rcases pset_keys t a v k0 h with h1 | h1
      · exact hk.1 h1
      · exact h0 h1

end Mpgs.Server
